// Package c05 decides property C05: declared errors reach the client as the
// same error (status, headers, body, name, attribute values); undeclared
// errors go through the default mapping; exactly one well-formed response.
package c05

import (
	"bytes"
	"encoding/gob"
	"encoding/json"
	"encoding/xml"
	"fmt"
	"goa.design/goa/v3/codegen"
	goahttp "goa.design/goa/v3/http"
	"net/http"
	"sort"
	"strings"
	"sync"
	"testing"

	"pgregory.net/rapid"

	"verif/harness"
	"verif/internal/gen"
	m "verif/internal/model"
	"verif/internal/oracle"
	"verif/internal/rt"
	"verif/internal/stats"
	"verif/internal/value"
)

func TestMain(m *testing.M) { stats.Main(m) }

type caseRec struct {
	Service string            `json:"service"`
	Method  string            `json:"method"`
	Payload value.V           `json:"payload"`
	Err     harness.ErrorSpec `json:"err"`
	Class   string            `json:"class"` // declared, declared-wrapped, undeclared-service, plain, wrapped-plain, namer
	Message string            `json:"message"`
	// Accept: the request asks for this encoding of the (default) error response
	Accept string `json:"accept,omitempty"`
}

// declaredError is an error a method may return, with its HTTP mapping.
type declaredError struct {
	Def    *m.ErrorDef
	Resp   *m.ErrorResponse
	Level  string
	Shared bool // another declared error of the method has the same status
}

func declared(d *m.Design, s *m.Service, meth *m.Method) []declaredError {
	var out []declaredError
	find := func(name string) *m.ErrorResponse {
		for _, l := range [][]*m.ErrorResponse{meth.HTTP.ErrorResp, s.ErrorResp, d.API.ErrorResp} {
			for _, er := range l {
				if er.Name == name {
					return er
				}
			}
		}
		return nil
	}
	seen := map[string]bool{}
	add := func(defs []*m.ErrorDef, level string) {
		for _, e := range defs {
			if seen[e.Name] {
				continue
			}
			seen[e.Name] = true
			if r := find(e.Name); r != nil {
				out = append(out, declaredError{Def: e, Resp: r, Level: level})
			}
		}
	}
	// (API-level errors are reusable definitions: a service or method must declare
	// Error("name") again to return them; only the HTTP mapping is inherited)
	add(meth.Errors, "method")
	add(s.Errors, "service")
	for i := range out {
		for _, ae := range d.API.Errors {
			if ae.Name == out[i].Def.Name {
				out[i].Level = "api"
			}
		}
	}
	cnt := map[int]int{}
	for _, e := range out {
		cnt[e.Resp.Status]++
	}
	for i := range out {
		out[i].Shared = cnt[out[i].Resp.Status] > 1
	}
	return out
}

func TestErrors(t *testing.T) {
	n := rt.EnvInt("VERIF_CHECKS", 24)
	seed := rt.EnvInt("VERIF_SEED", 1)
	sess, built := rt.Prepare(t, "c05", rt.Options{Profile: gen.Errors(), N: n, Seed: seed})
	defer sess.Close()
	defer rt.CloseAll(built)
	if len(built) == 0 {
		t.Fatalf("INCONCLUSIVE: no design could be built")
	}
	if len(built)*2 < n && rt.ReplayDir() == "" {
		t.Fatalf("INCONCLUSIVE: only %d of %d designs could be built (generator health)", len(built), n)
	}
	var wg sync.WaitGroup
	var mu sync.Mutex
	failures := 0
	sem := make(chan struct{}, 16)
	for _, b := range built {
		wg.Add(1)
		go func(b *rt.Built) {
			defer wg.Done()
			sem <- struct{}{}
			defer func() { <-sem }()
			for _, s := range b.Design.Services {
				for _, meth := range s.Methods {
					if meth.HTTP == nil {
						continue
					}
					if !checkMethod(t, b, s, meth) {
						mu.Lock()
						failures++
						mu.Unlock()
					}
				}
			}
		}(b)
	}
	wg.Wait()
	if failures > 0 {
		t.Fatalf("%d method(s) violate C05", failures)
	}
}

var msgGen = rapid.SampledFrom([]string{"boom", "", "not found: x", "é %41 \"q\" \n", "a; b", strings.Repeat("m", 300)})
var idGen = rapid.SampledFrom([]string{"abc12345", "", "id with space", "ID-é"})

func checkMethod(t *testing.T, b *rt.Built, s *m.Service, meth *m.Method) bool {
	d := b.Design
	label := rt.MethodLabel(b, s, meth)
	var last *caseRec
	var replay caseRec
	if rt.LoadReplayCase(&replay) {
		if replay.Service != s.Name || replay.Method != meth.Name {
			return true
		}
		if msg := runCase(b, s, meth, &replay); msg != "" {
			t.Errorf("replayed case still fails: %s", msg)
			return false
		}
		fmt.Printf("replayed case passes: %s %s\n", s.Name, meth.Name)
		return true
	}
	decl := declared(d, s, meth)
	ok := t.Run(label, func(t *testing.T) {
		rapid.Check(t, func(rt_ *rapid.T) {
			c := &caseRec{Service: s.Name, Method: meth.Name}
			c.Payload = gen.PayloadGen(d, meth).Draw(rt_, "payload")
			classes := []string{"plain", "wrapped-plain", "undeclared-service", "undeclared-service", "undeclared-service-wrapped"}
			if len(decl) > 0 {
				classes = append(classes, "declared", "declared", "declared", "declared", "declared-wrapped")
			}
			c.Class = rapid.SampledFrom(classes).Draw(rt_, "class")
			msg := msgGen.Draw(rt_, "msg")
			switch c.Class {
			case "plain", "wrapped-plain":
				c.Err = harness.ErrorSpec{Kind: c.Class, Message: msg}
				// a third of the plain errors are well-known error values of the
				// standard library (context.Canceled from a sub-context of the
				// method's own, io.EOF from a store ...): undeclared like any other
				if k := rapid.IntRange(0, 3*len(sentinelNames)-1).Draw(rt_, "sentinel"); k < len(sentinelNames) {
					c.Err.Sentinel = sentinelNames[k]
					c.Err.Message = harness.Sentinels[c.Err.Sentinel].Error()
				}
				c.Accept = rapid.SampledFrom([]string{"", "", "application/xml", "application/gob"}).Draw(rt_, "accept")
			case "undeclared-service", "undeclared-service-wrapped":
				name := rapid.SampledFrom([]string{"undeclared", "error", "fault", "unsupported_media_type", "missing_field", "custom_undeclared"}).Draw(rt_, "uname")
				c.Err = harness.ErrorSpec{Kind: "service", Name: name, ID: idGen.Draw(rt_, "id"), Message: msg,
					Timeout: rapid.Bool().Draw(rt_, "to"), Temporary: rapid.Bool().Draw(rt_, "tmp"), Fault: rapid.Bool().Draw(rt_, "fault")}
				c.Accept = rapid.SampledFrom([]string{"", "", "application/xml", "application/gob"}).Draw(rt_, "accept")
				if c.Class == "undeclared-service-wrapped" {
					// fmt.Errorf("wrapped: %w", serviceError): still a goa service
					// error for errors.As, which is how the generated encoder and
					// the default formatter are documented to recognise it
					c.Err.Kind = "wrapped-service"
				}
			default:
				de := decl[rapid.IntRange(0, len(decl)-1).Draw(rt_, "which")]
				c.Err = errorFor(rt_, d, de, msg)
				if c.Class == "declared-wrapped" {
					if c.Err.Kind == "service" {
						c.Err.Kind = "wrapped-service"
					} else {
						c.Class = "declared"
					}
				}
			}
			res := runCase(b, s, meth, c)
			record(c, decl)
			if res != "" {
				c.Message = res
				last = c
				rt_.Fatalf("%s [%s]: %s\n  error: %+v", label, c.Class, res, c.Err)
			}
		})
	})
	if !ok && last != nil {
		dir := rt.SaveReplay(b, label, last)
		fmt.Printf("C05 failing case saved: %s\n  design: %s\n  [%s] %s\n", dir, b.Run.Name, last.Class, last.Message)
	}
	return ok
}

// errorFor builds the stub error for a declared error.
func errorFor(t *rapid.T, d *m.Design, de declaredError, msg string) harness.ErrorSpec {
	e := de.Def
	if e.Type == nil && oneDeclaration(d, e) && rapid.Bool().Draw(t, "made") {
		// the way service code is documented to build a declared error: the
		// generated constructor sets the name and the flags of the design
		return harness.ErrorSpec{Kind: "made", Maker: "Make" + codegen.Goify(e.Name, true), Name: e.Name, Message: msg,
			Timeout: e.Timeout, Temporary: e.Temporary, Fault: e.Fault}
	}
	if e.Type == nil {
		return harness.ErrorSpec{Kind: "service", Name: e.Name, ID: idGen.Draw(t, "id"), Message: msg,
			Timeout: rapid.Bool().Draw(t, "to"), Temporary: rapid.Bool().Draw(t, "tmp"), Fault: rapid.Bool().Draw(t, "fault")}
	}
	if e.Type.Type.Kind == m.User {
		ut := d.TypeByName(e.Type.Type.User)
		v := gen.ValidValueAt(d, ut.Attr, gen.Loc{Where: "header", MustSetDefaults: true, NoEmpty: true, NonEmptyArray: true}, 2).Draw(t, "errvalue")
		v = v.Set("name", value.Str(e.Name))
		return harness.ErrorSpec{Kind: "custom", Name: e.Name, Type: goName(ut.Name), Value: v}
	}
	// primitive error type: goa names the Go type after the error
	return harness.ErrorSpec{Kind: "custom", Name: e.Name, Type: goName(e.Name), Value: value.Str(msg)}
}

// oneDeclaration: the error name is declared with the same type and the same
// qualifiers everywhere in the design (API, services, methods). One
// constructor is generated per service and name; which of several differing
// declarations it follows is not documented, so only unanimous names are
// built through it.
func oneDeclaration(d *m.Design, e *m.ErrorDef) bool {
	same := func(o *m.ErrorDef) bool {
		return o.Name != e.Name || ((o.Type == nil) == (e.Type == nil) && o.Timeout == e.Timeout && o.Temporary == e.Temporary && o.Fault == e.Fault)
	}
	for _, o := range d.API.Errors {
		if !same(o) {
			return false
		}
	}
	for _, s := range d.Services {
		for _, o := range s.Errors {
			if !same(o) {
				return false
			}
		}
		for _, mt := range s.Methods {
			for _, o := range mt.Errors {
				if !same(o) {
					return false
				}
			}
		}
	}
	return true
}

// goName approximates goa's Goify for type names made of plain identifiers.
func goName(s string) string {
	var b strings.Builder
	up := true
	for _, r := range s {
		if r == '_' || r == '-' || r == ' ' {
			up = true
			continue
		}
		if up {
			b.WriteString(strings.ToUpper(string(r)))
			up = false
		} else {
			b.WriteRune(r)
		}
	}
	out := b.String()
	for _, acr := range []string{"Id", "Url", "Api", "Ip", "Uuid", "Json", "Xml", "Http"} {
		if strings.HasSuffix(out, acr) {
			out = strings.TrimSuffix(out, acr) + strings.ToUpper(acr)
		}
	}
	return out
}

// sentinelNames lists harness.Sentinels in a fixed order.
var sentinelNames = func() []string {
	var ns []string
	for n := range harness.Sentinels {
		ns = append(ns, n)
	}
	sort.Strings(ns)
	return ns
}()

func record(c *caseRec, decl []declaredError) {
	if c.Err.Kind == "made" {
		stats.Class("declared-built-by-generated-constructor")
		if (c.Err.Timeout && c.Err.Temporary) || (c.Err.Fault && (c.Err.Timeout || c.Err.Temporary)) {
			stats.Class("declared-built-by-generated-constructor:several-qualifiers")
		}
	}
	if c.Err.Sentinel != "" {
		stats.Class("plain-error-is-sentinel:" + c.Err.Sentinel)
	}
	nt := c.Class == "declared-wrapped" || c.Class == "wrapped-plain" || c.Class == "undeclared-service-wrapped"
	for _, de := range decl {
		if de.Def.Name == c.Err.Name && strings.HasPrefix(c.Class, "declared") {
			if de.Shared || de.Level != "method" {
				nt = true
			}
			stats.Class("declared-level:" + de.Level)
			if de.Shared {
				stats.Class("declared-shares-status")
			}
			if de.Def.Type != nil {
				stats.Class("declared-custom-type")
			}
		}
	}
	stats.Class("class:" + c.Class)
	key := fmt.Sprintf("%s|%s|%s|%+v", c.Service, c.Method, c.Class, c.Err)
	stats.CaseSample(key, nt, map[string]any{"method": c.Service + "." + c.Method, "class": c.Class, "error": c.Err})
}

type errBody struct {
	Name      string `json:"name"`
	ID        string `json:"id"`
	Message   string `json:"message"`
	Temporary bool   `json:"temporary"`
	Timeout   bool   `json:"timeout"`
	Fault     bool   `json:"fault"`
}

func defaultStatus(name string, timeout, temporary, fault bool) int {
	switch {
	case name == "unsupported_media_type":
		return 415
	case fault:
		return 500
	case timeout && temporary:
		return 504
	case timeout:
		return 408
	case temporary:
		return 503
	}
	return 400
}

func runCase(b *rt.Built, s *m.Service, meth *m.Method, c *caseRec) string {
	d := b.Design
	hc := &harness.Case{Op: "call", Svc: s.Name, Method: meth.Name, HasPayload: meth.Payload != nil, Payload: c.Payload}
	hc.Accept = c.Accept
	e := c.Err
	hc.Stub = harness.StubSpec{Error: &e}
	obs, err := b.H.Do(hc)
	if err != nil {
		return "INCONCLUSIVE: harness: " + err.Error()
	}
	if obs.Err != "" {
		return "harness could not run the case: " + obs.Err
	}
	if obs.Panic != "" {
		return "panic in generated client code: " + firstLines(obs.Panic, 24)
	}
	if obs.ServerPanic != "" {
		return "panic in generated server code: " + firstLines(obs.ServerPanic, 24)
	}
	if obs.StubCalls != 1 {
		stats.Class("skipped:request-not-delivered")
		return ""
	}
	if obs.Response == nil {
		return "no response observed"
	}
	if obs.WriteHeaders != 1 {
		return fmt.Sprintf("WriteHeader called %d times, want exactly one response", obs.WriteHeaders)
	}
	if len(obs.ErrHandler) > 0 {
		return fmt.Sprintf("error response could not be encoded: %v", obs.ErrHandler)
	}
	resp := obs.Response
	ct := http.Header(resp.Header).Get("Content-Type")
	wellFormed := func() string {
		if len(resp.Body) == 0 {
			return ""
		}
		if strings.Contains(ct, "json") || ct == "" {
			var x any
			if err := json.Unmarshal(resp.Body, &x); err != nil {
				return fmt.Sprintf("response body is not well-formed JSON (%s): %v: %q", ct, err, trunc(string(resp.Body)))
			}
		}
		return ""
	}
	if msg := wellFormed(); msg != "" {
		return msg
	}
	var de *declaredError
	if strings.HasPrefix(c.Class, "declared") {
		for _, x := range declared(d, s, meth) {
			if x.Def.Name == c.Err.Name {
				xx := x
				de = &xx
			}
		}
	}
	if de == nil {
		// default mapping
		var eb errBody
		switch {
		case strings.HasPrefix(ct, "application/xml") || strings.HasPrefix(ct, "application/gob"):
			// the default error response in the encoding the response announces
			// (asked for with Accept unless the design fixes a content type)
			var er goahttp.ErrorResponse
			var err error
			if strings.HasPrefix(ct, "application/xml") {
				err = xml.Unmarshal(resp.Body, &er)
			} else {
				err = gob.NewDecoder(bytes.NewReader(resp.Body)).Decode(&er)
			}
			if err != nil {
				return fmt.Sprintf("default error body (%s) does not decode: %v (%q)", ct, err, trunc(string(resp.Body)))
			}
			eb = errBody{Name: er.Name, ID: er.ID, Message: er.Message, Temporary: er.Temporary, Timeout: er.Timeout, Fault: er.Fault}
			stats.Class("default-error-encoding:" + strings.SplitN(ct, ";", 2)[0])
		default:
			if err := json.Unmarshal(resp.Body, &eb); err != nil {
				return fmt.Sprintf("default error body does not decode: %v (%q)", err, trunc(string(resp.Body)))
			}
		}
		switch c.Class {
		case "plain", "wrapped-plain":
			if resp.Status != 500 {
				return fmt.Sprintf("plain Go error: status %d, want 500", resp.Status)
			}
			if !eb.Fault || eb.Name != "fault" {
				return fmt.Sprintf("plain Go error: body name %q fault %v, want name \"fault\" with the fault flag", eb.Name, eb.Fault)
			}
			want := c.Err.Message
			if c.Class == "wrapped-plain" {
				want = "wrapped: " + want
			}
			if eb.Message != want {
				return fmt.Sprintf("plain Go error: message %q, want %q", eb.Message, want)
			}
		default:
			want := defaultStatus(c.Err.Name, c.Err.Timeout, c.Err.Temporary, c.Err.Fault)
			if resp.Status != want {
				return fmt.Sprintf("undeclared service error (timeout=%v temporary=%v fault=%v name=%q): status %d, want %d", c.Err.Timeout, c.Err.Temporary, c.Err.Fault, c.Err.Name, resp.Status, want)
			}
			if eb.Name != c.Err.Name || eb.ID != c.Err.ID || eb.Message != c.Err.Message || eb.Timeout != c.Err.Timeout || eb.Temporary != c.Err.Temporary || eb.Fault != c.Err.Fault {
				return fmt.Sprintf("undeclared service error: body %+v differs from the error %+v", eb, c.Err)
			}
		}
		if obs.ClientErr == nil {
			return "the client returned no error although the method failed"
		}
		return ""
	}
	// declared error
	if resp.Status != de.Resp.Status {
		return fmt.Sprintf("declared error %q: status %d, the design assigns %d", de.Def.Name, resp.Status, de.Resp.Status)
	}
	if de.Shared && http.Header(resp.Header).Get("goa-error") != de.Def.Name {
		return fmt.Sprintf("declared error %q shares status %d with another error but the goa-error header is %q", de.Def.Name, resp.Status, http.Header(resp.Header).Get("goa-error"))
	}
	if obs.ClientErr == nil {
		return "the client returned no error although the method failed"
	}
	ce := obs.ClientErr
	if ce.Name != de.Def.Name {
		return fmt.Sprintf("declared error %q arrives at the client as %q (%s: %s)", de.Def.Name, ce.Name, ce.GoType, ce.Text)
	}
	switch {
	case de.Def.Type == nil:
		if !ce.IsService {
			return fmt.Sprintf("declared error %q arrives as %s, want *goa.ServiceError", de.Def.Name, ce.GoType)
		}
		if (c.Err.Kind != "made" && ce.ID != c.Err.ID) || (c.Err.Kind == "made" && ce.ID == "") || ce.Message != c.Err.Message || ce.Timeout != c.Err.Timeout || ce.Temporary != c.Err.Temporary || ce.Fault != c.Err.Fault {
			return fmt.Sprintf("declared error %q: client sees id=%q message=%q timeout=%v temporary=%v fault=%v, the method returned id=%q message=%q timeout=%v temporary=%v fault=%v",
				de.Def.Name, ce.ID, ce.Message, ce.Timeout, ce.Temporary, ce.Fault, c.Err.ID, c.Err.Message, c.Err.Timeout, c.Err.Temporary, c.Err.Fault)
		}
	case de.Def.Type.Type.Kind == m.User:
		want := oracle.Canonicalize(d, de.Def.Type, c.Err.Value)
		got := oracle.Canonicalize(d, de.Def.Type, ce.Value)
		if msg := oracle.Match(d, de.Def.Type, want, got, false, ""); msg != "" {
			return fmt.Sprintf("declared error %q: attribute values differ: %s\n  returned: %s\n  client:   %s", de.Def.Name, msg, want.Canon(), got.Canon())
		}
		for _, hm := range de.Resp.Headers {
			if fv, ok := c.Err.Value.Get(hm.Attr); ok && !fv.IsNil() {
				if http.Header(resp.Header).Get(hm.WireName()) == "" {
					return fmt.Sprintf("declared error %q: header %q missing for attribute %q", de.Def.Name, hm.WireName(), hm.Attr)
				}
			}
		}
	default:
		if ce.Value.K != "string" || ce.Value.S != c.Err.Value.S {
			return fmt.Sprintf("declared error %q of primitive type: client sees %s, the method returned %q", de.Def.Name, ce.Value.Canon(), c.Err.Value.S)
		}
	}
	return ""
}

func trunc(s string) string {
	if len(s) > 300 {
		return s[:300] + "…"
	}
	return s
}

func firstLines(s string, n int) string {
	ls := strings.Split(s, "\n")
	if len(ls) > n {
		ls = ls[:n]
	}
	return strings.Join(ls, "\n")
}
