package c07

import (
	"context"
	"encoding/json"
	"os"
	"path/filepath"
	"regexp"
	"strings"
	"testing"

	"github.com/getkin/kin-openapi/openapi3"
	"gopkg.in/yaml.v3"

	m "verif/internal/model"
	"verif/internal/pipeline"
	"verif/internal/rt"
	"verif/internal/value"
)

func fp(f float64) *float64 { return &f }
func intp(i int) *int       { return &i }

// probeDesign exhibits every known finding of C07 at once.
func probeDesign() *m.Design {
	d := &m.Design{API: m.API{Name: "probe"}}
	d.Schemes = []*m.Scheme{{Kind: "jwt", Name: "jwt", Var: "v1", Scopes: []string{"api:read"}}}
	s := &m.Service{Name: "probe", HasHTTP: true}
	def := value.Bool(true)
	udef := value.Uint(4294967295)
	s.Methods = append(s.Methods, &m.Method{Name: "m",
		Security:     []m.Requirement{{Schemes: []string{"jwt"}, Scopes: []string{"api:read"}}},
		Creds:        []m.Cred{{Scheme: "jwt", Kind: "token", Attr: "tok"}},
		ImplicitAuth: []string{"tok"},
		Payload: rt.Obj(
			rt.Fld("tok", m.Prim(m.String), true),
			rt.Fld("x", &m.Attr{Type: &m.Type{Kind: m.Int}, V: &m.Validation{ExclMin: fp(1)}}, false),
			rt.Fld("data", m.Prim(m.Bytes), false),
			rt.Fld("h", &m.Attr{Type: &m.Type{Kind: m.Boolean}, Default: &def}, true),
			rt.Fld("u", &m.Attr{Type: &m.Type{Kind: m.UInt32}, Default: &udef}, false)),
		Result: rt.Obj(rt.Fld("n", m.Prim(m.Int), false)),
		HTTP: &m.HTTPEndpoint{Routes: []m.Route{{Verb: "POST", Path: "/m"}, {Verb: "TRACE", Path: "/m"}},
			Headers:   []m.Mapping{{Attr: "tok", Wire: "Authorization"}, {Attr: "h", Wire: "X-H"}},
			Responses: []*m.Response{{Status: 200, Headers: []m.Mapping{{Attr: "n", Wire: "X-N"}}}}}})
	s.Files = []m.FileServer{{Path: "/static/{*path}", Filename: "public"}}
	// a recursive type through a map and through an array: its generated
	// examples bottom out (recursion limit)
	d.Types = []*m.UserType{{Name: "Item", Var: "v2", Attr: rt.Obj(
		rt.Fld("label", m.Prim(m.String), false),
		rt.Fld("size", &m.Attr{Type: &m.Type{Kind: m.Map, Key: m.Prim(m.String), Val: m.UserRef("Item")}, V: &m.Validation{MaxLen: intp(1)}}, false),
		rt.Fld("tags", &m.Attr{Type: &m.Type{Kind: m.Array, Elem: m.UserRef("Item")}, V: &m.Validation{MaxLen: intp(1)}}, false))}}
	s.Methods = append(s.Methods, &m.Method{Name: "tree", Payload: m.UserRef("Item"), Result: m.UserRef("Item"),
		HTTP: &m.HTTPEndpoint{Routes: []m.Route{{Verb: "POST", Path: "/tree"}}}})
	d.Services = []*m.Service{s}
	return d
}

// TestProbes re-creates the minimal input of every known finding of C07.
func TestProbes(t *testing.T) {
	if rt.ReplayDir() != "" && os.Getenv("VERIF_PROBE_ONLY") == "" {
		t.Skip("replay of a search case")
	}
	sess, err := pipeline.NewSession("c07p")
	if err != nil {
		t.Fatalf("INCONCLUSIVE: %v", err)
	}
	defer sess.Close()
	out := sess.GenerateAndCompile(probeDesign(), false)
	if !out.Accepted || out.Failure != "" {
		t.Fatalf("INCONCLUSIVE: probe design: %s", out.Describe())
	}
	read := func(name string) []byte {
		b, _ := os.ReadFile(filepath.Join(out.Run.Dir, "gen", "http", name))
		return b
	}
	j2, j3 := string(read("openapi.json")), string(read("openapi3.json"))
	var t2j, t2y, t3j, t3y any
	_ = json.Unmarshal(read("openapi.json"), &t2j)
	_ = yaml.Unmarshal(read("openapi.yaml"), &t2y)
	_ = json.Unmarshal(read("openapi3.json"), &t3j)
	_ = yaml.Unmarshal(read("openapi3.yaml"), &t3y)
	get := func(tree any, path ...string) any {
		cur := normalise(tree)
		for _, p := range path {
			mm, ok := cur.(map[string]any)
			if !ok {
				return nil
			}
			cur = mm[p]
		}
		return cur
	}
	rt.Probe("C07-several-base-paths-duplicate-operation-ids", func() (bool, string) {
		d2 := &m.Design{API: m.API{Name: "probe2"}, Services: []*m.Service{{Name: "probe", HasHTTP: true, BasePath: "/a", MoreBasePaths: []string{"/assets"},
			Methods: []*m.Method{{Name: "m", HTTP: &m.HTTPEndpoint{Routes: []m.Route{{Verb: "GET", Path: "/m"}, {Verb: "GET", Path: "/m2"}}}}}}}}
		o2 := sess.GenerateAndCompile(d2, false)
		if !o2.Accepted || o2.Failure != "" {
			return false, "second probe design: " + o2.Describe()
		}
		seen := map[string]int{}
		for _, name := range []string{"openapi.json", "openapi3.json"} {
			b, _ := os.ReadFile(filepath.Join(o2.Run.Dir, "gen", "http", name))
			for _, mm := range regexp.MustCompile(`"operationId":"([^"]*)"`).FindAllStringSubmatch(string(b), -1) {
				seen[name+" "+mm[1]]++
			}
		}
		dup := ""
		for k, n := range seen {
			if n > 1 {
				dup = k
			}
		}
		return dup != "", "service with base paths /a and /assets: operationId used twice: " + dup
	})
	rt.Probe("C07-exclusive-bounds-as-numbers", func() (bool, string) {
		return strings.Contains(j3, `"exclusiveMinimum":1`) && strings.Contains(j2, `"exclusiveMinimum":1`), `ExclusiveMinimum(1) is rendered as "exclusiveMinimum":1 (a number) in openapi.json and openapi3.json`
	})
	rt.Probe("C07-bytes-example-yaml-json-differ", func() (bool, string) {
		a := get(t3j, "components", "schemas", "MRequestBody", "properties", "data", "example")
		b := get(t3y, "components", "schemas", "MRequestBody", "properties", "data", "example")
		_, aStr := a.(string)
		_, bList := b.([]any)
		return aStr && bList, "Bytes example: a base64 string in openapi3.json, an integer sequence in openapi3.yaml"
	})
	rt.Probe("C07-yaml-drops-leading-newline-in-description", func() (bool, string) {
		a, _ := get(t2j, "paths", "/m", "post", "description").(string)
		b, _ := get(t2y, "paths", "/m", "post", "description").(string)
		return a != "" && a == "\n"+b, "operation description with security scopes: openapi.json starts with a newline that openapi.yaml lacks"
	})
	rt.Probe("C07-trace-route-missing-from-openapi3", func() (bool, string) {
		return get(t3j, "paths", "/m", "post") != nil && get(t3j, "paths", "/m", "trace") == nil, "TRACE /m is mounted but openapi3.json has no trace operation under /m"
	})
	rt.Probe("C07-openapi3-file-server-wildcard-not-rewritten", func() (bool, string) {
		return get(t3j, "paths", "/static/{*path}") != nil && get(t2j, "paths", "/static/{path}") != nil, "openapi3.json lists /static/{*path}, openapi.json lists /static/{path}"
	})
	rt.Probe("C07-openapi2-response-header-go-type-names", func() (bool, string) {
		ty, _ := get(t2j, "paths", "/m", "post", "responses", "200", "headers", "X-N", "type").(string)
		return ty != "" && ty != "integer", `response header X-N of type Int is documented with "type":"` + ty + `" in openapi.json`
	})
	rt.Probe("C07-uint32-documented-as-int32", func() (bool, string) {
		loader := openapi3.NewLoader()
		// (the numeric exclusiveMinimum of the other finding is taken out so that the document loads)
		clean := regexp.MustCompile(`,?"exclusiveMinimum":1`).ReplaceAllString(j3, "")
		doc, err := loader.LoadFromData([]byte(clean))
		if err != nil {
			t.Logf("uint32 probe: document does not load: %v", err)
			return false, "inconclusive: " + err.Error()
		}
		err = doc.Validate(context.Background(), openapi3.DisableExamplesValidation())
		t.Logf("uint32 probe: validate says %v", err)
		return err != nil && strings.Contains(err.Error(), "int32"), "UInt32 with Default(4294967295): validator says " + errString(err)
	})
	rt.Probe("C07-nil-example-yaml-json-differ", func() (bool, string) {
		where := nilVsEmptyMap(normalise(t3j), normalise(t3y), "")
		if where == "" {
			where = nilVsEmptyMap(normalise(t2j), normalise(t2y), "")
		}
		return where != "", "generated example of a recursive type: null in the JSON rendering, {} in the YAML rendering at " + where
	})
	rt.Probe("C07-required-header-with-default-documented-optional", func() (bool, string) {
		ps, _ := get(t3j, "paths", "/m", "post", "parameters").([]any)
		for _, p := range ps {
			pm, _ := p.(map[string]any)
			if pm["name"] == "X-H" {
				req, _ := pm["required"].(bool)
				return !req, "required header X-H with a default is documented with required=false"
			}
		}
		return false, "X-H not documented"
	})
}

// nilVsEmptyMap returns the first path at which the JSON tree holds null and
// the YAML tree an empty mapping.
func nilVsEmptyMap(a, b any, path string) string {
	if a == nil {
		if bm, ok := b.(map[string]any); ok && len(bm) == 0 {
			return path
		}
		return ""
	}
	switch at := a.(type) {
	case map[string]any:
		bm, ok := b.(map[string]any)
		if !ok {
			return ""
		}
		for k, av := range at {
			if w := nilVsEmptyMap(av, bm[k], path+"/"+k); w != "" {
				return w
			}
		}
	case []any:
		bl, ok := b.([]any)
		if !ok || len(bl) != len(at) {
			return ""
		}
		for i := range at {
			if w := nilVsEmptyMap(at[i], bl[i], path+"/[]"); w != "" {
				return w
			}
		}
	}
	return ""
}

func errString(err error) string {
	if err == nil {
		return "valid"
	}
	return trunc(err.Error())
}
