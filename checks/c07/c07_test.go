// Package c07 decides property C07: the generated OpenAPI 2.0 and 3.0
// documents are valid, their JSON and YAML renderings have identical content,
// and they list exactly the operations the generated server mounts: methods
// and path templates, parameters (location, required), request body,
// response status codes and security schemes.
package c07

import (
	"context"
	"encoding/json"
	"fmt"
	"os"
	"path/filepath"
	"reflect"
	"sort"
	"strings"
	"sync"
	"testing"

	"github.com/getkin/kin-openapi/openapi2"
	"github.com/getkin/kin-openapi/openapi2conv"
	"github.com/getkin/kin-openapi/openapi3"
	"gopkg.in/yaml.v3"

	"verif/harness"
	"verif/internal/gen"
	"verif/internal/kf"
	m "verif/internal/model"
	"verif/internal/oracle"
	"verif/internal/rt"
	"verif/internal/stats"
)

func TestMain(m *testing.M) { stats.Main(m) }

func keep(d *m.Design) bool { return true }

func TestOpenAPI(t *testing.T) {
	n := rt.EnvInt("VERIF_CHECKS", 32)
	seed := rt.EnvInt("VERIF_SEED", 1)
	sess, built := rt.Prepare(t, "c07", rt.Options{Profile: gen.Routes(), N: n, Seed: seed, Keep: keep, AvoidIfOpen: []string{"C07-exclusive-bounds-as-numbers", "C07-openapi2-response-header-go-type-names", "C07-uint32-documented-as-int32", "C07-yaml-drops-leading-newline-in-description"},
		Extra: []*m.Design{gen.ParamMatrix(), gen.VerbMatrix(), gen.StreamMatrix(), gen.MapParamsMatrix(), gen.WildcardMatrix(), gen.InheritMatrix(), gen.RespCookieMatrix()}})
	defer sess.Close()
	defer rt.CloseAll(built)
	if len(built) == 0 {
		t.Fatalf("INCONCLUSIVE: no design could be built")
	}
	if len(built)*2 < n && rt.ReplayDir() == "" {
		t.Fatalf("INCONCLUSIVE: only %d of %d designs could be built (generator health)", len(built), n)
	}
	var wg sync.WaitGroup
	var mu sync.Mutex
	failures := 0
	for _, b := range built {
		wg.Add(1)
		go func(b *rt.Built) {
			defer wg.Done()
			msgs := checkDesign(b)
			record(b, msgs)
			if len(msgs) > 0 {
				mu.Lock()
				failures++
				dir := rt.SaveReplay(b, b.Run.Name, map[string]any{"messages": msgs})
				fmt.Printf("C07 failing design saved: %s\n", dir)
				for _, x := range msgs {
					fmt.Printf("  %s: %s\n", b.Run.Name, x)
				}
				mu.Unlock()
			}
		}(b)
	}
	wg.Wait()
	if failures > 0 {
		t.Fatalf("%d design(s) violate C07", failures)
	}
}

func record(b *rt.Built, msgs []string) {
	d := b.Design
	multiRoute, baseParam, files, twoVerbs := false, false, false, false
	verbsByPath := map[string]map[string]bool{}
	ops := 0
	for _, s := range d.Services {
		if len(s.Files) > 0 {
			files = true
		}
		for _, meth := range s.Methods {
			if meth.HTTP == nil {
				continue
			}
			if len(meth.HTTP.Routes) > 1 {
				multiRoute = true
			}
			for _, fr := range oracle.AllFullRoutes(d, s, meth) {
				ops++
				if verbsByPath[fr.Pattern] == nil {
					verbsByPath[fr.Pattern] = map[string]bool{}
				}
				verbsByPath[fr.Pattern][fr.Verb] = true
			}
		}
		if strings.Contains(s.BasePath, "{") || strings.Contains(d.API.BasePath, "{") {
			baseParam = true
		}
	}
	for _, vs := range verbsByPath {
		if len(vs) > 1 {
			twoVerbs = true
		}
	}
	nt := multiRoute || baseParam || files || twoVerbs
	for k, v := range map[string]bool{"multi-route": multiRoute, "base-path-param": baseParam, "file-server": files, "two-verbs-one-path": twoVerbs, "security": len(d.Schemes) > 0} {
		if v {
			stats.Class("design:" + k)
		}
	}
	stats.ClassN("operations", int64(ops))
	stats.CaseSample(b.Run.Name+"|"+strings.Join(d.Features, ","), nt, map[string]any{"design": b.Run.Name, "operations": ops, "features": d.Features, "violations": msgs})
}

func readFile(b *rt.Built, name string) ([]byte, error) {
	return os.ReadFile(filepath.Join(b.Run.Dir, "gen", "http", name))
}

// normalise converts a YAML tree (map[string]any with possibly non-string keys, ints) into the JSON data model.
func normalise(x any) any {
	switch t := x.(type) {
	case map[string]any:
		out := map[string]any{}
		for k, v := range t {
			out[k] = normalise(v)
		}
		return out
	case map[any]any:
		out := map[string]any{}
		for k, v := range t {
			out[fmt.Sprint(k)] = normalise(v)
		}
		return out
	case []any:
		out := make([]any, len(t))
		for i, v := range t {
			out[i] = normalise(v)
		}
		return out
	case int:
		return float64(t)
	case int64:
		return float64(t)
	case uint64:
		return float64(t)
	}
	return x
}

func firstDiff(a, b any, path string) string {
	if reflect.DeepEqual(a, b) {
		return ""
	}
	if as, ok := a.(string); ok {
		// open findings: bytes examples (base64 string vs integer sequence), leading newline lost by the YAML rendering
		if bl, ok := b.([]any); ok && kf.Open("C07-bytes-example-yaml-json-differ") {
			nums := true
			for _, e := range bl {
				if _, isNum := e.(float64); !isNum {
					nums = false
				}
			}
			if nums {
				stats.Class("known-finding-hit:C07-bytes-example-yaml-json-differ")
				return ""
			}
		}
		if bs, ok := b.(string); ok && as == "\n"+bs && kf.Open("C07-yaml-drops-leading-newline-in-description") {
			stats.Class("known-finding-hit:C07-yaml-drops-leading-newline-in-description")
			return ""
		}
	}
	if a == nil && strings.Contains(path, "/example") && kf.Open("C07-nil-example-yaml-json-differ") {
		// open finding: a generated example that bottoms out as a nil map is null in JSON and {} in YAML
		if bm, ok := b.(map[string]any); ok && len(bm) == 0 {
			stats.Class("known-finding-hit:C07-nil-example-yaml-json-differ")
			return ""
		}
	}
	am, aok := a.(map[string]any)
	bm, bok := b.(map[string]any)
	if aok && bok {
		for k := range am {
			if _, ok := bm[k]; !ok {
				return path + "/" + k + " only in JSON"
			}
			if d := firstDiff(am[k], bm[k], path+"/"+k); d != "" {
				return d
			}
		}
		for k := range bm {
			if _, ok := am[k]; !ok {
				return path + "/" + k + " only in YAML"
			}
		}
		return "" // every member equal or covered by an open finding
	}
	al, aok := a.([]any)
	bl, bok := b.([]any)
	if aok && bok && len(al) == len(bl) {
		for i := range al {
			if d := firstDiff(al[i], bl[i], fmt.Sprintf("%s[%d]", path, i)); d != "" {
				return d
			}
		}
		return ""
	}
	return fmt.Sprintf("%s: JSON %v vs YAML %v", path, trunc(fmt.Sprint(a)), trunc(fmt.Sprint(b)))
}

func trunc(s string) string {
	if len(s) > 160 {
		return s[:160] + "…"
	}
	return s
}

type op struct{ verb, path string }

func checkDesign(b *rt.Built) []string {
	var msgs []string
	fail := func(format string, a ...any) { msgs = append(msgs, fmt.Sprintf(format, a...)) }
	d := b.Design
	ctx := context.Background()

	// (2) JSON and YAML renderings have identical content
	for _, base := range []string{"openapi", "openapi3"} {
		jb, err1 := readFile(b, base+".json")
		yb, err2 := readFile(b, base+".yaml")
		if err1 != nil || err2 != nil {
			fail("%s.json / %s.yaml missing: %v %v", base, base, err1, err2)
			continue
		}
		var jt, yt any
		if err := json.Unmarshal(jb, &jt); err != nil {
			fail("%s.json is not JSON: %v", base, err)
			continue
		}
		if err := yaml.Unmarshal(yb, &yt); err != nil {
			fail("%s.yaml is not YAML: %v", base, err)
			continue
		}
		if diff := firstDiff(normalise(jt), normalise(yt), ""); diff != "" {
			fail("%s: JSON and YAML renderings differ: %s", base, diff)
		}
	}

	// (1) validity
	var doc3 *openapi3.T
	if jb, err := readFile(b, "openapi3.json"); err == nil {
		loader := openapi3.NewLoader()
		doc, err := loader.LoadFromData(jb)
		if err != nil {
			fail("openapi3.json does not load: %v", err)
		} else {
			doc3 = doc
			if err := doc.Validate(ctx, openapi3.DisableExamplesValidation()); err != nil {
				if strings.Contains(err.Error(), "{*") && kf.Open("C07-openapi3-file-server-wildcard-not-rewritten") {
					stats.Class("known-finding-hit:C07-openapi3-file-server-wildcard-not-rewritten")
				} else {
					fail("openapi3.json is not a valid OpenAPI 3 document: %s", trunc(err.Error()))
				}
			}
		}
	}
	var doc2 openapi2.T
	have2 := false
	if jb, err := readFile(b, "openapi.json"); err == nil {
		if err := json.Unmarshal(jb, &doc2); err != nil {
			fail("openapi.json does not load as OpenAPI 2: %v", err)
		} else {
			have2 = true
			v3, err := openapi2conv.ToV3(&doc2)
			if err != nil {
				// a limitation of the converter (e.g. $ref below additionalProperties), not a verdict about the document
				stats.Class("openapi2-not-converted-for-validation")
			} else if err := v3.Validate(ctx, openapi3.DisableExamplesValidation()); err != nil {
				fail("openapi.json is not a valid OpenAPI 2 document: %s", trunc(err.Error()))
			}
			// rules the conversion does not cover: path parameters declared, required and present in the template; unique operationId
			ids := map[string]bool{}
			for path, item := range doc2.Paths {
				for verb, o := range item.Operations() {
					if o.OperationID != "" {
						if ids[o.OperationID] {
							fail("openapi.json: operationId %q used twice", o.OperationID)
						}
						ids[o.OperationID] = true
					}
					declared := map[string]bool{}
					for _, p := range o.Parameters {
						if p.In == "path" {
							declared[p.Name] = true
							if !p.Required {
								fail("openapi.json: %s %s: path parameter %q is not required", verb, path, p.Name)
							}
							if !strings.Contains(path, "{"+p.Name+"}") {
								fail("openapi.json: %s %s: path parameter %q is not in the path template", verb, path, p.Name)
							}
						}
					}
					for _, seg := range strings.Split(path, "/") {
						if strings.HasPrefix(seg, "{") && strings.HasSuffix(seg, "}") && !declared[seg[1:len(seg)-1]] {
							fail("openapi.json: %s %s: template variable %s has no path parameter", verb, path, seg)
						}
					}
				}
			}
		}
	}

	// (3) the operations the server really mounts
	obs, err := b.H.Do(&harness.Case{Op: "mounts"})
	if err != nil {
		return append(msgs, "INCONCLUSIVE: harness: "+err.Error())
	}
	mounted := map[op]bool{}
	for _, h := range obs.Handled {
		p := h[1]
		// the documents name a catch-all {*x} as {x} (stated workaround)
		p = strings.ReplaceAll(p, "{*", "{")
		mounted[op{strings.ToUpper(h[0]), p}] = true
	}
	docOps := func(paths map[string][]string) map[op]bool {
		out := map[op]bool{}
		for p, verbs := range paths {
			for _, v := range verbs {
				out[op{strings.ToUpper(v), p}] = true
			}
		}
		return out
	}
	compare := func(name string, documented map[op]bool) {
		for o := range mounted {
			if !documented[o] {
				// a file server mounted on /dir/{*path} also answers on /dir/ (the directory itself)
				if strings.HasSuffix(o.path, "/") {
					covered := false
					for x := range documented {
						if x.verb == o.verb && strings.HasPrefix(x.path, o.path+"{") {
							covered = true
						}
					}
					if covered {
						continue
					}
				}
				if name == "openapi3.json" && kf.Open("C07-openapi3-file-server-wildcard-not-rewritten") && isFileServerWildcard(b.Design, o.path) {
					continue
				}
				if o.verb == "TRACE" && name == "openapi3.json" && kf.Open("C07-trace-route-missing-from-openapi3") {
					stats.Class("known-finding-hit:C07-trace-route-missing-from-openapi3")
					continue
				}
				if (o.verb == "TRACE" || o.verb == "CONNECT") && name == "openapi.json" {
					continue // OpenAPI 2 has no spelling for these verbs
				}
				fail("%s does not list the mounted operation %s %s", name, o.verb, o.path)
			}
		}
		for o := range documented {
			if !mounted[o] {
				if strings.Contains(o.path, "{*") && name == "openapi3.json" && kf.Open("C07-openapi3-file-server-wildcard-not-rewritten") {
					stats.Class("known-finding-hit:C07-openapi3-file-server-wildcard-not-rewritten")
					continue
				}
				fail("%s lists %s %s which the server does not mount", name, o.verb, o.path)
			}
		}
	}
	if doc3 != nil {
		paths := map[string][]string{}
		for p, item := range doc3.Paths.Map() {
			for v := range item.Operations() {
				paths[p] = append(paths[p], v)
			}
		}
		compare("openapi3.json", docOps(paths))
	}
	if have2 {
		paths := map[string][]string{}
		for p, item := range doc2.Paths {
			full := oracle.JoinPath(doc2.BasePath, p) // OpenAPI 2 paths are relative to basePath
			if strings.HasSuffix(p, "/") && !strings.HasSuffix(full, "/") {
				full += "/"
			}
			for v := range item.Operations() {
				paths[full] = append(paths[full], v)
			}
		}
		compare("openapi.json", docOps(paths))
	}

	// (4) per operation: parameters, request body, response codes, security
	if doc3 != nil {
		for _, s := range d.Services {
			for _, meth := range s.Methods {
				if meth.HTTP == nil {
					continue
				}
				for _, fr := range oracle.AllFullRoutes(d, s, meth) {
					verb, full := fr.Verb, fr.Pattern
					item := doc3.Paths.Find(strings.ReplaceAll(full, "{*", "{"))
					if item == nil {
						continue // reported above
					}
					o := item.GetOperation(verb)
					if o == nil {
						continue
					}
					for _, x := range checkOperation(d, s, meth, o) {
						fail("openapi3.json %s %s (%s.%s): %s", verb, full, s.Name, meth.Name, x)
					}
				}
			}
		}
	}
	return msgs
}

// isFileServerWildcard reports whether path (with {*x} written {x}) is the catch-all route of a file server.
func isFileServerWildcard(d *m.Design, path string) bool {
	for _, s := range d.Services {
		for _, f := range s.Files {
			for _, bp := range s.BasePaths() {
				if strings.Contains(f.Path, "{*") && strings.ReplaceAll(oracle.JoinPath(d.API.BasePath, bp, f.Path), "{*", "{") == path {
					return true
				}
			}
		}
	}
	return false
}

type param struct {
	name, in string
	required bool
}

func checkOperation(d *m.Design, s *m.Service, meth *m.Method, o *openapi3.Operation) []string {
	var msgs []string
	h := meth.HTTP
	fields := d.ObjectFields(meth.Payload)
	req := func(attr string) bool {
		if fields == nil {
			return true // a primitive payload is the parameter itself
		}
		f := d.FieldByName(meth.Payload, attr)
		return f != nil && f.Required
	}
	hasDefault := func(attr string) bool {
		f := d.FieldByName(meth.Payload, attr)
		return f != nil && f.Attr.Default != nil
	}
	headerAttr := map[string]string{}
	for _, p := range h.Headers {
		headerAttr[p.WireName()] = p.Attr
	}
	for _, p := range h.Cookies {
		headerAttr[p.WireName()] = p.Attr
	}
	want := map[string]param{}
	for _, p := range h.Path {
		want["path:"+p.WireName()] = param{p.WireName(), "path", true}
	}
	for _, p := range h.Query {
		want["query:"+p.WireName()] = param{p.WireName(), "query", req(p.Attr)}
	}
	if h.MapParams != "" && h.MapParams != "*" {
		// MapParams("attr"): documented as one query parameter (an object) named after the attribute
		want["query:"+h.MapParams] = param{h.MapParams, "query", req(h.MapParams)}
	}
	for _, p := range h.Headers {
		if strings.EqualFold(p.WireName(), "Authorization") {
			continue // described by the security scheme (OpenAPI ignores such header parameters)
		}
		want["header:"+p.WireName()] = param{p.WireName(), "header", req(p.Attr)}
	}
	for _, p := range h.Cookies {
		want["cookie:"+p.WireName()] = param{p.WireName(), "cookie", req(p.Attr)}
	}
	got := map[string]param{}
	for _, pr := range o.Parameters {
		if pr.Value == nil {
			continue
		}
		got[pr.Value.In+":"+pr.Value.Name] = param{pr.Value.Name, pr.Value.In, pr.Value.Required}
	}
	for k, w := range want {
		g, ok := got[k]
		if !ok {
			msgs = append(msgs, fmt.Sprintf("parameter %q in %s is read by the server but not documented", w.name, w.in))
			continue
		}
		if g.required != w.required && (w.in == "header" || w.in == "cookie") && w.required && hasDefault(headerAttr[w.name]) && kf.Open("C07-required-header-with-default-documented-optional") {
			stats.Class("known-finding-hit:C07-required-header-with-default-documented-optional")
			continue
		}
		if g.required != w.required {
			msgs = append(msgs, fmt.Sprintf("parameter %q in %s: documented required=%v, the design says %v", w.name, w.in, g.required, w.required))
		}
	}
	for k, g := range got {
		if _, ok := want[k]; !ok {
			msgs = append(msgs, fmt.Sprintf("parameter %q in %s is documented but the design does not define it", g.name, g.in))
		}
	}
	// request body
	hasBody := false
	if meth.Payload != nil {
		if fields == nil {
			hasBody = len(h.Path) == 0 && len(h.Query) == 0 && len(h.Headers) == 0 && len(h.Cookies) == 0
		} else {
			hasBody = len(gen.BodyAttrs(d, meth)) > 0
		}
	}
	if meth.Streaming != "" {
		// a websocket endpoint has no HTTP request body (the payload travels in
		// path, query and headers of the upgrade request)
		hasBody = false
	}
	if (o.RequestBody != nil) != hasBody {
		msgs = append(msgs, fmt.Sprintf("requestBody documented=%v, the server expects a body=%v", o.RequestBody != nil, hasBody))
	}
	// response codes
	wantCodes := map[string]bool{}
	if len(h.Responses) == 0 {
		wantCodes[fmt.Sprint(oracle.DefaultStatus(meth))] = true
	}
	for _, r := range h.Responses {
		wantCodes[fmt.Sprint(r.Status)] = true
	}
	if meth.Streaming != "" {
		// the success response of a streaming endpoint is documented as 101 Switching Protocols
		wantCodes = map[string]bool{"101": true}
	}
	find := func(name string) *m.ErrorResponse {
		for _, l := range [][]*m.ErrorResponse{h.ErrorResp, s.ErrorResp, d.API.ErrorResp} {
			for _, er := range l {
				if er.Name == name {
					return er
				}
			}
		}
		return nil
	}
	for _, l := range [][]*m.ErrorDef{meth.Errors, s.Errors} {
		for _, e := range l {
			if er := find(e.Name); er != nil {
				wantCodes[fmt.Sprint(er.Status)] = true
			}
		}
	}
	gotCodes := map[string]bool{}
	if o.Responses != nil {
		for code := range o.Responses.Map() {
			gotCodes[code] = true
		}
	}
	if !reflect.DeepEqual(wantCodes, gotCodes) {
		msgs = append(msgs, fmt.Sprintf("response codes documented %v, designed %v", keys(gotCodes), keys(wantCodes)))
	}
	// security
	reqs := gen.EffectiveSecurity(d, s, meth)
	var wantSec, gotSec []string
	for _, r := range reqs {
		var parts []string
		for _, sn := range r.Schemes {
			sc := gen.SchemeByName(d, sn)
			scopes := ""
			if sc != nil && (sc.Kind == "jwt" || sc.Kind == "oauth2") {
				ss := append([]string{}, r.Scopes...)
				sort.Strings(ss)
				scopes = strings.Join(ss, " ")
			}
			parts = append(parts, sn+"["+scopes+"]")
		}
		sort.Strings(parts)
		wantSec = append(wantSec, strings.Join(parts, "&"))
	}
	if o.Security != nil {
		for _, sr := range *o.Security {
			var parts []string
			for key, scopes := range sr {
				name := key
				for _, sc := range d.Schemes {
					if strings.HasPrefix(key, sc.Name+"_") && (len(name) == len(key) || len(sc.Name) > len(name)) {
						name = sc.Name
					}
				}
				ss := append([]string{}, scopes...)
				sort.Strings(ss)
				parts = append(parts, name+"["+strings.Join(ss, " ")+"]")
			}
			sort.Strings(parts)
			gotSec = append(gotSec, strings.Join(parts, "&"))
		}
	}
	sort.Strings(wantSec)
	sort.Strings(gotSec)
	if strings.Join(wantSec, " | ") != strings.Join(gotSec, " | ") {
		msgs = append(msgs, fmt.Sprintf("security documented {%s}, effective requirements {%s}", strings.Join(gotSec, " | "), strings.Join(wantSec, " | ")))
	}
	return msgs
}

func keys(m map[string]bool) []string {
	var out []string
	for k := range m {
		out = append(out, k)
	}
	sort.Strings(out)
	return out
}
