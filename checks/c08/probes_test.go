package c08

import (
	"fmt"
	"net/http"
	"os"
	"strings"
	"testing"

	"verif/harness"
	"verif/internal/gen"
	m "verif/internal/model"
	"verif/internal/rt"
	"verif/internal/value"
)

func probeDesign() *m.Design {
	d := &m.Design{API: m.API{Name: "probe"}}
	allViews := func(names ...string) []m.ViewField {
		var out []m.ViewField
		for _, n := range names {
			out = append(out, m.ViewField{Name: n})
		}
		return out
	}
	d.Types = append(d.Types, &m.UserType{Name: "Point", Var: "v1", Result: true, Identifier: "application/vnd.point",
		Attr:  rt.Obj(rt.Fld("b", m.UserRef("Point"), false), rt.Fld("a", m.UserRef("Point"), false), rt.Fld("owner", m.Prim(m.Float64), false)),
		Views: []*m.View{{Name: "default", Fields: allViews("b", "a", "owner")}}})
	d.Types = append(d.Types, &m.UserType{Name: "Inner", Var: "v2", Result: true, Identifier: "application/vnd.inner",
		Attr:  rt.Obj(rt.Fld("c", m.Prim(m.UInt32), true)),
		Views: []*m.View{{Name: "default", Fields: allViews("c")}, {Name: "tiny", Fields: allViews("c")}}})
	d.Types = append(d.Types, &m.UserType{Name: "Box", Var: "v3", Result: true, Identifier: "application/vnd.box",
		Attr:  rt.Obj(rt.Fld("c", m.Prim(m.Int), false), rt.Fld("size", rt.Obj(rt.Fld("b", m.Prim(m.Int), false)), true)),
		Views: []*m.View{{Name: "default", Fields: allViews("c", "size")}, {Name: "tiny", Fields: allViews("c")}}})
	d.Types = append(d.Types, &m.UserType{Name: "Opts", Var: "v4", Result: true, Identifier: "application/vnd.opts",
		Attr:  rt.Obj(rt.Fld("b", m.Prim(m.Int), true)),
		Views: []*m.View{{Name: "default", Fields: allViews("b")}, {Name: "tiny", Fields: allViews("b")}}})
	d.Types = append(d.Types, &m.UserType{Name: "Entry", Var: "v5", Result: true, Identifier: "application/vnd.entry",
		Attr:  rt.Obj(rt.Fld("ratio", m.Prim(m.Int), false), rt.Fld("b", m.UserRef("Opts"), false)),
		Views: []*m.View{{Name: "default", Fields: allViews("ratio", "b")}, {Name: "tiny", Fields: allViews("ratio")}}})
	// two sibling attributes of one nested result type rendered with different views by one view of the parent,
	// the nested type has a required attribute outside its smaller view
	d.Types = append(d.Types, &m.UserType{Name: "PNode", Var: "v6", Result: true, Identifier: "application/vnd.pnode",
		Attr:  rt.Obj(rt.Fld("n", m.Prim(m.UInt32), false), rt.Fld("label", m.Prim(m.UInt), true)),
		Views: []*m.View{{Name: "default", Fields: allViews("n", "label")}, {Name: "tiny", Fields: allViews("n")}}})
	d.Types = append(d.Types, &m.UserType{Name: "PTree", Var: "v7", Result: true, Identifier: "application/vnd.ptree",
		Attr: rt.Obj(rt.Fld("b", m.UserRef("PNode"), true), rt.Fld("a", m.UserRef("PNode"), false), rt.Fld("c", m.Prim(m.String), true)),
		Views: []*m.View{{Name: "default", Fields: []m.ViewField{{Name: "b"}, {Name: "a", View: "default"}, {Name: "c"}}},
			{Name: "tiny", Fields: []m.ViewField{{Name: "a", View: "tiny"}, {Name: "c"}, {Name: "b"}}}}})
	s := &m.Service{Name: "probe", HasHTTP: true}
	add := func(name, typ string, resps ...*m.Response) {
		s.Methods = append(s.Methods, &m.Method{Name: name, Result: m.UserRef(typ), HTTP: &m.HTTPEndpoint{Routes: []m.Route{{Verb: "GET", Path: "/" + name}}, Responses: resps}})
	}
	add("getpoint", "Point")
	add("getinner", "Inner", &m.Response{Status: 200, Headers: []m.Mapping{{Attr: "c", Wire: "X-C"}}})
	add("getbox", "Box")
	add("getentry", "Entry")
	add("gettree", "PTree")
	d.Services = []*m.Service{s}
	return d
}

// TestProbes re-creates the minimal input of every known finding of C08.
func TestProbes(t *testing.T) {
	if rt.ReplayDir() != "" && os.Getenv("VERIF_PROBE_ONLY") == "" {
		t.Skip("replay of a search case")
	}
	sess, h := rt.BuildOne(t, "c08p", probeDesign())
	defer sess.Close()
	defer h.Close()
	do := func(c *harness.Case) *harness.Obs {
		o, err := h.Do(c)
		if err != nil {
			t.Fatalf("INCONCLUSIVE: %v", err)
		}
		return o
	}
	f := func(n string, v value.V) value.Field { return value.Field{N: n, V: v} }
	rt.Probe("C08-recursive-result-type-two-self-refs-loses-attribute", func() (bool, string) {
		res := value.Object(f("b", value.Object(f("a", value.Object(f("b", value.Object(f("owner", value.Float(1)))), f("owner", value.Float(2)))))))
		o := do(&harness.Case{Op: "call", Svc: "probe", Method: "getpoint", Stub: harness.StubSpec{HasResult: true, Result: res, View: "default"}})
		body := ""
		if o.Response != nil {
			body = string(o.Response.Body)
		}
		if o.Response == nil || o.Response.Status != 200 {
			t.Logf("point probe: unexpected observation: err=%q panic=%q server=%q resp=%+v", o.Err, firstLines(o.Panic, 3), firstLines(o.ServerPanic, 3), o.Response)
			return false, "inconclusive"
		}
		return !strings.Contains(body, `"owner":1`), "result {b:{a:{b:{owner:1},owner:2}}} of Point{b:Point,a:Point,owner}: wire body " + strings.TrimSpace(body)
	})
	rt.Probe("C08-undefined-view-accepted-when-response-has-no-body", func() (bool, string) {
		c := &harness.Case{Op: "call", Svc: "probe", Method: "getinner", Stub: harness.StubSpec{HasResult: true, Result: value.Object(f("c", value.Uint(7))), View: "tiny"}}
		o := do(c)
		if o.Response == nil {
			return false, "no response"
		}
		hdr := cloneHeader(o.Response.Header)
		http.Header(hdr).Set("goa-view", "bogus")
		c.Canned = &harness.RawResp{Status: o.Response.Status, Header: hdr, Body: o.Response.Body}
		o2 := do(c)
		t.Logf("inner probe: first err=%q clienterr=%v status=%d; second clienterr=%v panic=%q", o.Err, o.ClientErr, o.Response.Status, o2.ClientErr, firstLines(o2.Panic, 2))
		return o2.ClientErr == nil && o2.Panic == "" && o2.Err == "", "response with goa-view: bogus and no body: client error is nil, result " + o2.Result.Canon()
	})
	rt.Probe("C08-sibling-nested-result-types-share-projection", func() (bool, string) {
		sess2, h2 := rt.BuildOne(t, "c08pm", gen.ViewMatrix())
		defer sess2.Close()
		defer h2.Close()
		leaf := func(n int64) value.V {
			return value.Object(f("a", value.Int(n)), f("b", value.Str("b")), f("c", value.Str("c")))
		}
		res := value.Object(f("title", value.Str("t")), f("l1", leaf(1)), f("l2", leaf(2)), f("l3", leaf(3)))
		o, err := h2.Do(&harness.Case{Op: "call", Svc: "viewmatrix", Method: "get", Stub: harness.StubSpec{HasResult: true, Result: res, View: "default"}})
		if err != nil || o.Response == nil || o.Response.Status != 200 {
			t.Logf("view matrix probe: %v %+v", err, o)
			return false, "inconclusive"
		}
		body := strings.TrimSpace(string(o.Response.Body))
		return strings.Contains(body, `"l2":{"a":2,"b"`), "Tree default view = {l1 (default), l2 rendered with view tiny = {a}, l3 extended}: wire body " + body
	})
	rt.Probe("C08-nested-result-type-requiredness-read-from-nested-type", func() (bool, string) {
		o := do(&harness.Case{Op: "call", Svc: "probe", Method: "getentry", Stub: harness.StubSpec{HasResult: true, Result: value.Object(f("ratio", value.Int(1))), View: "default"}})
		t.Logf("entry probe: err=%q clienterr=%v panic=%q", o.Err, o.ClientErr, firstLines(o.Panic, 2))
		if o.Response == nil || o.Response.Status != 200 {
			return false, "inconclusive"
		}
		return o.ClientErr != nil && strings.Contains(o.ClientErr.Text, "is missing"), "Entry{ratio, b: Opts (optional)}, Opts{b required}: result {ratio:1} is a valid Entry; the generated client answers: " + fmt.Sprintf("%+v", o.ClientErr)
	})
	rt.Probe("C08-sibling-nested-views-client-derefs-required-attribute-outside-the-view", func() (bool, string) {
		node := func(n, label int64) value.V { return value.Object(f("n", value.Int(n)), f("label", value.Int(label))) }
		res := value.Object(f("b", node(1, 2)), f("a", node(3, 4)), f("c", value.Str("x")))
		o := do(&harness.Case{Op: "call", Svc: "probe", Method: "gettree", Stub: harness.StubSpec{HasResult: true, Result: res, View: "tiny"}})
		t.Logf("tree probe: err=%q clienterr=%v panic=%q", o.Err, o.ClientErr, firstLines(o.Panic, 2))
		return o.Panic != "" && strings.Contains(o.Panic, "transform"), "PTree view tiny = {a (PNode tiny), c, b (PNode default)}, PNode requires label outside its tiny view: the generated client builds a through a view-blind transform helper and dereferences the absent label: " + firstLines(o.Panic, 1)
	})
	rt.Probe("C08-required-object-absent-client-panic", func() (bool, string) {
		res := value.Object(f("c", value.Int(1)), f("size", value.Object(f("b", value.Int(2)))))
		o := do(&harness.Case{Op: "call", Svc: "probe", Method: "getbox", Stub: harness.StubSpec{HasResult: true, Result: res, View: "tiny"}})
		t.Logf("box probe: err=%q clienterr=%v panic=%q server=%q", o.Err, o.ClientErr, firstLines(o.Panic, 2), firstLines(o.ServerPanic, 2))
		return o.Panic != "", "result rendered under view tiny (which omits the required object size): client " + firstLines(o.Panic, 1)
	})
}
