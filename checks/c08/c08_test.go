// Package c08 decides property C08: a method whose result type defines views
// returns to the client exactly the attributes of the chosen (or fixed) view,
// recursively and through collections; the view name accompanies the response
// and the client refuses a response labelled with an undefined view.
package c08

import (
	"encoding/json"
	"fmt"
	"net/http"
	"strings"
	"sync"
	"testing"

	"pgregory.net/rapid"

	"verif/harness"
	"verif/internal/gen"
	"verif/internal/kf"
	m "verif/internal/model"
	"verif/internal/oracle"
	"verif/internal/rt"
	"verif/internal/stats"
	"verif/internal/value"
)

func TestMain(m *testing.M) { stats.Main(m) }

type caseRec struct {
	Service string  `json:"service"`
	Method  string  `json:"method"`
	Kind    string  `json:"kind"` // "view", "undefined-view", "missing-required"
	Payload value.V `json:"payload"`
	Result  value.V `json:"result"`
	View    string  `json:"view"`
	Bogus   string  `json:"bogus,omitempty"`
	Drop    string  `json:"drop,omitempty"`
	Message string  `json:"message"`
}

func viewed(d *m.Design, meth *m.Method) bool {
	return meth.HTTP != nil && len(oracle.ResultViews(d, meth.Result)) > 0
}

func keep(d *m.Design) bool {
	for _, s := range d.Services {
		for _, meth := range s.Methods {
			if viewed(d, meth) {
				return true
			}
		}
	}
	return false
}

func TestViews(t *testing.T) {
	n := rt.EnvInt("VERIF_CHECKS", 24)
	seed := rt.EnvInt("VERIF_SEED", 1)
	sess, built := rt.Prepare(t, "c08", rt.Options{Profile: gen.Views(), N: n, Seed: seed, Keep: keep, Extra: []*m.Design{gen.ViewMatrix(), gen.InheritMatrix()}})
	defer sess.Close()
	defer rt.CloseAll(built)
	if len(built) == 0 {
		t.Fatalf("INCONCLUSIVE: no design could be built")
	}
	if len(built)*2 < n && rt.ReplayDir() == "" {
		t.Fatalf("INCONCLUSIVE: only %d of %d designs could be built (generator health)", len(built), n)
	}
	var wg sync.WaitGroup
	var mu sync.Mutex
	failures := 0
	sem := make(chan struct{}, 16)
	for _, b := range built {
		wg.Add(1)
		go func(b *rt.Built) {
			defer wg.Done()
			sem <- struct{}{}
			defer func() { <-sem }()
			for _, s := range b.Design.Services {
				for _, meth := range s.Methods {
					if !viewed(b.Design, meth) {
						continue
					}
					if !checkMethod(t, b, s, meth) {
						mu.Lock()
						failures++
						mu.Unlock()
					}
				}
			}
		}(b)
	}
	wg.Wait()
	if failures > 0 {
		t.Fatalf("%d method(s) violate C08", failures)
	}
}

func checkMethod(t *testing.T, b *rt.Built, s *m.Service, meth *m.Method) bool {
	d := b.Design
	label := rt.MethodLabel(b, s, meth)
	var last *caseRec
	var replay caseRec
	if rt.LoadReplayCase(&replay) {
		if replay.Service != s.Name || replay.Method != meth.Name {
			return true
		}
		if msg := runCase(b, s, meth, &replay); msg != "" {
			t.Errorf("replayed case still fails: %s", msg)
			return false
		}
		fmt.Printf("replayed case passes: %s %s\n", s.Name, meth.Name)
		return true
	}
	views := oracle.ResultViews(d, meth.Result)
	ok := t.Run(label, func(t *testing.T) {
		rapid.Check(t, func(rt_ *rapid.T) {
			c := &caseRec{Service: s.Name, Method: meth.Name}
			c.Payload = gen.PayloadGen(d, meth).Draw(rt_, "payload")
			c.Result = gen.ResultGen(d, meth).Draw(rt_, "result")
			if meth.ResultView != "" {
				c.View = meth.ResultView
			} else {
				c.View = rapid.SampledFrom(append([]string{""}, views...)).Draw(rt_, "view")
			}
			kinds := []string{"view", "view", "view", "missing-required"}
			if meth.ResultView == "" && len(views) > 1 && !(allInHeaders(d, meth) && kf.Open("C08-undefined-view-accepted-when-response-has-no-body")) {
				// the view travels in the goa-view header only when the method chooses it among several
				kinds = append(kinds, "undefined-view")
			}
			c.Kind = rapid.SampledFrom(kinds).Draw(rt_, "kind")
			switch c.Kind {
			case "undefined-view":
				c.Bogus = rapid.SampledFrom([]string{"bogus", "Default", "tiny ", "none", "default,tiny"}).Draw(rt_, "bogus")
				for _, v := range views {
					if v == c.Bogus {
						c.Kind = "view"
					}
				}
			case "missing-required":
				// a required top-level attribute exposed by the view, carried in the body
				var cands []string
				exp := oracle.Project(d, meth.Result, oracle.Canonicalize(d, meth.Result, c.Result), c.View)
				ut := d.TypeByName(meth.Result.Type.User)
				if ut.CollectionOf == "" {
					for _, f := range d.ObjectFields(meth.Result) {
						fv, ok := exp.Get(f.Name)
						k := d.Underlying(f.Attr)
						if f.Required && ok && fv.K != "skip" && !fv.IsNil() && !inHeaderOrCookie(meth, f.Name) && k != m.Array && k != m.Map && k != m.Bytes &&
							!((k == m.Object || f.Attr.Type.Kind == m.User) && kf.Open("C08-required-object-absent-client-panic")) {
							cands = append(cands, f.Name)
						}
					}
				}
				if len(cands) == 0 {
					c.Kind = "view"
				} else {
					c.Drop = rapid.SampledFrom(cands).Draw(rt_, "drop")
				}
			}
			msg := runCase(b, s, meth, c)
			record(d, meth, c)
			if msg != "" {
				c.Message = msg
				last = c
				rt_.Fatalf("%s [%s view %q]: %s\n  result: %s", label, c.Kind, c.View, msg, c.Result.Canon())
			}
		})
	})
	if !ok && last != nil {
		dir := rt.SaveReplay(b, label, last)
		fmt.Printf("C08 failing case saved: %s\n  design: %s\n  [%s] %s\n", dir, b.Run.Name, last.Kind, last.Message)
	}
	return ok
}

// allInHeaders reports whether every result attribute is mapped to a response header or cookie.
func allInHeaders(d *m.Design, meth *m.Method) bool {
	fs := d.ObjectFields(meth.Result)
	if len(fs) == 0 || len(meth.HTTP.Responses) == 0 {
		return false
	}
	for _, f := range fs {
		if !inHeaderOrCookie(meth, f.Name) {
			return false
		}
	}
	return true
}

func inHeaderOrCookie(meth *m.Method, name string) bool {
	for _, r := range meth.HTTP.Responses {
		for _, l := range [][]m.Mapping{r.Headers, r.Cookies} {
			for _, mp := range l {
				if mp.Attr == name {
					return true
				}
			}
		}
	}
	return false
}

// hasNestedOverride reports whether the view renders a nested result type with another view.
func hasNestedOverride(d *m.Design, a *m.Attr, view string) bool {
	if a == nil || a.Type.Kind != m.User {
		return false
	}
	ut := d.TypeByName(a.Type.User)
	if ut == nil {
		return false
	}
	if ut.CollectionOf != "" {
		return hasNestedOverride(d, m.UserRef(ut.CollectionOf), view)
	}
	for _, v := range ut.Views {
		if v.Name == view || (view == "" && v.Name == "default") {
			for _, vf := range v.Fields {
				if vf.View != "" && vf.View != "default" {
					return true
				}
			}
		}
	}
	return false
}

func record(d *m.Design, meth *m.Method, c *caseRec) {
	ut := d.TypeByName(meth.Result.Type.User)
	nt := (c.View != "" && c.View != "default") || hasNestedOverride(d, meth.Result, c.View) || ut.CollectionOf != "" || c.Kind != "view"
	stats.Class("kind:" + c.Kind)
	if c.View != "" && c.View != "default" {
		stats.Class("non-default-view")
	}
	if hasNestedOverride(d, meth.Result, c.View) {
		stats.Class("nested-view-override")
	}
	if ut.CollectionOf != "" {
		stats.Class("collection")
	}
	if meth.ResultView != "" {
		stats.Class("fixed-view")
	}
	stats.CaseSample(c.Service+"|"+c.Method+"|"+c.Kind+"|"+c.View+"|"+c.Bogus+"|"+c.Drop+"|"+c.Result.Canon(), nt,
		map[string]any{"method": c.Service + "." + c.Method, "kind": c.Kind, "view": c.View, "result": c.Result.Canon(), "bogus": c.Bogus, "drop": c.Drop})
}

func runCase(b *rt.Built, s *m.Service, meth *m.Method, c *caseRec) string {
	d := b.Design
	hc := &harness.Case{Op: "call", Svc: s.Name, Method: meth.Name, HasPayload: meth.Payload != nil, Payload: c.Payload}
	hc.Stub = harness.StubSpec{HasResult: true, Result: c.Result, View: c.View}
	obs, err := b.H.Do(hc)
	if err != nil {
		return "INCONCLUSIVE: harness: " + err.Error()
	}
	if obs.Err != "" {
		return "harness could not run the case: " + obs.Err
	}
	if obs.Panic != "" {
		if strings.Contains(obs.Panic, ".transform") && strings.Contains(obs.Panic, "ViewTo") && siblingViewsOmitRequired(d, meth.Result) &&
			kf.Open("C08-sibling-nested-views-client-derefs-required-attribute-outside-the-view") {
			stats.Class("known-finding-hit:C08-sibling-nested-views-client-derefs-required-attribute-outside-the-view")
			return ""
		}
		return "panic in generated client code: " + firstLines(obs.Panic, 24)
	}
	if obs.ServerPanic != "" {
		return "panic in generated server code: " + firstLines(obs.ServerPanic, 24)
	}
	if obs.StubCalls != 1 {
		stats.Class("skipped:request-not-delivered")
		return ""
	}
	if obs.Response == nil {
		return "no response observed"
	}
	view := c.View
	if view == "" {
		view = "default"
	}
	sent := oracle.Canonicalize(d, meth.Result, c.Result)
	expected := oracle.Project(d, meth.Result, sent, view)
	resp := obs.Response
	if resp.Status < 200 || resp.Status > 299 {
		return fmt.Sprintf("valid result under view %q answered with status %d (%q)", view, resp.Status, trunc(string(resp.Body)))
	}
	// the view name accompanies the response
	gv := http.Header(resp.Header).Get("goa-view")
	if meth.ResultView == "" && gv != view && !(gv == "" && len(oracle.ResultViews(d, meth.Result)) <= 1) {
		// (a result type with a single view has nothing to choose: the header is not sent)
		return fmt.Sprintf("goa-view header is %q, the service chose view %q", gv, view)
	}
	if meth.ResultView != "" && gv != "" && gv != view {
		return fmt.Sprintf("goa-view header is %q, the design fixes view %q", gv, view)
	}
	// wire: exactly the projected attributes, at every depth
	selected := oracle.SelectResponse(d, meth, c.Result)
	if msg := oracle.CheckResponseLocations(d, meth, selected, expected, resp); msg != "" {
		return "wire: " + msg
	}
	switch c.Kind {
	case "view":
		if obs.ClientErr != nil {
			return fmt.Sprintf("client returned an error for a valid result: %s", obs.ClientErr.Text)
		}
		got := oracle.MaskOutsideView(d, meth.Result, oracle.Canonicalize(d, meth.Result, obs.Result), view)
		if msg := oracle.Match(d, meth.Result, expected, got, false, ""); msg != "" {
			return fmt.Sprintf("client result differs from the projection: %s\n  returned by the service: %s\n  expected (view %q):      %s\n  received:                %s", msg, sent.Canon(), view, expected.Canon(), got.Canon())
		}
	case "undefined-view":
		canned := &harness.RawResp{Status: resp.Status, Header: cloneHeader(resp.Header), Body: resp.Body}
		http.Header(canned.Header).Set("goa-view", c.Bogus)
		hc2 := *hc
		hc2.Canned = canned
		obs2, err := b.H.Do(&hc2)
		if err != nil {
			return "INCONCLUSIVE: harness: " + err.Error()
		}
		if obs2.Panic != "" {
			return "panic in generated client code on a response labelled with an undefined view: " + firstLines(obs2.Panic, 16)
		}
		if obs2.ClientErr == nil {
			return fmt.Sprintf("the client accepted a response labelled with the undefined view %q and returned %s", c.Bogus, obs2.Result.Canon())
		}
	case "missing-required":
		var body map[string]json.RawMessage
		if err := json.Unmarshal(resp.Body, &body); err != nil {
			return ""
		}
		if _, ok := body[c.Drop]; !ok {
			return ""
		}
		delete(body, c.Drop)
		nb, _ := json.Marshal(body)
		canned := &harness.RawResp{Status: resp.Status, Header: cloneHeader(resp.Header), Body: nb}
		hc2 := *hc
		hc2.Canned = canned
		obs2, err := b.H.Do(&hc2)
		if err != nil {
			return "INCONCLUSIVE: harness: " + err.Error()
		}
		if obs2.Panic != "" {
			return "panic in generated client code: " + firstLines(obs2.Panic, 16)
		}
		if obs2.ClientErr == nil {
			return fmt.Sprintf("the client accepted a response under view %q without the required attribute %q of that view and returned %s", view, c.Drop, obs2.Result.Canon())
		}
	}
	return ""
}

func cloneHeader(h map[string][]string) map[string][]string {
	out := map[string][]string{}
	for k, v := range h {
		if k == "Content-Length" {
			continue
		}
		out[k] = append([]string{}, v...)
	}
	return out
}

func trunc(s string) string {
	if len(s) > 300 {
		return s[:300] + "…"
	}
	return s
}

func firstLines(s string, n int) string {
	ls := strings.Split(s, "\n")
	if len(ls) > n {
		ls = ls[:n]
	}
	return strings.Join(ls, "\n")
}

// siblingViewsOmitRequired: the result type (or the element type of a
// collection) has a view that renders two attributes of one nested result
// type with different views, and that nested type has a required attribute
// which one of those views leaves out (signature of an open finding).
func siblingViewsOmitRequired(d *m.Design, res *m.Attr) bool {
	if res == nil || res.Type == nil || res.Type.Kind != m.User {
		return false
	}
	ut := d.TypeByName(res.Type.User)
	if ut != nil && ut.CollectionOf != "" {
		ut = d.TypeByName(ut.CollectionOf)
	}
	if ut == nil || !ut.Result || ut.Attr == nil || ut.Attr.Type.Kind != m.Object {
		return false
	}
	for _, v := range ut.Views {
		used := map[string]map[string]bool{}
		for _, vf := range v.Fields {
			var fld *m.Field
			for _, f := range ut.Attr.Type.Fields {
				if f.Name == vf.Name {
					fld = f
				}
			}
			if fld == nil || fld.Attr.Type.Kind != m.User {
				continue
			}
			n := d.TypeByName(fld.Attr.Type.User)
			if n == nil || !n.Result {
				continue
			}
			view := vf.View
			if view == "" {
				view = fld.Attr.View
			}
			if view == "" {
				view = "default"
			}
			if used[n.Name] == nil {
				used[n.Name] = map[string]bool{}
			}
			used[n.Name][view] = true
		}
		for name, views := range used {
			if len(views) < 2 {
				continue
			}
			n := d.TypeByName(name)
			for vn := range views {
				for _, nv := range n.Views {
					if nv.Name != vn {
						continue
					}
					listed := map[string]bool{}
					for _, f := range nv.Fields {
						listed[f.Name] = true
					}
					for _, f := range n.Attr.Type.Fields {
						if f.Required && !listed[f.Name] {
							return true
						}
					}
				}
			}
		}
	}
	return false
}
