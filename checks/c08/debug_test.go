package c08

import (
	"encoding/json"
	"fmt"
	"os"
	"testing"

	"verif/harness"
	"verif/internal/gen"
	"verif/internal/rt"
)

// TestDebugReplay prints the raw observation of a replayed case (developer aid).
func TestDebugReplay(t *testing.T) {
	if rt.ReplayDir() == "" || os.Getenv("VERIF_DEBUG") == "" {
		t.Skip("developer aid")
	}
	sess, built := rt.Prepare(t, "c08dbg", rt.Options{Profile: gen.Views(), N: 1, Seed: 1})
	defer sess.Close()
	defer rt.CloseAll(built)
	var c caseRec
	rt.LoadReplayCase(&c)
	for _, b := range built {
		hc := &harness.Case{Op: "call", Svc: c.Service, Method: c.Method, HasPayload: true, Payload: c.Payload}
		hc.Stub = harness.StubSpec{HasResult: !c.Result.IsNil(), Result: c.Result, View: c.View}
		obs, err := b.H.Do(hc)
		jb, _ := json.MarshalIndent(obs, "", " ")
		fmt.Println(string(jb), err)
		for _, r := range obs.Requests {
			fmt.Printf("REQUEST %s %s\nBODY %q\n", r.Method, r.URL, r.Body)
		}
		if obs.Response != nil {
			fmt.Printf("RESPONSE %d %q\n", obs.Response.Status, obs.Response.Body)
		}
	}
}
