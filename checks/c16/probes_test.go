package c16

import (
	"fmt"
	"net/http"
	"os"
	"strings"
	"testing"
	"unicode/utf8"

	"verif/internal/kf"
	"verif/internal/stats"
)

func never(string) bool { return false }

// TestProbes re-creates the minimal input of every finding of this check and
// reports whether it still misbehaves. It never fails: the driver turns a hit
// on an open finding into a KNOWN-FINDING line and a hit on any other into a
// VIOLATION.
func TestProbes(t *testing.T) {
	only := os.Getenv("VERIF_PROBE_ONLY")
	probe := func(id string, f func() (bool, string)) {
		if only != "" && only != id {
			return
		}
		hit, what := f()
		stats.ProbeResult(id, hit, what)
	}
	get := func(pattern ...seg) route { return route{Method: "GET", Segs: pattern} }

	probe(fDoubleDecode, func() (bool, string) {
		// GET /a/{x}, value "%41", as goa's generated client sends it and as a
		// client escaping with url.PathEscape sends it (/a/%2541)
		r := get(seg{kLit, "a"}, seg{kParam, "x"})
		h := newHarness(config{Routes: []route{r}})
		for _, style := range []string{"goa", "escaped"} {
			q := buildFor(r, map[string]string{"x": "%41"}, style, false)
			rq, _ := q.build()
			o, _ := h.serve(rq)
			if o.Calls == 1 && o.Vars["x"] != "%41" {
				return true, fmt.Sprintf("pattern /a/{x}, value %q sent as %s (%s style): Vars returns %q", "%41", rq.URL.EscapedPath(), style, o.Vars["x"])
			}
		}
		return false, ""
	})

	probe(fResolveBefore, func() (bool, string) {
		// GET /a/{*x}; one Use-middleware calling ResolvePattern before next; GET /a/b/c
		r := get(seg{kLit, "a"}, seg{kCatchAll, "x"})
		h := newHarness(config{Routes: []route{r}, NUse: 1, ResolveBefore: true})
		q := buildFor(r, map[string]string{"x": "b/c"}, "escaped", false)
		rq, _ := q.build()
		o, _ := h.serve(rq)
		if o.Calls == 1 && (o.HandlerPat != "/a/{*x}" || o.AfterPats[0] != "/a/{*x}" || o.Vars["x"] != "b/c") {
			return true, fmt.Sprintf("pattern /a/{*x}, GET /a/b/c, a Use-middleware called ResolvePattern before next (got %q): handler then sees ResolvePattern=%q Vars=%q, the middleware after next %q", o.BeforePats[0], o.HandlerPat, o.Vars, o.AfterPats[0])
		}
		return false, ""
	})

	probe(fResolveDecoded, func() (bool, string) {
		// GET /a/{x}; value "p/q" sent as /a/p%2Fq; ResolvePattern before next
		r := get(seg{kLit, "a"}, seg{kParam, "x"})
		h := newHarness(config{Routes: []route{r}, NUse: 1, ResolveBefore: true})
		q := buildFor(r, map[string]string{"x": "p/q"}, "escaped", false)
		rq, _ := q.build()
		o, _ := h.serve(rq)
		if o.Calls == 1 && o.BeforePats[0] != "/a/{x}" {
			return true, fmt.Sprintf("pattern /a/{x}, GET /a/p%%2Fq reaches the handler with x=%q, but ResolvePattern called by a Use-middleware before next returns %q", o.Vars["x"], o.BeforePats[0])
		}
		return false, ""
	})

	probe(fTrailingSlash, func() (bool, string) {
		r := route{Method: "GET", Segs: []seg{{kLit, "a"}, {kParam, "x"}}, Slash: true}
		h := newHarness(config{Routes: []route{r}})
		q := buildFor(r, map[string]string{"x": "b"}, "escaped", false)
		rq, _ := q.build()
		o, _ := h.serve(rq)
		if o.Calls == 1 && o.HandlerPat != "/a/{x}/" {
			return true, fmt.Sprintf("pattern registered as /a/{x}/, GET /a/b/: ResolvePattern returns %q", o.HandlerPat)
		}
		return false, ""
	})

	probe(fTextNotFound, func() (bool, string) {
		r := get(seg{kLit, "a"})
		h := newHarness(config{Routes: []route{r}})
		q := reqSpec{Method: "GET", Style: "escaped", Escaped: "/zz", Accept: "text/plain", Target: -1}
		rq, _ := q.build()
		_, rec := h.serve(rq)
		if rec.Code == http.StatusNotFound && strings.TrimSpace(rec.Body.String()) == "" {
			return true, fmt.Sprintf("GET /zz with Accept: text/plain: 404, Content-Type %q, empty body", rec.Header().Get("Content-Type"))
		}
		return false, ""
	})

	probe(fSmartDecoded, func() (bool, string) {
		// GET / and GET /{id}, SmartRedirectSlashes; value "/" sent as /%2F
		root := get()
		r := get(seg{kParam, "id"})
		h := newHarness(config{Routes: []route{root, r}, Smart: true})
		q := buildFor(r, map[string]string{"id": "/"}, "escaped", false)
		rq, _ := q.build()
		o, rec := h.serve(rq)
		if o.Calls == 0 && rec.Code == http.StatusMovedPermanently {
			return true, fmt.Sprintf("patterns / and /{id} with SmartRedirectSlashes: GET /%%2F (id=\"/\") is answered 301 Location %q instead of reaching /{id}", rec.Header().Get("Location"))
		}
		return false, ""
	})
}

// FuzzRoute is the native fuzz target (thorough tier): byte-level values at a
// single-segment and a catch-all position of a fixed set of pattern tables,
// judged by the same oracle as the rapid tests.
func FuzzRoute(f *testing.F) {
	tables := [][]route{
		{{Method: "GET", Segs: []seg{{kLit, "a"}, {kParam, "x"}}}},
		{{Method: "GET", Segs: []seg{{kLit, "a"}, {kParam, "x"}, {kCatchAll, "rest"}}}, {Method: "GET", Segs: []seg{{kLit, "a"}, {kLit, "b"}}}},
		{{Method: "POST", Segs: []seg{{kParam, "x"}}}, {Method: "POST", Segs: []seg{{kParam, "y"}, {kParam, "x"}}}, {Method: "POST", Segs: nil}, {Method: "GET", Segs: []seg{{kCatchAll, "rest"}}}},
		{{Method: "GET", Segs: []seg{{kLit, "a"}, {kParam, "x"}, {kLit, "c"}}}, {Method: "GET", Segs: []seg{{kLit, "a"}, {kLit, "b"}, {kParam, "y"}}}, {Method: "GET", Segs: []seg{{kLit, "a"}, {kCatchAll, "rest"}}}, {Method: "PUT", Segs: []seg{{kLit, "a"}, {kCatchAll, "x"}}}},
		{{Method: "GET", Segs: []seg{{kLit, "users"}, {kParam, "x"}}, Slash: true}, {Method: "GET", Segs: []seg{{kLit, "users"}, {kParam, "x"}}}, {Method: "GET", Segs: []seg{{kLit, "users"}, {kParam, "x"}, {kParam, "rest"}}}},
	}
	for _, s := range []string{"b", "%41", "p/q", "é", "a+b c", "", "%", ";,", "日本/%2F"} {
		for i := range tables {
			f.Add(uint8(i), uint8(i*7), s, "k/"+s)
		}
	}
	f.Fuzz(func(t *testing.T, table, flags uint8, v1, v2 string) {
		if !utf8.ValidString(v1) || !utf8.ValidString(v2) {
			t.Skip("values are Unicode text")
		}
		routes := tables[int(table)%len(tables)]
		cfg := config{Routes: routes, NUse: int(flags>>4) % 3, ResolveBefore: flags&8 != 0, Smart: flags&64 != 0}
		if cfg.NUse == 0 {
			cfg.ResolveBefore = false
		}
		if cfg.ResolveBefore && kf.Open(fResolveBefore) {
			cfg.ResolveBefore = false
		}
		h := newHarness(cfg)
		style := []string{"escaped", "server", "goa"}[int(flags&3)%3]
		for ti, r := range routes {
			vals := map[string]string{}
			for _, s := range r.wildcards() {
				switch {
				case s.Kind == kCatchAll:
					vals[s.Text] = v2
				case v1 == "":
					vals[s.Text] = "x" // empty single segment: outside the domain
				default:
					vals[s.Text] = v1
				}
			}
			q := buildFor(r, vals, style, flags&4 != 0)
			q.Target = ti
			msg, vd := runCase(h, q, kf.Open, false)
			if msg != "" {
				t.Fatalf("%s\n  config: %s\n  request: %s", msg, cfg, q)
			}
			if len(vd.Matching) == 0 {
				t.Fatalf("generator/reference bug: %s does not match %s", q, r)
			}
		}
	})
}
