// Package c16 decides property C16: the router dispatches by pattern and
// returns the original path values.
//
// model_test.go holds the model (routes, requests), the reference matcher and
// the oracle shared by the rapid tests, the probes and the native fuzz target.
package c16

import (
	"bytes"
	"encoding/gob"
	"encoding/json"
	"encoding/xml"
	"fmt"
	"mime"
	"net/http"
	"net/http/httptest"
	"net/url"
	"regexp"
	"sort"
	"strings"

	goahttp "goa.design/goa/v3/http"
	goamw "goa.design/goa/v3/http/middleware"

	"verif/internal/stats"
)

// ---------------------------------------------------------------- findings

const (
	// a value holding a literal "%XX" comes back decoded twice when the request
	// URL carries no RawPath
	fDoubleDecode = "C16-percent-lookalike-decoded-twice"
	// ResolvePattern/Vars called by a Use-middleware before routing writes into
	// the live routing context
	fResolveBefore = "C16-resolve-before-routing-corrupts-context"
	// ... and matches on the decoded path while the router uses the raw one
	fResolveDecoded = "C16-resolve-before-routing-uses-decoded-path"
	// pattern registered with a trailing slash is reported without it
	fTrailingSlash = "C16-trailing-slash-pattern-reported-trimmed"
	// 404 for "Accept: text/plain|text/html" has an empty body
	fTextNotFound = "C16-not-found-empty-body-for-text-accept"
	// SmartRedirectSlashes probes the decoded path while the router uses the raw one
	fSmartDecoded = "C16-smart-redirect-uses-decoded-path"
)

// ---------------------------------------------------------------- model

type segKind int

const (
	kLit segKind = iota
	kParam
	kCatchAll
)

type seg struct {
	Kind segKind
	Text string // literal text or wildcard name
}

// route is one registration: Handle(Method, Pattern(), handler).
type route struct {
	Method string
	Segs   []seg
	Slash  bool // pattern ends with "/" (never after a catch-all, never for the root)
}

func (r route) Pattern() string {
	if len(r.Segs) == 0 {
		return "/"
	}
	var b strings.Builder
	for _, s := range r.Segs {
		b.WriteByte('/')
		switch s.Kind {
		case kLit:
			b.WriteString(s.Text)
		case kParam:
			b.WriteString("{" + s.Text + "}")
		case kCatchAll:
			b.WriteString("{*" + s.Text + "}")
		}
	}
	if r.Slash {
		b.WriteByte('/')
	}
	return b.String()
}

func (r route) String() string { return r.Method + " " + r.Pattern() }

func (r route) wildcards() []seg {
	var w []seg
	for _, s := range r.Segs {
		if s.Kind != kLit {
			w = append(w, s)
		}
	}
	return w
}

// config is one muxer set-up.
type config struct {
	Routes        []route
	NUse          int  // number of middlewares registered with Use before the handlers
	ResolveBefore bool // the Use-middlewares call ResolvePattern before calling next, too
	Smart         bool // middleware.SmartRedirectSlashes is the first Use-middleware
}

func (c config) String() string {
	var rs []string
	for _, r := range c.Routes {
		rs = append(rs, r.String())
	}
	return fmt.Sprintf("routes=[%s] use=%d before=%v smart=%v", strings.Join(rs, ", "), c.NUse, c.ResolveBefore, c.Smart)
}

// reqSpec describes how a request is built.
type reqSpec struct {
	Method string
	// Style: "escaped" = http.NewRequest on the escaped string (Path and RawPath
	// set consistently by net/url), "server" = httptest.NewRequest (parsed as a
	// server parses a request line), "goa" = what goa's generated client does:
	// url.URL{Path: <values substituted unescaped>} then http.NewRequest(u.String()).
	Style   string
	Escaped string // escaped path for "escaped"/"server"
	Path    string // decoded path for "goa"
	Accept  string
	// informational
	Target int               // index of the route the path was built from, -1 = free path
	Values map[string]string // values that were substituted
}

func (q reqSpec) String() string {
	p := q.Escaped
	if q.Style == "goa" {
		p = "Path:" + q.Path
	}
	return fmt.Sprintf("%s %s %q accept=%q", q.Method, q.Style, p, q.Accept)
}

const host = "example.com"

func (q reqSpec) build() (*http.Request, error) {
	var rq *http.Request
	var err error
	switch q.Style {
	case "goa":
		u := &url.URL{Scheme: "http", Host: host, Path: q.Path}
		rq, err = http.NewRequest(q.Method, u.String(), nil)
	case "server":
		func() {
			defer func() {
				if r := recover(); r != nil {
					err = fmt.Errorf("httptest.NewRequest: %v", r)
				}
			}()
			rq = httptest.NewRequest(q.Method, q.Escaped, nil)
		}()
	default:
		rq, err = http.NewRequest(q.Method, "http://"+host+q.Escaped, nil)
	}
	if err != nil {
		return nil, err
	}
	if q.Accept != "" {
		rq.Header.Set("Accept", q.Accept)
	}
	return rq, nil
}

// ---------------------------------------------------------------- reference matcher

// rawSegments splits the escaped path the client sent into its segments:
// "/" -> [""], "/a/b" -> ["a","b"], "/a/" -> ["a",""].
func rawSegments(esc string) []string {
	if esc == "" {
		esc = "/"
	}
	return strings.Split(esc[1:], "/")
}

func decode(s string) (string, bool) {
	u, err := url.PathUnescape(s)
	return u, err == nil
}

// matchRoute tells whether the pattern of r matches the raw segments and, if
// so, the text the client placed at each wildcard, percent-decoded.
// Literals are compared verbatim (the domain sends them unescaped), a
// single-segment wildcard takes exactly one non-empty segment, a catch-all
// takes everything after the slash that precedes it (possibly nothing).
func matchRoute(r route, raw []string) (map[string]string, bool) {
	vals := map[string]string{}
	n := len(r.Segs)
	if n == 0 {
		return vals, len(raw) == 1 && raw[0] == ""
	}
	for i, s := range r.Segs {
		if s.Kind == kCatchAll {
			if len(raw) <= i {
				return nil, false
			}
			v, ok := decode(strings.Join(raw[i:], "/"))
			if !ok {
				return nil, false
			}
			vals[s.Text] = v
			return vals, true
		}
		if len(raw) <= i {
			return nil, false
		}
		switch s.Kind {
		case kLit:
			if raw[i] != s.Text {
				return nil, false
			}
		case kParam:
			if raw[i] == "" {
				return nil, false
			}
			v, ok := decode(raw[i])
			if !ok {
				return nil, false
			}
			vals[s.Text] = v
		}
	}
	if r.Slash {
		return vals, len(raw) == n+1 && raw[n] == ""
	}
	return vals, len(raw) == n
}

// ---------------------------------------------------------------- harness

// obs is what one request made observable.
type obs struct {
	UseTrace   []int               // Use-middleware indices in the order they were entered
	BeforePats []string            // ResolvePattern seen by Use-middleware i before next (ResolveBefore only)
	BeforeVars []map[string]string // Vars seen by Use-middleware i before next (ResolveBefore only)
	AfterPats  []string            // ResolvePattern seen by Use-middleware i after next returned
	Calls      int                 // number of handler invocations
	Idx        int                 // route index of the handler that ran
	WrapPat    string              // ResolvePattern seen by the middleware wrapped around the handler
	HandlerPat string              // ResolvePattern seen by the handler
	Vars       map[string]string
}

type harness struct {
	cfg config
	mux goahttp.ResolverMuxer
	cur *obs
}

func newHarness(cfg config) *harness {
	h := &harness{cfg: cfg, mux: goahttp.NewMuxer()}
	if cfg.Smart {
		h.mux.Use(goamw.SmartRedirectSlashes)
	}
	for i := 0; i < cfg.NUse; i++ {
		i := i
		h.mux.Use(func(next http.Handler) http.Handler {
			return http.HandlerFunc(func(w http.ResponseWriter, r *http.Request) {
				o := h.cur
				o.UseTrace = append(o.UseTrace, i)
				if cfg.ResolveBefore {
					o.BeforePats[i] = h.mux.ResolvePattern(r)
					o.BeforeVars[i] = h.mux.Vars(r)
				}
				next.ServeHTTP(w, r)
				o.AfterPats[i] = h.mux.ResolvePattern(r)
			})
		})
	}
	for i, rt := range cfg.Routes {
		i := i
		inner := func(w http.ResponseWriter, r *http.Request) {
			o := h.cur
			o.Calls++
			o.Idx = i
			o.HandlerPat = h.mux.ResolvePattern(r)
			o.Vars = h.mux.Vars(r)
			w.WriteHeader(http.StatusOK)
			_, _ = w.Write([]byte("ok"))
		}
		// middleware applied to the handler itself, the way generated servers
		// wrap their handlers (server.Use) before mounting them
		wrapped := func(w http.ResponseWriter, r *http.Request) {
			h.cur.WrapPat = h.mux.ResolvePattern(r)
			inner(w, r)
		}
		h.mux.Handle(rt.Method, rt.Pattern(), wrapped)
	}
	return h
}

func (h *harness) serve(rq *http.Request) (*obs, *httptest.ResponseRecorder) {
	o := &obs{Idx: -1, BeforePats: make([]string, h.cfg.NUse), BeforeVars: make([]map[string]string, h.cfg.NUse), AfterPats: make([]string, h.cfg.NUse)}
	h.cur = o
	rec := httptest.NewRecorder()
	h.mux.ServeHTTP(rec, rq)
	h.cur = nil
	return o, rec
}

// ---------------------------------------------------------------- oracle

var rePctHex = regexp.MustCompile(`%[0-9A-Fa-f]{2}`)

// verdict describes what the oracle concluded (for the statistics).
type verdict struct {
	Outcome  string // "unique", "multi", "not-found", "other-method", "redirect"
	Matching []int
	Excluded []string // open findings whose class this request falls into
}

func plainPath(esc string) bool {
	for i := 0; i < len(esc); i++ {
		c := esc[i]
		switch {
		case c >= 'a' && c <= 'z', c >= 'A' && c <= 'Z', c >= '0' && c <= '9', c == '/', c == '-', c == '_', c == '.', c == '~':
		default:
			return false
		}
	}
	return true
}

func toggleSlash(esc string) (string, bool) {
	if len(esc) <= 1 {
		return "", false
	}
	if strings.HasSuffix(esc, "/") {
		return esc[:len(esc)-1], true
	}
	return esc + "/", true
}

// verify compares what the muxer did with the reference. open reports whether
// a finding is listed as open: only then is the assertion that the finding
// breaks skipped for requests inside the finding's class. It returns "" or a
// description of the first disagreement.
func verify(cfg config, rq *http.Request, o *obs, rec *httptest.ResponseRecorder, open func(string) bool) (string, verdict) {
	var vd verdict
	excl := func(id string) bool {
		if open(id) {
			vd.Excluded = append(vd.Excluded, id)
			return true
		}
		return false
	}
	esc := rq.URL.EscapedPath()
	if esc == "" {
		esc = "/"
	}
	raw := rawSegments(esc)
	expVals := map[int]map[string]string{}
	anyPath := false
	for i, rt := range cfg.Routes {
		if vals, ok := matchRoute(rt, raw); ok {
			anyPath = true
			if rt.Method == rq.Method {
				vd.Matching = append(vd.Matching, i)
				expVals[i] = vals
			}
		}
	}
	code := rec.Code

	// Use-middlewares: each exactly once, in registration order, around
	// handlers and the not-found handler alike (unless SmartRedirectSlashes,
	// which comes first, answered itself)
	wantTrace := make([]int, 0, cfg.NUse)
	if !(cfg.Smart && code == http.StatusMovedPermanently) {
		for i := 0; i < cfg.NUse; i++ {
			wantTrace = append(wantTrace, i)
		}
	}
	if fmt.Sprint(o.UseTrace) != fmt.Sprint(wantTrace) {
		return fmt.Sprintf("Use-middlewares entered %v, want %v", o.UseTrace, wantTrace), vd
	}

	if len(vd.Matching) > 0 {
		vd.Outcome = "unique"
		if len(vd.Matching) > 1 {
			vd.Outcome = "multi"
		}
		if cfg.Smart && code == http.StatusMovedPermanently && o.Calls == 0 && hasEncodedSlash(esc) && excl(fSmartDecoded) {
			return "", vd
		}
		if o.Calls != 1 {
			return fmt.Sprintf("%d handler calls (status %d), want exactly 1 of routes %v", o.Calls, code, vd.Matching), vd
		}
		if _, ok := expVals[o.Idx]; !ok {
			return fmt.Sprintf("dispatched to route %d (%s) which does not match; matching: %v", o.Idx, cfg.Routes[o.Idx], vd.Matching), vd
		}
		if code != http.StatusOK {
			return fmt.Sprintf("status %d although handler %d ran and wrote 200", code, o.Idx), vd
		}
		// values
		want := expVals[o.Idx]
		got := o.Vars
		if len(got) != len(want) {
			// a different number of keys is never explained by double decoding
			return fmt.Sprintf("Vars=%q want %q (route %s)", got, want, cfg.Routes[o.Idx]), vd
		}
		keys := make([]string, 0, len(want))
		for k := range want {
			keys = append(keys, k)
		}
		sort.Strings(keys)
		for _, k := range keys {
			w := want[k]
			g, ok := got[k]
			if ok && g == w {
				continue
			}
			if ok && rq.URL.RawPath == "" && rePctHex.MatchString(w) && excl(fDoubleDecode) {
				continue
			}
			return fmt.Sprintf("Vars[%q]=%q (present=%v) want %q (route %s, all vars %q)", k, g, ok, w, cfg.Routes[o.Idx], got), vd
		}
		// the same values for a Use-middleware that asks before routing (as
		// goa's own Debug middleware does); when several patterns match, the
		// pre-routing resolution may have picked another matching route
		if cfg.ResolveBefore && len(vd.Matching) == 1 && !(hasEncodedSlash(esc) && excl(fResolveDecoded)) {
			for i := 0; i < cfg.NUse; i++ {
				bv := o.BeforeVars[i]
				if len(bv) != len(want) {
					return fmt.Sprintf("Vars in Use-middleware %d before next = %q, want %q (route %s)", i, bv, want, cfg.Routes[o.Idx]), vd
				}
				for _, k := range keys {
					if g, ok := bv[k]; !ok || g != want[k] {
						if ok && rq.URL.RawPath == "" && rePctHex.MatchString(want[k]) && excl(fDoubleDecode) {
							continue
						}
						return fmt.Sprintf("Vars[%q] in Use-middleware %d before next = %q (present=%v), want %q (route %s)", k, i, g, ok, want[k], cfg.Routes[o.Idx]), vd
					}
				}
			}
		}
		// reported pattern
		wantPat := cfg.Routes[o.Idx].Pattern()
		if !(cfg.Routes[o.Idx].Slash && excl(fTrailingSlash)) {
			if o.HandlerPat != wantPat {
				return fmt.Sprintf("ResolvePattern in handler = %q, registered %q", o.HandlerPat, wantPat), vd
			}
			if o.WrapPat != wantPat {
				return fmt.Sprintf("ResolvePattern in handler-level middleware = %q, registered %q", o.WrapPat, wantPat), vd
			}
			for i := 0; i < cfg.NUse; i++ {
				if o.AfterPats[i] != wantPat {
					return fmt.Sprintf("ResolvePattern in Use-middleware %d after next = %q, registered %q", i, o.AfterPats[i], wantPat), vd
				}
				if cfg.ResolveBefore && o.BeforePats[i] != wantPat {
					if hasEncodedSlash(esc) && excl(fResolveDecoded) {
						continue
					}
					return fmt.Sprintf("ResolvePattern in Use-middleware %d before next = %q, registered %q", i, o.BeforePats[i], wantPat), vd
				}
			}
		}
		return "", vd
	}

	// no (method, pattern) matches
	if o.Calls != 0 {
		return fmt.Sprintf("handler %d (%s) ran although no registered method+pattern matches", o.Idx, cfg.Routes[o.Idx]), vd
	}
	if code == http.StatusMovedPermanently {
		vd.Outcome = "redirect"
		if !cfg.Smart {
			return "301 without SmartRedirectSlashes", vd
		}
		tog, ok := toggleSlash(esc)
		if !ok {
			return "301 for the root path", vd
		}
		if !plainPath(esc) {
			return "", vd // the redirect works on the decoded path: only judged for plain paths
		}
		found := false
		for _, rt := range cfg.Routes {
			if _, ok := matchRoute(rt, rawSegments(tog)); ok && rt.Method == rq.Method {
				found = true
			}
		}
		if !found {
			return fmt.Sprintf("redirected to %q which matches no registered pattern", rec.Header().Get("Location")), vd
		}
		if loc := rec.Header().Get("Location"); loc != "//"+host+tog {
			return fmt.Sprintf("Location %q, want %q", loc, "//"+host+tog), vd
		}
		return "", vd
	}
	if cfg.Smart && plainPath(esc) {
		if tog, ok := toggleSlash(esc); ok {
			for _, rt := range cfg.Routes {
				if n := len(rt.Segs); n > 0 && rt.Segs[n-1].Kind == kCatchAll {
					continue // the doc comment speaks about patterns with/without a trailing slash only
				}
				if _, ok := matchRoute(rt, rawSegments(tog)); ok && rt.Method == rq.Method {
					return fmt.Sprintf("status %d: SmartRedirectSlashes did not redirect to %q although %s matches it", code, tog, rt), vd
				}
			}
		}
	}
	if anyPath {
		vd.Outcome = "other-method"
		if code != http.StatusNotFound && code != http.StatusMethodNotAllowed {
			return fmt.Sprintf("status %d for a path registered under other methods only, want 404 or 405", code), vd
		}
	} else {
		vd.Outcome = "not-found"
		if code != http.StatusNotFound {
			return fmt.Sprintf("status %d for a path matching no pattern, want 404", code), vd
		}
	}
	if code == http.StatusNotFound {
		if msg := checkNotFoundBody(rq.Header.Get("Accept"), rec, excl); msg != "" {
			return msg, vd
		}
	}
	return "", vd
}

func hasEncodedSlash(esc string) bool { return strings.Contains(strings.ToUpper(esc), "%2F") }

func mediaType(s string) string {
	mt, _, err := mime.ParseMediaType(s)
	if err != nil {
		return ""
	}
	return mt
}

// checkNotFoundBody: the 404 body is well formed for the content type the
// response announces, and that type is the one asked for when the Accept
// header names exactly one of the types ResponseEncoder documents.
func checkNotFoundBody(accept string, rec *httptest.ResponseRecorder, excl func(string) bool) string {
	ct := mediaType(rec.Header().Get("Content-Type"))
	if ct == "" {
		return fmt.Sprintf("404 without a parseable Content-Type (%q)", rec.Header().Get("Content-Type"))
	}
	switch a := mediaType(accept); a {
	case "application/json", "application/xml", "application/gob", "text/plain", "text/html":
		if ct != a {
			return fmt.Sprintf("404 Content-Type %q for Accept %q", ct, accept)
		}
	}
	body := rec.Body.Bytes()
	var er goahttp.ErrorResponse
	switch ct {
	case "application/json":
		dec := json.NewDecoder(bytes.NewReader(body))
		dec.DisallowUnknownFields()
		if err := dec.Decode(&er); err != nil {
			return fmt.Sprintf("404 JSON body %q does not decode into ErrorResponse: %v", body, err)
		}
		if dec.More() {
			return fmt.Sprintf("404 JSON body %q has trailing data", body)
		}
	case "application/xml":
		if err := xml.Unmarshal(body, &er); err != nil {
			return fmt.Sprintf("404 XML body %q does not decode into ErrorResponse: %v", body, err)
		}
	case "application/gob":
		if err := gob.NewDecoder(bytes.NewReader(body)).Decode(&er); err != nil {
			return fmt.Sprintf("404 gob body does not decode into ErrorResponse: %v", err)
		}
	case "text/plain", "text/html":
		if len(bytes.TrimSpace(body)) == 0 {
			if excl(fTextNotFound) {
				return ""
			}
			return fmt.Sprintf("404 with Content-Type %q has an empty body", ct)
		}
		return ""
	default:
		return fmt.Sprintf("404 with unexpected Content-Type %q", ct)
	}
	if er.Message == "" || er.Name == "" {
		return fmt.Sprintf("404 error body has no name/message: %+v", er)
	}
	return ""
}

// ---------------------------------------------------------------- case plumbing

// nontrivial implements the rule: a substituted value contains '%', '/', a
// non-ASCII rune or is an empty catch-all, or >= 3 patterns share their first
// segment.
func nontrivial(cfg config, q reqSpec) bool {
	if q.Target >= 0 && q.Target < len(cfg.Routes) {
		for _, s := range cfg.Routes[q.Target].wildcards() {
			v, ok := q.Values[s.Text]
			if !ok {
				continue
			}
			if s.Kind == kCatchAll && v == "" {
				return true
			}
			if strings.ContainsAny(v, "%/") {
				return true
			}
			for _, r := range v {
				if r > 127 {
					return true
				}
			}
		}
	}
	return sharedPrefix(cfg) >= 3
}

// sharedPrefix returns the size of the largest group of patterns with a
// textually identical first segment.
func sharedPrefix(cfg config) int {
	cnt := map[string]int{}
	best := 0
	for _, rt := range cfg.Routes {
		if len(rt.Segs) == 0 {
			continue
		}
		k := fmt.Sprint(rt.Segs[0].Kind, rt.Segs[0].Text)
		cnt[k]++
		if cnt[k] > best {
			best = cnt[k]
		}
	}
	return best
}

func valueClasses(v string, catchAll bool) []string {
	var c []string
	if catchAll && v == "" {
		c = append(c, "value:empty-catch-all")
	}
	if rePctHex.MatchString(v) {
		c = append(c, "value:%XX-lookalike")
	} else if strings.Contains(v, "%") {
		c = append(c, "value:percent")
	}
	if strings.Contains(v, "/") {
		c = append(c, "value:slash")
	}
	if strings.Contains(v, "+") {
		c = append(c, "value:plus")
	}
	if strings.Contains(v, " ") {
		c = append(c, "value:space")
	}
	if strings.ContainsAny(v, ";,") {
		c = append(c, "value:semicolon-comma")
	}
	for _, r := range v {
		if r > 127 {
			c = append(c, "value:non-ascii")
			break
		}
	}
	return c
}

// runCase executes one request against a harness and records statistics.
// It returns the oracle's complaint ("" = fine).
func runCase(h *harness, q reqSpec, open func(string) bool, record bool) (string, verdict) {
	rq, err := q.build()
	if err != nil {
		// never expected: every path is produced by net/url's own escaping
		return fmt.Sprintf("cannot build request %s: %v", q, err), verdict{}
	}
	o, rec := h.serve(rq)
	msg, vd := verify(h.cfg, rq, o, rec, open)
	if record {
		key := h.cfg.String() + "|" + q.String()
		stats.CaseSample(key, nontrivial(h.cfg, q), map[string]any{
			"routes": routeStrings(h.cfg), "use": h.cfg.NUse, "resolve_before": h.cfg.ResolveBefore, "smart_redirect": h.cfg.Smart,
			"method": q.Method, "style": q.Style, "escaped_path": rq.URL.EscapedPath(), "raw_path_set": rq.URL.RawPath != "",
			"values": q.Values, "accept": q.Accept, "outcome": vd.Outcome, "status": rec.Code,
		})
		stats.Class("outcome:" + vd.Outcome)
		stats.Class("style:" + q.Style)
		if rq.URL.RawPath != "" {
			stats.Class("request:RawPath-set")
		}
		if q.Target >= 0 {
			for _, s := range h.cfg.Routes[q.Target].wildcards() {
				for _, c := range valueClasses(q.Values[s.Text], s.Kind == kCatchAll) {
					stats.Class(c)
				}
			}
		}
		if rec.Code == http.StatusNotFound {
			stats.Class("404-content-type:" + mediaType(rec.Header().Get("Content-Type")))
		}
		for _, id := range vd.Excluded {
			stats.Excluded(id)
		}
	}
	return msg, vd
}

func routeStrings(cfg config) []string {
	var rs []string
	for _, r := range cfg.Routes {
		rs = append(rs, r.String())
	}
	return rs
}
