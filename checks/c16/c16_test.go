package c16

import (
	"fmt"
	"net/url"
	"os"
	"strings"
	"testing"
	"unicode/utf8"

	"pgregory.net/rapid"

	"verif/internal/kf"
	"verif/internal/stats"
)

func TestMain(m *testing.M) { stats.Main(m) }

// ---------------------------------------------------------------- generators

var (
	methodPool = []string{"GET", "POST", "PUT", "DELETE", "PATCH", "HEAD", "OPTIONS"}
	litPool    = []string{"a", "b", "users", "v1", "a.b", "x-y", "A", "posts", "_m", "1"}
	namePool   = []string{"id", "x", "y", "name", "file", "p1", "X_2", "rest"}
	acceptPool = []string{"", "", "application/json", "application/xml", "application/gob", "application/json; charset=utf-8",
		"*/*", "text/html,application/xhtml+xml,application/xml;q=0.9,*/*;q=0.8", "application/vnd.api+json", "text/plain", "text/html", "bogus",
		// the same types as clients really send them: parameters, quality values, other case
		"text/plain; charset=utf-8", "text/html;q=0.9", "Text/Plain", "TEXT/HTML; charset=UTF-8", "application/xml; q=0.5", "Application/JSON", "application/gob;v=1"}
	// building blocks of wildcard values: percent look-alikes, reserved
	// characters, things PathEscape and the default path encoding treat
	// differently (';' ',' '/'), non-ASCII text, and plain text that collides
	// with the literal pool
	tokenPool = []string{"%41", "%2F", "%2f", "%25", "%", "%%", "%zz", "%4", "%00", "%C3%A9", "/", "/", "+", " ", ",", ";",
		"é", "日本", "😀", "ü", " ", "?", "#", "&", "=", ":", "@", "a", "b", "v1", "users", ".", "..", "~", "*", "{x}", "\\", "\"", "-", "_", "A", "x", "\x00", "\n"}
)

func genValue(t *rapid.T, catchAll bool, label string) string {
	if catchAll && rapid.IntRange(0, 6).Draw(t, label+"-empty") == 0 {
		return ""
	}
	var v string
	if rapid.IntRange(0, 5).Draw(t, label+"-free") == 0 {
		v = rapid.StringN(0, 8, -1).Draw(t, label+"-str")
	} else {
		n := rapid.IntRange(1, 4).Draw(t, label+"-n")
		for i := 0; i < n; i++ {
			v += rapid.SampledFrom(tokenPool).Draw(t, label+"-tok")
		}
	}
	if !utf8.ValidString(v) {
		v = strings.ToValidUTF8(v, "�")
	}
	if v == "" && !catchAll {
		v = "x" // an empty single segment cannot be routed (HTTP fact): outside the domain
	}
	return v
}

func genRoute(t *rapid.T, methods, lits []string, allowSlash bool) route {
	r := route{Method: rapid.SampledFrom(methods).Draw(t, "method")}
	n := rapid.IntRange(0, 4).Draw(t, "nseg")
	names := append([]string(nil), namePool...)
	takeName := func() string {
		i := rapid.IntRange(0, len(names)-1).Draw(t, "name")
		nm := names[i]
		names = append(names[:i], names[i+1:]...)
		return nm
	}
	for i := 0; i < n; i++ {
		k := rapid.IntRange(0, 9).Draw(t, "kind")
		switch {
		case i == n-1 && k >= 7:
			r.Segs = append(r.Segs, seg{kCatchAll, takeName()})
		case k >= 5:
			r.Segs = append(r.Segs, seg{kParam, takeName()})
		default:
			r.Segs = append(r.Segs, seg{kLit, rapid.SampledFrom(lits).Draw(t, "lit")})
		}
	}
	if allowSlash && n > 0 && r.Segs[n-1].Kind != kCatchAll && rapid.IntRange(0, 7).Draw(t, "slash") == 0 {
		r.Slash = true
	}
	return r
}

// twin copies a route under another method with renamed wildcards: the same
// path shape registered twice is where per-method tables can get mixed up.
func twin(t *rapid.T, r route, methods []string) route {
	tw := route{Method: rapid.SampledFrom(methods).Draw(t, "twin-method"), Slash: r.Slash}
	used := map[string]bool{}
	for _, s := range r.Segs {
		if s.Kind == kLit {
			tw.Segs = append(tw.Segs, s)
			continue
		}
		var nm string
		for {
			nm = rapid.SampledFrom(namePool).Draw(t, "twin-name")
			if !used[nm] {
				break
			}
		}
		used[nm] = true
		tw.Segs = append(tw.Segs, seg{s.Kind, nm})
	}
	return tw
}

func genConfig(t *rapid.T) config {
	nm := rapid.IntRange(1, 3).Draw(t, "nmethods")
	var methods []string
	for i := 0; i < nm; i++ {
		methods = append(methods, rapid.SampledFrom(methodPool).Draw(t, "mpool"))
	}
	nl := rapid.IntRange(1, 3).Draw(t, "nlits")
	var lits []string
	for i := 0; i < nl; i++ {
		lits = append(lits, rapid.SampledFrom(litPool).Draw(t, "lpool"))
	}
	allowSlash := rapid.IntRange(0, 3).Draw(t, "slashes") == 0
	n := rapid.IntRange(1, 6).Draw(t, "nroutes")
	cfg := config{}
	for len(cfg.Routes) < n {
		if len(cfg.Routes) > 0 && rapid.IntRange(0, 3).Draw(t, "twin") == 0 {
			src := cfg.Routes[rapid.IntRange(0, len(cfg.Routes)-1).Draw(t, "twin-of")]
			cfg.Routes = append(cfg.Routes, twin(t, src, methods))
			stats.Class("config:twin-route")
			continue
		}
		cfg.Routes = append(cfg.Routes, genRoute(t, methods, lits, allowSlash))
	}
	cfg.NUse = rapid.IntRange(0, 3).Draw(t, "nuse")
	if cfg.NUse > 0 {
		cfg.ResolveBefore = rapid.Bool().Draw(t, "resolveBefore")
	}
	cfg.Smart = rapid.IntRange(0, 3).Draw(t, "smart") == 0
	return cfg
}

// interiorEmpty reports an empty segment that is not the last one.
func interiorEmpty(parts []string) bool {
	for i := 0; i < len(parts)-1; i++ {
		if parts[i] == "" {
			return true
		}
	}
	return false
}

// buildFor builds a request for route r with the given values, in the given
// style ("escaped", "server", "goa"). catchWhole: escape the catch-all value
// as one piece (its slashes become %2F) instead of segment by segment. The
// style falls back to "escaped" (and whole-value escaping) where the other
// form would place an empty or split segment in the path.
func buildFor(r route, vals map[string]string, style string, catchWhole bool) reqSpec {
	q := reqSpec{Method: r.Method, Style: style, Values: vals}
	for _, s := range r.Segs {
		v := vals[s.Text]
		if s.Kind == kParam && strings.Contains(v, "/") && style == "goa" {
			q.Style = "escaped" // goa's client would send two segments (C02 finding): not this property
		}
		if s.Kind == kCatchAll && interiorEmpty(strings.Split(v, "/")) {
			catchWhole = true
			if style == "goa" {
				q.Style = "escaped"
			}
		}
	}
	var esc, dec strings.Builder
	for _, s := range r.Segs {
		esc.WriteByte('/')
		dec.WriteByte('/')
		v := vals[s.Text]
		switch s.Kind {
		case kLit:
			esc.WriteString(s.Text)
			dec.WriteString(s.Text)
		case kParam:
			esc.WriteString(url.PathEscape(v))
			dec.WriteString(v)
		case kCatchAll:
			dec.WriteString(v)
			if catchWhole {
				esc.WriteString(url.PathEscape(v))
			} else {
				parts := strings.Split(v, "/")
				for i, p := range parts {
					if i > 0 {
						esc.WriteByte('/')
					}
					esc.WriteString(url.PathEscape(p))
				}
			}
		}
	}
	if r.Slash || len(r.Segs) == 0 {
		esc.WriteByte('/')
		dec.WriteByte('/')
	}
	q.Escaped, q.Path = esc.String(), dec.String()
	return q
}

func genValues(t *rapid.T, r route) map[string]string {
	vals := map[string]string{}
	for _, s := range r.wildcards() {
		vals[s.Text] = genValue(t, s.Kind == kCatchAll, "val")
	}
	return vals
}

var stylePool = []string{"escaped", "escaped", "server", "goa", "goa"}

func genRequest(t *rapid.T, cfg config) reqSpec {
	var q reqSpec
	mode := rapid.IntRange(0, 9).Draw(t, "mode")
	switch {
	case mode <= 6: // substitute values into a registered pattern
		ti := rapid.IntRange(0, len(cfg.Routes)-1).Draw(t, "target")
		r := cfg.Routes[ti]
		q = buildFor(r, genValues(t, r), rapid.SampledFrom(stylePool).Draw(t, "style"), rapid.Bool().Draw(t, "catchWhole"))
		q.Target = ti
		if mode == 6 { // near miss: same path, small change
			q.Style = "escaped"
			switch rapid.IntRange(0, 2).Draw(t, "miss") {
			case 0:
				if !strings.HasSuffix(q.Escaped, "/") {
					q.Escaped += "/" + rapid.SampledFrom(litPool).Draw(t, "extra")
				}
			case 1:
				if i := strings.LastIndex(q.Escaped, "/"); i > 0 {
					q.Escaped = q.Escaped[:i]
				}
			default:
				if tog, ok := toggleSlash(q.Escaped); ok {
					q.Escaped = tog
				}
			}
			q.Target = -1
			q.Values = nil
			stats.Class("request:near-miss")
		}
	default: // free path
		n := rapid.IntRange(0, 4).Draw(t, "free-n")
		var b strings.Builder
		for i := 0; i < n; i++ {
			b.WriteByte('/')
			if rapid.IntRange(0, 3).Draw(t, "free-kind") == 0 {
				b.WriteString(url.PathEscape(genValue(t, false, "free-val")))
			} else {
				b.WriteString(rapid.SampledFrom(litPool).Draw(t, "free-lit"))
			}
		}
		if n == 0 || rapid.IntRange(0, 4).Draw(t, "free-slash") == 0 {
			b.WriteByte('/')
		}
		q = reqSpec{Style: rapid.SampledFrom([]string{"escaped", "server"}).Draw(t, "free-style"), Escaped: b.String(), Target: -1}
		q.Method = rapid.SampledFrom(methodPool).Draw(t, "free-method")
		stats.Class("request:free-path")
	}
	if rapid.IntRange(0, 5).Draw(t, "other-method") == 0 {
		q.Method = rapid.SampledFrom(methodPool).Draw(t, "method2")
	}
	q.Accept = rapid.SampledFrom(acceptPool).Draw(t, "accept")
	return q
}

// ---------------------------------------------------------------- main search

// applyOpenFindings steers a configuration away from classes excluded by
// construction (findings listed as open).
func applyOpenFindings(cfg *config) {
	if cfg.ResolveBefore && kf.Open(fResolveBefore) {
		cfg.ResolveBefore = false
		stats.Excluded(fResolveBefore)
	}
}

func configClasses(cfg config) {
	stats.Class(fmt.Sprintf("config:routes=%d", len(cfg.Routes)))
	stats.Class(fmt.Sprintf("config:use=%d", cfg.NUse))
	if cfg.ResolveBefore {
		stats.Class("config:resolve-before-next")
	}
	if cfg.Smart {
		stats.Class("config:smart-redirect")
	}
	if sharedPrefix(cfg) >= 3 {
		stats.Class("config:>=3-shared-prefix")
	}
	for _, r := range cfg.Routes {
		if r.Slash {
			stats.Class("config:trailing-slash-pattern")
			break
		}
	}
	for _, r := range cfg.Routes {
		if n := len(r.Segs); n > 0 && r.Segs[n-1].Kind == kCatchAll {
			stats.Class("config:has-catch-all")
			break
		}
	}
}

// TestDispatch: random pattern sets and middleware set-ups; several requests
// against the same muxer (built by substitution, near misses and free paths);
// each compared with the reference matcher.
func TestDispatch(t *testing.T) {
	rapid.Check(t, func(t *rapid.T) {
		cfg := genConfig(t)
		applyOpenFindings(&cfg)
		configClasses(cfg)
		h := newHarness(cfg)
		n := rapid.IntRange(1, 4).Draw(t, "nreq")
		for i := 0; i < n; i++ {
			q := genRequest(t, cfg)
			if msg, _ := runCase(h, q, kf.Open, true); msg != "" {
				t.Fatalf("%s\n  config: %s\n  request: %s", msg, cfg, q)
			}
		}
	})
}

// TestRoundTrip: one pattern, heavy values, the same values sent in every
// style that can carry them: capture must be the inverse of construction.
func TestRoundTrip(t *testing.T) {
	rapid.Check(t, func(t *rapid.T) {
		var r route
		for {
			r = genRoute(t, []string{rapid.SampledFrom(methodPool).Draw(t, "m")}, litPool[:3], true)
			if len(r.wildcards()) > 0 {
				break
			}
		}
		cfg := config{Routes: []route{r}, NUse: rapid.IntRange(0, 1).Draw(t, "nuse")}
		h := newHarness(cfg)
		vals := genValues(t, r)
		seen := map[string]bool{}
		for _, style := range []string{"escaped", "server", "goa"} {
			for _, whole := range []bool{false, true} {
				q := buildFor(r, vals, style, whole)
				q.Target = 0
				k := q.String()
				if seen[k] {
					continue
				}
				seen[k] = true
				msg, vd := runCase(h, q, kf.Open, true)
				if msg != "" {
					t.Fatalf("%s\n  config: %s\n  request: %s", msg, cfg, q)
				}
				if len(vd.Matching) != 1 {
					t.Fatalf("generator/reference bug: a URL built from %s does not match it (%v): %s", r, vd.Matching, q)
				}
			}
		}
	})
}

// TestValueTable enumerates every building block of the value generator (and
// every ordered pair with a RawPath-forcing partner) at a single-segment and
// at a catch-all position, in all styles.
func TestValueTable(t *testing.T) {
	if os.Getenv("VERIF_PROBE_ONLY") != "" {
		t.Skip()
	}
	single := route{Method: "GET", Segs: []seg{{kLit, "a"}, {kParam, "x"}, {kLit, "b"}}}
	catch := route{Method: "GET", Segs: []seg{{kLit, "a"}, {kParam, "x"}, {kCatchAll, "rest"}}}
	cfg := config{Routes: []route{single, catch}, NUse: 1}
	h := newHarness(cfg)
	var values []string
	for _, a := range tokenPool {
		values = append(values, a)
		for _, b := range []string{",", "/", "%41", "+", "é"} {
			values = append(values, a+b, b+a)
		}
	}
	for _, v := range values {
		if v == "" {
			continue
		}
		for ti, r := range cfg.Routes {
			vals := map[string]string{"x": v}
			if ti == 1 {
				vals = map[string]string{"x": "k", "rest": v}
			}
			for _, style := range []string{"escaped", "server", "goa"} {
				for _, whole := range []bool{false, true} {
					q := buildFor(r, vals, style, whole)
					q.Target = ti
					msg, vd := runCase(h, q, kf.Open, true)
					if msg != "" {
						t.Errorf("%s\n  config: %s\n  request: %s", msg, cfg, q)
					}
					if len(vd.Matching) == 0 {
						t.Errorf("generator/reference bug: %s does not match %s", q, r)
					}
				}
			}
		}
	}
	// empty catch-all
	q := buildFor(catch, map[string]string{"x": "k", "rest": ""}, "escaped", false)
	q.Target = 1
	if msg, _ := runCase(h, q, kf.Open, true); msg != "" {
		t.Errorf("%s\n  request: %s", msg, q)
	}
	stats.Exhaustive("value building blocks (and pairs with ',' '/' '%41' '+' 'é') x {single-segment, catch-all} x {escaped, server, goa-client} x {catch-all escaped whole, per segment}")
}
