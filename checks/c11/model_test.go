// Package c11 decides property C11: DSL evaluation runs in four global phases
// and in dependency order.
//
// The check registers instrumented roots (eval.Root) whose expressions
// implement arbitrary subsets of eval.Source / Preparer / Validator /
// Finalizer, runs the real eval.RunDSL and judges the recorded callback trace
// and the returned error. It never imports goa's expr or dsl packages (their
// init functions register roots).
package c11

import (
	"encoding/json"
	"errors"
	"fmt"
	"sort"
	"strings"

	"goa.design/goa/v3/eval"

	"verif/internal/kf"
	"verif/internal/stats"
)

const (
	findingLateRoot = "C11-root-registered-during-dsl-never-executed"
	findingSameSet  = "C11-same-set-append-dsl-not-run"
)

// ---------------------------------------------------------------- case model

// exprSpec describes one expression: which engine interfaces it implements
// and what its DSL / Validate do.
type exprSpec struct {
	ID      int      `json:"id"`
	Src     bool     `json:"src,omitempty"`  // implements eval.Source
	Prep    bool     `json:"prep,omitempty"` // implements eval.Preparer
	Val     bool     `json:"val,omitempty"`  // implements eval.Validator
	Fin     bool     `json:"fin,omitempty"`  // implements eval.Finalizer
	NilDSL  bool     `json:"nil_dsl,omitempty"`
	Actions []action `json:"actions,omitempty"` // performed by the DSL function, in order
	// ValErrs: number of validation errors Validate returns: 0 nil, 1 a plain
	// error, >= 2 an *eval.ValidationErrors holding that many.
	ValErrs int `json:"val_errs,omitempty"`
	// PrepReport: Prepare reports an error through the evaluation context
	// instead of returning one (it has no return value): 1 eval.ReportError,
	// 2 a nested eval.Execute whose DSL calls eval.ReportError.
	// ValReport: Validate calls eval.ReportError (and returns what ValErrs says).
	PrepReport int  `json:"prep_report,omitempty"`
	ValReport  bool `json:"val_report,omitempty"`
}

// action is one thing a DSL function does while it executes.
type action struct {
	// Kind: "error" (eval.ReportError), "add-later" (append Child to a later
	// set of the same root), "add-same" (append Child to the set being
	// executed), "new-root" (eval.Register(Root)).
	Kind  string    `json:"kind"`
	N     int       `json:"n,omitempty"` // add-later: how many sets further (>= 1)
	Child *exprSpec `json:"child,omitempty"`
	Root  *rootSpec `json:"root,omitempty"`
}

// rootSpec describes one root.
type rootSpec struct {
	Name string `json:"name"`
	// Deps lists names of roots this root depends on. In a root registered
	// during execution the name "$self" stands for the root of the expression
	// that registers it.
	Deps []string `json:"deps,omitempty"`
	// Sets: expression sets handed to the engine in order; a nil entry is a
	// nil expression in the set.
	Sets [][]*exprSpec `json:"sets"`
	// CB: the root itself implements Preparer, Validator and Finalizer.
	CB     bool `json:"cb,omitempty"`
	ValErr bool `json:"val_err,omitempty"` // the root's own Validate returns an error
	// Batch (roots registered during execution): 1 when an expression of an
	// initially registered root registers it, k+1 when an expression of a
	// batch-k root does.
	Batch int `json:"batch,omitempty"`
}

// caseSpec is the order-independent part of a case.
type caseSpec struct {
	Roots []*rootSpec `json:"roots"`
}

func (c *caseSpec) json() string {
	b, err := json.Marshal(c)
	if err != nil {
		panic(err)
	}
	return string(b)
}

// ---------------------------------------------------------------- graph facts

// closure returns, for every root name of the initial graph, the set of names
// reachable through one or more dependency edges.
func closure(roots []*rootSpec) map[string]map[string]bool {
	direct := map[string][]string{}
	for _, r := range roots {
		direct[r.Name] = r.Deps
	}
	out := map[string]map[string]bool{}
	for _, r := range roots {
		reach := map[string]bool{}
		var visit func(string)
		visit = func(n string) {
			for _, d := range direct[n] {
				if !reach[d] {
					reach[d] = true
					visit(d)
				}
			}
		}
		visit(r.Name)
		out[r.Name] = reach
	}
	return out
}

// cyclic reports whether the initial dependency graph has a cycle.
func cyclic(roots []*rootSpec) bool {
	for n, reach := range closure(roots) {
		if reach[n] {
			return true
		}
	}
	return false
}

// sharedOrTransitive implements the graph half of the non-triviality rule:
// some root is a dependency of two other roots, or there is a dependency path
// of length >= 2.
func sharedOrTransitive(roots []*rootSpec) bool {
	indeg := map[string]int{}
	direct := map[string][]string{}
	for _, r := range roots {
		direct[r.Name] = r.Deps
		for _, d := range r.Deps {
			indeg[d]++
			if indeg[d] >= 2 {
				return true
			}
		}
	}
	for _, r := range roots {
		for _, d := range r.Deps {
			if len(direct[d]) > 0 {
				return true
			}
		}
	}
	return false
}

// behaviourFacts scans the spec tree (static view) for late registrations,
// appends and errors.
type facts struct {
	dslErr, valErr, addLater, addSame, newRoot, nilDSL, nilEntry, valMulti, rootCB, phaseReport bool
}

func (f *facts) scanExpr(e *exprSpec) {
	if e == nil {
		f.nilEntry = true
		return
	}
	if e.Src && e.NilDSL {
		f.nilDSL = true
	}
	if (e.Prep && e.PrepReport > 0) || (e.Val && e.ValReport) {
		f.valErr = true
		f.phaseReport = true
	}
	if e.Val && e.ValErrs > 0 {
		f.valErr = true
		if e.ValErrs > 1 {
			f.valMulti = true
		}
	}
	if !e.Src || e.NilDSL {
		return
	}
	for _, a := range e.Actions {
		switch a.Kind {
		case "error":
			f.dslErr = true
		case "add-later":
			f.addLater = true
			f.scanExpr(a.Child)
		case "add-same":
			f.addSame = true
			f.scanExpr(a.Child)
		case "new-root":
			f.newRoot = true
			f.scanRoot(a.Root)
		}
	}
}

func (f *facts) scanRoot(r *rootSpec) {
	if r.CB {
		f.rootCB = true
		if r.ValErr {
			f.valErr = true
		}
	}
	for _, s := range r.Sets {
		for _, e := range s {
			f.scanExpr(e)
		}
	}
}

func scan(c *caseSpec) facts {
	var f facts
	for _, r := range c.Roots {
		f.scanRoot(r)
	}
	return f
}

// nontrivial is the rule stated in DESIGN.md: graph with a shared or
// transitive dependency, or any late registration/append, or any error.
func nontrivial(c *caseSpec) bool {
	f := scan(c)
	return sharedOrTransitive(c.Roots) || cyclic(c.Roots) || f.dslErr || f.valErr || f.addLater || f.addSame || f.newRoot
}

// ---------------------------------------------------------------- runtime objects

type event struct {
	Phase byte   // 'D', 'P', 'V', 'F'
	Expr  int    // expression id, -1 for a callback of the root itself
	Root  string // root the expression belongs to
}

func (e event) String() string { return fmt.Sprintf("%c:%s/%d", e.Phase, e.Root, e.Expr) }

// run is the state of one execution of a case under one registration order.
type run struct {
	trace    []event
	reported []string          // tokens of the DSL errors reported, in order
	phaseRep []string          // tokens of the errors reported through the context by Prepare / Validate
	valRet   map[string]string // token of each validation error returned -> EvalName of the expression
	roots    []*tRoot          // every root object registered (initial and late), registration order
	byName   map[string]*tRoot
	problems []string // things the harness itself saw go wrong (e.g. Register failed)
}

type node struct {
	spec      *exprSpec
	run       *run
	root      *tRoot
	set       int
	addedSame bool // appended to its set while that set was being executed
}

func (n *node) self() *node      { return n }
func (n *node) EvalName() string { return fmt.Sprintf("expr%d", n.spec.ID) }

type hasNode interface{ self() *node }

func (n *node) dsl() func() {
	if n.spec.NilDSL {
		return nil
	}
	return func() {
		r := n.run
		r.trace = append(r.trace, event{'D', n.spec.ID, n.root.name})
		for i, a := range n.spec.Actions {
			switch a.Kind {
			case "error":
				tok := fmt.Sprintf("dslerr<%d.%d>", n.spec.ID, i)
				r.reported = append(r.reported, tok)
				eval.ReportError("%s", tok)
			case "add-later":
				n.root.appendTo(n.set+a.N, a.Child, false)
			case "add-same":
				n.root.appendTo(n.set, a.Child, true)
			case "new-root":
				nr := r.newRoot(a.Root, n.root.name, true)
				if err := eval.Register(nr.reg); err != nil {
					r.problems = append(r.problems, "eval.Register of a new root failed: "+err.Error())
				}
			}
		}
	}
}

func (n *node) prepare() {
	n.run.trace = append(n.run.trace, event{'P', n.spec.ID, n.root.name})
	switch n.spec.PrepReport {
	case 1:
		tok := fmt.Sprintf("preperr<%d>", n.spec.ID)
		n.run.phaseRep = append(n.run.phaseRep, tok)
		eval.ReportError("%s", tok)
	case 2:
		tok := fmt.Sprintf("prepexec<%d>", n.spec.ID)
		n.run.phaseRep = append(n.run.phaseRep, tok)
		if eval.Execute(func() { eval.ReportError("%s", tok) }, n) {
			n.run.problems = append(n.run.problems, "eval.Execute returned true although its DSL reported an error")
		}
	}
}

func (n *node) finalize() {
	n.run.trace = append(n.run.trace, event{'F', n.spec.ID, n.root.name})
}

func (n *node) validate(self eval.Expression) error {
	n.run.trace = append(n.run.trace, event{'V', n.spec.ID, n.root.name})
	if n.spec.ValReport {
		tok := fmt.Sprintf("valctx<%d>", n.spec.ID)
		n.run.phaseRep = append(n.run.phaseRep, tok)
		eval.ReportError("%s", tok)
	}
	switch k := n.spec.ValErrs; {
	case k <= 0:
		return nil
	case k == 1:
		tok := fmt.Sprintf("valerr<%d.0>", n.spec.ID)
		n.run.valRet[tok] = n.EvalName()
		return errors.New(tok)
	default:
		ve := &eval.ValidationErrors{}
		for i := 0; i < k; i++ {
			tok := fmt.Sprintf("valerr<%d.%d>", n.spec.ID, i)
			n.run.valRet[tok] = n.EvalName()
			ve.Add(self, "%s", tok)
		}
		return ve
	}
}

// mixins: one per engine interface
type sM struct{ sn *node }
type pM struct{ pn *node }
type vM struct{ vn *node }
type fM struct{ fn *node }

func (m sM) DSL() func() { return m.sn.dsl() }
func (m pM) Prepare()    { m.pn.prepare() }
func (m fM) Finalize()   { m.fn.finalize() }

// the 16 expression types: every subset of {Source, Preparer, Validator, Finalizer}
type (
	x0 struct{ *node }
	x1 struct {
		*node
		sM
	}
	x2 struct {
		*node
		pM
	}
	x3 struct {
		*node
		sM
		pM
	}
	x4 struct {
		*node
		vM
	}
	x5 struct {
		*node
		sM
		vM
	}
	x6 struct {
		*node
		pM
		vM
	}
	x7 struct {
		*node
		sM
		pM
		vM
	}
	x8 struct {
		*node
		fM
	}
	x9 struct {
		*node
		sM
		fM
	}
	x10 struct {
		*node
		pM
		fM
	}
	x11 struct {
		*node
		sM
		pM
		fM
	}
	x12 struct {
		*node
		vM
		fM
	}
	x13 struct {
		*node
		sM
		vM
		fM
	}
	x14 struct {
		*node
		pM
		vM
		fM
	}
	x15 struct {
		*node
		sM
		pM
		vM
		fM
	}
)

// Validate needs the expression value itself (ValidationErrors.Add records
// it), so it is defined on the concrete types.
func (x x4) Validate() error  { return x.vn.validate(x) }
func (x x5) Validate() error  { return x.vn.validate(x) }
func (x x6) Validate() error  { return x.vn.validate(x) }
func (x x7) Validate() error  { return x.vn.validate(x) }
func (x x12) Validate() error { return x.vn.validate(x) }
func (x x13) Validate() error { return x.vn.validate(x) }
func (x x14) Validate() error { return x.vn.validate(x) }
func (x x15) Validate() error { return x.vn.validate(x) }

func (n *node) wrap() eval.Expression {
	s, p, v, f := sM{n}, pM{n}, vM{n}, fM{n}
	mask := 0
	if n.spec.Src {
		mask |= 1
	}
	if n.spec.Prep {
		mask |= 2
	}
	if n.spec.Val {
		mask |= 4
	}
	if n.spec.Fin {
		mask |= 8
	}
	switch mask {
	case 0:
		return x0{n}
	case 1:
		return x1{n, s}
	case 2:
		return x2{n, p}
	case 3:
		return x3{n, s, p}
	case 4:
		return x4{n, v}
	case 5:
		return x5{n, s, v}
	case 6:
		return x6{n, p, v}
	case 7:
		return x7{n, s, p, v}
	case 8:
		return x8{n, f}
	case 9:
		return x9{n, s, f}
	case 10:
		return x10{n, p, f}
	case 11:
		return x11{n, s, p, f}
	case 12:
		return x12{n, v, f}
	case 13:
		return x13{n, s, v, f}
	case 14:
		return x14{n, p, v, f}
	default:
		return x15{n, s, p, v, f}
	}
}

// tRoot is an instrumented root. Its WalkSets follows the pattern of
// eval/doc.go (hand the slice held in a field to the iterator) and, like
// goa's own root, reads every set only when its turn comes, so that a set
// appended to by an earlier set is seen with its new content.
type tRoot struct {
	run  *run
	spec *rootSpec
	name string
	deps []string // resolved names
	sets []eval.ExpressionSet
	late bool      // registered while the DSL was executing
	reg  eval.Root // the value handed to eval.Register (tRoot or tRootCB)
}

func (r *tRoot) EvalName() string { return r.name }

func (r *tRoot) WalkSets(it eval.SetWalker) {
	for i := 0; i < len(r.sets); i++ {
		it(r.sets[i])
	}
}

func (r *tRoot) DependsOn() []eval.Root {
	var out []eval.Root
	for _, d := range r.deps {
		if o, ok := r.run.byName[d]; ok {
			out = append(out, o.reg)
		}
	}
	return out
}

func (r *tRoot) Packages() []string { return []string{"verif/checks/c11/" + r.name} }

func (r *tRoot) appendTo(set int, child *exprSpec, same bool) {
	for set >= len(r.sets) {
		r.sets = append(r.sets, nil)
	}
	n := &node{spec: child, run: r.run, root: r, set: set, addedSame: same}
	r.sets[set] = append(r.sets[set], n.wrap())
}

// tRootCB is a root that is itself a Preparer, Validator and Finalizer.
type tRootCB struct{ *tRoot }

func (r tRootCB) Prepare() {
	r.run.trace = append(r.run.trace, event{'P', -1, r.name})
}
func (r tRootCB) Finalize() {
	r.run.trace = append(r.run.trace, event{'F', -1, r.name})
}
func (r tRootCB) Validate() error {
	r.run.trace = append(r.run.trace, event{'V', -1, r.name})
	if r.spec.ValErr {
		tok := fmt.Sprintf("valerr<root %s>", r.name)
		r.run.valRet[tok] = r.name
		return errors.New(tok)
	}
	return nil
}

func (r *run) newRoot(spec *rootSpec, registrar string, late bool) *tRoot {
	t := &tRoot{run: r, spec: spec, name: spec.Name, late: late}
	for _, d := range spec.Deps {
		if d == "$self" {
			d = registrar
		}
		dup := false
		for _, o := range t.deps {
			dup = dup || o == d
		}
		if !dup {
			t.deps = append(t.deps, d)
		}
	}
	if spec.CB {
		t.reg = tRootCB{t}
	} else {
		t.reg = t
	}
	for i, s := range spec.Sets {
		t.sets = append(t.sets, nil)
		for _, e := range s {
			if e == nil {
				t.sets[i] = append(t.sets[i], nil)
				continue
			}
			n := &node{spec: e, run: r, root: t, set: i}
			t.sets[i] = append(t.sets[i], n.wrap())
		}
	}
	r.roots = append(r.roots, t)
	r.byName[t.name] = t
	return t
}

// ---------------------------------------------------------------- execution

// outcome is what one execution produced, reduced to what must not depend on
// the registration order.
type outcome struct {
	Kind   string   // "ok", "cycle", "dsl-errors", "validation-errors"
	Events []string // sorted multiset of "phase:expr" callbacks
	Errors []string // sorted tokens of the errors returned
}

func (o outcome) String() string {
	return fmt.Sprintf("%s events=%v errors=%v", o.Kind, o.Events, o.Errors)
}

// hook, when set, receives the raw state of an execution (used by the probes).
var hook func(*run)

// execute runs the case with the given registration order against the real
// engine and judges it. It returns the order-independent outcome and a
// description of the first violated invariant ("" if none).
func execute(c *caseSpec, order []int) (outcome, string) {
	eval.Reset()
	if rs, err := eval.Context.Roots(); err != nil || len(rs) != 0 {
		return outcome{}, fmt.Sprintf("HARNESS: roots registered after eval.Reset(): %v %v", rs, err)
	}
	r := &run{byName: map[string]*tRoot{}, valRet: map[string]string{}}
	objs := make([]*tRoot, len(c.Roots))
	for i, rs := range c.Roots {
		objs[i] = r.newRoot(rs, "", false)
	}
	// r.roots must list roots in registration order
	r.roots = r.roots[:0]
	for _, i := range order {
		if err := eval.Register(objs[i].reg); err != nil {
			return outcome{}, "HARNESS: eval.Register failed: " + err.Error()
		}
		r.roots = append(r.roots, objs[i])
	}
	isCyclic := cyclic(c.Roots)
	clos := closure(c.Roots)

	// Context.Roots: a cycle is an error; otherwise every registered root
	// exactly once with everything it depends on before it.
	sorted, rerr := eval.Context.Roots()
	if isCyclic {
		if rerr == nil {
			return outcome{}, fmt.Sprintf("Context.Roots() reports no error for a cyclic dependency graph (order it returned: %s)", names(sorted))
		}
	} else {
		if rerr != nil {
			return outcome{}, "Context.Roots() reports an error for an acyclic dependency graph: " + rerr.Error()
		}
		pos := map[string]int{}
		for i, s := range sorted {
			if _, dup := pos[s.EvalName()]; dup {
				return outcome{}, fmt.Sprintf("Context.Roots() lists root %s twice: %s", s.EvalName(), names(sorted))
			}
			pos[s.EvalName()] = i
		}
		if len(sorted) != len(c.Roots) {
			return outcome{}, fmt.Sprintf("Context.Roots() returns %d roots for %d registered: %s", len(sorted), len(c.Roots), names(sorted))
		}
		for _, rs := range c.Roots {
			if _, ok := pos[rs.Name]; !ok {
				return outcome{}, fmt.Sprintf("Context.Roots() omits registered root %s: %s", rs.Name, names(sorted))
			}
			for d := range clos[rs.Name] {
				if pos[d] > pos[rs.Name] {
					return outcome{}, fmt.Sprintf("Context.Roots() puts %s before its dependency %s: %s", rs.Name, d, names(sorted))
				}
			}
		}
	}

	err := eval.RunDSL()
	if hook != nil {
		hook(r)
	}
	return r.judge(c, err, isCyclic, clos)
}

func names(rs []eval.Root) string {
	var s []string
	for _, r := range rs {
		s = append(s, r.EvalName())
	}
	return "[" + strings.Join(s, " ") + "]"
}

var phaseRank = map[byte]int{'D': 0, 'P': 1, 'V': 2, 'F': 3}

func (r *run) traceString() string {
	var s []string
	for _, e := range r.trace {
		s = append(s, e.String())
	}
	return strings.Join(s, " ")
}

// judge applies the invariants of the property to the trace and the error.
func (r *run) judge(c *caseSpec, err error, isCyclic bool, clos map[string]map[string]bool) (outcome, string) {
	var out outcome
	fail := func(format string, a ...any) (outcome, string) {
		return out, fmt.Sprintf(format, a...) + fmt.Sprintf("\n  returned error: %v\n  trace: %s", err, r.traceString())
	}
	if len(r.problems) > 0 {
		return fail("%s", strings.Join(r.problems, "; "))
	}

	// ---- a dependency cycle is reported as an error; nothing ran
	if isCyclic {
		out.Kind = "cycle"
		if err == nil {
			return fail("dependency cycle: RunDSL returned nil")
		}
		if len(r.trace) != 0 {
			return fail("dependency cycle: %d callbacks ran", len(r.trace))
		}
		return out, ""
	}

	// ---- a dependency cycle among the roots registered during execution is
	// reported as well (by the pick-up step after the batch that closes it):
	// an error, and no phase after execution
	{
		var regd []*rootSpec
		for _, t := range r.roots {
			var deps []string
			for _, d := range t.deps {
				if _, ok := r.byName[d]; ok {
					deps = append(deps, d)
				}
			}
			regd = append(regd, &rootSpec{Name: t.name, Deps: deps})
		}
		if cyclic(regd) {
			out.Kind = "late-cycle"
			stats.Class("late-roots:dependency-cycle")
			if err == nil {
				return fail("roots registered during execution depend on each other: RunDSL returned nil")
			}
			for _, e := range r.trace {
				if e.Phase != 'D' {
					return fail("roots registered during execution depend on each other: %s ran although the cycle is an error", e)
				}
			}
			return out, ""
		}
	}

	// ---- phase barrier: every DSL before every Prepare before every Validate before every Finalize
	for i := 1; i < len(r.trace); i++ {
		if phaseRank[r.trace[i].Phase] < phaseRank[r.trace[i-1].Phase] {
			return fail("phase barrier broken: %s ran after %s", r.trace[i], r.trace[i-1])
		}
	}

	// ---- which phases must have run
	hasDSLErr := len(r.reported) > 0
	hasValErr := len(r.valRet) > 0 || len(r.phaseRep) > 0
	mustRun := map[byte]bool{'D': true, 'P': !hasDSLErr, 'V': !hasDSLErr, 'F': !hasDSLErr && !hasValErr}
	switch {
	case hasDSLErr:
		out.Kind = "dsl-errors"
	case hasValErr:
		out.Kind = "validation-errors"
	default:
		out.Kind = "ok"
	}

	// ---- completeness and order inside a root: in every phase that runs, the
	// callbacks of a root are exactly those of the expressions reachable
	// through WalkSets at the end, each once, in set order; a phase that must
	// not run has no callback at all.
	lateOpen := kf.Open(findingLateRoot)
	sameOpen := kf.Open(findingSameSet)
	excludedLate, excludedSame := false, false
	perRoot := map[string]map[byte][]int{}
	rootOwn := map[string]map[byte]int{}
	for _, e := range r.trace {
		if e.Expr < 0 {
			if rootOwn[e.Root] == nil {
				rootOwn[e.Root] = map[byte]int{}
			}
			rootOwn[e.Root][e.Phase]++
			continue
		}
		if perRoot[e.Root] == nil {
			perRoot[e.Root] = map[byte][]int{}
		}
		perRoot[e.Root][e.Phase] = append(perRoot[e.Root][e.Phase], e.Expr)
	}
	for _, root := range r.roots {
		var reach []*node
		root.reg.WalkSets(func(s eval.ExpressionSet) {
			for _, x := range s {
				if x == nil {
					continue
				}
				reach = append(reach, x.(hasNode).self())
			}
		})
		if root.late && lateOpen {
			// open finding: a root registered during execution is never
			// executed; nothing is asserted about its own expressions
			excludedLate = true
			continue
		}
		for _, ph := range []byte{'D', 'P', 'V', 'F'} {
			var want []int
			if mustRun[ph] {
				for _, n := range reach {
					impl := false
					switch ph {
					case 'D':
						impl = n.spec.Src && !n.spec.NilDSL
						if impl && n.addedSame && sameOpen {
							// open finding: the DSL of an expression appended
							// to the set being executed is not run
							excludedSame = true
							impl = false
						}
					case 'P':
						impl = n.spec.Prep
					case 'V':
						impl = n.spec.Val
					case 'F':
						impl = n.spec.Fin
					}
					if impl {
						want = append(want, n.spec.ID)
					}
				}
			}
			got := perRoot[root.name][ph]
			if fmt.Sprint(got) != fmt.Sprint(want) {
				why := ""
				if !mustRun[ph] {
					why = fmt.Sprintf(" (phase %c must not run after %s)", ph, out.Kind)
				}
				return fail("root %s, phase %c: callbacks ran for expressions %v, want exactly %v in this order%s", root.name, ph, got, want, why)
			}
			if n := rootOwn[root.name][ph]; n > 1 || (n > 0 && !mustRun[ph]) {
				return fail("root %s: its own phase %c callback ran %d times", root.name, ph, n)
			}
		}
	}
	if excludedLate {
		stats.Excluded(findingLateRoot)
	}
	if excludedSame {
		stats.Excluded(findingSameSet)
	}

	// ---- dependency order in every phase, for every edge of the transitive
	// closure (including the dependencies of roots registered late)
	first := map[string]map[byte]int{}
	last := map[string]map[byte]int{}
	for i, e := range r.trace {
		if first[e.Root] == nil {
			first[e.Root] = map[byte]int{}
			last[e.Root] = map[byte]int{}
		}
		if _, ok := first[e.Root][e.Phase]; !ok {
			first[e.Root][e.Phase] = i
		}
		last[e.Root][e.Phase] = i
	}
	var all []*rootSpec
	for _, t := range r.roots {
		all = append(all, &rootSpec{Name: t.name, Deps: t.deps})
	}
	fullClos := closure(all)
	for _, t := range r.roots {
		for d := range fullClos[t.name] {
			for _, ph := range []byte{'D', 'P', 'V', 'F'} {
				f, ok1 := first[t.name][ph]
				l, ok2 := last[d][ph]
				if ok1 && ok2 && l > f {
					return fail("dependency order broken in phase %c: %s depends on %s but %s ran before %s", ph, t.name, d, r.trace[f], r.trace[l])
				}
			}
		}
	}
	// roots registered during execution are executed last (RunDSL doc)
	lastInitial, firstLate := -1, -1
	for i, e := range r.trace {
		if e.Phase != 'D' {
			continue
		}
		if r.byName[e.Root].late {
			if firstLate < 0 {
				firstLate = i
			}
		} else {
			lastInitial = i
		}
	}
	if firstLate >= 0 && lastInitial > firstLate {
		return fail("a root registered during execution ran its DSL (%s) before the DSL of an initially registered root (%s)", r.trace[firstLate], r.trace[lastInitial])
	}

	// ---- errors: all errors of the failing phase are returned together
	for _, e := range r.trace {
		tag := fmt.Sprintf("%c:%d", e.Phase, e.Expr)
		if e.Expr < 0 {
			tag = fmt.Sprintf("%c:root %s", e.Phase, e.Root)
		}
		out.Events = append(out.Events, tag)
	}
	sort.Strings(out.Events)
	switch out.Kind {
	case "ok":
		if err != nil {
			return fail("no error was reported in any phase but RunDSL returned one")
		}
	case "dsl-errors":
		if err == nil {
			return fail("%d DSL errors were reported but RunDSL returned nil", len(r.reported))
		}
		var me eval.MultiError
		if !errors.As(err, &me) {
			return fail("DSL errors: the returned error is a %T, not an eval.MultiError", err)
		}
		count := map[string]int{}
		for _, e := range me {
			msg := e.Error()
			matched := false
			for _, tok := range r.reported {
				if strings.Contains(msg, tok) {
					count[tok]++
					matched = true
				}
			}
			if !matched {
				return fail("DSL errors: returned error holds an entry nobody reported: %q", msg)
			}
		}
		for _, tok := range r.reported {
			if count[tok] != 1 {
				return fail("DSL errors: reported error %s appears %d times in the returned error", tok, count[tok])
			}
			out.Errors = append(out.Errors, tok)
		}
	case "validation-errors":
		if err == nil {
			return fail("%d validation errors were returned by Validate and %d errors were reported through the context by Prepare/Validate, but RunDSL returned nil", len(r.valRet), len(r.phaseRep))
		}
		var me eval.MultiError
		if !errors.As(err, &me) {
			return fail("validation errors: the returned error is a %T, not an eval.MultiError", err)
		}
		count := map[string]int{}
		repCount := map[string]int{}
		for _, e := range me {
			var ve *eval.ValidationErrors
			if e.GoError == nil || !errors.As(e.GoError, &ve) {
				// an error reported through the context during prepare / validate
				matched := false
				for _, tok := range r.phaseRep {
					if strings.Contains(e.Error(), tok) {
						repCount[tok]++
						matched = true
					}
				}
				if !matched {
					return fail("validation errors: returned error holds an entry that is neither a validation error nor an error reported by Prepare/Validate: %q", e.Error())
				}
				continue
			}
			if len(ve.Errors) != len(ve.Expressions) {
				return fail("validation errors: %d errors but %d expressions", len(ve.Errors), len(ve.Expressions))
			}
			for i, one := range ve.Errors {
				owner, ok := r.valRet[one.Error()]
				if !ok {
					return fail("validation errors: returned error holds %q which no Validate returned", one.Error())
				}
				count[one.Error()]++
				if got := ve.Expressions[i].EvalName(); got != owner {
					return fail("validation error %s is attributed to %s, it was returned by %s", one.Error(), got, owner)
				}
			}
		}
		for _, tok := range r.phaseRep {
			if repCount[tok] != 1 {
				return fail("error %s reported through the context during prepare/validate appears %d times in the returned error", tok, repCount[tok])
			}
			out.Errors = append(out.Errors, tok)
		}
		text := err.Error()
		for tok, owner := range r.valRet {
			if count[tok] != 1 {
				return fail("validation error %s (returned by %s) appears %d times in the returned error", tok, owner, count[tok])
			}
			if !strings.Contains(text, owner+": "+tok) {
				return fail("validation error text lacks %q", owner+": "+tok)
			}
			out.Errors = append(out.Errors, tok)
		}
	}
	sort.Strings(out.Errors)
	return out, ""
}

// ---------------------------------------------------------------- bookkeeping

func recordClasses(c *caseSpec, kind string) {
	f := scan(c)
	stats.Class(fmt.Sprintf("roots:%d", len(c.Roots)))
	stats.Class("outcome:" + kind)
	if cyclic(c.Roots) {
		stats.Class("graph:cyclic")
	} else {
		stats.Class("graph:acyclic")
		if sharedOrTransitive(c.Roots) {
			stats.Class("graph:acyclic-shared-or-transitive")
		}
	}
	for label, on := range map[string]bool{
		"dsl-error": f.dslErr, "validation-error": f.valErr, "validation-multi": f.valMulti, "error-reported-by-prepare-or-validate": f.phaseReport,
		"append-later-set": f.addLater, "append-same-set": f.addSame, "register-root-during-dsl": f.newRoot,
		"nil-dsl": f.nilDSL, "nil-entry": f.nilEntry, "root-with-callbacks": f.rootCB,
	} {
		if on {
			stats.Class(label)
		}
	}
}
