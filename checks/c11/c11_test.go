package c11

import (
	"fmt"
	"os"
	"strconv"
	"testing"

	"pgregory.net/rapid"

	"verif/internal/stats"
)

func TestMain(m *testing.M) { stats.Main(m) }

// ---------------------------------------------------------------- helpers

func rootName(i int) string { return fmt.Sprintf("r%d", i) }

// permutations returns every permutation of 0..n-1 in lexicographic order.
func permutations(n int) [][]int {
	var out [][]int
	cur := make([]int, 0, n)
	used := make([]bool, n)
	var rec func()
	rec = func() {
		if len(cur) == n {
			out = append(out, append([]int(nil), cur...))
			return
		}
		for i := 0; i < n; i++ {
			if !used[i] {
				used[i] = true
				cur = append(cur, i)
				rec()
				cur = cur[:len(cur)-1]
				used[i] = false
			}
		}
	}
	rec()
	return out
}

// graphDeps decodes graph number g on n roots: bit k of g is the k-th ordered
// pair (i,j), i != j, meaning "root i depends on root j". descending lists
// the dependencies of each root in descending index order.
func graphDeps(n int, g int, descending bool) [][]string {
	deps := make([][]string, n)
	k := 0
	for i := 0; i < n; i++ {
		for j := 0; j < n; j++ {
			if i == j {
				continue
			}
			if g&(1<<k) != 0 {
				if descending {
					deps[i] = append([]string{rootName(j)}, deps[i]...)
				} else {
					deps[i] = append(deps[i], rootName(j))
				}
			}
			k++
		}
	}
	return deps
}

// runOrders executes the case under every given registration order, judges
// each execution and checks that the outcome (set of callbacks, errors) does
// not depend on the order. It returns the first problem found.
func runOrders(c *caseSpec, orders [][]int) string {
	nt := nontrivial(c)
	text := c.json()
	var ref outcome
	for k, order := range orders {
		key := fmt.Sprintf("%s|%v", text, order)
		if k == 0 {
			stats.CaseSample(key, nt, map[string]any{"case": c, "registration_order": order})
		} else {
			stats.Case(key, nt)
		}
		out, problem := execute(c, order)
		if problem != "" {
			return fmt.Sprintf("registration order %v: %s\n  case: %s", order, problem, text)
		}
		if k == 0 {
			ref = out
			recordClasses(c, out.Kind)
			continue
		}
		if out.String() != ref.String() {
			return fmt.Sprintf("outcome depends on the registration order:\n  order %v: %s\n  order %v: %s\n  case: %s", orders[0], ref, order, out, text)
		}
	}
	return ""
}

// ---------------------------------------------------------------- exhaustive graphs

// profile builds the fixed expression sets used by the exhaustive graph
// enumeration. ids are unique per case.
func profileRoots(n int, deps [][]string, profile string) *caseSpec {
	c := &caseSpec{}
	id := 0
	next := func() int { id++; return id }
	all := func() *exprSpec { return &exprSpec{ID: next(), Src: true, Prep: true, Val: true, Fin: true} }
	for i := 0; i < n; i++ {
		r := &rootSpec{Name: rootName(i), Deps: deps[i]}
		a, b := all(), all()
		later := all()
		b.Actions = []action{{Kind: "add-later", N: 1, Child: later}}
		tail := &exprSpec{ID: next(), Prep: true, Val: true, Fin: true}
		r.Sets = [][]*exprSpec{{a, b}, {tail}}
		switch profile {
		case "clean":
		case "dsl-errors":
			// two roots report (the first and the last), one of them twice
			if i == 0 || i == n-1 {
				a.Actions = append(a.Actions, action{Kind: "error"})
			}
			if i == n-1 {
				later.Actions = append(later.Actions, action{Kind: "error"})
			}
		case "validation-errors":
			if i == 0 {
				a.ValErrs = 1
			}
			if i == n-1 {
				tail.ValErrs = 2
				r.CB = true
				r.ValErr = true
			}
		case "late":
			// root callbacks, an append to the running set, and (first root
			// only) a root registered during execution that depends on the
			// last root and on its registrar
			r.CB = true
			a.Actions = append(a.Actions, action{Kind: "add-same", Child: all()})
			if i == 0 {
				lr := &rootSpec{Name: "late", Deps: []string{rootName(n - 1), "$self"}, Sets: [][]*exprSpec{{all()}}}
				if n == 1 {
					lr.Deps = []string{"$self"}
				}
				b.Actions = append(b.Actions, action{Kind: "new-root", Root: lr})
			}
		}
		c.Roots = append(c.Roots, r)
	}
	return c
}

var profiles = []string{"clean", "dsl-errors", "validation-errors", "late"}

// TestGraphsExhaustive enumerates every directed graph (no self loops) on
// 1..N roots, both listing orders of DependsOn, every registration order and
// the fixed behaviour profiles. N = 4 in the thorough tier; in the quick tier
// N = 3 plus every 16th graph on 4 roots (offset chosen by VERIF_SEED).
func TestGraphsExhaustive(t *testing.T) {
	thorough := os.Getenv("VERIF_TIER") == "thorough"
	seed, _ := strconv.ParseInt(os.Getenv("VERIF_SEED"), 10, 64)
	if seed < 0 {
		seed = -seed
	}
	failures := 0
	for n := 1; n <= 4; n++ {
		orders := permutations(n)
		graphs := 1 << (n * (n - 1))
		stride, offset := 1, 0
		if n == 4 && !thorough {
			stride, offset = 16, int(seed%16)
		}
		for g := offset; g < graphs; g += stride {
			for _, desc := range []bool{false, true} {
				if desc && n < 3 {
					continue // at most one dependency per root: same listing
				}
				deps := graphDeps(n, g, desc)
				for _, p := range profiles {
					c := profileRoots(n, deps, p)
					if msg := runOrders(c, orders); msg != "" {
						t.Errorf("graph %d on %d roots (descending=%v), profile %s: %s", g, n, desc, p, msg)
						failures++
						if failures > 5 {
							t.FailNow()
						}
					}
				}
			}
		}
		if n <= 3 || thorough {
			stats.Exhaustive(fmt.Sprintf("every directed graph on %d roots (%d graphs) x every registration order (%d) x both DependsOn listing orders x %d behaviour profiles", n, graphs, len(orders), len(profiles)))
		} else {
			stats.Note("quick tier: %d of %d graphs on 4 roots (every 16th from offset %d) x 24 registration orders", graphs/stride, graphs, offset)
		}
	}
}

// ---------------------------------------------------------------- random behaviours

type genCtx struct {
	t    *rapid.T
	id   int
	mode string // "clean", "dsl-errors", "validation-errors", "mixed"
	// names of the initially registered roots (dependencies of late roots)
	initial []string
	late    int
	// batch: 0 while the expressions of the initial roots are generated, k
	// inside a root that is registered by batch k-1 (RunDSL executes the roots
	// registered by one batch together, after sorting them)
	batch int
	lates []*rootSpec
}

func (g *genCtx) next() int { g.id++; return g.id }

func (g *genCtx) chance(label string, percent int) bool {
	return rapid.IntRange(0, 99).Draw(g.t, label) < percent
}

func (g *genCtx) expr(depth int) *exprSpec {
	t := g.t
	e := &exprSpec{ID: g.next()}
	mask := rapid.IntRange(0, 15).Draw(t, "interfaces")
	e.Src, e.Prep, e.Val, e.Fin = mask&1 != 0, mask&2 != 0, mask&4 != 0, mask&8 != 0
	if e.Val && (g.mode == "validation-errors" || g.mode == "mixed") && g.chance("valErr", 35) {
		e.ValErrs = rapid.IntRange(1, 3).Draw(t, "valErrs")
	}
	if g.mode == "validation-errors" || g.mode == "mixed" {
		if e.Prep && g.chance("prepReport", 8) {
			e.PrepReport = rapid.IntRange(1, 2).Draw(t, "prepReportKind")
		}
		if e.Val && g.chance("valReport", 8) {
			e.ValReport = true
		}
	}
	if !e.Src {
		return e
	}
	if g.chance("nilDSL", 8) {
		e.NilDSL = true
		return e
	}
	nact := rapid.SampledFrom([]int{0, 0, 1, 1, 1, 2, 3}).Draw(t, "actions")
	for i := 0; i < nact; i++ {
		kinds := []string{"add-later", "add-later", "add-same", "new-root"}
		if g.mode == "dsl-errors" || g.mode == "mixed" {
			kinds = append(kinds, "error", "error")
		}
		if depth >= 3 {
			kinds = []string{"error"}
			if g.mode != "dsl-errors" && g.mode != "mixed" {
				break
			}
		}
		k := rapid.SampledFrom(kinds).Draw(t, "kind")
		a := action{Kind: k}
		switch k {
		case "add-later":
			a.N = rapid.IntRange(1, 2).Draw(t, "setsFurther")
			a.Child = g.expr(depth + 1)
		case "add-same":
			a.Child = g.expr(depth + 1)
		case "new-root":
			if g.late >= 3 {
				a.Kind = "add-later"
				a.N = 1
				a.Child = g.expr(depth + 1)
				break
			}
			g.late++
			lr := &rootSpec{Name: fmt.Sprintf("late%d", g.late), Batch: g.batch + 1}
			g.lates = append(g.lates, lr)
			for _, n := range g.initial {
				if g.chance("lateDep", 40) {
					lr.Deps = append(lr.Deps, n)
				}
			}
			if g.chance("lateDepSelf", 50) {
				lr.Deps = append(lr.Deps, "$self")
			}
			lr.CB = g.chance("lateCB", 30)
			nsets := rapid.IntRange(1, 2).Draw(t, "lateSets")
			g.batch++
			for s := 0; s < nsets; s++ {
				var set []*exprSpec
				for x, nx := 0, rapid.IntRange(0, 2).Draw(t, "lateExprs"); x < nx; x++ {
					set = append(set, g.expr(depth+1))
				}
				lr.Sets = append(lr.Sets, set)
			}
			g.batch--
			a.Root = lr
		}
		e.Actions = append(e.Actions, a)
	}
	return e
}

// linkLates adds dependencies between the roots registered during execution:
// a late root may depend on any late root registered by the same batch (before
// or after it in registration order - RunDSL sorts the roots it picks up) or by
// an earlier batch. Mostly along a random ranking (acyclic); sometimes two
// roots of one batch are made to depend on each other, which has to be
// reported as a dependency cycle.
func (g *genCtx) linkLates() {
	if len(g.lates) < 2 {
		return
	}
	rank := rapid.Permutation(seq(len(g.lates))).Draw(g.t, "lateRank")
	for i, l := range g.lates {
		for j, m := range g.lates {
			if i == j || m.Batch > l.Batch || rank[i] < rank[j] {
				continue
			}
			if g.chance("lateLateDep", 50) {
				l.Deps = append(l.Deps, m.Name)
			}
		}
	}
	if g.chance("lateCycle", 6) {
		for i, l := range g.lates {
			for _, m := range g.lates[i+1:] {
				if l.Batch == m.Batch {
					l.Deps = append(l.Deps, m.Name)
					m.Deps = append(m.Deps, l.Name)
					return
				}
			}
		}
	}
}

func (g *genCtx) root(name string, deps []string) *rootSpec {
	t := g.t
	r := &rootSpec{Name: name, Deps: deps}
	r.CB = g.chance("rootCB", 30)
	if r.CB && (g.mode == "validation-errors" || g.mode == "mixed") && g.chance("rootValErr", 25) {
		r.ValErr = true
	}
	nsets := rapid.IntRange(0, 3).Draw(t, "sets")
	r.Sets = [][]*exprSpec{}
	for s := 0; s < nsets; s++ {
		var set []*exprSpec
		for x, nx := 0, rapid.IntRange(0, 3).Draw(t, "exprs"); x < nx; x++ {
			if g.chance("nilEntry", 4) {
				set = append(set, nil)
				continue
			}
			set = append(set, g.expr(0))
		}
		r.Sets = append(r.Sets, set)
	}
	return r
}

// drawGraph draws the dependency lists of n roots: mostly acyclic graphs built
// along a random ranking, sometimes arbitrary (usually cyclic) ones.
func drawGraph(t *rapid.T, n int) [][]string {
	deps := make([][]string, n)
	density := rapid.SampledFrom([]int{15, 35, 60, 85}).Draw(t, "density")
	acyclic := rapid.IntRange(0, 99).Draw(t, "graphKind") < 85
	rank := rapid.Permutation(seq(n)).Draw(t, "rank")
	for i := 0; i < n; i++ {
		for _, j := range rapid.Permutation(seq(n)).Draw(t, "depOrder") {
			if i == j || (acyclic && rank[i] < rank[j]) {
				continue
			}
			if rapid.IntRange(0, 99).Draw(t, "edge") < density {
				deps[i] = append(deps[i], rootName(j))
			}
		}
	}
	return deps
}

func seq(n int) []int {
	s := make([]int, n)
	for i := range s {
		s[i] = i
	}
	return s
}

// TestRandomBehaviours: 1-6 roots, random dependency graph, random expression
// behaviours; every registration order for <= 3 roots, otherwise three drawn
// orders (always including the declaration order's reverse).
func TestRandomBehaviours(t *testing.T) {
	rapid.Check(t, func(t *rapid.T) {
		n := rapid.SampledFrom([]int{1, 2, 3, 3, 4, 4, 5, 5, 5, 6, 6, 6}).Draw(t, "roots")
		g := &genCtx{t: t}
		g.mode = rapid.SampledFrom([]string{"clean", "clean", "clean", "dsl-errors", "dsl-errors", "validation-errors", "validation-errors", "mixed"}).Draw(t, "mode")
		for i := 0; i < n; i++ {
			g.initial = append(g.initial, rootName(i))
		}
		deps := drawGraph(t, n)
		c := &caseSpec{}
		for i := 0; i < n; i++ {
			c.Roots = append(c.Roots, g.root(rootName(i), deps[i]))
		}
		g.linkLates()
		var orders [][]int
		if n <= 3 {
			orders = permutations(n)
		} else {
			rev := make([]int, n)
			for i := range rev {
				rev[i] = n - 1 - i
			}
			orders = [][]int{
				rapid.Permutation(seq(n)).Draw(t, "order1"),
				rapid.Permutation(seq(n)).Draw(t, "order2"),
				rev,
			}
		}
		if msg := runOrders(c, orders); msg != "" {
			t.Fatalf("%s", msg)
		}
	})
}

// ---------------------------------------------------------------- probes and regressions

func allFour(id int) *exprSpec {
	return &exprSpec{ID: id, Src: true, Prep: true, Val: true, Fin: true}
}

// probeLateRoot: one root whose only expression registers a second root
// (depending on the first) from its DSL. The second root's expression must
// get all four callbacks.
func probeLateRoot() (bool, string) {
	e1, e2 := allFour(1), allFour(2)
	e1.Actions = []action{{Kind: "new-root", Root: &rootSpec{Name: "late", Deps: []string{"$self"}, Sets: [][]*exprSpec{{e2}}}}}
	c := &caseSpec{Roots: []*rootSpec{{Name: "r0", Sets: [][]*exprSpec{{e1}}}}}
	eventsOf2 := 0
	tr := traceOf(c, []int{0})
	for _, e := range tr {
		if e.Expr == 2 {
			eventsOf2++
		}
	}
	if eventsOf2 == 4 {
		return false, ""
	}
	return true, fmt.Sprintf("root r0 {set0: [expr1]}, DSL of expr1 calls eval.Register(root late {set0: [expr2]}): RunDSL returns nil and expr2 got %d of its 4 callbacks (trace %v); RunDSL's documentation promises that roots registered during execution are executed (last) in the same run", eventsOf2, tr)
}

// probeSameSet: one root, one set; the DSL of its only expression appends a
// second expression to that set (the root hands its slice field to the
// iterator, as in eval/doc.go).
func probeSameSet() (bool, string) {
	e1, e2 := allFour(1), allFour(2)
	e1.Actions = []action{{Kind: "add-same", Child: e2}}
	c := &caseSpec{Roots: []*rootSpec{{Name: "r0", Sets: [][]*exprSpec{{e1}}}}}
	tr := traceOf(c, []int{0})
	dsl, other := 0, 0
	for _, e := range tr {
		if e.Expr == 2 {
			if e.Phase == 'D' {
				dsl++
			} else {
				other++
			}
		}
	}
	if dsl == 1 {
		return false, ""
	}
	return true, fmt.Sprintf("root r0 {set0: [expr1]}, WalkSets does it(r.set0), DSL of expr1 does r.set0 = append(r.set0, expr2): expr2's DSL ran %d times but it got %d Prepare/Validate/Finalize callbacks (trace %v); eval/doc.go and runSet's comment promise that DSLs may append to the set being executed", dsl, other, tr)
}

// traceOf runs a case without judging it and returns the raw trace.
func traceOf(c *caseSpec, order []int) []event {
	var tr []event
	hook = func(r *run) { tr = r.trace }
	defer func() { hook = nil }()
	execute(c, order)
	return tr
}

// TestProbes re-creates the minimal input of each known finding. It never
// fails; the driver turns the recorded results into KNOWN-FINDING lines (open
// entries) or violations (entries marked fixed).
func TestProbes(t *testing.T) {
	only := os.Getenv("VERIF_PROBE_ONLY")
	probes := []struct {
		id string
		fn func() (bool, string)
	}{
		{findingLateRoot, probeLateRoot},
		{findingSameSet, probeSameSet},
	}
	for _, p := range probes {
		if only != "" && only != p.id {
			continue
		}
		hit, what := p.fn()
		stats.ProbeResult(p.id, hit, what)
	}
}

// TestRegressions: hand-written cases that must hold whatever the status of
// the findings: the documented way of growing a design during execution
// (appending to a LATER set) and the phase rules, on a diamond-shaped graph.
func TestRegressions(t *testing.T) {
	diamond := [][]string{nil, {"r0"}, {"r0"}, {"r2", "r1"}}
	for _, p := range []string{"clean", "dsl-errors", "validation-errors"} {
		c := profileRoots(4, diamond, p)
		if msg := runOrders(c, permutations(4)); msg != "" {
			t.Errorf("diamond, profile %s: %s", p, msg)
		}
	}
	// a three-root cycle next to an independent root
	c := profileRoots(4, [][]string{{"r1"}, {"r2"}, {"r0"}, nil}, "clean")
	if msg := runOrders(c, permutations(4)); msg != "" {
		t.Errorf("cycle: %s", msg)
	}
}
