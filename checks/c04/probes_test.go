package c04

import (
	"os"
	"testing"

	"verif/harness"
	m "verif/internal/model"
	"verif/internal/rt"
	"verif/internal/value"
)

func fp(f float64) *float64 { return &f }
func ip(i int) *int         { return &i }

func probeDesign() *m.Design {
	d := &m.Design{API: m.API{Name: "probe"}}
	s := &m.Service{Name: "probe", HasHTTP: true}
	s.Methods = append(s.Methods, &m.Method{Name: "minlen",
		Payload: rt.Obj(rt.Fld("tags", &m.Attr{Type: &m.Type{Kind: m.Array, Elem: m.Prim(m.String)}, V: &m.Validation{MinLen: ip(1)}}, false), rt.Fld("q", m.Prim(m.String), false)),
		HTTP:    &m.HTTPEndpoint{Routes: []m.Route{{Verb: "POST", Path: "/minlen"}}}})
	s.Methods = append(s.Methods, &m.Method{Name: "excl",
		Payload: rt.Obj(rt.Fld("b", &m.Attr{Type: &m.Type{Kind: m.Int}, V: &m.Validation{ExclMin: fp(0), ExclMax: fp(4)}}, true)),
		HTTP:    &m.HTTPEndpoint{Routes: []m.Route{{Verb: "POST", Path: "/excl"}}}})
	s.Methods = append(s.Methods, &m.Method{Name: "cookie",
		Payload: rt.Obj(rt.Fld("tags", m.Prim(m.String), true), rt.Fld("code", m.Prim(m.String), true)),
		HTTP:    &m.HTTPEndpoint{Routes: []m.Route{{Verb: "GET", Path: "/cookie"}}, Headers: []m.Mapping{{Attr: "tags", Wire: "X-A"}}, Cookies: []m.Mapping{{Attr: "code"}}}})
	s.Methods = append(s.Methods, &m.Method{Name: "union",
		Payload: rt.Obj(rt.Fld("choice", &m.Attr{Type: &m.Type{Kind: m.Union, Fields: []*m.Field{
			rt.Fld("num", &m.Attr{Type: &m.Type{Kind: m.Int}, V: &m.Validation{Max: fp(10)}}, false), rt.Fld("text", m.Prim(m.String), false)}}}, true)),
		HTTP: &m.HTTPEndpoint{Routes: []m.Route{{Verb: "POST", Path: "/union"}}}})
	s.Methods = append(s.Methods, &m.Method{Name: "hdrbound",
		Payload: rt.Obj(&m.Field{Name: "label", Attr: &m.Attr{Type: &m.Type{Kind: m.Int}, V: &m.Validation{Max: fp(40)}, VAtMapping: true}}),
		HTTP:    &m.HTTPEndpoint{Routes: []m.Route{{Verb: "PUT", Path: "/hdrbound"}}, Headers: []m.Mapping{{Attr: "label", Wire: "X-L"}}}})
	d.Services = []*m.Service{s}
	return d
}

// TestProbes re-creates the minimal input of every known finding of C04.
func TestProbes(t *testing.T) {
	if rt.ReplayDir() != "" && os.Getenv("VERIF_PROBE_ONLY") == "" {
		t.Skip("replay of a search case")
	}
	sess, h := rt.BuildOne(t, "c04p", probeDesign())
	defer sess.Close()
	defer h.Close()
	call := func(method string, p value.V) *harness.Obs {
		o, err := h.Do(&harness.Case{Op: "call", Svc: "probe", Method: method, HasPayload: true, Payload: p})
		if err != nil {
			t.Fatalf("INCONCLUSIVE: %v", err)
		}
		return o
	}
	rt.Probe("C04-absent-optional-collection-minlength", func() (bool, string) {
		o := call("minlen", value.Object(value.Field{N: "q", V: value.Str("x")}))
		st := 0
		if o.Response != nil {
			st = o.Response.Status
		}
		return o.StubCalls == 0 && st == 400, "payload {q:\"x\"} without the optional array tags (MinLength 1): status " + itoa(st) + " " + body(o)
	})
	rt.Probe("C04-validation-written-in-header-mapping-not-enforced", func() (bool, string) {
		o := call("hdrbound", value.Object(value.Field{N: "label", V: value.Int(41)}))
		return o.StubCalls == 1, "Header(\"label:X-L\", func(){ Maximum(40) }) called with 41: the service method ran " + itoa(o.StubCalls) + " time(s)"
	})
	rt.Probe("C04-required-cookie-discards-earlier-errors", func() (bool, string) {
		o, err := h.Do(&harness.Case{Op: "call", Svc: "probe", Method: "cookie", HasPayload: true,
			Payload: value.Object(value.Field{N: "tags", V: value.Str("t")}, value.Field{N: "code", V: value.Str("c")}),
			Edits:   []harness.Edit{{Op: "del_header", Name: "X-A"}}})
		if err != nil {
			t.Fatalf("INCONCLUSIVE: %v", err)
		}
		return o.StubCalls == 1, "required header X-A deleted while the required cookie is present: method invoked " + itoa(o.StubCalls) + " time(s)"
	})
	rt.Probe("C04-union-alternative-validations-not-enforced", func() (bool, string) {
		o := call("union", value.Object(value.Field{N: "choice", V: value.V{K: "union", S: "num", A: []value.V{value.Int(11)}}}))
		return o.StubCalls == 1, "payload {choice: num(11)} with Maximum(10) on the alternative: method invoked " + itoa(o.StubCalls) + " time(s)"
	})
	rt.Probe("C04-exclusive-maximum-ignored-with-exclusive-minimum", func() (bool, string) {
		o := call("excl", value.Object(value.Field{N: "b", V: value.Int(4)}))
		return o.StubCalls == 1, "payload {b:4} with ExclusiveMinimum(0) ExclusiveMaximum(4): method invoked " + itoa(o.StubCalls) + " time(s)"
	})
}

func body(o *harness.Obs) string {
	if o.Response == nil {
		return ""
	}
	return trunc(string(o.Response.Body))
}

func itoa(i int) string {
	return string(rune('0'+i/100%10)) + string(rune('0'+i/10%10)) + string(rune('0'+i%10))
}
