// Package c04 decides property C04: the service method is invoked if and only
// if the request satisfies every constraint of the design; violations are
// answered with a 400-class error naming the rule; symmetrically the generated
// client refuses results that violate the result's constraints.
package c04

import (
	"encoding/json"
	"fmt"
	"net/url"
	"strings"
	"sync"
	"testing"

	"pgregory.net/rapid"

	"verif/harness"
	"verif/internal/gen"
	"verif/internal/kf"
	m "verif/internal/model"
	"verif/internal/oracle"
	"verif/internal/rt"
	"verif/internal/stats"
	"verif/internal/value"
)

func TestMain(m *testing.M) { stats.Main(m) }

type caseRec struct {
	Service string         `json:"service"`
	Method  string         `json:"method"`
	Kind    string         `json:"kind"` // "valid", "mutant", "wire", "result-mutant"
	Payload value.V        `json:"payload"`
	Result  value.V        `json:"result"`
	Fault   gen.Fault      `json:"fault"`
	Edits   []harness.Edit `json:"edits,omitempty"`
	Expect  []string       `json:"expect,omitempty"`
	Message string         `json:"message"`
}

func profile() gen.Profile {
	p := gen.Request()
	p.Name = "validation"
	p.ResultTypes = false
	return p
}

func TestValidation(t *testing.T) {
	n := rt.EnvInt("VERIF_CHECKS", 24)
	seed := rt.EnvInt("VERIF_SEED", 1)
	sess, built := rt.Prepare(t, "c04", rt.Options{Profile: profile(), N: n, Seed: seed, Keep: func(d *m.Design) bool { return true }, Extra: []*m.Design{gen.ParamMatrix(), gen.ValidationMatrix(), gen.InheritMatrix()}})
	defer sess.Close()
	defer rt.CloseAll(built)
	if len(built) == 0 {
		t.Fatalf("INCONCLUSIVE: no design could be built")
	}
	if len(built)*2 < n && rt.ReplayDir() == "" {
		t.Fatalf("INCONCLUSIVE: only %d of %d designs could be built (generator health)", len(built), n)
	}
	var wg sync.WaitGroup
	var mu sync.Mutex
	failures := 0
	sem := make(chan struct{}, 16)
	for _, b := range built {
		wg.Add(1)
		go func(b *rt.Built) {
			defer wg.Done()
			sem <- struct{}{}
			defer func() { <-sem }()
			for _, s := range b.Design.Services {
				for _, meth := range s.Methods {
					if meth.HTTP == nil || (meth.Payload == nil && meth.Result == nil) {
						continue
					}
					if !checkMethod(t, b, s, meth) {
						mu.Lock()
						failures++
						mu.Unlock()
					}
				}
			}
		}(b)
	}
	wg.Wait()
	if failures > 0 {
		t.Fatalf("%d method(s) violate C04", failures)
	}
}

func checkMethod(t *testing.T, b *rt.Built, s *m.Service, meth *m.Method) bool {
	d := b.Design
	label := rt.MethodLabel(b, s, meth)
	var last *caseRec
	var replay caseRec
	if rt.LoadReplayCase(&replay) {
		if replay.Service != s.Name || replay.Method != meth.Name {
			return true
		}
		if msg := runCase(b, s, meth, &replay); msg != "" {
			t.Errorf("replayed case still fails: %s", msg)
			return false
		}
		fmt.Printf("replayed case passes: %s %s\n", s.Name, meth.Name)
		return true
	}
	where := gen.WhereOf(d, meth)
	ok := t.Run(label, func(t *testing.T) {
		rapid.Check(t, func(rt_ *rapid.T) {
			c := &caseRec{Service: s.Name, Method: meth.Name}
			c.Payload = gen.PayloadGen(d, meth).Draw(rt_, "payload")
			c.Result = gen.ResultGen(d, meth).Draw(rt_, "result")
			kinds := []string{"valid"}
			if meth.Payload != nil {
				kinds = append(kinds, "mutant", "mutant", "wire", "wire")
			}
			if meth.Result != nil {
				kinds = append(kinds, "result-mutant")
			}
			c.Kind = rapid.SampledFrom(kinds).Draw(rt_, "kind")
			switch c.Kind {
			case "mutant":
				mut, f, ok := gen.Mutate(rt_, d, meth.Payload, c.Payload, func(name string) gen.Loc {
					if name == "" {
						return gen.LocFor(primitiveWhere(meth))
					}
					return gen.LocFor(where[name])
				})
				if ok && f.Rule == "missing_field" && f.Depth == 0 && meth.HTTP.Body != nil && meth.HTTP.Body.Mode == "attr" && meth.HTTP.Body.Attr == f.Top {
					// the body *is* this attribute: its absence is not expressible apart from an empty body
					ok = false
					stats.Class("skipped:body-attr-removal")
				}
				if ok && cookieFindingApplies(d, meth, f.Top) {
					// (the finding loses errors found before a required cookie is read; a fault in
					// the method's only cookie is not affected and stays in the search)
					stats.Excluded("C04-required-cookie-discards-earlier-errors")
					ok = false
				}
				if !ok {
					c.Kind = "valid"
				} else {
					c.Payload, c.Fault = mut, f
				}
			case "result-mutant":
				mut, f, ok := gen.Mutate(rt_, d, meth.Result, c.Result, func(name string) gen.Loc { return resultLoc(d, meth, name) })
				if !ok {
					c.Kind = "valid"
				} else {
					c.Result, c.Fault = mut, f
				}
			case "wire":
				if !wireFault(rt_, d, s, meth, c) {
					c.Kind = "valid"
				} else if hasRequiredCookie(d, meth) && kf.Open("C04-required-cookie-discards-earlier-errors") &&
					!(len(meth.HTTP.Cookies) == 1 && len(c.Edits) == 1 && c.Edits[0].Op == "del_cookie") {
					stats.Excluded("C04-required-cookie-discards-earlier-errors")
					c.Kind, c.Edits = "valid", nil
				}
			}
			msg := runCase(b, s, meth, c)
			record(c)
			if msg != "" {
				c.Message = msg
				last = c
				rt_.Fatalf("%s [%s]: %s\n  payload: %s\n  fault: %+v edits: %+v", label, c.Kind, msg, c.Payload.Canon(), c.Fault, c.Edits)
			}
		})
	})
	if !ok && last != nil {
		dir := rt.SaveReplay(b, label, last)
		fmt.Printf("C04 failing case saved: %s\n  design: %s\n  [%s] %s\n", dir, b.Run.Name, last.Kind, last.Message)
	}
	return ok
}

// cookieFindingApplies: the open finding C04-required-cookie-discards-earlier-errors
// can hide a fault in attribute top (any fault but one in the method's only cookie).
func cookieFindingApplies(d *m.Design, meth *m.Method, top string) bool {
	if !hasRequiredCookie(d, meth) || !kf.Open("C04-required-cookie-discards-earlier-errors") {
		return false
	}
	ck := meth.HTTP.Cookies
	return !(len(ck) == 1 && ck[0].Attr == top)
}

func hasRequiredCookie(d *m.Design, meth *m.Method) bool {
	if meth.Payload == nil {
		return false
	}
	for _, ck := range meth.HTTP.Cookies {
		if f := d.FieldByName(meth.Payload, ck.Attr); f != nil && f.Required {
			return true
		}
		if d.ObjectFields(meth.Payload) == nil {
			return true // primitive payload in a cookie is required
		}
	}
	return false
}

func primitiveWhere(meth *m.Method) string {
	h := meth.HTTP
	switch {
	case len(h.Path) > 0:
		return "path"
	case len(h.Query) > 0:
		return "query"
	case len(h.Headers) > 0:
		return "header"
	case len(h.Cookies) > 0:
		return "cookie"
	}
	return "body"
}

func resultLoc(d *m.Design, meth *m.Method, name string) gen.Loc {
	w := "body"
	if meth.HTTP != nil {
		for _, r := range meth.HTTP.Responses {
			if v := gen.RespWhereOf(d, meth, r)[name]; v != "" && v != "body" {
				w = v
			}
		}
	}
	l := gen.Loc{Where: w, MustSetDefaults: true}
	if w != "body" {
		l.NoEmpty = true
	}
	return l
}

func record(c *caseRec) {
	nt := false
	switch c.Kind {
	case "mutant", "result-mutant":
		nt = c.Fault.OneStep || c.Fault.Depth >= 1
		stats.Class("fault-rule:" + c.Fault.Rule)
		if c.Fault.Depth >= 1 {
			stats.Class("fault-depth>=1")
		}
		if c.Fault.OneStep {
			stats.Class("fault-one-step")
		}
	case "wire":
		nt = true
		for _, e := range c.Edits {
			stats.Class("wire-edit:" + e.Op)
		}
	}
	stats.Class("case:" + c.Kind)
	key := c.Service + "|" + c.Method + "|" + c.Kind + "|" + c.Payload.Canon() + "|" + c.Result.Canon() + fmt.Sprint(c.Edits)
	stats.CaseSample(key, nt, map[string]any{"method": c.Service + "." + c.Method, "kind": c.Kind, "payload": c.Payload.Canon(), "fault": c.Fault, "edits": c.Edits, "expect": c.Expect})
}

// wireFault chooses an edit of the request on the wire together with the
// error names the design promises for it.
func wireFault(t *rapid.T, d *m.Design, s *m.Service, meth *m.Method, c *caseRec) bool {
	h := meth.HTTP
	fields := d.ObjectFields(meth.Payload)
	type opt struct {
		edits  []harness.Edit
		expect []string
	}
	var opts []opt
	wireOf := func(l []m.Mapping, attr string) string {
		for _, mp := range l {
			if mp.Attr == attr {
				return mp.WireName()
			}
		}
		return attr
	}
	where := gen.WhereOf(d, meth)
	bodyAttrs := gen.BodyAttrs(d, meth)
	isBody := map[string]bool{}
	for _, n := range bodyAttrs {
		isBody[n] = true
	}
	bodyObject := fields != nil && !(h.Body != nil && h.Body.Mode == "attr") && len(bodyAttrs) > 0
	requiredInBody := false
	for _, f := range fields {
		_, set := c.Payload.Get(f.Name)
		k := d.Underlying(f.Attr)
		w := where[f.Name]
		// required attribute deleted from the wire
		if f.Required && set {
			switch w {
			case "query":
				opts = append(opts, opt{[]harness.Edit{{Op: "del_query", Name: wireOf(h.Query, f.Name)}}, []string{"missing_field"}})
			case "header":
				opts = append(opts, opt{[]harness.Edit{{Op: "del_header", Name: wireOf(h.Headers, f.Name)}}, []string{"missing_field"}})
			case "cookie":
				opts = append(opts, opt{[]harness.Edit{{Op: "del_cookie", Name: wireOf(h.Cookies, f.Name)}}, []string{"missing_field"}})
			case "body":
				if bodyObject {
					requiredInBody = true
					opts = append(opts, opt{[]harness.Edit{{Op: "json_del", Name: f.Name}}, []string{"missing_field"}})
				}
			}
		}
		// a value of the wrong type on the wire
		if set && (k.IsNumeric() || k == m.Boolean) {
			switch w {
			case "query":
				opts = append(opts, opt{[]harness.Edit{{Op: "set_query", Name: wireOf(h.Query, f.Name), Value: "not-a-number"}}, []string{"invalid_field_type"}})
				if k == m.Int32 || k == m.UInt32 {
					opts = append(opts, opt{[]harness.Edit{{Op: "set_query", Name: wireOf(h.Query, f.Name), Value: "99999999999"}}, []string{"invalid_field_type"}})
				}
			case "header":
				opts = append(opts, opt{[]harness.Edit{{Op: "set_header", Name: wireOf(h.Headers, f.Name), Value: "not-a-number"}}, []string{"invalid_field_type"}})
			case "cookie":
				opts = append(opts, opt{[]harness.Edit{{Op: "set_cookie", Name: wireOf(h.Cookies, f.Name), Value: "not-a-number"}}, []string{"invalid_field_type"}})
			case "body":
				if bodyObject {
					opts = append(opts, opt{[]harness.Edit{{Op: "json_set", Name: f.Name, Value: `"a string"`}}, []string{"decode_payload", "invalid_field_type"}})
				}
			}
		}
		if set && w == "body" && bodyObject && (k == m.String || k == m.Array || k == m.Object) {
			opts = append(opts, opt{[]harness.Edit{{Op: "json_set", Name: f.Name, Value: `12345`}}, []string{"decode_payload", "invalid_field_type"}})
		}
	}
	if bodyObject {
		opts = append(opts, opt{[]harness.Edit{{Op: "set_body", Value: `{"truncated":`}}, []string{"decode_payload"}})
		opts = append(opts, opt{[]harness.Edit{{Op: "set_header", Name: "Content-Type", Value: "application/x-unknown"}}, []string{"unsupported_media_type"}})
		if requiredInBody {
			opts = append(opts, opt{[]harness.Edit{{Op: "del_body"}}, []string{"missing_payload", "missing_field"}})
		}
	}
	if len(opts) == 0 {
		return false
	}
	o := opts[rapid.IntRange(0, len(opts)-1).Draw(t, "wirefault")]
	c.Edits, c.Expect = o.edits, o.expect
	return true
}

type errBody struct {
	Name    string `json:"name"`
	Message string `json:"message"`
	Fault   bool   `json:"fault"`
}

func runCase(b *rt.Built, s *m.Service, meth *m.Method, c *caseRec) string {
	d := b.Design
	hc := &harness.Case{Op: "call", Svc: s.Name, Method: meth.Name, HasPayload: meth.Payload != nil, Payload: c.Payload, Edits: c.Edits}
	hc.Stub = harness.StubSpec{HasResult: meth.Result != nil, Result: c.Result, View: "default"}
	obs, err := b.H.Do(hc)
	if err != nil {
		return "INCONCLUSIVE: harness: " + err.Error()
	}
	if obs.Err != "" {
		if strings.Contains(obs.Err, "conversion") && c.Kind != "valid" {
			stats.Class("skipped:mutant-not-expressible-in-go")
			return ""
		}
		return "harness could not run the case: " + obs.Err
	}
	if obs.Panic != "" {
		return "panic in generated client code: " + firstLines(obs.Panic, 24)
	}
	if obs.ServerPanic != "" {
		if c.Kind == "result-mutant" {
			// user code returned an invalid result (e.g. nil for a required object): the
			// property speaks about what the client accepts, not about servers fed invalid results
			stats.Class("server-panicked-on-invalid-result")
			return ""
		}
		return "panic in generated server code: " + firstLines(obs.ServerPanic, 24)
	}
	status, body := 0, ""
	if obs.Response != nil {
		status, body = obs.Response.Status, string(obs.Response.Body)
	}
	switch c.Kind {
	case "valid":
		if obs.StubCalls != 1 {
			return fmt.Sprintf("valid request: method invoked %d times (status %d, body %q)", obs.StubCalls, status, trunc(body))
		}
		if obs.ClientErr != nil {
			return fmt.Sprintf("valid request and result: client returned an error: %s", obs.ClientErr.Text)
		}
		return ""
	case "mutant", "wire":
		var expect []string
		if c.Kind == "mutant" {
			for _, v := range oracle.Validate(d, meth.Payload, oracle.Canonicalize(d, meth.Payload, c.Payload), "") {
				expect = append(expect, v.Rule)
			}
			if len(expect) == 0 {
				stats.Class("skipped:mutant-is-valid")
				return ""
			}
		} else {
			expect = c.Expect
		}
		c.Expect = expect
		if obs.StubCalls != 0 {
			return fmt.Sprintf("the method was invoked (%d) for a request violating %v (status %d)", obs.StubCalls, expect, status)
		}
		if obs.Response == nil {
			if obs.ClientErr != nil {
				// the generated client refused to send it: user code did not run either
				stats.Class("client-refused-invalid-payload")
				return ""
			}
			return "no response observed"
		}
		wantStatus := 400
		if len(expect) == 1 && expect[0] == "unsupported_media_type" {
			wantStatus = 415
		}
		if status != wantStatus {
			return fmt.Sprintf("status %d, want %d for a request violating %v (body %q)", status, wantStatus, expect, trunc(body))
		}
		var eb errBody
		if err := json.Unmarshal(obs.Response.Body, &eb); err != nil {
			return fmt.Sprintf("error body is not well-formed JSON: %v (%q)", err, trunc(body))
		}
		ok := false
		for _, e := range expect {
			if eb.Name == e {
				ok = true
			}
		}
		if !ok {
			return fmt.Sprintf("error name %q, the violated rule(s) are %v (message %q)", eb.Name, expect, eb.Message)
		}
		if obs.WriteHeaders != 1 {
			return fmt.Sprintf("WriteHeader called %d times", obs.WriteHeaders)
		}
		return ""
	case "result-mutant":
		if obs.StubCalls != 1 {
			stats.Class("skipped:request-not-delivered")
			return ""
		}
		var expect []string
		for _, v := range oracle.Validate(d, meth.Result, oracle.Canonicalize(d, meth.Result, c.Result), "") {
			expect = append(expect, v.Rule)
		}
		if len(expect) == 0 {
			stats.Class("skipped:mutant-is-valid")
			return ""
		}
		c.Expect = expect
		if status < 200 || status > 299 {
			// the server refused to encode it: the client cannot receive an invalid result either
			stats.Class("server-refused-invalid-result")
			return ""
		}
		if obs.ClientErr == nil {
			return fmt.Sprintf("the client returned a result violating %v: %s", expect, oracle.Canonicalize(d, meth.Result, obs.Result).Canon())
		}
		return ""
	}
	return ""
}

func trunc(s string) string {
	if len(s) > 300 {
		return s[:300] + "…"
	}
	return s
}

func firstLines(s string, n int) string {
	ls := strings.Split(s, "\n")
	if len(ls) > n {
		ls = ls[:n]
	}
	return strings.Join(ls, "\n")
}

var _ = url.PathEscape
var _ = kf.Open
