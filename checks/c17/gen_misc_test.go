package c17

import (
	"strconv"
	"strings"

	"pgregory.net/rapid"
)

// ---------------------------------------------------------------- uri (RFC 3986 section 3: scheme ":" hier-part [ "?" query ] [ "#" fragment ])

type uriParts struct {
	scheme    string
	form      string // authority, path-absolute, path-rootless, path-empty
	userinfo  string // "" = none
	host      string
	port      string // "" = none, ":" + digits otherwise
	path      string
	query     string // includes "?" when present
	fragment  string // includes "#" when present
	hostBrack bool
}

func (u *uriParts) String() string {
	s := u.scheme + ":"
	if u.form == "authority" {
		s += "//"
		if u.userinfo != "" {
			s += u.userinfo + "@"
		}
		s += u.host + u.port
	}
	return s + u.path + u.query + u.fragment
}

// uriFragClass: authority form, empty path, no query, a fragment.
func (u *uriParts) fragAfterAuthority() bool {
	return u.form == "authority" && u.path == "" && u.query == "" && u.fragment != ""
}

const (
	unreserved = alnum + "-._~"
	subDelims  = "!$&'()*+,;="
)

func drawPct(t *rapid.T) string { return "%" + strFrom(t, "pct", hexMixed, 2, 2) }

// drawChars draws 0..max characters from alphabet with occasional pct-encoded octets.
func drawChars(t *rapid.T, label, alphabet string, min, max int) string {
	n := intr(t, label+"#n", min, max)
	var b strings.Builder
	for i := 0; i < n; i++ {
		if intr(t, label+"-pct", 0, 7) == 0 {
			b.WriteString(drawPct(t))
		} else {
			b.WriteByte(alphabet[intr(t, label, 0, len(alphabet)-1)])
		}
	}
	return b.String()
}

func genURI(t *rapid.T) instance {
	u := &uriParts{}
	if rapid.Bool().Draw(t, "common-scheme") {
		u.scheme = pick(t, "scheme", "http", "https", "ftp", "HTTP", "ws", "mailto", "urn", "file", "git+ssh", "a")
	} else {
		u.scheme = strFrom(t, "scheme1", alpha, 1, 1) + strFrom(t, "scheme", alnum+"+-.", 0, 6)
	}
	pchar := unreserved + subDelims + ":@"
	u.form = pick(t, "form", "authority", "authority", "authority", "path-absolute", "path-rootless", "path-empty")
	segs := func(n int) string {
		var b strings.Builder
		for i := 0; i < n; i++ {
			b.WriteString("/" + drawChars(t, "segment", pchar, 0, 6))
		}
		return b.String()
	}
	switch u.form {
	case "authority":
		if intr(t, "has-userinfo", 0, 3) == 0 {
			u.userinfo = drawChars(t, "userinfo", unreserved+subDelims+":", 1, 8)
		}
		switch pick(t, "host-kind", "name", "name", "ipv4", "ipv6") {
		case "name":
			var l []string
			for i, n := 0, intr(t, "host-labels", 1, 3); i < n; i++ {
				l = append(l, genLDHLabel(t, "hlabel", true, 12))
			}
			u.host = strings.Join(l, ".")
		case "ipv4":
			u.host = strings.Join(drawQuad(t), ".")
		default:
			a, _ := drawV6(t)
			u.host, u.hostBrack = "["+a.String()+"]", true
		}
		if intr(t, "has-port", 0, 2) == 0 {
			u.port = ":" + strconv.Itoa(intr(t, "port", 0, 65535))
		}
		u.path = segs(intr(t, "segments", 0, 3)) // path-abempty
	case "path-absolute":
		u.path = "/" + drawChars(t, "segment-nz", pchar, 1, 6) + segs(intr(t, "segments", 0, 2))
	case "path-rootless":
		u.path = drawChars(t, "segment-nz", pchar, 1, 8) + segs(intr(t, "segments", 0, 2))
	}
	if intr(t, "has-query", 0, 2) == 0 {
		u.query = "?" + drawChars(t, "query", pchar+"/?", 0, 8)
	}
	if intr(t, "has-fragment", 0, 2) == 0 {
		u.fragment = "#" + drawChars(t, "fragment", pchar+"/?", 0, 6)
	}
	valid := u.String()
	return instance{Valid: valid, Form: u.form, URI: u, Corrupt: func(t *rapid.T) (string, string) {
		ops := []string{"control-byte-inserted", "empty", "scheme-missing"}
		if u.form == "authority" {
			ops = append(ops, "scheme-colon-removed", "scheme-illegal-first", "scheme-illegal-char", "space-in-host", "bad-pct-in-path", "port-non-numeric")
			if u.hostBrack {
				ops = append(ops, "bracket-unclosed")
			}
			if u.userinfo != "" {
				ops = append(ops, "bad-pct-in-userinfo")
			}
		}
		if u.form == "path-absolute" {
			ops = append(ops, "bad-pct-in-path")
		}
		c := *u
		switch op := pick(t, "op", ops...); op {
		case "control-byte-inserted":
			ctl := "\x00\x01\x08\x1f\x7f\n\t\r"
			return insertAt(valid, intr(t, "pos", 0, len(valid)), string(ctl[intr(t, "ctl", 0, len(ctl)-1)])), op
		case "empty":
			return "", op
		case "scheme-missing": // nothing before the colon
			return strings.TrimPrefix(valid, u.scheme), op
		case "scheme-colon-removed": // "http//host...": what precedes any later colon contains '/', so it is no scheme
			return u.scheme + strings.TrimPrefix(valid, u.scheme+":"), op
		case "scheme-illegal-first":
			c.scheme = pick(t, "first", "1", "+", "-", ".", "_", "9") + u.scheme
			return c.String(), op
		case "scheme-illegal-char":
			c.scheme = u.scheme + pick(t, "bad", "_", "!", "^", " ", "~", "*") + "x"
			return c.String(), op
		case "space-in-host":
			if u.hostBrack {
				c.host = insertAt(u.host, intr(t, "pos", 1, len(u.host)-1), " ")
			} else {
				c.host = insertAt(u.host, intr(t, "pos", 0, len(u.host)), " ")
			}
			return c.String(), op
		case "bad-pct-in-path":
			bad := pick(t, "bad", "%zz", "%g1", "%1g", "%-1", "%%", "% 1")
			if c.path == "" {
				c.path = "/"
			}
			c.path = insertAt(c.path, len(c.path), bad+"a")
			return c.String(), op
		case "bad-pct-in-userinfo":
			c.userinfo = u.userinfo + pick(t, "bad", "%zz", "%g1", "%1g")
			return c.String(), op
		case "port-non-numeric":
			c.port = ":" + pick(t, "bad", "8a", "x", "80x", "-1", "8 0", "http")
			return c.String(), op
		default: // bracket-unclosed
			c.host = strings.TrimSuffix(u.host, "]")
			c.port = ""
			return c.String(), op
		}
	}}
}

// ---------------------------------------------------------------- regexp (syntax accepted by RE2)

func genRegexp(t *rapid.T) instance {
	p := drawPattern(t)
	valid := p.text()
	return instance{Valid: valid, Form: "anchor-" + p.anchor, Corrupt: func(t *rapid.T) (string, string) {
		switch op := pick(t, "op", "unclosed-group", "unmatched-close", "unclosed-class", "trailing-backslash", "dangling-repeat", "nested-repeat", "bad-repeat-range", "repeat-too-large", "bad-escape", "unsupported-perl", "bad-class-range", "bad-flag", "invalid-utf8", "bad-named-class"); op {
		case "unclosed-group":
			return pick(t, "open", "(", "(?:", "(?i:", "(?P<n>") + valid, op
		case "unmatched-close":
			return valid + ")", op
		case "unclosed-class":
			return valid + pick(t, "cls", "[a", "[", "[^", "[a-", "[[:alpha:]"), op
		case "trailing-backslash":
			return valid + `\`, op
		case "dangling-repeat": // nothing to repeat at the very start
			return pick(t, "rep", "*", "+", "?", "{2}*") + valid, op
		case "nested-repeat":
			return valid + pick(t, "rep", "a**", "a+*", "a?+", "a*{2}", "a{2}{3}"), op
		case "bad-repeat-range":
			return valid + pick(t, "rep", "a{2,1}", "b{5,0}", "a{3,2}?"), op
		case "repeat-too-large":
			return valid + pick(t, "rep", "a{1001}", "a{0,1001}", "a{99999}"), op
		case "bad-escape":
			return valid + pick(t, "esc", `\q`, `\8`, `\i`, `\y`), op
		case "unsupported-perl": // look-around and back-references are not RE2
			return valid + pick(t, "perl", "(?=a)", "(?!a)", "(?<=a)", `(a)\1`, "(?#c)"), op
		case "bad-class-range":
			return valid + pick(t, "cls", "[z-a]", "[9-0]", "[b-a]"), op
		case "bad-flag":
			return valid + pick(t, "flag", "(?z)", "(?ix)", "(?i-)", "(?i"), op
		case "invalid-utf8":
			return insertAt(valid, len(valid), pick(t, "byte", "\xff", "\xc3", "\xe2\x82")), op
		default:
			return valid + pick(t, "cls", "[[:foo:]]", `\pX`, `\p{Foo}`), op
		}
	}}
}

// ---------------------------------------------------------------- json (RFC 8259)

// jtok is a token of a JSON text; kind lets corruption operators find places.
type jtok struct {
	kind string // ws open-arr close-arr open-obj close-obj comma colon string key number literal
	text string
}

func drawWS(t *rapid.T) string { return strFrom(t, "ws", " \t\n\r", 0, 2) }

// every ASCII character that may appear unescaped in a JSON string (no quote, no backslash)
const jsonASCII = " !#$%&'()*+,-./0123456789:;<=>?@ABCXYZ[]^_`abcxyz{|}~\x7f"

func drawJSONString(t *rapid.T) string {
	var b strings.Builder
	b.WriteByte('"')
	for i, n := 0, intr(t, "str-len", 0, 6); i < n; i++ {
		switch pick(t, "char-kind", "ascii", "ascii", "ascii", "escape", "unicode-escape", "utf8") {
		case "ascii":
			b.WriteByte(jsonASCII[intr(t, "ascii", 0, len(jsonASCII)-1)])
		case "escape":
			b.WriteString(`\` + pick(t, "esc", `"`, `\`, "/", "b", "f", "n", "r", "t"))
		case "unicode-escape":
			b.WriteString(`\u` + strFrom(t, "hex", hexMixed, 4, 4))
		default:
			b.WriteString(pick(t, "utf8", "\u00e9", "\u65e5", "\U0001F600", "\u2028", "\u00df"))
		}
	}
	b.WriteByte('"')
	return b.String()
}

func drawJSONNumber(t *rapid.T) string {
	s := ""
	if rapid.Bool().Draw(t, "neg") {
		s = "-"
	}
	if intr(t, "zero", 0, 3) == 0 {
		s += "0"
	} else {
		s += strFrom(t, "d1", "123456789", 1, 1) + strFrom(t, "dn", digits, 0, 5)
	}
	if intr(t, "has-frac", 0, 2) == 0 {
		s += "." + strFrom(t, "frac", digits, 1, 4)
	}
	if intr(t, "has-exp", 0, 2) == 0 {
		s += pick(t, "e", "e", "E") + pick(t, "esign", "", "+", "-") + strFrom(t, "exp", digits, 1, 3)
	}
	return s
}

func drawJSONValue(t *rapid.T, depth int, out *[]jtok) {
	kinds := []string{"string", "number", "literal"}
	if depth > 0 {
		kinds = append(kinds, "array", "object", "array", "object", "array", "object")
	}
	switch pick(t, "json-kind", kinds...) {
	case "string":
		*out = append(*out, jtok{"string", drawJSONString(t)})
	case "number":
		*out = append(*out, jtok{"number", drawJSONNumber(t)})
	case "literal":
		*out = append(*out, jtok{"literal", pick(t, "lit", "true", "false", "null")})
	case "array":
		*out = append(*out, jtok{"open-arr", "["}, jtok{"ws", drawWS(t)})
		for i, n := 0, intr(t, "elems", 0, 3); i < n; i++ {
			if i > 0 {
				*out = append(*out, jtok{"comma", ","}, jtok{"ws", drawWS(t)})
			}
			drawJSONValue(t, depth-1, out)
			*out = append(*out, jtok{"ws", drawWS(t)})
		}
		*out = append(*out, jtok{"close-arr", "]"})
	default:
		*out = append(*out, jtok{"open-obj", "{"}, jtok{"ws", drawWS(t)})
		for i, n := 0, intr(t, "members", 0, 3); i < n; i++ {
			if i > 0 {
				*out = append(*out, jtok{"comma", ","}, jtok{"ws", drawWS(t)})
			}
			*out = append(*out, jtok{"key", drawJSONString(t)}, jtok{"ws", drawWS(t)}, jtok{"colon", ":"}, jtok{"ws", drawWS(t)})
			drawJSONValue(t, depth-1, out)
			*out = append(*out, jtok{"ws", drawWS(t)})
		}
		*out = append(*out, jtok{"close-obj", "}"})
	}
}

func joinToks(toks []jtok) string {
	var b strings.Builder
	for _, k := range toks {
		b.WriteString(k.text)
	}
	return b.String()
}

func genJSON(t *rapid.T) instance {
	var toks []jtok
	toks = append(toks, jtok{"ws", drawWS(t)})
	drawJSONValue(t, pick(t, "depth", 0, 1, 2, 2, 3, 3), &toks)
	toks = append(toks, jtok{"ws", drawWS(t)})
	valid := joinToks(toks)
	top := toks[1].kind
	form := "scalar:" + top
	if strings.HasPrefix(top, "open-") {
		form = "container"
	}
	idx := func(kinds ...string) []int {
		var r []int
		for i, k := range toks {
			for _, want := range kinds {
				if k.kind == want {
					r = append(r, i)
				}
			}
		}
		return r
	}
	replace := func(i int, text string) string {
		c := append([]jtok{}, toks...)
		c[i].text = text
		return joinToks(c)
	}
	return instance{Valid: valid, Form: form, Corrupt: func(t *rapid.T) (string, string) {
		ops := []string{"trailing-garbage", "illegal-whitespace", "empty"}
		if top != "number" {
			ops = append(ops, "truncated")
		}
		add := func(op string, kinds ...string) {
			if len(idx(kinds...)) > 0 {
				ops = append(ops, op)
			}
		}
		add("trailing-comma", "close-arr", "close-obj")
		add("colon-removed", "colon")
		add("comma-corrupted", "comma")
		add("bad-number", "number")
		add("bad-literal", "literal")
		add("bad-string", "string", "key")
		add("unquoted-key", "key")
		add("bracket-mismatch", "close-arr", "close-obj")
		at := func(kinds ...string) int { return pick(t, "where", idx(kinds...)...) }
		switch op := pick(t, "op", ops...); op {
		case "trailing-garbage":
			return valid + pick(t, "tail", " x", "]", "}", ",", " {}", " null", "\"", ":"), op
		case "illegal-whitespace": // RFC 8259 ws is space, tab, LF, CR only
			w := pick(t, "ws", "\f", "\v", "\u00a0", "\ufeff", "\x00")
			if rapid.Bool().Draw(t, "front") {
				return w + valid, op
			}
			return valid + w, op
		case "empty":
			return toks[0].text, op
		case "truncated": // the closing quote/bracket/last letter is cut off
			end := len(valid) - len(toks[len(toks)-1].text) - 1
			return valid[:intr(t, "cut", 0, end)], op
		case "trailing-comma":
			i := at("close-arr", "close-obj")
			return replace(i, ","+toks[i].text), op
		case "colon-removed":
			return replace(at("colon"), pick(t, "colon", "", "=", ";", "::")), op
		case "comma-corrupted":
			return replace(at("comma"), pick(t, "comma", ";", ",,", ":", "|")), op
		case "bad-number":
			return replace(at("number"), pick(t, "num", "01", "-01", "+1", ".5", "1.", "-", "1e", "1e+", "0x10", "NaN", "Infinity", "-Infinity", "1.e5", "00", "1_000", "--1")), op
		case "bad-literal":
			return replace(at("literal"), pick(t, "lit", "True", "FALSE", "nul", "tru", "undefined", "nil", "None", "nulll")), op
		case "bad-string":
			i := at("string", "key")
			s := toks[i].text
			inner := s[1 : len(s)-1]
			bad := pick(t, "str", "'"+strings.ReplaceAll(inner, "'", "")+"'", "\""+inner+"\x01\"", "\""+inner+"\n\"", "\""+inner+`\x41"`, "\""+inner+`\u12G4"`, "\""+inner+`\u12"`, "\""+inner+`\'"`, "\""+inner+"\t\"")
			return replace(i, bad), op
		case "unquoted-key":
			return replace(at("key"), "k"), op
		default: // bracket-mismatch
			i := at("close-arr", "close-obj")
			if toks[i].kind == "close-arr" {
				return replace(i, "}"), op
			}
			return replace(i, "]"), op
		}
	}}
}
