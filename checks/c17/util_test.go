// Package c17 decides property C17: format and pattern validators accept
// exactly the named formats; pattern validation agrees with regular-expression
// matching regardless of call history and concurrent use.
package c17

import (
	"errors"
	"fmt"
	"os"
	"regexp"
	"strings"
	"testing"

	goa "goa.design/goa/v3/pkg"
	"pgregory.net/rapid"

	"verif/internal/stats"
)

func TestMain(m *testing.M) { stats.Main(m) }

// ---------------------------------------------------------------- draw helpers

func pick[T any](t *rapid.T, label string, xs ...T) T {
	return rapid.SampledFrom(xs).Draw(t, label)
}

func intr(t *rapid.T, label string, lo, hi int) int {
	return rapid.IntRange(lo, hi).Draw(t, label)
}

// strFrom draws a string of n in [min,max] bytes taken from alphabet.
func strFrom(t *rapid.T, label, alphabet string, min, max int) string {
	n := intr(t, label+"#n", min, max)
	var b strings.Builder
	for i := 0; i < n; i++ {
		b.WriteByte(alphabet[intr(t, label, 0, len(alphabet)-1)])
	}
	return b.String()
}

const (
	digits   = "0123456789"
	hexLower = "0123456789abcdef"
	hexUpper = "0123456789ABCDEF"
	hexMixed = "0123456789abcdefABCDEF"
	lower    = "abcdefghijklmnopqrstuvwxyz"
	upper    = "ABCDEFGHIJKLMNOPQRSTUVWXYZ"
	alpha    = lower + upper
	alnum    = alpha + digits
)

// insertAt returns s with ins inserted at byte offset i.
func insertAt(s string, i int, ins string) string { return s[:i] + ins + s[i:] }

// deleteAt returns s without the byte at offset i.
func deleteAt(s string, i int) string { return s[:i] + s[i+1:] }

// insertByte inserts one byte of alphabet at a drawn position of s.
func insertByte(t *rapid.T, s, alphabet string) string {
	i := intr(t, "ins-pos", 0, len(s))
	c := alphabet[intr(t, "ins-byte", 0, len(alphabet)-1)]
	return insertAt(s, i, string(c))
}

// properPrefix returns a proper prefix of s of length in [0, maxLen].
func properPrefix(t *rapid.T, s string, maxLen int) string {
	if maxLen > len(s)-1 {
		maxLen = len(s) - 1
	}
	if maxLen < 0 {
		maxLen = 0
	}
	return s[:intr(t, "cut", 0, maxLen)]
}

// record is stats.Case, keeping at most max samples per sample class so that
// the evidence shows one or two cases of every kind of test.
var sampleCount = map[string]int{}

func record(class string, max int, key string, nontrivial bool, sample map[string]any) {
	if sh := os.Getenv("VERIF_SHARD"); sampleCount[class] < max && (sh == "" || sh == "0") {
		sampleCount[class]++
		stats.CaseSample(key, nontrivial, sample)
		return
	}
	stats.Case(key, nontrivial)
}

// ---------------------------------------------------------------- observing goa

// verdict calls ValidateFormat and classifies the result.
//
//	accepted: nil
//	named:    the error is a *goa.ServiceError whose GoaErrorName is invalid_format
func verdict(val string, f goa.Format) (accepted, named bool, err error) {
	err = goa.ValidateFormat("attr", val, f)
	if err == nil {
		return true, false, nil
	}
	var se *goa.ServiceError
	if errors.As(err, &se) && se.GoaErrorName() == "invalid_format" {
		return false, true, err
	}
	return false, false, err
}

// mustAccept / mustReject return "" or a description of the disagreement.
func mustAccept(val string, f goa.Format) string {
	if ok, _, err := verdict(val, f); !ok {
		return fmt.Sprintf("well-formed %s value %q rejected: %v", f, val, err)
	}
	return ""
}

func mustReject(val string, f goa.Format, why string) string {
	ok, named, err := verdict(val, f)
	if ok {
		return fmt.Sprintf("malformed %s value %q (%s) accepted", f, val, why)
	}
	if !named {
		return fmt.Sprintf("malformed %s value %q (%s) rejected with an error that is not a ServiceError named invalid_format: %T %v", f, val, why, err, err)
	}
	return ""
}

// ---------------------------------------------------------------- known-finding classes (my model's vocabulary)

const (
	kfHostAccept = "C17-hostname-ungrouped-alternation-accepts-malformed"
	kfHostReject = "C17-hostname-rejects-dotted-name-ending-in-digit"
	kfUUIDBraces = "C17-uuid-38-bytes-without-braces-accepted"
	kfURIFrag    = "C17-uri-fragment-after-authority-rejected"
)

var reHostPrefixArm = regexp.MustCompile(`^[0-9A-Za-z][0-9A-Za-z-]{0,61}[0-9A-Za-z]`)

// hostArms: the string has a prefix "alnum, up to 61 alnum/hyphen, alnum" or
// ends with an ASCII letter — the two arms of the ungrouped alternation.
func hostArms(s string) bool {
	if reHostPrefixArm.MatchString(s) {
		return true
	}
	if n := len(s); n > 0 {
		c := s[n-1]
		return c >= 'a' && c <= 'z' || c >= 'A' && c <= 'Z'
	}
	return false
}

// hostRejectClass: a well-formed host name with >= 2 labels whose first label
// is a single character and whose last character is a digit.
func hostRejectClass(labels []string) bool {
	if len(labels) < 2 || len(labels[0]) != 1 {
		return false
	}
	last := labels[len(labels)-1]
	c := last[len(last)-1]
	return c >= '0' && c <= '9'
}

var reCanonicalUUID = regexp.MustCompile(`^[0-9a-fA-F]{8}-[0-9a-fA-F]{4}-[0-9a-fA-F]{4}-[89abAB][0-9a-fA-F]{3}-[0-9a-fA-F]{12}$`)

// uuidBraceClass: 38 bytes, the middle 36 are a canonical RFC 4122 UUID, the
// first and last byte are not the brace pair.
func uuidBraceClass(s string) bool {
	return len(s) == 38 && reCanonicalUUID.MatchString(s[1:37]) && !(s[0] == '{' && s[37] == '}')
}
