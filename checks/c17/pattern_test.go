package c17

import (
	"errors"
	"fmt"
	"regexp"
	"sync"
	"sync/atomic"
	"testing"

	goa "goa.design/goa/v3/pkg"
	"pgregory.net/rapid"

	"verif/internal/stats"
)

// ---------------------------------------------------------------- reference and bookkeeping

// refCache memoises the reference regexps of this check (keyed by the FULL
// pattern text; independent of goa's cache).
var (
	refMu    sync.Mutex
	refCache = map[string]*regexp.Regexp{}
)

func reference(p string) *regexp.Regexp {
	refMu.Lock()
	defer refMu.Unlock()
	r, ok := refCache[p]
	if !ok {
		r = regexp.MustCompile(p)
		refCache[p] = r
	}
	return r
}

// patternVerdict calls goa. ok = nil result; named = error is a ServiceError
// named invalid_pattern.
func patternVerdict(val, p string) (ok, named bool) {
	err := goa.ValidatePattern("attr", val, p)
	if err == nil {
		return true, false
	}
	var se *goa.ServiceError
	return false, errors.As(err, &se) && se.GoaErrorName() == "invalid_pattern"
}

func checkPattern(val, p string) string {
	want := reference(p).MatchString(val)
	ok, named := patternVerdict(val, p)
	if ok != want {
		return fmt.Sprintf("ValidatePattern(%q, %q): nil=%v but regexp.MustCompile(p).MatchString(v)=%v", val, p, ok, want)
	}
	if !ok && !named {
		return fmt.Sprintf("ValidatePattern(%q, %q): the error is not a ServiceError named invalid_pattern", val, p)
	}
	return ""
}

// history of the patterns handed to goa by THIS process (the cache under test
// is process-global), to compute the non-triviality rule.
var (
	histMu        sync.Mutex
	histSeen      = map[string]bool{}
	histRecent    []string // most recently used distinct patterns, oldest first, at most 11
	histDistinct  int
	uniqueCounter atomic.Int64
)

// noteUse records a use of pattern p and reports (firstUse, othersSince):
// othersSince = number of distinct other patterns used since the previous use
// of p (for a first use: number of distinct patterns used before), capped at 11.
func noteUse(p string) (first bool, others int) {
	histMu.Lock()
	defer histMu.Unlock()
	idx := -1
	for i, q := range histRecent {
		if q == p {
			idx = i
		}
	}
	switch {
	case !histSeen[p]:
		first, others = true, histDistinct
		if others > 11 {
			others = 11
		}
		histSeen[p] = true
		histDistinct++
	case idx >= 0:
		others = len(histRecent) - 1 - idx
	default:
		others = 11
	}
	if idx >= 0 {
		histRecent = append(histRecent[:idx], histRecent[idx+1:]...)
	}
	histRecent = append(histRecent, p)
	if len(histRecent) > 11 {
		histRecent = histRecent[len(histRecent)-11:]
	}
	return first, others
}

func freshToken() string { return fmt.Sprintf("u%dq", uniqueCounter.Add(1)) }

// ---------------------------------------------------------------- single pattern, many values

// TestPatternAgreement: one generated pattern, several values (members by
// construction, non-members by construction, arbitrary strings).
func TestPatternAgreement(t *testing.T) {
	rapid.Check(t, func(t *rapid.T) {
		p := drawPattern(t)
		if rapid.Bool().Draw(t, "fresh") {
			p.token = freshToken()
		}
		text := p.text()
		nt := false
		for i, n := 0, intr(t, "values", 1, 6); i < n; i++ {
			val, want, kind := p.value(t)
			first, others := noteUse(text)
			if i == 0 { // the rule speaks about the pattern: first seen after >= 10 others
				nt = first && others >= 10
			}
			ref := reference(text).MatchString(val)
			cls := "nonmatch"
			if ref {
				cls = "match"
			}
			stats.Class("pattern:" + kind + ":" + cls)
			if want >= 0 && (want == 1) != ref {
				// the generator's own expectation disagrees with the reference: a defect of this check, not of goa
				stats.Class("pattern:SELFCHECK-DISAGREE")
				stats.Note("self-check: pattern %q value %q kind %s: constructed expectation %d, reference %v", text, val, kind, want, ref)
			}
			record(fmt.Sprint("pat", nt), 1, "pat|"+p.key()+"|"+val, nt, map[string]any{"kind": "pattern", "pattern": text, "value": val, "value_kind": kind, "matches": ref})
			if msg := checkPattern(val, text); msg != "" {
				t.Fatalf("%s (value kind %s)", msg, kind)
			}
		}
	})
}

// key: the pattern without its uniqueness token (so that distinct counts are
// not inflated by the token).
func (p *pattern) key() string {
	q := *p
	q.token = ""
	return q.text()
}

// ---------------------------------------------------------------- stateful histories

// a handful of patterns that every case may use again: re-use across cases
// after arbitrarily many other patterns
var commonPatterns = []string{`^[a-z]+$`, `\d+`, `^(?:a|b)c$`, `^ab`, `ab$`, `^[a-z]+\d$`, `^[a-z]+\d*$`, `^[A-Z][a-z]*$`, `(?i)^abc$`, `^abc$`, `^a.c$`, `^a\.c$`, `^$`, ``, `^[^#]*$`}

type histOp struct {
	pattern string
	key     string
	val     string
	kind    string
}

// drawFamily draws patterns that are textually close to each other: same
// body under the four anchorings, with and without (?i), and the body
// extended by one more atom — so that prefixes, suffixes and lengths collide.
func drawFamily(t *rapid.T) []*pattern {
	base := drawPattern(t)
	fam := []*pattern{base}
	for i, n := 0, intr(t, "siblings", 1, 4); i < n; i++ {
		q := *base
		switch pick(t, "variation", "anchor", "fold", "extend", "wrap") {
		case "anchor":
			q.anchor = pick(t, "anchor2", "both", "none", "prefix", "suffix")
		case "fold":
			q.fold = !base.fold
		case "extend":
			q.root = &rnode{kind: "cat", subs: []*rnode{base.root, drawNode(t, 0)}}
		default:
			q.root = &rnode{kind: pick(t, "wrap-kind", "quest", "plus", "cap"), subs: []*rnode{base.root}}
		}
		fam = append(fam, &q)
	}
	return fam
}

// TestPatternHistory: interleaved calls with many distinct patterns; every
// verdict must equal the reference whatever was validated before.
func TestPatternHistory(t *testing.T) {
	rapid.Check(t, func(t *rapid.T) {
		var pool []*pattern
		for len(pool) < 12 {
			pool = append(pool, drawFamily(t)...)
		}
		// half of the pool is made never-seen-before with a token; the token
		// sits at the END of the text so that prefixes still collide
		for _, p := range pool {
			if rapid.Bool().Draw(t, "fresh") {
				p.token = freshToken()
			}
		}
		nOps := intr(t, "ops", 12, 40)
		for i := 0; i < nOps; i++ {
			var op histOp
			if intr(t, "use-common", 0, 5) == 0 {
				op.pattern = commonPatterns[intr(t, "common", 0, len(commonPatterns)-1)]
				op.key = op.pattern
				op.val = strFrom(t, "common-val", "abcAZ019.# ", 0, 5)
				op.kind = "random"
			} else {
				p := pool[intr(t, "pattern", 0, len(pool)-1)]
				op.pattern, op.key = p.text(), p.key()
				op.val, _, op.kind = p.value(t)
			}
			first, others := noteUse(op.pattern)
			nt := others >= 10
			switch {
			case first && nt:
				stats.Class("history:first-use-after>=10-others")
			case first:
				stats.Class("history:first-use-early")
			case nt:
				stats.Class("history:re-use-after>=10-others")
			default:
				stats.Class("history:re-use-recent")
			}
			if reference(op.pattern).MatchString(op.val) {
				stats.Class("history:match")
			} else {
				stats.Class("history:nonmatch")
			}
			record(fmt.Sprint("hist", nt), 1, fmt.Sprintf("hist|%s|%s|%v", op.key, op.val, first), nt, map[string]any{"kind": "history-step", "step": i, "pattern": op.pattern, "value": op.val, "first_use": first, "distinct_others_since": others})
			if msg := checkPattern(op.val, op.pattern); msg != "" {
				t.Fatalf("step %d: %s", i, msg)
			}
		}
	})
}

// ---------------------------------------------------------------- concurrent histories (run from the -race build)

type concOp struct {
	pattern string
	val     string
	want    bool
}

// TestPatternConcurrent: 1-16 goroutines released together validate against
// patterns none of which this process has used before; every verdict must
// equal the reference and the race detector must stay silent.
func TestPatternConcurrent(t *testing.T) {
	rapid.Check(t, func(t *rapid.T) {
		g := intr(t, "goroutines", 1, 16)
		if intr(t, "many", 0, 2) == 0 {
			g = intr(t, "goroutines-many", 8, 16)
		}
		fam := drawFamily(t)
		k := intr(t, "patterns", 1, len(fam))
		fam = fam[:k]
		texts := make([]string, k)
		for i, p := range fam {
			p.token = freshToken() // first use happens inside the goroutines
			texts[i] = p.text()
			reference(texts[i])
		}
		plans := make([][]concOp, g)
		sameStart := rapid.Bool().Draw(t, "same-first-pattern")
		for gi := range plans {
			n := intr(t, "ops", 1, 6)
			for j := 0; j < n; j++ {
				pi := intr(t, "pattern", 0, k-1)
				if j == 0 && sameStart {
					pi = 0
				}
				val, _, _ := fam[pi].value(t)
				plans[gi] = append(plans[gi], concOp{texts[pi], val, reference(texts[pi]).MatchString(val)})
			}
		}
		type bad struct {
			g, i      int
			ok, named bool
		}
		var (
			start = make(chan struct{})
			wg    sync.WaitGroup
			mu    sync.Mutex
			bads  []bad
		)
		for gi := range plans {
			wg.Add(1)
			go func(gi int) {
				defer wg.Done()
				<-start
				for i, op := range plans[gi] {
					ok, named := patternVerdict(op.val, op.pattern)
					if ok != op.want || (!ok && !named) {
						mu.Lock()
						bads = append(bads, bad{gi, i, ok, named})
						mu.Unlock()
					}
				}
			}(gi)
		}
		close(start)
		wg.Wait()
		total := 0
		for gi := range plans {
			total += len(plans[gi])
			for _, op := range plans[gi] {
				noteUse(op.pattern)
			}
		}
		stats.Class(fmt.Sprintf("concurrent:goroutines=%02d", g))
		stats.ClassN("concurrent:validations", int64(total))
		key := fmt.Sprintf("conc|%d|", g)
		for _, p := range fam {
			key += p.key() + "|"
		}
		record("conc", 1, key+fmt.Sprint(plans), true, map[string]any{"kind": "concurrent-history", "goroutines": g, "fresh_patterns": texts, "validations": total})
		if len(bads) > 0 {
			b := bads[0]
			op := plans[b.g][b.i]
			t.Fatalf("goroutine %d of %d, step %d: ValidatePattern(%q, %q) nil=%v (named=%v), reference match=%v", b.g, g, b.i, op.val, op.pattern, b.ok, b.named, op.want)
		}
	})
}
