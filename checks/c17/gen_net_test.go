package c17

import (
	"fmt"
	"strconv"
	"strings"

	"pgregory.net/rapid"
)

// ---------------------------------------------------------------- ipv4 (dotted quad)

func drawOctet(t *rapid.T) int {
	if intr(t, "octet-special", 0, 2) == 0 {
		return pick(t, "octet", 0, 1, 9, 10, 99, 100, 127, 199, 200, 249, 250, 254, 255)
	}
	return intr(t, "octet", 0, 255)
}

func drawQuad(t *rapid.T) []string {
	q := make([]string, 4)
	for i := range q {
		q[i] = strconv.Itoa(drawOctet(t))
	}
	return q
}

const ipJunk = "xgz!/ _-"

// corruptQuad draws a single-point corruption of a dotted quad.
func corruptQuad(t *rapid.T, q []string) (string, string) {
	valid := strings.Join(q, ".")
	switch op := pick(t, "v4-op", "field-out-of-range", "field-missing", "extra-field", "separator-removed", "separator-doubled", "byte-inserted", "truncated", "trailing-separator"); op {
	case "field-out-of-range":
		r := append([]string{}, q...)
		r[intr(t, "which", 0, 3)] = strconv.Itoa(pick(t, "oor", 256, 257, 260, 299, 300, 999, 1000, 4096, intr(t, "oor-any", 256, 9999)))
		return strings.Join(r, "."), op
	case "field-missing":
		i := intr(t, "which", 0, 3)
		r := append(append([]string{}, q[:i]...), q[i+1:]...)
		return strings.Join(r, "."), op
	case "extra-field":
		return valid + "." + strconv.Itoa(drawOctet(t)), op
	case "separator-removed": // three fields remain
		i := intr(t, "which", 0, 2)
		return strings.Join(q[:i+1], ".") + strings.Join(q[i+1:], "."), op
	case "separator-doubled":
		i := intr(t, "which", 0, 2)
		return strings.Join(q[:i+1], ".") + ".." + strings.Join(q[i+1:], "."), op
	case "byte-inserted":
		return insertByte(t, valid, ipJunk), op
	case "truncated": // at most three complete fields remain
		return properPrefix(t, valid, strings.LastIndex(valid, ".")+1), op
	default:
		return valid + ".", op
	}
}

func genIPv4(t *rapid.T) instance {
	q := drawQuad(t)
	return instance{Valid: strings.Join(q, "."), Form: "dotted-quad", Corrupt: func(t *rapid.T) (string, string) { return corruptQuad(t, q) }}
}

// ---------------------------------------------------------------- ipv6 (RFC 2373 section 2.2 text forms)

type v6 struct {
	left, right []string // hex groups left and right of "::"
	ellipsis    bool
	tail        []string // dotted quad occupying the last 32 bits, nil if none
	mapped      bool
}

func (a v6) String() string {
	r := append([]string{}, a.right...)
	if a.tail != nil {
		r = append(r, strings.Join(a.tail, "."))
	}
	if !a.ellipsis {
		return strings.Join(append(append([]string{}, a.left...), r...), ":")
	}
	return strings.Join(a.left, ":") + "::" + strings.Join(r, ":")
}

func drawGroup(t *rapid.T) string {
	if intr(t, "group-special", 0, 3) == 0 {
		return pick(t, "group", "0", "1", "ffff", "FFFF", "0000", "00", "a", "fe80", "2001", "db8", "0DB8")
	}
	return strFrom(t, "group", pick(t, "group-case", hexLower, hexUpper), 1, 4)
}

func drawGroups(t *rapid.T, n int) []string {
	g := make([]string, n)
	for i := range g {
		g[i] = drawGroup(t)
	}
	return g
}

func drawV6(t *rapid.T) (v6, string) {
	form := pick(t, "v6-form", "full", "compressed", "compressed", "mixed-full", "mixed-compressed", "ipv4-mapped", "ipv4-mapped")
	var a v6
	switch form {
	case "full":
		a.left = drawGroups(t, 8)
	case "compressed":
		n := intr(t, "explicit", 0, 6) // "::" stands for at least two groups (RFC 2373: "multiple groups")
		l := intr(t, "left", 0, n)
		a.left, a.right, a.ellipsis = drawGroups(t, l), drawGroups(t, n-l), true
	case "mixed-full":
		a.left, a.tail = drawGroups(t, 6), drawQuad(t)
	case "mixed-compressed":
		n := intr(t, "explicit", 0, 4)
		l := intr(t, "left", 0, n)
		a.left, a.right, a.ellipsis, a.tail = drawGroups(t, l), drawGroups(t, n-l), true, drawQuad(t)
	default: // ::ffff:a.b.c.d and its uncompressed spelling
		a.mapped, a.tail = true, drawQuad(t)
		ffff := pick(t, "ffff", "ffff", "FFFF")
		if rapid.Bool().Draw(t, "mapped-compressed") {
			a.ellipsis, a.right = true, []string{ffff}
		} else {
			a.left = []string{"0", "0", "0", "0", "0", ffff}
		}
	}
	return a, form
}

func corruptV6(t *rapid.T, a v6) (string, string) {
	valid := a.String()
	ops := []string{"group-too-long", "byte-inserted", "two-ellipses", "too-many-groups", "trailing-colon", "leading-colon", "triple-colon"}
	if !a.ellipsis {
		ops = append(ops, "too-few-groups", "truncated", "ellipsis-with-all-groups")
	}
	if a.tail != nil {
		ops = append(ops, "quad-out-of-range", "quad-not-last")
	}
	if len(a.left)+len(a.right) == 0 {
		// "::" or "::a.b.c.d": some operators need a group
		ops = []string{"byte-inserted", "two-ellipses", "triple-colon", "too-many-groups"}
	}
	switch op := pick(t, "v6-op", ops...); op {
	case "group-too-long":
		b := a
		bad := strFrom(t, "long-group", hexLower, 5, 6)
		if len(a.left) > 0 && (len(a.right) == 0 || rapid.Bool().Draw(t, "in-left")) {
			b.left = append([]string{}, a.left...)
			b.left[intr(t, "which", 0, len(b.left)-1)] = bad
		} else {
			b.right = append([]string{}, a.right...)
			b.right[intr(t, "which", 0, len(b.right)-1)] = bad
		}
		return b.String(), op
	case "byte-inserted":
		return insertByte(t, valid, ipJunk), op
	case "two-ellipses":
		if a.ellipsis {
			return valid + "::" + drawGroup(t), op
		}
		// drop two groups, put an ellipsis in two places
		return a.left[0] + "::" + a.left[2] + "::" + strings.Join(a.left[4:], ":") + suffixQuad(a), op
	case "too-many-groups": // nine groups worth of bits
		extra := strings.Join(drawGroups(t, 9), ":")
		return extra, op
	case "trailing-colon":
		if strings.HasSuffix(valid, ":") {
			return valid + ":", "triple-colon"
		}
		return valid + ":", op
	case "leading-colon":
		if strings.HasPrefix(valid, ":") {
			return ":" + valid, "triple-colon"
		}
		return ":" + valid, op
	case "triple-colon":
		if a.ellipsis {
			return strings.Replace(valid, "::", ":::", 1), op
		}
		return strings.Replace(valid, ":", ":::", 1), op
	case "too-few-groups":
		i := intr(t, "which", 0, len(a.left)-1)
		b := a
		b.left = append(append([]string{}, a.left[:i]...), a.left[i+1:]...)
		return b.String(), op
	case "truncated": // no ellipsis: every proper prefix has too few groups
		return properPrefix(t, valid, len(valid)-1-len(lastField(valid))), op
	case "ellipsis-with-all-groups": // "::" must stand for at least one group
		return strings.Replace(valid, ":", "::", 1), op
	case "quad-out-of-range":
		b := a
		b.tail = append([]string{}, a.tail...)
		b.tail[intr(t, "which", 0, 3)] = strconv.Itoa(intr(t, "oor", 256, 999))
		return b.String(), op
	default: // quad-not-last
		return strings.Join(a.tail, ".") + ":" + strings.TrimPrefix(valid[:len(valid)-len(strings.Join(a.tail, "."))], ":") + "1", op
	}
}

func suffixQuad(a v6) string {
	if a.tail != nil {
		return ":" + strings.Join(a.tail, ".")
	}
	return ""
}

func lastField(s string) string { return s[strings.LastIndex(s, ":")+1:] }

func genIPv6(t *rapid.T) instance {
	a, form := drawV6(t)
	return instance{Valid: a.String(), Form: form, Corrupt: func(t *rapid.T) (string, string) { return corruptV6(t, a) }}
}

// ---------------------------------------------------------------- ip = ipv4 or ipv6

func genIP(t *rapid.T) instance {
	if rapid.Bool().Draw(t, "v4") {
		i := genIPv4(t)
		i.Form = "v4:" + i.Form
		return i
	}
	i := genIPv6(t)
	i.Form = "v6:" + i.Form
	return i
}

// ---------------------------------------------------------------- mac (MAC-48 / EUI-48 / EUI-64: colon or hyphen separated octets, or dotted groups of two octets)

func genMAC(t *rapid.T) instance {
	n := pick(t, "octets", 6, 6, 8)
	sep := pick(t, "sep", ":", "-", ":", "-", ".")
	hexset := pick(t, "case", hexLower, hexUpper, hexMixed)
	oct := make([]string, n)
	for i := range oct {
		oct[i] = strFrom(t, "octet", hexset, 2, 2)
	}
	if sep == "." {
		// the dotted notation (0000.5e00.5301): groups of two octets
		grp := make([]string, n/2)
		for i := range grp {
			grp[i] = oct[2*i] + oct[2*i+1]
		}
		valid := strings.Join(grp, ".")
		return instance{Valid: valid, Form: fmt.Sprintf("%d-octets-dotted", n), Corrupt: func(t *rapid.T) (string, string) {
			switch op := pick(t, "op", "non-hex-char", "group-count", "trailing-separator", "extra-digit", "short-group"); op {
			case "non-hex-char":
				g := append([]string{}, grp...)
				i := intr(t, "which", 0, len(g)-1)
				b := []byte(g[i])
				b[intr(t, "pos", 0, 3)] = "ghxzGZ!_ "[intr(t, "bad", 0, 8)]
				g[i] = string(b)
				return strings.Join(g, "."), op
			case "group-count": // 2 or 5 groups: 4 or 10 octets
				k := pick(t, "count", 2, 5)
				g := append([]string{}, grp...)
				for len(g) < k {
					g = append(g, strFrom(t, "group", hexset, 4, 4))
				}
				return strings.Join(g[:k], "."), op
			case "trailing-separator":
				return valid + ".", op
			case "extra-digit":
				g := append([]string{}, grp...)
				i := intr(t, "which", 0, len(g)-1)
				g[i] += string(hexset[intr(t, "digit", 0, len(hexset)-1)])
				return strings.Join(g, "."), op
			default: // a group of three digits
				g := append([]string{}, grp...)
				i := intr(t, "which", 0, len(g)-1)
				g[i] = g[i][:3]
				return strings.Join(g, "."), op
			}
		}}
	}
	valid := strings.Join(oct, sep)
	return instance{Valid: valid, Form: fmt.Sprintf("%d-octets%s", n, sep), Corrupt: func(t *rapid.T) (string, string) {
		switch op := pick(t, "op", "non-hex-char", "octet-count", "separator-removed", "byte-inserted", "truncated", "trailing-separator", "extra-digit"); op {
		case "non-hex-char":
			o := append([]string{}, oct...)
			i := intr(t, "which", 0, n-1)
			b := []byte(o[i])
			b[intr(t, "pos", 0, 1)] = "ghxzGZ!_ "[intr(t, "bad", 0, 8)]
			o[i] = string(b)
			return strings.Join(o, sep), op
		case "octet-count": // 5, 7 or 9 octets
			k := pick(t, "count", 5, 7, 9)
			o := append([]string{}, oct...)
			for len(o) < k {
				o = append(o, strFrom(t, "octet", hexset, 2, 2))
			}
			return strings.Join(o[:k], sep), op
		case "separator-removed":
			i := intr(t, "which", 0, n-2)
			return strings.Join(oct[:i+1], sep) + strings.Join(oct[i+1:], sep), op
		case "byte-inserted":
			return insertByte(t, valid, "gxz! _/"), op
		case "truncated": // any proper prefix except the 6-octet prefix of an 8-octet address
			p := properPrefix(t, valid, len(valid)-1)
			if len(p) == 17 {
				p = p[:16]
			}
			return p, op
		case "trailing-separator":
			return valid + sep, op
		default:
			i := intr(t, "which", 0, n-1)
			o := append([]string{}, oct...)
			o[i] += string(hexset[intr(t, "digit", 0, len(hexset)-1)])
			return strings.Join(o, sep), op
		}
	}}
}

// ---------------------------------------------------------------- cidr (RFC 4632 / RFC 4291 2.3)

func genCIDR(t *rapid.T) instance {
	if rapid.Bool().Draw(t, "v4") {
		bits := intr(t, "bits", 0, 32)
		if intr(t, "bits-special", 0, 3) == 0 {
			bits = pick(t, "bits-s", 0, 1, 8, 16, 24, 31, 32)
		}
		// network address: host bits zero
		var addr uint32
		for i := 0; i < 4; i++ {
			addr = addr<<8 | uint32(drawOctet(t))
		}
		if bits < 32 {
			addr &^= 1<<(32-uint(bits)) - 1
		}
		q := []string{strconv.Itoa(int(addr >> 24)), strconv.Itoa(int(addr >> 16 & 255)), strconv.Itoa(int(addr >> 8 & 255)), strconv.Itoa(int(addr & 255))}
		ip := strings.Join(q, ".")
		return instance{Valid: ip + "/" + strconv.Itoa(bits), Form: "v4", Corrupt: func(t *rapid.T) (string, string) {
			return corruptCIDR(t, ip, bits, 32, func(t *rapid.T) (string, string) { return corruptQuad(t, q) })
		}}
	}
	a, form := drawV6(t)
	bits := intr(t, "bits", 0, 128)
	if intr(t, "bits-special", 0, 3) == 0 {
		bits = pick(t, "bits-s", 0, 1, 32, 48, 64, 96, 127, 128)
	}
	ip := a.String()
	return instance{Valid: ip + "/" + strconv.Itoa(bits), Form: "v6:" + form, Corrupt: func(t *rapid.T) (string, string) {
		return corruptCIDR(t, ip, bits, 128, func(t *rapid.T) (string, string) { return corruptV6(t, a) })
	}}
}

func corruptCIDR(t *rapid.T, ip string, bits, max int, corruptAddr func(*rapid.T) (string, string)) (string, string) {
	valid := ip + "/" + strconv.Itoa(bits)
	switch op := pick(t, "cidr-op", "prefix-out-of-range", "slash-removed", "prefix-missing", "prefix-non-digit", "prefix-negative", "slash-doubled", "address-corrupted", "address-missing", "truncated", "second-prefix"); op {
	case "prefix-out-of-range":
		return ip + "/" + strconv.Itoa(pick(t, "oor", max+1, max+2, 200, 255, 256, 999, intr(t, "oor-any", max+1, 9999))), op
	case "slash-removed":
		return ip + strconv.Itoa(bits), op
	case "prefix-missing":
		return ip + "/", op
	case "prefix-non-digit":
		return ip + "/" + pick(t, "bad", "x", "a", strconv.Itoa(bits)+"x", "x"+strconv.Itoa(bits), "0x8", strconv.Itoa(bits)+" ", " "+strconv.Itoa(bits), "1.0", "#"), op
	case "prefix-negative":
		return ip + "/-" + strconv.Itoa(bits), op
	case "slash-doubled":
		return ip + "//" + strconv.Itoa(bits), op
	case "address-corrupted":
		bad, sub := corruptAddr(t)
		return bad + "/" + strconv.Itoa(bits), op + ":" + sub
	case "address-missing":
		return "/" + strconv.Itoa(bits), op
	case "truncated": // cut before or right after the slash
		return properPrefix(t, valid, len(ip)+1), op
	default:
		return valid + "/" + strconv.Itoa(bits), op
	}
}
