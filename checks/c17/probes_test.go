package c17

import (
	"os"
	"testing"

	goa "goa.design/goa/v3/pkg"

	"verif/internal/stats"
)

// TestProbes re-creates the minimal input of every known finding of C17 and
// reports whether it still fails. It never fails the test: the driver turns a
// hit into KNOWN-FINDING (open entry) or VIOLATION (entry not open).
func TestProbes(t *testing.T) {
	only := os.Getenv("VERIF_PROBE_ONLY")
	probes := []struct {
		id   string
		run  func() bool
		what string
	}{
		{kfHostAccept, func() bool {
			// illegal interior bytes; accepted because of the two-alnum prefix / the alpha suffix
			a, _, _ := verdict("ab cd!", goa.FormatHostname)
			b, _, _ := verdict("!!x", goa.FormatHostname)
			// control: the same corruption without a matching arm is rejected
			c, _, _ := verdict("a !b.c1", goa.FormatHostname)
			return (a || b) && !c
		}, `ValidateFormat("ab cd!", hostname) == nil and ValidateFormat("!!x", hostname) == nil: malformed host names accepted through the arms of ^A|B$`},
		{kfHostReject, func() bool {
			a, _, _ := verdict("a.b1", goa.FormatHostname)
			b, _, _ := verdict("x.y-z.w9", goa.FormatHostname)
			return !a || !b
		}, `ValidateFormat("a.b1", hostname) != nil: well-formed RFC 1035 name rejected`},
		{kfUUIDBraces, func() bool {
			a, _, _ := verdict("x6ba7b810-9dad-11d1-80b4-00c04fd430c8y", goa.FormatUUID)
			b, _, _ := verdict("(6ba7b810-9dad-11d1-80b4-00c04fd430c8)", goa.FormatUUID)
			return a || b
		}, `ValidateFormat("x6ba7b810-9dad-11d1-80b4-00c04fd430c8y", uuid) == nil: 38-byte string without braces accepted`},
		{kfURIFrag, func() bool {
			a, _, _ := verdict("http://example.com#top", goa.FormatURI)
			// control: the same URI without the fragment is accepted
			b, _, _ := verdict("http://example.com", goa.FormatURI)
			return !a && b
		}, `ValidateFormat("http://example.com#top", uri) != nil: well-formed RFC 3986 URI rejected`},
	}
	for _, p := range probes {
		if only != "" && only != p.id {
			continue
		}
		stats.ProbeResult(p.id, p.run(), p.what)
	}
}

// TestRegressions re-runs, without rapid, minimal inputs around each finding
// that must hold whatever the status of the finding (the neighbouring cases the
// exclusions do not cover).
func TestRegressions(t *testing.T) {
	accept := []struct {
		f goa.Format
		v string
	}{
		{goa.FormatHostname, "goa.design"}, {goa.FormatHostname, "a"}, {goa.FormatHostname, "a1"}, {goa.FormatHostname, "ab.c1"}, {goa.FormatHostname, "x.y"},
		{goa.FormatUUID, "{6ba7b810-9dad-11d1-80b4-00c04fd430c8}"}, {goa.FormatUUID, "urn:uuid:6ba7b810-9dad-11d1-80b4-00c04fd430c8"}, {goa.FormatUUID, "6ba7b8109dad11d180b400c04fd430c8"},
		{goa.FormatURI, "http://example.com/#top"}, {goa.FormatURI, "http://example.com?q#top"}, {goa.FormatURI, "http://example.com"}, {goa.FormatURI, "mailto:joe@example.com"},
		{goa.FormatIPv6, "::ffff:1.2.3.4"}, {goa.FormatIP, "::ffff:1.2.3.4"},
	}
	reject := []struct {
		f goa.Format
		v string
	}{
		{goa.FormatHostname, "a !b.c1"}, {goa.FormatHostname, "_hi_"}, {goa.FormatHostname, "-a.b1"}, {goa.FormatHostname, "a..b1"}, {goa.FormatHostname, "!"},
		{goa.FormatUUID, "{6ba7b810-9dad-11d1-80b4-00c04fd430c8"}, {goa.FormatUUID, "6ba7b810-9dad-11d1-80b4-00c04fd430c8}"}, {goa.FormatUUID, "6ba7b810-9dad-11d1-00b4-00c04fd430c8"},
		{goa.FormatURI, "foo_"}, {goa.FormatURI, ""}, {goa.FormatURI, "http://exa mple.com#top"},
		{goa.FormatIPv4, "::ffff:1.2.3.4"}, {goa.FormatIPv6, "1.2.3.4"},
	}
	for _, c := range accept {
		stats.Case("reg|accept|"+string(c.f)+"|"+c.v, false)
		if msg := mustAccept(c.v, c.f); msg != "" {
			t.Error(msg)
		}
	}
	for _, c := range reject {
		stats.Case("reg|reject|"+string(c.f)+"|"+c.v, true)
		if msg := mustReject(c.v, c.f, "regression table"); msg != "" {
			t.Error(msg)
		}
	}
}
