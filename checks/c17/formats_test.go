package c17

import (
	"fmt"
	"strings"
	"testing"

	goa "goa.design/goa/v3/pkg"
	"pgregory.net/rapid"

	"verif/internal/kf"
	"verif/internal/stats"
)

type formatGen struct {
	format goa.Format
	gen    func(*rapid.T) instance
}

var formatGens = []formatGen{
	{goa.FormatDate, genDate},
	{goa.FormatDateTime, genDateTime},
	{goa.FormatUUID, genUUID},
	{goa.FormatEmail, genEmail},
	{goa.FormatHostname, genHostname},
	{goa.FormatIPv4, genIPv4},
	{goa.FormatIPv6, genIPv6},
	{goa.FormatIP, genIP},
	{goa.FormatURI, genURI},
	{goa.FormatMAC, genMAC},
	{goa.FormatCIDR, genCIDR},
	{goa.FormatRegexp, genRegexp},
	{goa.FormatJSON, genJSON},
	{goa.FormatRFC1123, genRFC1123},
}

// excludedValid / excludedCorrupt implement the exclusions of the OPEN known
// findings (and nothing wider than their signatures).
func excludedValid(f goa.Format, in instance) string {
	switch f {
	case goa.FormatHostname:
		if kf.Open(kfHostReject) && hostRejectClass(in.HostLabels) {
			return kfHostReject
		}
	case goa.FormatURI:
		if kf.Open(kfURIFrag) && in.URI.fragAfterAuthority() {
			return kfURIFrag
		}
	}
	return ""
}

func excludedCorrupt(f goa.Format, bad string) string {
	switch f {
	case goa.FormatHostname:
		if kf.Open(kfHostAccept) && hostArms(bad) {
			return kfHostAccept
		}
	case goa.FormatUUID:
		if kf.Open(kfUUIDBraces) && uuidBraceClass(bad) {
			return kfUUIDBraces
		}
	}
	return ""
}

// checkFormatCase checks one (format, instance): the well-formed value is
// accepted, one drawn corruption is rejected with invalid_format.
func checkFormatCase(t *rapid.T, fg formatGen) {
	f := fg.format
	in := fg.gen(t)
	stats.Class(fmt.Sprintf("valid:%s:%s", f, in.Form))
	if id := excludedValid(f, in); id != "" {
		stats.Excluded(id)
	} else {
		mapped := strings.Contains(in.Form, "ipv4-mapped")
		record(fmt.Sprint("valid", mapped), 1, fmt.Sprintf("valid|%s|%s", f, in.Valid), mapped, map[string]any{"format": string(f), "kind": "well-formed", "form": in.Form, "value": in.Valid})
		if msg := mustAccept(in.Valid, f); msg != "" {
			t.Fatalf("%s (form %s)", msg, in.Form)
		}
	}
	bad, op := in.Corrupt(t)
	stats.Class(fmt.Sprintf("corrupt:%s:%s", f, strings.SplitN(op, ":", 2)[0]))
	if id := excludedCorrupt(f, bad); id != "" {
		stats.Excluded(id)
		return
	}
	record("corrupt", 1, fmt.Sprintf("corrupt|%s|%s", f, bad), true, map[string]any{"format": string(f), "kind": "corrupted", "operator": op, "from": in.Valid, "value": bad})
	if msg := mustReject(bad, f, op+" of "+fmt.Sprintf("%q", in.Valid)); msg != "" {
		t.Fatalf("%s", msg)
	}
}

// TestFormats: per rapid case, for every one of the 14 formats a constructive
// well-formed instance and one single-point corruption of it.
func TestFormats(t *testing.T) {
	rapid.Check(t, func(t *rapid.T) {
		for _, fg := range formatGens {
			checkFormatCase(t, fg)
		}
	})
}

// relation checks ip <=> ipv4 or ipv6, never both, on one string.
func relation(s string) string {
	ip, _, _ := verdict(s, goa.FormatIP)
	v4, _, _ := verdict(s, goa.FormatIPv4)
	v6, _, _ := verdict(s, goa.FormatIPv6)
	if v4 && v6 {
		return fmt.Sprintf("%q accepted as ipv4 and as ipv6", s)
	}
	if ip != (v4 || v6) {
		return fmt.Sprintf("%q: ip accepted=%v but ipv4 accepted=%v, ipv6 accepted=%v", s, ip, v4, v6)
	}
	return ""
}

// TestIPRelations: the three IP formats on the same string: well-formed v4
// (ipv4 and ip, not ipv6), well-formed v6 incl. IPv4-mapped (ipv6 and ip, not
// ipv4), corrupted (none), arbitrary strings over the address alphabet
// (relation only).
func TestIPRelations(t *testing.T) {
	rapid.Check(t, func(t *rapid.T) {
		kind := pick(t, "kind", "v4", "v6", "v6", "corrupt-v4", "corrupt-v6", "soup")
		var s, form string
		want := "" // "v4", "v6", "none", "" = relation only
		switch kind {
		case "v4":
			in := genIPv4(t)
			s, form, want = in.Valid, in.Form, "v4"
		case "v6":
			in := genIPv6(t)
			s, form, want = in.Valid, in.Form, "v6"
		case "corrupt-v4":
			in := genIPv4(t)
			s, form = in.Corrupt(t)
			want = "none"
		case "corrupt-v6":
			in := genIPv6(t)
			s, form = in.Corrupt(t)
			want = "none"
		default:
			s, form = strFrom(t, "soup", "0123456789abcdefF:.:.%/ ", 0, 24), "soup"
		}
		nt := kind != "v4" && form != "full" && form != "compressed" && form != "mixed-full" && form != "mixed-compressed"
		stats.Class("relation:" + kind + ":" + strings.SplitN(form, ":", 2)[0])
		record(fmt.Sprint("rel", nt), 1, "rel|"+s, nt, map[string]any{"kind": "ip-relation", "class": kind, "form": form, "value": s})
		if msg := relation(s); msg != "" {
			t.Fatalf("%s", msg)
		}
		ip, _, _ := verdict(s, goa.FormatIP)
		v4, _, _ := verdict(s, goa.FormatIPv4)
		v6, _, _ := verdict(s, goa.FormatIPv6)
		switch want {
		case "v4":
			if !(ip && v4 && !v6) {
				t.Fatalf("dotted quad %q: ip=%v ipv4=%v ipv6=%v, want true,true,false", s, ip, v4, v6)
			}
		case "v6":
			if !(ip && !v4 && v6) {
				t.Fatalf("IPv6 text form %q (%s): ip=%v ipv4=%v ipv6=%v, want true,false,true", s, form, ip, v4, v6)
			}
		case "none":
			if ip || v4 || v6 {
				t.Fatalf("malformed address %q (%s): ip=%v ipv4=%v ipv6=%v, want all rejected", s, form, ip, v4, v6)
			}
		}
	})
}

// TestFormatTables: finite sub-spaces enumerated completely.
func TestFormatTables(t *testing.T) {
	// (1) calendar: 6 years x months 00..13 x days 00..32 for date and date-time
	for _, y := range []int{1900, 2000, 2015, 2016, 2100, 2400} {
		for m := 0; m <= 13; m++ {
			for d := 0; d <= 32; d++ {
				ok := m >= 1 && m <= 12 && d >= 1 && d <= daysIn(y, m)
				date := fmt.Sprintf("%04d-%02d-%02d", y, m, d)
				for _, c := range []struct {
					f goa.Format
					v string
				}{{goa.FormatDate, date}, {goa.FormatDateTime, date + "T12:00:00Z"}} {
					stats.Case("cal|"+string(c.f)+"|"+c.v, !ok)
					var msg string
					if ok {
						msg = mustAccept(c.v, c.f)
					} else {
						msg = mustReject(c.v, c.f, "month/day outside the calendar")
					}
					if msg != "" {
						t.Error(msg)
					}
				}
			}
		}
	}
	stats.Exhaustive("date and date-time: 6 years (incl. 1900, 2000, 2100, 2400) x months 00-13 x days 00-32 against the Gregorian calendar")

	// (2) clock fields 00..99 of date-time and rfc1123 (second 60 left out: leap second)
	for v := 0; v <= 99; v++ {
		for _, fld := range []string{"hour", "minute", "second"} {
			h, mi, s := 12, 30, 30
			ok := true
			switch fld {
			case "hour":
				h, ok = v, v <= 23
			case "minute":
				mi, ok = v, v <= 59
			default:
				s, ok = v, v <= 59
				if v == 60 {
					continue
				}
			}
			for _, c := range []struct {
				f goa.Format
				v string
			}{
				{goa.FormatDateTime, fmt.Sprintf("2016-02-29T%02d:%02d:%02d+01:00", h, mi, s)},
				{goa.FormatRFC1123, fmt.Sprintf("Mon, 29 Feb 2016 %02d:%02d:%02d GMT", h, mi, s)},
			} {
				stats.Case("clock|"+string(c.f)+"|"+c.v, !ok)
				var msg string
				if ok {
					msg = mustAccept(c.v, c.f)
				} else {
					msg = mustReject(c.v, c.f, fld+" out of range")
				}
				if msg != "" {
					t.Error(msg)
				}
			}
		}
	}
	stats.Exhaustive("date-time and rfc1123: hour, minute, second 00-99 (60 s excluded)")

	// (3) ipv4 octet 0..999 at each position; cidr prefix 0..200
	for pos := 0; pos < 4; pos++ {
		for v := 0; v <= 999; v++ {
			q := []string{"10", "20", "30", "40"}
			q[pos] = fmt.Sprint(v)
			s := strings.Join(q, ".")
			ok := v <= 255
			stats.Case("octet|"+s, !ok)
			for _, f := range []goa.Format{goa.FormatIPv4, goa.FormatIP} {
				var msg string
				if ok {
					msg = mustAccept(s, f)
				} else {
					msg = mustReject(s, f, "octet out of range")
				}
				if msg != "" {
					t.Error(msg)
				}
			}
			if msg := mustReject(s, goa.FormatIPv6, "dotted quad is not an IPv6 address"); msg != "" {
				t.Error(msg)
			}
		}
	}
	for bits := 0; bits <= 200; bits++ {
		for _, c := range []struct {
			v  string
			ok bool
		}{{fmt.Sprintf("0.0.0.0/%d", bits), bits <= 32}, {fmt.Sprintf("::/%d", bits), bits <= 128}, {fmt.Sprintf("::ffff:0.0.0.0/%d", bits), bits <= 128}} {
			stats.Case("prefix|"+c.v, !c.ok)
			var msg string
			if c.ok {
				msg = mustAccept(c.v, goa.FormatCIDR)
			} else {
				msg = mustReject(c.v, goa.FormatCIDR, "prefix length out of range")
			}
			if msg != "" {
				t.Error(msg)
			}
		}
	}
	stats.Exhaustive("ipv4/ip/ipv6: octet 0-999 at each of the 4 positions; cidr: prefix length 0-200 for v4, v6 and v4-mapped")

	// (4) relation ip <=> ipv4 xor ipv6 on every string over {1 . : f} up to length 8
	alphabet := "1.:f"
	var rec func(prefix []byte, left int)
	n := 0
	rec = func(prefix []byte, left int) {
		s := string(prefix)
		n++
		stats.Case("relx|"+s, strings.Contains(s, ":") && strings.Contains(s, "."))
		if msg := relation(s); msg != "" {
			t.Error(msg)
		}
		if left == 0 {
			return
		}
		for i := 0; i < len(alphabet); i++ {
			rec(append(prefix, alphabet[i]), left-1)
		}
	}
	rec(nil, 8)
	stats.Exhaustive(fmt.Sprintf("ip relation on all %d strings over {1 . : f} of length 0-8", n))

	// (5) uuid variant nibble: all 16 values x 2 cases
	for _, c := range "0123456789abcdefABCDEF" {
		s := "6ba7b810-9dad-11d1-" + string(c) + "0b4-00c04fd430c8"
		ok := strings.ContainsRune("89abAB", c)
		stats.Case("variant|"+s, !ok)
		var msg string
		if ok {
			msg = mustAccept(s, goa.FormatUUID)
		} else {
			msg = mustReject(s, goa.FormatUUID, "variant is not RFC 4122")
		}
		if msg != "" {
			t.Error(msg)
		}
	}
	stats.Exhaustive("uuid: all values of the variant nibble")
}
