package c17

import (
	"regexp"
	"regexp/syntax"
	"strconv"
	"strings"
	"testing"
	"unicode/utf8"

	goa "goa.design/goa/v3/pkg"

	"verif/internal/kf"
)

// Native fuzz targets (thorough tier). Each body is a semantic oracle over
// arbitrary byte strings; inputs in a zone where reasonable readings of the
// format differ are skipped (return), never judged.

// ---------------------------------------------------------------- reference recognisers

// jsonText is a recogniser of RFC 8259 JSON texts written from the grammar.
type jsonText struct {
	s string
	i int
}

func (p *jsonText) ws() {
	for p.i < len(p.s) && strings.IndexByte(" \t\n\r", p.s[p.i]) >= 0 {
		p.i++
	}
}

func (p *jsonText) lit(w string) bool {
	if strings.HasPrefix(p.s[p.i:], w) {
		p.i += len(w)
		return true
	}
	return false
}

func (p *jsonText) digits() bool {
	j := p.i
	for p.i < len(p.s) && p.s[p.i] >= '0' && p.s[p.i] <= '9' {
		p.i++
	}
	return p.i > j
}

func (p *jsonText) number() bool {
	p.lit("-")
	if p.i >= len(p.s) {
		return false
	}
	if p.s[p.i] == '0' {
		p.i++
	} else if !p.digits() {
		return false
	}
	if p.lit(".") && !p.digits() {
		return false
	}
	if p.lit("e") || p.lit("E") {
		if !p.lit("+") {
			p.lit("-")
		}
		if !p.digits() {
			return false
		}
	}
	return true
}

func (p *jsonText) str() bool {
	if !p.lit(`"`) {
		return false
	}
	for p.i < len(p.s) {
		c := p.s[p.i]
		p.i++
		switch {
		case c == '"':
			return true
		case c < 0x20:
			return false
		case c == '\\':
			if p.i >= len(p.s) {
				return false
			}
			e := p.s[p.i]
			p.i++
			if e == 'u' {
				if p.i+4 > len(p.s) {
					return false
				}
				for _, h := range []byte(p.s[p.i : p.i+4]) {
					if strings.IndexByte(hexMixed, h) < 0 {
						return false
					}
				}
				p.i += 4
			} else if strings.IndexByte(`"\/bfnrt`, e) < 0 {
				return false
			}
		}
	}
	return false
}

func (p *jsonText) value() bool {
	if p.i >= len(p.s) {
		return false
	}
	switch c := p.s[p.i]; {
	case c == '{':
		p.i++
		p.ws()
		if p.lit("}") {
			return true
		}
		for {
			p.ws()
			if !p.str() {
				return false
			}
			p.ws()
			if !p.lit(":") {
				return false
			}
			p.ws()
			if !p.value() {
				return false
			}
			p.ws()
			if p.lit("}") {
				return true
			}
			if !p.lit(",") {
				return false
			}
		}
	case c == '[':
		p.i++
		p.ws()
		if p.lit("]") {
			return true
		}
		for {
			p.ws()
			if !p.value() {
				return false
			}
			p.ws()
			if p.lit("]") {
				return true
			}
			if !p.lit(",") {
				return false
			}
		}
	case c == '"':
		return p.str()
	case c == '-' || c >= '0' && c <= '9':
		return p.number()
	}
	return p.lit("true") || p.lit("false") || p.lit("null")
}

func isJSONText(s string) bool {
	p := &jsonText{s: s}
	p.ws()
	if !p.value() {
		return false
	}
	p.ws()
	return p.i == len(s)
}

var (
	reStrictDateTime = regexp.MustCompile(`^(\d{4})-(\d{2})-(\d{2})T(\d{2}):(\d{2}):(\d{2})(\.\d{1,9})?(Z|[+-](\d{2}):(\d{2}))$`)
	// what lenient RFC 3339 readers are known to tolerate in addition: one-digit hour, comma, long fractions, offsets 24:00 / xx:60
	reLooseDateTime = regexp.MustCompile(`^(\d{4})-(\d{2})-(\d{2})T(\d{1,2}):(\d{2}):(\d{2})([.,]\d+)?(Z|[+-](\d{2}):(\d{2}))$`)
	reStrictDate    = regexp.MustCompile(`^(\d{4})-(\d{2})-(\d{2})$`)
	reDottedQuad    = regexp.MustCompile(`^(\d{1,3})\.(\d{1,3})\.(\d{1,3})\.(\d{1,3})$`)
	reHostLabel     = regexp.MustCompile(`^[A-Za-z](?:[A-Za-z0-9-]{0,61}[A-Za-z0-9])?$`)
	reHostLabel1123 = regexp.MustCompile(`^[A-Za-z0-9](?:[A-Za-z0-9-]{0,61}[A-Za-z0-9])?$`)
)

func atoi(s string) int { n, _ := strconv.Atoi(s); return n }

// dateTimeClass: 2 = well-formed under the strict grammar, 1 = only under the
// lenient reading (no verdict), 0 = malformed under every reading.
func dateTimeClass(s string) int {
	calendar := func(m []string, maxOffH, maxOffM int) bool {
		y, mo, d := atoi(m[1]), atoi(m[2]), atoi(m[3])
		if mo < 1 || mo > 12 || d < 1 || d > daysIn(y, mo) {
			return false
		}
		if atoi(m[4]) > 23 || atoi(m[5]) > 59 || atoi(m[6]) > 59 {
			return false
		}
		if m[8] != "Z" && (atoi(m[9]) > maxOffH || atoi(m[10]) > maxOffM) {
			return false
		}
		return true
	}
	if m := reStrictDateTime.FindStringSubmatch(s); m != nil && calendar(m, 23, 59) {
		return 2
	}
	if m := reLooseDateTime.FindStringSubmatch(s); m != nil {
		// seconds == 60 (leap second) is also left without verdict
		m6 := m[6]
		if m6 == "60" {
			m[6] = "59"
		}
		if calendar(m, 24, 60) {
			return 1
		}
	}
	return 0
}

func judge(t *testing.T, f goa.Format, s string, class int) {
	ok, named, err := verdict(s, f)
	switch class {
	case 2:
		if !ok {
			t.Fatalf("well-formed %s value %q rejected: %v", f, s, err)
		}
	case 0:
		if ok {
			t.Fatalf("malformed %s value %q accepted", f, s)
		}
		if !named {
			t.Fatalf("malformed %s value %q rejected with an error not named invalid_format: %v", f, s, err)
		}
	}
}

// ---------------------------------------------------------------- targets

func FuzzDateTime(f *testing.F) {
	for _, s := range []string{"2015-10-26T08:31:23Z", "2016-02-29T23:59:59.123+01:00", "2015-10-26", "2015-02-29T00:00:00Z", "2015-10-26T08:31:23", "0000-01-01T00:00:00-00:00", "2015-10-26T8:31:23Z", "2015-10-26T08:31:23,5Z"} {
		f.Add(s)
	}
	f.Fuzz(func(t *testing.T, s string) {
		judge(t, goa.FormatDateTime, s, dateTimeClass(s))
		// date: fixed-width full-date, no lenient zone
		class := 0
		if m := reStrictDate.FindStringSubmatch(s); m != nil {
			if mo, d := atoi(m[2]), atoi(m[3]); mo >= 1 && mo <= 12 && d >= 1 && d <= daysIn(atoi(m[1]), mo) {
				class = 2
			}
		}
		judge(t, goa.FormatDate, s, class)
	})
}

func FuzzIPRelation(f *testing.F) {
	for _, s := range []string{"1.2.3.4", "::1", "::ffff:1.2.3.4", "1:2:3:4:5:6:7:8", "1.2.3", "256.1.1.1", "fe80::1%eth0", "01.2.3.4", "1:2:3:4:5:6:1.2.3.4", "::", "1.2.3.4/8", ""} {
		f.Add(s)
	}
	f.Fuzz(func(t *testing.T, s string) {
		if msg := relation(s); msg != "" {
			t.Fatal(msg)
		}
		// dotted quads, judged by an independent recogniser (leading zeros: readings differ, skipped)
		m := reDottedQuad.FindStringSubmatch(s)
		class := 0
		if m != nil {
			class = 2
			for _, x := range m[1:] {
				if len(x) > 1 && x[0] == '0' {
					return
				}
				if atoi(x) > 255 {
					class = 0
				}
			}
		}
		judge(t, goa.FormatIPv4, s, class)
		if class == 2 {
			judge(t, goa.FormatIP, s, 2)
			judge(t, goa.FormatIPv6, s, 0)
			for _, bits := range []int{0, 32, 33} {
				c := 2
				if bits > 32 {
					c = 0
				}
				judge(t, goa.FormatCIDR, s+"/"+strconv.Itoa(bits), c)
			}
		}
	})
}

// the pattern cache of goa is never emptied: bound the distinct patterns a
// fuzz worker may feed it
var fuzzPatterns = map[string]bool{}

func FuzzPattern(f *testing.F) {
	for _, c := range [][2]string{{`^goa$`, "goa"}, {`^[a-z]+\d*$`, "abc12"}, {`a|b`, "c"}, {`(?i)^x{2,3}$`, "XX"}, {`^A|B$`, "xB"}, {``, ""}, {`\pL+`, "é"}, {`[^a]`, "\n"}} {
		f.Add(c[0], c[1])
	}
	f.Fuzz(func(t *testing.T, p, v string) {
		if len(p) > 64 {
			return
		}
		if !fuzzPatterns[p] {
			if len(fuzzPatterns) >= 4000 {
				return
			}
			if _, err := regexp.Compile(p); err != nil {
				return // what ValidatePattern does with an invalid expression is not specified
			}
			fuzzPatterns[p] = true
		}
		if msg := checkPattern(v, p); msg != "" {
			t.Fatal(msg)
		}
		// and again, now from the cache
		if msg := checkPattern(v, p); msg != "" {
			t.Fatal("second call: " + msg)
		}
	})
}

func FuzzJSONAndRegexp(f *testing.F) {
	for _, s := range []string{`{"a":[1,2.5e-3,"xé\n",true,null]}`, `[1,]`, `01`, `"\x"`, ` [ ] `, `^goa$`, `foo[`, `a{2,1}`, `(?P<n>a)`, `1e5`, `-`, `"\ud800"`} {
		f.Add(s)
	}
	f.Fuzz(func(t *testing.T, s string) {
		if len(s) <= 4096 && utf8.ValidString(s) { // RFC 8259 texts are UTF-8; nesting stays far below any parser limit
			class := 0
			if isJSONText(s) {
				class = 2
			}
			judge(t, goa.FormatJSON, s, class)
		}
		// "syntax accepted by RE2": the reference is the RE2 syntax parser itself
		class := 0
		if _, err := syntax.Parse(s, syntax.Perl); err == nil {
			class = 2
		}
		judge(t, goa.FormatRegexp, s, class)
	})
}

func FuzzHostname(f *testing.F) {
	for _, s := range []string{"goa.design", "a.b1", "ab cd!", "_hi_", "a", "a-.b", "x.y-z.w9", "1a.com", "a.b.", ""} {
		f.Add(s)
	}
	f.Fuzz(func(t *testing.T, s string) {
		if s == "" || strings.HasSuffix(s, ".") && !strings.HasSuffix(s, "..") {
			return // root / absolute-name spellings: readings differ
		}
		labels := strings.Split(s, ".")
		strict, relaxed := len(s) <= 253, len(s) <= 253
		for _, l := range labels {
			strict = strict && reHostLabel.MatchString(l)
			relaxed = relaxed && reHostLabel1123.MatchString(l)
		}
		switch {
		case strict:
			if kf.Open(kfHostReject) && hostRejectClass(labels) {
				return
			}
			judge(t, goa.FormatHostname, s, 2)
		case relaxed:
			return // labels starting with a digit: RFC 1123 relaxes RFC 1035, no verdict
		default:
			if kf.Open(kfHostAccept) && hostArms(s) {
				return
			}
			judge(t, goa.FormatHostname, s, 0)
		}
	})
}

func FuzzUUID(f *testing.F) {
	for _, s := range []string{"6ba7b810-9dad-11d1-80b4-00c04fd430c8", "{6ba7b810-9dad-11d1-80b4-00c04fd430c8}", "urn:uuid:6ba7b810-9dad-11d1-80b4-00c04fd430c8", "6ba7b8109dad11d180b400c04fd430c8", "x6ba7b810-9dad-11d1-80b4-00c04fd430c8y", "6ba7b810-9dad-11d1-00b4-00c04fd430c8"} {
		f.Add(s)
	}
	f.Fuzz(func(t *testing.T, s string) {
		// the four documented spellings
		body := s
		switch {
		case len(s) == 45 && strings.EqualFold(s[:9], "urn:uuid:"):
			body = s[9:]
		case len(s) == 38 && s[0] == '{' && s[37] == '}':
			body = s[1:37]
		case len(s) == 32:
			if strings.Trim(s, hexMixed) == "" {
				body = s[0:8] + "-" + s[8:12] + "-" + s[12:16] + "-" + s[16:20] + "-" + s[20:32]
			}
		}
		if reCanonicalUUID.MatchString(body) {
			judge(t, goa.FormatUUID, s, 2)
			return
		}
		if kf.Open(kfUUIDBraces) && uuidBraceClass(s) {
			return
		}
		judge(t, goa.FormatUUID, s, 0)
	})
}
