package c17

import (
	"fmt"

	"pgregory.net/rapid"
)

// A generated instance: a well-formed value, the label of its form, and a
// function that draws one single-point corruption that is malformed by
// construction (returns the string and the operator label).
type instance struct {
	Valid   string
	Form    string
	Corrupt func(t *rapid.T) (string, string)
	// extra, format specific
	HostLabels []string
	URI        *uriParts
}

// ---------------------------------------------------------------- calendar model (RFC 3339 section 5.7 / appendix C)

func isLeap(y int) bool { return y%4 == 0 && (y%100 != 0 || y%400 == 0) }

func daysIn(y, m int) int {
	switch m {
	case 4, 6, 9, 11:
		return 30
	case 2:
		if isLeap(y) {
			return 29
		}
		return 28
	}
	return 31
}

// weekday: 0 = Sunday (Sakamoto), proleptic Gregorian, y >= 1.
func weekday(y, m, d int) int {
	t := []int{0, 3, 2, 5, 0, 3, 5, 1, 4, 6, 2, 4}
	if m < 3 {
		y--
	}
	return (y + y/4 - y/100 + y/400 + t[m-1] + d) % 7
}

type ymd struct{ y, m, d int }

func (x ymd) String() string { return fmt.Sprintf("%04d-%02d-%02d", x.y, x.m, x.d) }

func drawYMD(t *rapid.T, minYear int) ymd {
	var y int
	if rapid.Bool().Draw(t, "special-year") {
		y = pick(t, "year", 1, 4, 100, 400, 1600, 1900, 1970, 1999, 2000, 2015, 2016, 2024, 2100, 9999)
	} else {
		y = intr(t, "year", minYear, 9999)
	}
	if y < minYear {
		y = minYear
	}
	m := intr(t, "month", 1, 12)
	d := intr(t, "day", 1, daysIn(y, m))
	if intr(t, "eom", 0, 3) == 0 {
		d = daysIn(y, m)
	}
	return ymd{y, m, d}
}

// outOfRange2 draws a two-digit field value outside [lo,hi] (0..99).
func outOfRange2(t *rapid.T, lo, hi int) int {
	if lo > 0 && (hi >= 99 || rapid.Bool().Draw(t, "below")) {
		return intr(t, "oor", 0, lo-1)
	}
	return intr(t, "oor", hi+1, 99)
}

// ---------------------------------------------------------------- date (RFC 3339 full-date)

func genDate(t *rapid.T) instance {
	x := drawYMD(t, 0)
	valid := x.String()
	return instance{Valid: valid, Form: "full-date", Corrupt: func(t *rapid.T) (string, string) {
		switch op := pick(t, "op", "month-out-of-range", "day-out-of-range", "separator-removed", "separator-replaced", "truncated", "byte-inserted", "byte-deleted", "trailing"); op {
		case "month-out-of-range":
			return fmt.Sprintf("%04d-%02d-%02d", x.y, outOfRange2(t, 1, 12), x.d), op
		case "day-out-of-range":
			return fmt.Sprintf("%04d-%02d-%02d", x.y, x.m, outOfRange2(t, 1, daysIn(x.y, x.m))), op
		case "separator-removed":
			return deleteAt(valid, pick(t, "which", 4, 7)), op
		case "separator-replaced":
			i := pick(t, "which", 4, 7)
			return valid[:i] + pick(t, "sep", "/", ".", ":", "_") + valid[i+1:], op
		case "truncated":
			return properPrefix(t, valid, 9), op
		case "byte-inserted": // fixed-width format: any insertion is malformed
			return insertByte(t, valid, "0123456789x!#-T\x00"), op
		case "byte-deleted":
			return deleteAt(valid, intr(t, "del", 0, len(valid)-1)), op
		default:
			return valid + pick(t, "tail", "x", "T", "Z", "-", "0"), op
		}
	}}
}

// ---------------------------------------------------------------- date-time (RFC 3339 date-time)

type dateTime struct {
	ymd
	H, M, S int
	frac    string // digits, "" = none
	z       bool
	sign    string
	oh, om  int
}

func (x dateTime) offset() string {
	if x.z {
		return "Z"
	}
	return fmt.Sprintf("%s%02d:%02d", x.sign, x.oh, x.om)
}

func (x dateTime) String() string {
	s := fmt.Sprintf("%sT%02d:%02d:%02d", x.ymd, x.H, x.M, x.S)
	if x.frac != "" {
		s += "." + x.frac
	}
	return s + x.offset()
}

func genDateTime(t *rapid.T) instance {
	x := dateTime{ymd: drawYMD(t, 0)}
	x.H, x.M = intr(t, "hour", 0, 23), intr(t, "minute", 0, 59)
	x.S = intr(t, "second", 0, 59) // 60 (leap second) is ambiguous: never generated, never used as corruption
	form := "utc"
	if rapid.Bool().Draw(t, "has-frac") {
		x.frac = strFrom(t, "frac", digits, 1, 9)
		form = "frac-" + form
	}
	x.z = rapid.Bool().Draw(t, "zulu")
	if !x.z {
		x.sign = pick(t, "sign", "+", "-")
		x.oh, x.om = intr(t, "off-hour", 0, 23), intr(t, "off-minute", 0, 59)
		form = form[:len(form)-3] + "numoffset"
	}
	valid := x.String()
	return instance{Valid: valid, Form: form, Corrupt: func(t *rapid.T) (string, string) {
		ops := []string{"field-out-of-range", "separator-removed", "offset-removed", "truncated", "byte-inserted", "digit-deleted", "frac-empty", "trailing"}
		switch op := pick(t, "op", ops...); op {
		case "field-out-of-range":
			y := x
			fields := []string{"month", "day", "hour", "minute", "second"}
			if !x.z {
				fields = append(fields, "off-hour", "off-minute")
			}
			which := pick(t, "field", fields...)
			switch which {
			case "month":
				y.m = outOfRange2(t, 1, 12)
			case "day":
				y.d = outOfRange2(t, 1, daysIn(x.y, x.m))
			case "hour":
				y.H = intr(t, "oor", 24, 99)
			case "minute":
				y.M = intr(t, "oor", 60, 99)
			case "second":
				y.S = intr(t, "oor", 61, 99)
			case "off-hour": // 24 is tolerated by some parsers ("people do write 24"): use > 24 only
				y.oh = intr(t, "oor", 25, 99)
			case "off-minute":
				y.om = intr(t, "oor", 61, 99)
			}
			return y.String(), op + ":" + which
		case "separator-removed":
			pos := []int{4, 7, 10, 13, 16}
			if !x.z {
				pos = append(pos, len(valid)-3)
			}
			return deleteAt(valid, pick(t, "which", pos...)), op
		case "offset-removed":
			return valid[:len(valid)-len(x.offset())], op
		case "truncated": // the offset is mandatory and last: every proper prefix is malformed
			return properPrefix(t, valid, len(valid)-1), op
		case "byte-inserted":
			return insertByte(t, valid, "x!#_\x00"), op
		case "digit-deleted": // date digits, minutes, seconds (a one-digit hour is tolerated by some parsers)
			return deleteAt(valid, pick(t, "which", 0, 1, 2, 3, 5, 6, 8, 9, 14, 15, 17, 18)), op
		case "frac-empty":
			y := x
			y.frac = ""
			s := y.String()
			return insertAt(s, 19, "."), op
		default:
			return valid + pick(t, "tail", "x", "Z", "T", "+"), op
		}
	}}
}

// ---------------------------------------------------------------- rfc1123 (RFC 1123 5.2.14 / RFC 822 section 5)

var (
	dayNames   = []string{"Sun", "Mon", "Tue", "Wed", "Thu", "Fri", "Sat"}
	monthNames = []string{"Jan", "Feb", "Mar", "Apr", "May", "Jun", "Jul", "Aug", "Sep", "Oct", "Nov", "Dec"}
	// the named three-letter zones of RFC 822
	zoneNames = []string{"GMT", "EST", "EDT", "CST", "CDT", "MST", "MDT", "PST", "PDT"}
)

type rfc1123 struct {
	ymd
	wd      string
	mon     string
	H, M, S int
	zone    string
}

func (x rfc1123) String() string {
	return fmt.Sprintf("%s, %02d %s %04d %02d:%02d:%02d %s", x.wd, x.d, x.mon, x.y, x.H, x.M, x.S, x.zone)
}

func genRFC1123(t *rapid.T) instance {
	x := rfc1123{ymd: drawYMD(t, 1)}
	x.wd = dayNames[weekday(x.y, x.m, x.d)]
	x.mon = monthNames[x.m-1]
	x.H, x.M, x.S = intr(t, "hour", 0, 23), intr(t, "minute", 0, 59), intr(t, "second", 0, 59)
	x.zone = pick(t, "zone", zoneNames...)
	valid := x.String()
	return instance{Valid: valid, Form: "named-zone:" + x.zone, Corrupt: func(t *rapid.T) (string, string) {
		switch op := pick(t, "op", "comma-removed", "weekday-invalid", "month-invalid", "field-out-of-range", "colon-removed", "zone-removed", "truncated", "byte-inserted"); op {
		case "comma-removed":
			return deleteAt(valid, 3), op
		case "weekday-invalid":
			y := x
			y.wd = pick(t, "wd", "Xyz", "Mox", "Mo", "M0n", "Su#")
			return y.String(), op
		case "month-invalid":
			y := x
			y.mon = pick(t, "mon", "Jxn", "Ju", "13", "Fe#", "Xyz")
			return y.String(), op
		case "field-out-of-range":
			y := x
			which := pick(t, "field", "day", "hour", "minute", "second")
			switch which {
			case "day":
				y.d = outOfRange2(t, 1, daysIn(x.y, x.m))
			case "hour":
				y.H = intr(t, "oor", 24, 99)
			case "minute":
				y.M = intr(t, "oor", 60, 99)
			case "second":
				y.S = intr(t, "oor", 61, 99)
			}
			return y.String(), op + ":" + which
		case "colon-removed":
			return deleteAt(valid, pick(t, "which", 19, 22)), op
		case "zone-removed":
			return valid[:len(valid)-4], op
		case "truncated": // the zone is mandatory: cut at least the whole zone
			return properPrefix(t, valid, len(valid)-3), op
		default:
			return insertByte(t, valid, "!#_\x00"), op
		}
	}}
}
