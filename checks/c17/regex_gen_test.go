package c17

import (
	"fmt"
	"strings"
	"unicode"

	"pgregory.net/rapid"
)

// A grammar-based generator of regular expressions (RE2 subset) that can also
// build members of the language and, from a per-pattern analysis, strings that
// cannot match by construction.

type rnode struct {
	kind string // lit class dot cat alt star plus quest rep cap ncap
	lit  []rune
	// class
	ranges [][2]rune
	neg    bool
	text   string // class source text
	subs   []*rnode
	min    int
	max    int // -1 = unbounded
	lazy   bool
}

const litAlphabet = "abcABC019xyzXYZ_-:.+*?()[]{}|^$\\/"

func escapeLit(r rune) string {
	if strings.ContainsRune(`\.+*?()|[]{}^$`, r) {
		return `\` + string(r)
	}
	return string(r)
}

func isRepeat(n *rnode) bool {
	switch n.kind {
	case "star", "plus", "quest", "rep":
		return true
	}
	return false
}

// render prints the pattern text. atom=true: the context needs a single
// repeatable unit (wrap when necessary).
func (n *rnode) render(atom bool) string {
	wrap := func(s string) string { return "(?:" + s + ")" }
	switch n.kind {
	case "lit":
		var b strings.Builder
		for _, r := range n.lit {
			b.WriteString(escapeLit(r))
		}
		if atom && len(n.lit) != 1 {
			return wrap(b.String())
		}
		return b.String()
	case "class":
		return n.text
	case "dot":
		return "."
	case "cat":
		var b strings.Builder
		for _, s := range n.subs {
			if s.kind == "alt" {
				b.WriteString(wrap(s.render(false)))
			} else {
				b.WriteString(s.render(false))
			}
		}
		if atom {
			return wrap(b.String())
		}
		return b.String()
	case "alt":
		parts := make([]string, len(n.subs))
		for i, s := range n.subs {
			parts[i] = s.render(false)
		}
		if atom {
			return wrap(strings.Join(parts, "|"))
		}
		return strings.Join(parts, "|")
	case "cap":
		return "(" + n.subs[0].render(false) + ")"
	case "ncap":
		return wrap(n.subs[0].render(false))
	}
	// repetitions
	sub := n.subs[0].render(true)
	if isRepeat(n.subs[0]) {
		sub = wrap(sub)
	}
	var op string
	switch n.kind {
	case "star":
		op = "*"
	case "plus":
		op = "+"
	case "quest":
		op = "?"
	default:
		switch {
		case n.max == n.min:
			op = fmt.Sprintf("{%d}", n.min)
		case n.max < 0:
			op = fmt.Sprintf("{%d,}", n.min)
		default:
			op = fmt.Sprintf("{%d,%d}", n.min, n.max)
		}
	}
	if n.lazy {
		op += "?"
	}
	if atom {
		return wrap(sub + op)
	}
	return sub + op
}

type classItem struct {
	text   string
	ranges [][2]rune
}

var classItems = []classItem{
	{"a-c", [][2]rune{{'a', 'c'}}}, {"a-z", [][2]rune{{'a', 'z'}}}, {"A-Z", [][2]rune{{'A', 'Z'}}}, {"0-9", [][2]rune{{'0', '9'}}},
	{"x", [][2]rune{{'x', 'x'}}}, {"_", [][2]rune{{'_', '_'}}}, {`\-`, [][2]rune{{'-', '-'}}}, {`\.`, [][2]rune{{'.', '.'}}},
	{`\d`, [][2]rune{{'0', '9'}}}, {`\w`, [][2]rune{{'0', '9'}, {'A', 'Z'}, {'a', 'z'}, {'_', '_'}}},
	{"[:alpha:]", [][2]rune{{'A', 'Z'}, {'a', 'z'}}}, {"[:digit:]", [][2]rune{{'0', '9'}}}, {"[:alnum:]", [][2]rune{{'0', '9'}, {'A', 'Z'}, {'a', 'z'}}},
	{"0-3", [][2]rune{{'0', '3'}}}, {"X-Z", [][2]rune{{'X', 'Z'}}},
}

func drawClass(t *rapid.T) *rnode {
	if intr(t, "perl-class", 0, 4) == 0 {
		it := pick(t, "perl", classItems[8], classItems[9])
		return &rnode{kind: "class", text: it.text, ranges: it.ranges}
	}
	n := &rnode{kind: "class", neg: intr(t, "neg", 0, 5) == 0}
	k := intr(t, "class-items", 1, 3)
	var b strings.Builder
	b.WriteString("[")
	if n.neg {
		b.WriteString("^")
	}
	for i := 0; i < k; i++ {
		it := rapid.SampledFrom(classItems).Draw(t, "item")
		b.WriteString(it.text)
		n.ranges = append(n.ranges, it.ranges...)
	}
	b.WriteString("]")
	n.text = b.String()
	return n
}

func drawLit(t *rapid.T) *rnode {
	k := pick(t, "lit-len", 1, 1, 2, 3)
	r := make([]rune, k)
	for i := range r {
		r[i] = rune(litAlphabet[intr(t, "lit", 0, len(litAlphabet)-1)])
	}
	return &rnode{kind: "lit", lit: r}
}

func drawNode(t *rapid.T, depth int) *rnode {
	kinds := []string{"lit", "lit", "class", "class", "dot"}
	if depth > 0 {
		kinds = append(kinds, "cat", "cat", "alt", "star", "plus", "quest", "rep", "cap", "ncap")
	}
	switch k := pick(t, "kind", kinds...); k {
	case "lit":
		return drawLit(t)
	case "class":
		return drawClass(t)
	case "dot":
		if intr(t, "dot-rare", 0, 2) != 0 {
			return drawLit(t)
		}
		return &rnode{kind: "dot"}
	case "cat", "alt":
		n := &rnode{kind: k}
		for i, m := 0, intr(t, "arity", 2, 3); i < m; i++ {
			n.subs = append(n.subs, drawNode(t, depth-1))
		}
		return n
	case "rep":
		n := &rnode{kind: k, subs: []*rnode{drawNode(t, depth-1)}}
		n.min = intr(t, "rep-min", 0, 3)
		switch pick(t, "rep-form", "exact", "open", "range") {
		case "exact":
			n.max = n.min
		case "open":
			n.max = -1
		default:
			n.max = n.min + intr(t, "rep-extra", 1, 2)
		}
		n.lazy = intr(t, "lazy", 0, 5) == 0
		return n
	default:
		n := &rnode{kind: k, subs: []*rnode{drawNode(t, depth-1)}}
		if isRepeat(n) {
			n.lazy = intr(t, "lazy", 0, 5) == 0
		}
		return n
	}
}

// ---------------------------------------------------------------- analysis

func classHas(n *rnode, r rune, fold bool) bool {
	in := func(r rune) bool {
		for _, rg := range n.ranges {
			if r >= rg[0] && r <= rg[1] {
				return true
			}
		}
		return false
	}
	hit := in(r)
	if !hit && fold {
		hit = in(unicode.ToLower(r)) || in(unicode.ToUpper(r))
	}
	return hit != n.neg
}

// canConsume: some atom of the pattern can match rune r.
func (n *rnode) canConsume(r rune, fold bool) bool {
	switch n.kind {
	case "lit":
		for _, l := range n.lit {
			if l == r || fold && (unicode.ToLower(l) == unicode.ToLower(r)) {
				return true
			}
		}
		return false
	case "class":
		return classHas(n, r, fold)
	case "dot":
		return r != '\n'
	}
	for _, s := range n.subs {
		if s.canConsume(r, fold) {
			return true
		}
	}
	return false
}

// minLen: least number of runes a member of the language has.
func (n *rnode) minLen() int {
	switch n.kind {
	case "lit":
		return len(n.lit)
	case "class", "dot":
		return 1
	case "cat":
		s := 0
		for _, x := range n.subs {
			s += x.minLen()
		}
		return s
	case "alt":
		m := n.subs[0].minLen()
		for _, x := range n.subs[1:] {
			if l := x.minLen(); l < m {
				m = l
			}
		}
		return m
	case "star", "quest":
		return 0
	case "plus", "cap", "ncap":
		return n.subs[0].minLen()
	default:
		return n.min * n.subs[0].minLen()
	}
}

const classPool = "b0Zy_-.5Bq9 #!~\né"

// member draws a member of the language of n. short=true takes the fewest repetitions.
func (n *rnode) member(t *rapid.T, fold, short bool, out *[]rune) {
	switch n.kind {
	case "lit":
		for _, l := range n.lit {
			if fold && unicode.IsLetter(l) && rapid.Bool().Draw(t, "flip") {
				if unicode.IsUpper(l) {
					l = unicode.ToLower(l)
				} else {
					l = unicode.ToUpper(l)
				}
			}
			*out = append(*out, l)
		}
	case "class":
		if !n.neg {
			rg := n.ranges[intr(t, "range", 0, len(n.ranges)-1)]
			*out = append(*out, rg[0]+rune(intr(t, "in-range", 0, int(rg[1]-rg[0]))))
			return
		}
		pool := []rune(classPool)
		start := intr(t, "pool", 0, len(pool)-1)
		for i := range pool {
			if r := pool[(start+i)%len(pool)]; classHas(n, r, fold) {
				*out = append(*out, r)
				return
			}
		}
		*out = append(*out, '\t') // no generated class lists a tab
	case "dot":
		*out = append(*out, []rune("a0#é Z")[intr(t, "dot", 0, 5)])
	case "cat":
		for _, s := range n.subs {
			s.member(t, fold, short, out)
		}
	case "alt":
		if short {
			best := n.subs[0]
			for _, s := range n.subs[1:] {
				if s.minLen() < best.minLen() {
					best = s
				}
			}
			best.member(t, fold, short, out)
			return
		}
		n.subs[intr(t, "branch", 0, len(n.subs)-1)].member(t, fold, short, out)
	case "cap", "ncap":
		n.subs[0].member(t, fold, short, out)
	default:
		lo, hi := 0, 3
		switch n.kind {
		case "plus":
			lo = 1
		case "quest":
			hi = 1
		case "rep":
			lo, hi = n.min, n.max
			if hi < 0 {
				hi = n.min + 2
			}
		}
		k := lo
		if !short {
			k = intr(t, "reps", lo, hi)
		}
		for i := 0; i < k; i++ {
			n.subs[0].member(t, fold, short, out)
		}
	}
}

// ---------------------------------------------------------------- whole patterns

type pattern struct {
	root   *rnode
	fold   bool
	anchor string // both none prefix suffix
	token  string // uniqueness token (rendered as a {0} repetition: matches only the empty string)
}

func (p *pattern) text() string {
	body := p.root.render(false)
	if p.root.kind == "alt" && p.anchor != "none" {
		body = "(?:" + body + ")"
	}
	if p.token != "" {
		if p.root.kind == "alt" && p.anchor == "none" {
			body = "(?:" + body + ")"
		}
		body += "(?:" + p.token + "){0}"
	}
	s := ""
	if p.fold {
		s = "(?i)"
	}
	switch p.anchor {
	case "both":
		return s + "^" + body + "$"
	case "prefix":
		return s + "^" + body
	case "suffix":
		return s + body + "$"
	}
	return s + body
}

func drawPattern(t *rapid.T) *pattern {
	return &pattern{
		root:   drawNode(t, intr(t, "depth", 0, 3)),
		fold:   intr(t, "fold", 0, 4) == 0,
		anchor: pick(t, "anchor", "both", "both", "none", "prefix", "suffix"),
	}
}

var foreignCandidates = []rune{'#', '!', '~', ' ', 'é', '\n'}

// foreign returns the candidate runes no atom of the pattern can match.
func (p *pattern) foreign() []rune {
	var f []rune
	for _, r := range foreignCandidates {
		if !p.root.canConsume(r, p.fold) {
			f = append(f, r)
		}
	}
	return f
}

// value draws a value for the pattern. want: 1 = member by construction,
// 0 = non-member by construction, -1 = unknown (only the reference knows).
func (p *pattern) value(t *rapid.T) (val string, want int, kind string) {
	junk := func(label string) []rune { return []rune(strFrom(t, label, "ab0Z#! -", 0, 4)) }
	var w []rune
	kinds := []string{"member", "member", "random"}
	f := p.foreign()
	ml := p.root.minLen()
	if len(f) > 0 && (p.anchor == "both" || ml >= 1) {
		kinds = append(kinds, "foreign", "foreign")
	}
	if p.anchor == "both" && ml >= 1 {
		kinds = append(kinds, "too-short")
	}
	switch kind = pick(t, "value-kind", kinds...); kind {
	case "member":
		p.root.member(t, p.fold, false, &w)
		switch p.anchor {
		case "none":
			w = append(append(junk("pre"), w...), junk("post")...)
		case "prefix":
			w = append(w, junk("post")...)
		case "suffix":
			w = append(junk("pre"), w...)
		}
		return string(w), 1, kind
	case "foreign":
		x := f[intr(t, "foreign", 0, len(f)-1)]
		switch p.anchor {
		case "both": // every rune of the value must be consumed by an atom
			p.root.member(t, p.fold, false, &w)
			i := intr(t, "foreign-pos", 0, len(w))
			w = append(w[:i:i], append([]rune{x}, w[i:]...)...)
		case "prefix": // a non-empty match must start on the first rune
			p.root.member(t, p.fold, false, &w)
			w = append([]rune{x}, w...)
		case "suffix": // a non-empty match must end on the last rune
			p.root.member(t, p.fold, false, &w)
			w = append(w, x)
		default: // a non-empty match needs one consumable rune
			for i, k := 0, intr(t, "foreign-len", 0, 4); i < k; i++ {
				w = append(w, f[intr(t, "foreign", 0, len(f)-1)])
			}
		}
		return string(w), 0, kind
	case "too-short":
		p.root.member(t, p.fold, true, &w)
		return string(w[:ml-1]), 0, kind
	default:
		return strFrom(t, "random", "abcABC019xyz_-:. #", 0, 8), -1, kind
	}
}
