package c17

import (
	"strings"

	"pgregory.net/rapid"
)

// ---------------------------------------------------------------- uuid (RFC 4122 + the four documented spellings)

func genUUID(t *rapid.T) instance {
	hexset := pick(t, "case", hexLower, hexLower, hexUpper, hexMixed)
	nib := []byte(strFrom(t, "nibbles", hexset, 32, 32))
	nib[12] = "12345"[intr(t, "version", 0, 4)]
	nib[16] = "89abAB"[intr(t, "variant", 0, 5)]
	canon := func(n []byte) string {
		s := string(n)
		return s[0:8] + "-" + s[8:12] + "-" + s[12:16] + "-" + s[16:20] + "-" + s[20:32]
	}
	form := pick(t, "form", "canonical", "canonical", "canonical", "canonical", "urn", "braces", "raw")
	render := func(n []byte) string {
		switch form {
		case "urn":
			return "urn:uuid:" + canon(n)
		case "braces":
			return "{" + canon(n) + "}"
		case "raw":
			return string(n)
		}
		return canon(n)
	}
	valid := render(nib)
	return instance{Valid: valid, Form: form, Corrupt: func(t *rapid.T) (string, string) {
		ops := []string{"non-hex-char", "variant-out-of-range", "truncated", "byte-inserted", "wrapped-in-non-braces"}
		if form != "raw" {
			ops = append(ops, "hyphen-removed")
		}
		if form == "urn" {
			ops = append(ops, "urn-prefix-corrupted")
		}
		if form == "braces" {
			ops = append(ops, "brace-replaced", "brace-dropped")
		}
		switch op := pick(t, "op", ops...); op {
		case "non-hex-char":
			n := append([]byte{}, nib...)
			n[intr(t, "pos", 0, 31)] = "ghxzGZ!_ "[intr(t, "bad", 0, 8)]
			return render(n), op
		case "variant-out-of-range": // RFC 4122 UUIDs carry variant bits 10x
			n := append([]byte{}, nib...)
			n[16] = "01234567cdefCDEF"[intr(t, "bad", 0, 15)]
			return render(n), op
		case "truncated": // fewer than 32 hex digits remain
			return properPrefix(t, valid, len(valid)-1), op
		case "byte-inserted": // 33 characters of payload: no spelling has that length
			return insertByte(t, valid, "0af!x-"), op
		case "wrapped-in-non-braces":
			pair := pick(t, "pair", "()", "[]", "<>", "\"\"", "xx", "00", "{{", "}}", "}{", "{x", "x}")
			return pair[:1] + canon(nib) + pair[1:], op
		case "hyphen-removed":
			c := canon(nib)
			c = deleteAt(c, pick(t, "which", 8, 13, 18, 23))
			switch form {
			case "urn":
				return "urn:uuid:" + c, op
			case "braces":
				return "{" + c + "}", op
			}
			return c, op
		case "urn-prefix-corrupted":
			return pick(t, "prefix", "urn:uuie:", "urn-uuid:", "uri:uuid:", "urn:uuid;") + canon(nib), op
		case "brace-replaced":
			pair := pick(t, "pair", "(}", "{)", "[}", "{]", "x}", "{x")
			return pair[:1] + canon(nib) + pair[1:], op
		default: // brace-dropped
			if rapid.Bool().Draw(t, "left") {
				return canon(nib) + "}", op
			}
			return "{" + canon(nib), op
		}
	}}
}

// ---------------------------------------------------------------- email (RFC 5322 addr-spec / name-addr)

const atextSpecials = "!#$%&'*+-/=?^_`{|}~"

func genAtom(t *rapid.T, label string) string {
	alphabet := alnum
	if intr(t, label+"-special", 0, 3) == 0 {
		alphabet = alnum + atextSpecials
	}
	return strFrom(t, label, alphabet, 1, 8)
}

func genLDHLabel(t *rapid.T, label string, letterFirst bool, maxLen int) string {
	n := pick(t, label+"-len", 1, 1, 2, 3, 5, 8, 12, maxLen)
	if n > maxLen {
		n = maxLen
	}
	first := alnum
	if letterFirst {
		first = alpha
	}
	b := []byte{first[intr(t, label+"-first", 0, len(first)-1)]}
	if n >= 2 {
		mid := strFrom(t, label+"-mid", alnum+alnum+"-", n-2, n-2)
		b = append(b, mid...)
		b = append(b, alnum[intr(t, label+"-last", 0, len(alnum)-1)])
	}
	return string(b)
}

func genEmail(t *rapid.T) instance {
	nLocal := intr(t, "local-atoms", 1, 3)
	var atoms []string
	for i := 0; i < nLocal; i++ {
		atoms = append(atoms, genAtom(t, "atom"))
	}
	nDom := intr(t, "domain-labels", 1, 3)
	var labels []string
	for i := 0; i < nDom; i++ {
		labels = append(labels, genLDHLabel(t, "dlabel", false, 16))
	}
	form := pick(t, "form", "addr-spec", "addr-spec", "addr-spec", "quoted-local", "name-addr")
	quoted := "\"" + strFrom(t, "qtext", alnum+" .!#@,", 1, 8) + "\""
	phrase := strFrom(t, "phrase", alpha, 1, 6) + " " + strFrom(t, "phrase2", alpha, 1, 6)
	at := "@"
	render := func(local, domain string) string {
		switch form {
		case "quoted-local":
			return quoted + at + domain
		case "name-addr":
			return phrase + " <" + local + at + domain + ">"
		}
		return local + at + domain
	}
	local, domain := strings.Join(atoms, "."), strings.Join(labels, ".")
	valid := render(local, domain)
	return instance{Valid: valid, Form: form, Corrupt: func(t *rapid.T) (string, string) {
		ops := []string{"at-removed", "second-at", "address-list", "dot-doubled-domain", "dot-leading-domain", "dot-trailing-domain", "empty-domain", "special-inserted-domain"}
		if form != "quoted-local" {
			ops = append(ops, "dot-doubled-local", "dot-leading-local", "dot-trailing-local", "empty-local", "special-inserted-local")
		} else {
			ops = append(ops, "quote-unclosed")
		}
		if form == "name-addr" {
			ops = append(ops, "angle-unclosed", "angle-unopened")
		}
		// a byte that can never occur unquoted inside dot-atom-text, placed strictly between two atext characters
		insertSpecial := func(atom string) string {
			bad := "<>[]:;,\\\"\x01\x7f"
			c := string(bad[intr(t, "bad", 0, len(bad)-1)])
			if len(atom) < 2 {
				return atom + c + "a"
			}
			return insertAt(atom, intr(t, "pos", 1, len(atom)-1), c)
		}
		switch op := pick(t, "op", ops...); op {
		case "at-removed":
			at = ""
			defer func() { at = "@" }()
			return render(local, domain), op
		case "second-at":
			return render(local, domain+"@"+domain), op
		case "address-list": // two addresses are not an address
			return valid + pick(t, "list-sep", ",", ", ", " , ") + local + "@" + domain, op
		case "dot-doubled-domain":
			return render(local, domain+".."+labels[0]), op
		case "dot-leading-domain":
			return render(local, "."+domain), op
		case "dot-trailing-domain":
			return render(local, domain+"."), op
		case "empty-domain":
			return render(local, ""), op
		case "special-inserted-domain":
			l := append([]string{}, labels...)
			l[0] = insertSpecial(l[0])
			return render(local, strings.Join(l, ".")), op
		case "dot-doubled-local":
			return render(local+".."+atoms[0], domain), op
		case "dot-leading-local":
			return render("."+local, domain), op
		case "dot-trailing-local":
			return render(local+".", domain), op
		case "empty-local":
			return render("", domain), op
		case "special-inserted-local":
			a := append([]string{}, atoms...)
			a[0] = insertSpecial(a[0])
			return render(strings.Join(a, "."), domain), op
		case "quote-unclosed":
			return quoted[:len(quoted)-1] + "@" + domain, op
		case "angle-unclosed":
			return valid[:len(valid)-1], op
		default: // angle-unopened
			return strings.Replace(valid, "<", "", 1), op
		}
	}}
}

// ---------------------------------------------------------------- hostname (RFC 1035 2.3.1 preferred name syntax)

func genHostname(t *rapid.T) instance {
	n := pick(t, "labels", 1, 2, 2, 3, 3, 4)
	var labels []string
	total := 0
	for i := 0; i < n; i++ {
		l := genLDHLabel(t, "label", true, 63)
		if i == 0 && intr(t, "short-first", 0, 2) == 0 {
			l = l[:1]
		}
		if total+len(l)+1 > 253 {
			break
		}
		total += len(l) + 1
		labels = append(labels, l)
	}
	// steer half of the names to end in a digit (the interesting side of the regexp)
	if rapid.Bool().Draw(t, "digit-end") {
		last := labels[len(labels)-1]
		if len(last) >= 2 {
			labels[len(labels)-1] = last[:len(last)-1] + string(digits[intr(t, "d", 0, 9)])
		} else if total < 253 {
			labels[len(labels)-1] = last + string(digits[intr(t, "d", 0, 9)])
		}
	}
	valid := strings.Join(labels, ".")
	form := "multi-label"
	if len(labels) == 1 {
		form = "single-label"
	}
	return instance{Valid: valid, Form: form, HostLabels: labels, Corrupt: func(t *rapid.T) (string, string) {
		switch op := pick(t, "op", "byte-inserted", "byte-inserted", "label-too-long", "empty-label", "leading-dot", "hyphen-leading", "hyphen-trailing", "name-too-long"); op {
		case "byte-inserted":
			pos := intr(t, "ins-pos", 0, len(valid))
			if rapid.Bool().Draw(t, "early") { // within the first two bytes: defeats the prefix arm
				pos = intr(t, "ins-pos-early", 0, min(1, len(valid)))
			}
			bad := " !_/:@*\x00"
			return insertAt(valid, pos, string(bad[intr(t, "bad", 0, len(bad)-1)])), op
		case "label-too-long":
			l := append([]string{}, labels...)
			i := intr(t, "which", 0, len(l)-1)
			l[i] = l[i][:1] + strFrom(t, "pad", alnum, 63, 70) + l[i][len(l[i])-1:]
			return strings.Join(l, "."), op
		case "empty-label":
			return valid + ".." + labels[len(labels)-1], op
		case "leading-dot":
			return "." + valid, op
		case "hyphen-leading":
			l := append([]string{}, labels...)
			i := intr(t, "which", 0, len(l)-1)
			l[i] = "-" + l[i]
			return strings.Join(l, "."), op
		case "hyphen-trailing":
			l := append([]string{}, labels...)
			i := intr(t, "which", 0, len(l)-1)
			l[i] = l[i] + "-"
			return strings.Join(l, "."), op
		default: // more than 255 octets
			l := strFrom(t, "long", lower, 60, 63)
			return strings.Join([]string{valid, l, l, l, l, l[:59] + "9"}, "."), op
		}
	}}
}
