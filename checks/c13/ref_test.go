package c13

// Reference semantics of the check, written from the documentation of
// expr.Hash / expr.Equal / expr.Dup and the property text; nothing here calls
// goa's Hash, Equal or Dup.

import (
	"fmt"
	"reflect"
	"sort"
	"strings"

	"goa.design/goa/v3/expr"
)

// ---------------------------------------------------------------- flags

type flags struct{ F, N, T bool } // ignoreFields, ignoreNames, ignoreTags

func (f flags) String() string {
	return fmt.Sprintf("(ignoreFields=%v,ignoreNames=%v,ignoreTags=%v)", f.F, f.N, f.T)
}

var allFlags = func() []flags {
	var out []flags
	for i := 0; i < 8; i++ {
		out = append(out, flags{i&4 != 0, i&2 != 0, i&1 != 0})
	}
	return out
}()

func goaHash(dt expr.DataType, f flags) string { return expr.Hash(dt, f.F, f.N, f.T) }

// ---------------------------------------------------------------- deep serialiser

// snapper prints everything reachable from a type or attribute: all public
// fields of attributes, validations, metadata (sorted), default values,
// examples, references, bases, user type names/IDs, result type identifiers
// and views. User types are numbered in order of first visit (by pointer), so
// cycles terminate and the sharing structure is part of the text.
//
// lite mode is the form used to compare a copy with its original: the fields
// Dup shares with the original by design (References, Bases of nested
// attributes, Views - they keep pointing at the original's user types) are
// printed by name only, and Docs / ContentType, which Dup does not carry
// (see NOTES.md), are left out.
type snapper struct {
	ids  map[expr.UserType]int
	b    strings.Builder
	lite bool
}

func (s *snapper) shallow(dt expr.DataType) {
	if u, ok := dt.(expr.UserType); ok {
		s.w("%T %q id=%q", dt, u.Name(), u.ID())
		return
	}
	if dt == nil {
		s.w("nil")
		return
	}
	s.w("%T %q", dt, dt.Name())
}

func snapshotAttr(a *expr.AttributeExpr, lite bool) string {
	s := &snapper{ids: map[expr.UserType]int{}, lite: lite}
	s.attr(a)
	return s.b.String()
}

func snapshotType(dt expr.DataType, lite bool) string {
	s := &snapper{ids: map[expr.UserType]int{}, lite: lite}
	s.typ(dt)
	return s.b.String()
}

func (s *snapper) w(format string, a ...any) { fmt.Fprintf(&s.b, format, a...) }

func (s *snapper) typ(dt expr.DataType) {
	switch t := dt.(type) {
	case nil:
		s.w("nil")
	case expr.Primitive:
		s.w("P:%s", t.Name())
	case *expr.Array:
		s.w("A[")
		s.attr(t.ElemType)
		s.w("]")
	case *expr.Map:
		s.w("M[")
		s.attr(t.KeyType)
		s.w(" => ")
		s.attr(t.ElemType)
		s.w("]")
	case *expr.Object:
		s.w("O{")
		for _, nat := range *t {
			if nat == nil {
				s.w("<nil>;")
				continue
			}
			s.w("%q=", nat.Name)
			s.attr(nat.Attribute)
			s.w(";")
		}
		s.w("}")
	case *expr.Union:
		s.w("U<%q>{", t.TypeName)
		for _, nat := range t.Values {
			if nat == nil {
				s.w("<nil>;")
				continue
			}
			s.w("%q=", nat.Name)
			s.attr(nat.Attribute)
			s.w(";")
		}
		s.w("}")
	case *expr.UserTypeExpr:
		if id, ok := s.ids[t]; ok {
			s.w("#%d", id)
			return
		}
		id := len(s.ids)
		s.ids[t] = id
		s.w("UT#%d(%q,%q){", id, t.TypeName, t.UID)
		s.attr(t.AttributeExpr)
		s.w("}")
	case *expr.ResultTypeExpr:
		if id, ok := s.ids[t]; ok {
			s.w("#%d", id)
			return
		}
		id := len(s.ids)
		s.ids[t] = id
		s.w("RT#%d(%q,%q,%q", id, t.TypeName, t.UID, t.Identifier)
		if !s.lite {
			s.w(",ct=%q", t.ContentType)
		}
		s.w("){")
		s.attr(t.AttributeExpr)
		s.w("}views[")
		for _, v := range t.Views {
			s.w("%q parent=", v.Name)
			if s.lite {
				if v.Parent == nil {
					s.w("nil")
				} else {
					s.shallow(v.Parent)
				}
				if o := expr.AsObject(v.Type); o != nil {
					for _, nat := range *o {
						s.w(" %q", nat.Name)
					}
				}
				s.w(";")
				continue
			}
			if v.Parent == nil {
				s.w("nil")
			} else {
				s.typ(v.Parent)
			}
			s.w(":")
			s.attr(v.AttributeExpr)
			s.w(";")
		}
		s.w("]")
	default:
		s.w("?%T", dt)
	}
}

func pf(p *float64) string {
	if p == nil {
		return "nil"
	}
	return fmt.Sprint(*p)
}

func pi(p *int) string {
	if p == nil {
		return "nil"
	}
	return fmt.Sprint(*p)
}

func (s *snapper) attr(a *expr.AttributeExpr) {
	if a == nil {
		s.w("nil")
		return
	}
	s.w("{T:")
	s.typ(a.Type)
	s.w(",D:%q", a.Description)
	if !s.lite {
		if a.Docs == nil {
			s.w(",Docs:nil")
		} else {
			s.w(",Docs:%q %q", a.Docs.Description, a.Docs.URL)
		}
	}
	if v := a.Validation; v == nil {
		s.w(",V:nil")
	} else {
		s.w(",V:{enum:%#v,fmt:%q,pat:%q,min:%s,max:%s,xmin:%s,xmax:%s,minlen:%s,maxlen:%s,req:%q}",
			v.Values, v.Format, v.Pattern, pf(v.Minimum), pf(v.Maximum), pf(v.ExclusiveMinimum), pf(v.ExclusiveMaximum), pi(v.MinLength), pi(v.MaxLength), v.Required)
	}
	if a.Meta == nil {
		s.w(",M:nil")
	} else {
		keys := make([]string, 0, len(a.Meta))
		for k := range a.Meta {
			keys = append(keys, k)
		}
		sort.Strings(keys)
		s.w(",M:{")
		for _, k := range keys {
			s.w("%q:%q;", k, a.Meta[k])
		}
		s.w("}")
	}
	s.w(",Def:%#v,Ex:[", a.DefaultValue)
	for _, e := range a.UserExamples {
		if e == nil {
			s.w("nil;")
			continue
		}
		s.w("%q %q %#v;", e.Summary, e.Description, e.Value)
	}
	s.w("],Refs:[")
	for _, r := range a.References {
		if s.lite {
			s.shallow(r)
		} else {
			s.typ(r)
		}
		s.w(";")
	}
	s.w("],Bases:[")
	for _, r := range a.Bases {
		if s.lite {
			s.shallow(r)
		} else {
			s.typ(r)
		}
		s.w(";")
	}
	s.w("],DSL:%v}", a.DSLFunc != nil)
}

// ---------------------------------------------------------------- pointer sets

type ptrKey struct {
	kind string
	p    uintptr
}

// mutablePointers returns the identity of every mutable piece of structure
// reachable from a through Type edges (the part of a graph Dup is
// responsible for copying): attributes, validations, metadata maps, required
// lists, objects and their backing arrays, named attributes, arrays, maps,
// unions, user types. Views, references, bases, default values, examples and
// enum value lists are left out: goa shares them between copies (Dup copies
// the slice header / pointer only, ValidationExpr.Dup is documented as
// shallow).
func mutablePointers(a *expr.AttributeExpr) map[ptrKey]string {
	out := map[ptrKey]string{}
	seen := map[expr.UserType]bool{}
	add := func(kind string, v any, path string) {
		rv := reflect.ValueOf(v)
		if (rv.Kind() == reflect.Ptr || rv.Kind() == reflect.Map || rv.Kind() == reflect.Slice) && !rv.IsNil() {
			if rv.Kind() == reflect.Slice && rv.Len() == 0 {
				return
			}
			out[ptrKey{kind, rv.Pointer()}] = path
		}
	}
	var wa func(a *expr.AttributeExpr, path string)
	var wt func(dt expr.DataType, path string)
	wa = func(a *expr.AttributeExpr, path string) {
		if a == nil {
			return
		}
		add("attribute", a, path)
		add("validation", a.Validation, path+".Validation")
		if a.Validation != nil {
			add("required", a.Validation.Required, path+".Validation.Required")
		}
		add("meta", a.Meta, path+".Meta")
		wt(a.Type, path)
	}
	wt = func(dt expr.DataType, path string) {
		switch t := dt.(type) {
		case *expr.Array:
			add("array", t, path)
			wa(t.ElemType, path+"[]")
		case *expr.Map:
			add("map", t, path)
			wa(t.KeyType, path+"<key>")
			wa(t.ElemType, path+"<elem>")
		case *expr.Object:
			add("object", t, path)
			add("object-backing", []*expr.NamedAttributeExpr(*t), path+"(backing array)")
			for _, nat := range *t {
				add("named-attribute", nat, path+"."+nat.Name+"(named attribute)")
				wa(nat.Attribute, path+"."+nat.Name)
			}
		case *expr.Union:
			add("union", t, path)
			add("union-backing", t.Values, path+"(values)")
			for _, nat := range t.Values {
				add("named-attribute", nat, path+"|"+nat.Name+"(named attribute)")
				wa(nat.Attribute, path+"|"+nat.Name)
			}
		case expr.UserType:
			if t == expr.UserType(expr.Empty) || seen[t] {
				return
			}
			seen[t] = true
			add("usertype", t, path+"<"+t.Name()+">")
			if rt, ok := t.(*expr.ResultTypeExpr); ok {
				add("usertype-embedded", rt.UserTypeExpr, path+"<"+t.Name()+">.UserTypeExpr")
			}
			wa(t.Attribute(), "<"+t.Name()+">")
		}
	}
	wa(a, "root")
	return out
}

// ---------------------------------------------------------------- reference equality

// fieldTags extracts the "struct:field:xxx" entries of a metadata map.
func fieldTags(m expr.MetaExpr) map[string][]string {
	out := map[string][]string{}
	for k, v := range m {
		if strings.HasPrefix(k, "struct:field:") {
			out[k] = v
		}
	}
	return out
}

func sameTags(a, b expr.MetaExpr) bool {
	ta, tb := fieldTags(a), fieldTags(b)
	if len(ta) != len(tb) {
		return false
	}
	for k, va := range ta {
		vb, ok := tb[k]
		if !ok || len(va) != len(vb) {
			return false
		}
		for i := range va {
			if va[i] != vb[i] {
				return false
			}
		}
	}
	return true
}

// refEq is the check's structural equality, read from the documentation of
// Hash: same kind; arrays by element; maps by key and element; user types by
// name (unless names are ignored and fields are not) and, unless fields are
// ignored, by their attribute; objects by attribute names, attribute types
// and, unless tags are ignored, the struct:field:* tags of each attribute;
// unions by alternative names and types, irrespective of order. It is a
// bisimulation: a pair of user types that is being compared is assumed equal
// when met again.
//
// Where the documentation is silent the answer is unspecified; strict mode
// treats every such point as a difference, loose mode as no difference, and
// the check only asserts when both modes agree. The unspecified points are:
//   - user type versus result type (two kinds, one hash prefix)
//   - the type name of a union
//   - struct:field:* tags on a union alternative or on a user type's own attribute
//   - on cyclic graphs, bisimilar graphs that are not isomorphic (a
//     recursive type against its own unrolling)
type refEq struct {
	f       flags
	strict  bool
	bij     bool // strict on a cyclic graph: require a one-to-one pairing of user types
	assumed map[[2]expr.UserType]bool
	ab, ba  map[expr.UserType]expr.UserType
}

func isUser(dt expr.DataType) (expr.UserType, bool) {
	u, ok := dt.(expr.UserType)
	return u, ok
}

func refEqual(a, b expr.DataType, f flags, strict bool) bool {
	r := &refEq{f: f, strict: strict, assumed: map[[2]expr.UserType]bool{}, ab: map[expr.UserType]expr.UserType{}, ba: map[expr.UserType]expr.UserType{}}
	if strict && (isCyclic(a, f) || isCyclic(b, f)) {
		r.bij = true
	}
	return r.eq(a, b)
}

// verdict: +1 equal, -1 unequal, 0 unspecified.
func refVerdict(a, b expr.DataType, f flags) int {
	s, l := refEqual(a, b, f, true), refEqual(a, b, f, false)
	switch {
	case s && l:
		return 1
	case !s && !l:
		return -1
	}
	return 0
}

func (r *refEq) eq(a, b expr.DataType) bool {
	ua, aIsU := isUser(a)
	ub, bIsU := isUser(b)
	if aIsU != bIsU {
		return false
	}
	if aIsU {
		return r.eqUser(ua, ub)
	}
	if a.Kind() != b.Kind() {
		return false
	}
	switch ta := a.(type) {
	case expr.Primitive:
		return true // same kind
	case *expr.Array:
		return r.eq(ta.ElemType.Type, b.(*expr.Array).ElemType.Type)
	case *expr.Map:
		tb := b.(*expr.Map)
		return r.eq(ta.KeyType.Type, tb.KeyType.Type) && r.eq(ta.ElemType.Type, tb.ElemType.Type)
	case *expr.Object:
		tb := b.(*expr.Object)
		if len(*ta) != len(*tb) {
			return false
		}
		for _, na := range *ta {
			ab := tb.Attribute(na.Name)
			if ab == nil {
				return false
			}
			if !r.f.T && !sameTags(na.Attribute.Meta, ab.Meta) {
				return false
			}
			if !r.eq(na.Attribute.Type, ab.Type) {
				return false
			}
		}
		return true
	case *expr.Union:
		tb := b.(*expr.Union)
		if r.strict && ta.TypeName != tb.TypeName {
			return false
		}
		if len(ta.Values) != len(tb.Values) {
			return false
		}
		for _, na := range ta.Values {
			var nb *expr.NamedAttributeExpr
			for _, x := range tb.Values {
				if x.Name == na.Name {
					nb = x
				}
			}
			if nb == nil {
				return false
			}
			if r.strict && !r.f.T && !sameTags(na.Attribute.Meta, nb.Attribute.Meta) {
				return false
			}
			if !r.eq(na.Attribute.Type, nb.Attribute.Type) {
				return false
			}
		}
		return true
	}
	panic(fmt.Sprintf("refEq: unexpected type %T", a))
}

func (r *refEq) eqUser(a, b expr.UserType) bool {
	if r.strict && a.Kind() != b.Kind() {
		return false
	}
	if !r.f.N || r.f.F {
		if a.Name() != b.Name() {
			return false
		}
	}
	if r.f.F {
		return true
	}
	if r.strict && !r.f.T && !sameTags(a.Attribute().Meta, b.Attribute().Meta) {
		return false
	}
	if r.bij {
		if m, ok := r.ab[a]; ok && m != b {
			return false
		}
		if m, ok := r.ba[b]; ok && m != a {
			return false
		}
		r.ab[a], r.ba[b] = b, a
	}
	k := [2]expr.UserType{a, b}
	if r.assumed[k] {
		return true
	}
	r.assumed[k] = true
	return r.eq(a.Attribute().Type, b.Attribute().Type)
}

// ---------------------------------------------------------------- features

// walkHashed visits every type node the hash of dt depends on under flags f
// (the attributes of user types are not part of it when fields are ignored).
func walkHashed(dt expr.DataType, f flags, visit func(dt expr.DataType, onPath bool)) {
	state := map[expr.UserType]int{}
	var w func(dt expr.DataType)
	w = func(dt expr.DataType) {
		switch t := dt.(type) {
		case *expr.Array:
			visit(dt, false)
			w(t.ElemType.Type)
		case *expr.Map:
			visit(dt, false)
			w(t.KeyType.Type)
			w(t.ElemType.Type)
		case *expr.Object:
			visit(dt, false)
			for _, nat := range *t {
				w(nat.Attribute.Type)
			}
		case *expr.Union:
			visit(dt, false)
			for _, nat := range t.Values {
				w(nat.Attribute.Type)
			}
		case expr.UserType:
			if state[t] != 0 {
				visit(dt, state[t] == 1)
				return
			}
			visit(dt, false)
			if f.F {
				return
			}
			state[t] = 1
			w(t.Attribute().Type)
			state[t] = 2
		default:
			visit(dt, false)
		}
	}
	w(dt)
}

func isCyclic(dt expr.DataType, f flags) bool {
	c := false
	walkHashed(dt, f, func(_ expr.DataType, onPath bool) {
		if onPath {
			c = true
		}
	})
	return c
}

// unorderedUnion3: a union of >= 3 alternatives whose declaration order is
// not the ascending name order takes part in the hash (signature of finding
// C13-union-hash-order).
func unorderedUnion3(dt expr.DataType, f flags) bool {
	found := false
	walkHashed(dt, f, func(d expr.DataType, _ bool) {
		if u, ok := d.(*expr.Union); ok && len(u.Values) >= 3 {
			for i := 1; i < len(u.Values); i++ {
				if u.Values[i].Name < u.Values[i-1].Name {
					found = true
				}
			}
		}
	})
	return found
}

func nFieldTags(m expr.MetaExpr) int { return len(fieldTags(m)) }

// multiTagAttr: an object attribute, or a user type's own attribute, that
// carries >= 2 struct:field:* keys takes part in the hash (signature of
// finding C13-hash-meta-order). Only relevant when tags are hashed.
func multiTagAttr(dt expr.DataType, f flags) bool {
	if f.T {
		return false
	}
	found := false
	walkHashed(dt, f, func(d expr.DataType, onPath bool) {
		switch t := d.(type) {
		case *expr.Object:
			for _, nat := range *t {
				if nFieldTags(nat.Attribute.Meta) >= 2 {
					found = true
				}
			}
		case expr.UserType:
			if !f.F && nFieldTags(t.Attribute().Meta) >= 2 {
				found = true
			}
		}
	})
	return found
}

// ---------------------------------------------------------------- collision classifier

// canonOpts selects which delimiters the canonical text keeps. With all three
// true the text is an injective rendering of the hashed structure (for names
// that are plain identifiers): every object and union is closed and a
// reference back into an object that is still being rendered is a numbered
// token. Switching one off reproduces one documented-as-open ambiguity:
//
//	closeObj=false    nested objects are not delimited   (C13-nested-object-hash-collision)
//	closeUnion=false  nested unions are not delimited    (C13-nested-union-hash-collision)
//	backRef=false     a back reference is rendered as the text of the object so far (C13-recursive-hash-collision)
//
// The classifier is used only to decide whether an unequal pair belongs to
// the input class of an OPEN finding; it is never the oracle.
type canonOpts struct {
	f                             flags
	closeObj, closeUnion, backRef bool
	// declOrderUnions reproduces the alternative order of the open finding
	// C13-union-hash-order (a sort whose comparator looks at the declared
	// order): a collision can need that order and a missing delimiter together.
	declOrderUnions bool
}

type canonEntry struct {
	text *string
	done bool
	ord  int
}

type canoner struct {
	o    canonOpts
	seen map[*expr.Object]*canonEntry
}

func canon(dt expr.DataType, o canonOpts) string {
	c := &canoner{o: o, seen: map[*expr.Object]*canonEntry{}}
	return c.typ(dt)
}

func sortedTagText(m expr.MetaExpr) string {
	tags := fieldTags(m)
	keys := make([]string, 0, len(tags))
	for k := range tags {
		keys = append(keys, k)
	}
	sort.Strings(keys)
	s := ""
	for _, k := range keys {
		s += "+" + k + fmt.Sprintf("%s", tags[k])
	}
	return s
}

func (c *canoner) typ(dt expr.DataType) string {
	switch t := dt.(type) {
	case expr.Primitive:
		return t.Name()
	case *expr.Array:
		return "_a_" + c.typ(t.ElemType.Type)
	case *expr.Map:
		return "_m_" + c.typ(t.KeyType.Type) + ":" + c.typ(t.ElemType.Type)
	case *expr.Union:
		vals := append([]*expr.NamedAttributeExpr{}, t.Values...)
		if c.o.declOrderUnions {
			sort.Slice(vals, func(i, j int) bool { return t.Values[i].Name < t.Values[j].Name })
		} else {
			sort.SliceStable(vals, func(i, j int) bool { return vals[i].Name < vals[j].Name })
		}
		s := "_u_" + t.TypeName
		for _, nat := range vals {
			s += "_*_" + nat.Name + "_|_" + c.typ(nat.Attribute.Type)
		}
		if c.o.closeUnion {
			s += "_$u_"
		}
		return s
	case expr.UserType:
		s := "_t_"
		if !c.o.f.N || c.o.f.F {
			s += t.Name()
		}
		if c.o.f.F {
			return s
		}
		if !c.o.f.T {
			s += sortedTagText(t.Attribute().Meta)
		}
		return s + "!" + c.typ(t.Attribute().Type)
	case *expr.Object:
		closer := ""
		if c.o.closeObj {
			closer = "_$o_"
		}
		if e, ok := c.seen[t]; ok {
			if !e.done && c.o.backRef {
				return fmt.Sprintf("_r_%d", e.ord)
			}
			return *e.text + closer
		}
		text := "_o_"
		e := &canonEntry{text: &text, ord: len(c.seen)}
		c.seen[t] = e
		attrs := append([]*expr.NamedAttributeExpr{}, *t...)
		sort.SliceStable(attrs, func(i, j int) bool { return attrs[i].Name < attrs[j].Name })
		for _, nat := range attrs {
			piece := "-" + nat.Name + "/" + c.typ(nat.Attribute.Type)
			if !c.o.f.T {
				piece += sortedTagText(nat.Attribute.Meta)
			}
			text += piece
		}
		e.done = true
		return text + closer
	}
	panic(fmt.Sprintf("canon: unexpected type %T", dt))
}
