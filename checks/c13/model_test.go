// Package c13 decides property C13: type copies are independent and
// structural hashes match equality.
//
// This file holds the check's own model of a type graph (plain data, JSON-able,
// references to user types by index so that it can be cyclic), the rapid
// generator for it, the builder that turns a model into goa expressions the
// way the DSL does (one expression per user type, unique names and IDs,
// attributes added with Object.Set), and the model edits used to derive
// near-equal and near-unequal variants.
package c13

import (
	"encoding/json"
	"fmt"
	"strings"

	"goa.design/goa/v3/expr"
	"pgregory.net/rapid"
)

// ---------------------------------------------------------------- model

type metaKV struct {
	K string   `json:"k"`
	V []string `json:"v"`
}

type valM struct {
	Enum     []any    `json:"enum,omitempty"`
	Format   string   `json:"format,omitempty"`
	Pattern  string   `json:"pattern,omitempty"`
	Min      *float64 `json:"min,omitempty"`
	Max      *float64 `json:"max,omitempty"`
	ExMin    *float64 `json:"exmin,omitempty"`
	ExMax    *float64 `json:"exmax,omitempty"`
	MinLen   *int     `json:"minlen,omitempty"`
	MaxLen   *int     `json:"maxlen,omitempty"`
	Required []string `json:"required,omitempty"`
}

// attrM is an attribute: a type plus everything goa hangs on an attribute.
type attrM struct {
	T     *typeM   `json:"t"`
	Desc  string   `json:"desc,omitempty"`
	Meta  []metaKV `json:"meta,omitempty"`
	// EmptyMeta: the attribute carries a non-nil metadata map without entries
	// (what is left after the only key was deleted, e.g. by RemovePkgPath)
	EmptyMeta bool `json:"empty_meta,omitempty"`
	Val   *valM    `json:"val,omitempty"`
	Def   any      `json:"def,omitempty"`
	Ex    int      `json:"ex,omitempty"`   // number of user examples
	Docs  bool     `json:"docs,omitempty"` // external documentation pointer
	Refs  []int    `json:"refs,omitempty"` // References: user type indexes
	Bases []int    `json:"bases,omitempty"`
}

type fieldM struct {
	Name string `json:"n"`
	A    *attrM `json:"a"`
}

// typeM kinds: prim array map object union ref empty
type typeM struct {
	K      string   `json:"k"`
	P      int      `json:"p,omitempty"` // index into prims
	Key    *attrM   `json:"key,omitempty"`
	Elem   *attrM   `json:"elem,omitempty"`
	Fields []fieldM `json:"fields,omitempty"` // object attributes / union alternatives, in declaration order
	UName  string   `json:"uname,omitempty"`  // union type name
	Ref    int      `json:"ref,omitempty"`    // user type index
}

type viewM struct {
	Name   string   `json:"name"`
	Fields []string `json:"fields"`
}

type utM struct {
	Name  string  `json:"name"`
	UID   string  `json:"uid,omitempty"`
	RT    bool    `json:"rt,omitempty"`
	Ident string  `json:"ident,omitempty"`
	CT    string  `json:"ct,omitempty"`
	Views []viewM `json:"views,omitempty"`
	A     *attrM  `json:"a"`
}

type graphM struct {
	UTs  []*utM `json:"uts"`
	Root *attrM `json:"root"`
}

func (g *graphM) key() string {
	b, err := json.Marshal(g)
	if err != nil {
		panic(err)
	}
	return string(b)
}

func cloneGraph(g *graphM) *graphM {
	var out graphM
	if err := json.Unmarshal([]byte(g.key()), &out); err != nil {
		panic(err)
	}
	// JSON turns ints inside `any` into float64: normalise defaults and enums
	// so that a clone builds the same goa values as the original.
	var fixA func(a *attrM)
	fixT := func(t *typeM) {}
	fixA = func(a *attrM) {
		if a == nil {
			return
		}
		if f, ok := a.Def.(float64); ok {
			a.Def = int(f)
		}
		if a.Val != nil {
			for i, e := range a.Val.Enum {
				if f, ok := e.(float64); ok {
					a.Val.Enum[i] = int(f)
				}
			}
		}
		fixT(a.T)
	}
	fixT = func(t *typeM) {
		if t == nil {
			return
		}
		fixA(t.Key)
		fixA(t.Elem)
		for _, f := range t.Fields {
			fixA(f.A)
		}
	}
	for _, u := range out.UTs {
		fixA(u.A)
	}
	fixA(out.Root)
	return &out
}

var prims = []expr.Primitive{expr.Boolean, expr.Int, expr.Int32, expr.Int64, expr.UInt, expr.UInt32, expr.UInt64, expr.Float32, expr.Float64, expr.String, expr.Bytes, expr.Any}

// Names are plain identifiers: goa's hash text uses "-", "/", "+", "!", ":"
// and "_x_" markers as delimiters and is not meant to be injective for names
// that contain them (stated as an assumption of the check).
var fieldNames = []string{"a", "b", "c", "d", "e", "id", "name", "next", "x", "y", "z", "items", "left", "right"}

var tagKeys = []string{"struct:field:name", "struct:field:type", "struct:field:external", "struct:field:proto"}
var otherMetaKeys = []string{"struct:tag:json", "struct:tag:xml", "struct:tag:form", "struct:pkg:path", "openapi:typename", "rpc:tag", "openapi:example"}
var metaVals = []string{"A", "B", "Foo", "bar", "x_y", "1"}

// ---------------------------------------------------------------- generator

type genCfg struct {
	maxUT   int    // planned user types: 0..maxUT
	budget  int    // approximate number of type nodes
	depth   int    // constructor nesting of the root
	prefix  string // user type name prefix (keeps names unique across graphs that are grafted together)
	plain   bool   // no metadata/validation decorations (used for replacement types)
	tagBias int    // percent chance that a field carries struct:field tags
}

type genCtx struct {
	t      *rapid.T
	cfg    genCfg
	g      *graphM
	budget int
	wrapN  int
}

func genGraph(t *rapid.T, cfg genCfg) *graphM {
	c := &genCtx{t: t, cfg: cfg, g: &graphM{}, budget: cfg.budget}
	n := 0
	if cfg.maxUT > 0 {
		n = rapid.IntRange(0, cfg.maxUT).Draw(t, "nUT")
		if n == 0 && rapid.IntRange(0, 99).Draw(t, "forceUT") < 70 {
			n = 1
		}
	}
	for i := 0; i < n; i++ {
		c.g.UTs = append(c.g.UTs, c.newUTShell(fmt.Sprintf("%sT%d", cfg.prefix, i)))
	}
	// Code generators may create several user types with one name; only the
	// UID is then unique (doc comment of expr.UserTypeExpr).
	for i := 1; i < n; i++ {
		if rapid.IntRange(0, 99).Draw(t, "sameName") < 8 {
			j := rapid.IntRange(0, i-1).Draw(t, "sameNameAs")
			a, b := c.g.UTs[i], c.g.UTs[j]
			if !a.RT && !b.RT {
				if a.UID == "" {
					a.UID = "uid:" + a.Name
				}
				if b.UID == "" {
					b.UID = "uid:" + b.Name
				}
				a.Name = b.Name
			}
		}
	}
	// root first (so that it gets its share of the budget), then bodies in index order
	if n > 0 && rapid.IntRange(0, 99).Draw(t, "rootIsRef") < 45 {
		c.g.Root = c.decorate(&attrM{T: &typeM{K: "ref", Ref: rapid.IntRange(0, n-1).Draw(t, "rootRef")}}, false)
	} else {
		c.g.Root = c.genAttr(-1, cfg.depth, false, false)
	}
	for i := 0; i < len(c.g.UTs); i++ { // len grows while union wrappers are allocated
		if c.g.UTs[i].A != nil {
			continue
		}
		d := c.cfg.depth - 1
		if d < 2 {
			d = 2
		}
		c.fillUT(i, d)
	}
	return c.g
}

func (c *genCtx) newUTShell(name string) *utM {
	u := &utM{Name: name}
	switch rapid.IntRange(0, 9).Draw(c.t, "utKind") {
	case 0, 1, 2:
		u.RT = true
		u.Ident = "application/vnd.c13." + strings.ToLower(name)
		u.UID = u.Ident // what NewResultTypeExpr does
		if rapid.IntRange(0, 9).Draw(c.t, "ct") == 0 {
			u.CT = "application/json"
		}
	case 3, 4:
		u.UID = "uid:" + name // code generators give user types explicit UIDs
	}
	return u
}

func (c *genCtx) fillUT(i int, depth int) {
	u := c.g.UTs[i]
	// user types are objects most of the time (the DSL's Type(name, func(){...}))
	var a *attrM
	if rapid.IntRange(0, 99).Draw(c.t, "utBodyObject") < 75 {
		a = &attrM{T: c.genObject(i, depth)}
		a = c.decorate(a, false)
	} else {
		a = c.genAttr(i, depth, false, false)
	}
	if !c.cfg.plain && rapid.IntRange(0, 99).Draw(c.t, "utTags") < 15 {
		// struct:field:* keys on the user type's own attribute
		a.Meta = append(a.Meta, c.genTags(rapid.IntRange(1, 3).Draw(c.t, "nUtTags"))...)
		a.Meta = dedupMeta(a.Meta)
	}
	if !c.cfg.plain && !u.RT && rapid.IntRange(0, 99).Draw(c.t, "goName") < 5 {
		a.Meta = dedupMeta(append(a.Meta, metaKV{"struct:type:name", []string{fmt.Sprintf("Go%s%d", u.Name, i)}}))
	}
	u.A = a
	if u.RT && a.T.K == "object" && len(a.T.Fields) > 0 && rapid.Bool().Draw(c.t, "views") {
		all := make([]string, len(a.T.Fields))
		for k, f := range a.T.Fields {
			all[k] = f.Name
		}
		u.Views = append(u.Views, viewM{Name: "default", Fields: all})
		if rapid.Bool().Draw(c.t, "tinyView") {
			u.Views = append(u.Views, viewM{Name: "tiny", Fields: all[:1]})
		}
	}
}

// genAttr generates an attribute. cur is the index of the user type whose
// body is being generated (-1: the root); underObj tells whether an Object
// node lies between the body's top and this position.
func (c *genCtx) genAttr(cur, depth int, underObj, isField bool) *attrM {
	a := &attrM{T: c.genType(cur, depth, underObj)}
	return c.decorate(a, isField)
}

func (c *genCtx) genTags(n int) []metaKV {
	keys := rapid.Permutation(tagKeys).Draw(c.t, "tagKeys")[:n]
	var out []metaKV
	for _, k := range keys {
		out = append(out, metaKV{k, c.genMetaVals()})
	}
	return out
}

func (c *genCtx) genMetaVals() []string {
	switch rapid.IntRange(0, 9).Draw(c.t, "nMetaVals") {
	case 0:
		return nil
	case 1, 2:
		return []string{rapid.SampledFrom(metaVals).Draw(c.t, "mv"), rapid.SampledFrom(metaVals).Draw(c.t, "mv")}
	default:
		return []string{rapid.SampledFrom(metaVals).Draw(c.t, "mv")}
	}
}

func dedupMeta(m []metaKV) []metaKV {
	seen := map[string]bool{}
	var out []metaKV
	for _, kv := range m {
		if !seen[kv.K] {
			seen[kv.K] = true
			out = append(out, kv)
		}
	}
	return out
}

func fp(f float64) *float64 { return &f }
func ip(i int) *int         { return &i }

func (c *genCtx) decorate(a *attrM, isField bool) *attrM {
	if c.cfg.plain {
		return a
	}
	t := c.t
	if rapid.IntRange(0, 99).Draw(t, "hasDesc") < 20 {
		a.Desc = rapid.SampledFrom([]string{"d1", "some description", "x"}).Draw(t, "desc")
	}
	tagChance := c.cfg.tagBias
	if !isField {
		tagChance /= 3
	}
	if rapid.IntRange(0, 99).Draw(t, "hasTags") < tagChance {
		a.Meta = append(a.Meta, c.genTags(rapid.IntRange(1, 3).Draw(t, "nTags"))...)
	}
	if rapid.IntRange(0, 99).Draw(t, "hasMeta") < 25 {
		n := rapid.IntRange(1, 3).Draw(t, "nMeta")
		keys := rapid.Permutation(otherMetaKeys).Draw(t, "metaKeys")[:n]
		for _, k := range keys {
			a.Meta = append(a.Meta, metaKV{k, c.genMetaVals()})
		}
	}
	a.Meta = dedupMeta(a.Meta)
	if len(a.Meta) == 0 && rapid.IntRange(0, 9).Draw(t, "emptyMeta") == 0 {
		a.EmptyMeta = true
	}
	if rapid.IntRange(0, 99).Draw(t, "hasVal") < 25 {
		v := &valM{}
		switch rapid.IntRange(0, 6).Draw(t, "valKind") {
		case 0:
			v.Enum = []any{"e1", "e2", 3}
		case 1:
			v.Format = "date-time"
		case 2:
			v.Pattern = "^[a-z]+$"
		case 3:
			v.Min, v.Max = fp(1), fp(float64(rapid.IntRange(2, 9).Draw(t, "max")))
		case 4:
			v.ExMin, v.ExMax = fp(0.5), fp(100)
		case 5:
			v.MinLen, v.MaxLen = ip(1), ip(rapid.IntRange(1, 9).Draw(t, "maxLen"))
		}
		if a.T.K == "object" && len(a.T.Fields) > 0 {
			k := rapid.IntRange(0, len(a.T.Fields)).Draw(t, "nRequired")
			for _, f := range a.T.Fields[:k] {
				v.Required = append(v.Required, f.Name)
			}
		}
		a.Val = v
	}
	switch rapid.IntRange(0, 19).Draw(t, "extras") {
	case 0:
		a.Def = "dflt"
	case 1:
		a.Def = 7
	case 2:
		a.Ex = rapid.IntRange(1, 2).Draw(t, "nEx")
	case 3:
		a.Docs = true
	case 4:
		if len(c.g.UTs) > 0 {
			a.Refs = []int{rapid.IntRange(0, len(c.g.UTs)-1).Draw(t, "refIdx")}
		}
	case 5:
		if len(c.g.UTs) > 0 {
			a.Bases = []int{rapid.IntRange(0, len(c.g.UTs)-1).Draw(t, "baseIdx")}
		}
	}
	return a
}

func (c *genCtx) genPrim() *typeM {
	return &typeM{K: "prim", P: rapid.IntRange(0, len(prims)-1).Draw(c.t, "prim")}
}

// refCandidates lists the user types a reference at this position may
// target. Forward references (to a higher index) are always allowed;
// references to the same or a lower index close a cycle and are allowed only
// beneath an Object of the current body: that is the shape the DSL can
// produce (recursion goes through a lazily evaluated attribute of an object),
// and it is what makes every cycle pass through an object.
func (c *genCtx) refCandidates(cur int, underObj bool) []int {
	var out []int
	for j := range c.g.UTs {
		if j > cur || underObj {
			out = append(out, j)
		}
	}
	return out
}

// pickRef draws a reference target; half of the time it prefers a target that
// closes a cycle (same or lower index) when the position allows one.
func (c *genCtx) pickRef(cur int, cands []int) int {
	var back []int
	for _, j := range cands {
		if j <= cur {
			back = append(back, j)
		}
	}
	if len(back) > 0 && rapid.Bool().Draw(c.t, "preferBackRef") {
		return rapid.SampledFrom(back).Draw(c.t, "backRef")
	}
	return rapid.SampledFrom(cands).Draw(c.t, "ref")
}

func (c *genCtx) genType(cur, depth int, underObj bool) *typeM {
	t := c.t
	c.budget--
	cands := c.refCandidates(cur, underObj)
	if depth <= 0 || c.budget <= 0 {
		if len(cands) > 0 && rapid.IntRange(0, 99).Draw(t, "leafRef") < 50 {
			return &typeM{K: "ref", Ref: c.pickRef(cur, cands)}
		}
		return c.genPrim()
	}
	// near the top of a body composites dominate so that graphs get deep
	primW := 30
	if depth >= c.cfg.depth-1 {
		primW = 10
	}
	w := rapid.IntRange(0, primW+75).Draw(t, "kind") - primW
	switch {
	case w < 0:
		return c.genPrim()
	case w < 10:
		return &typeM{K: "array", Elem: c.genAttr(cur, depth-1, underObj, false)}
	case w < 18:
		key := &attrM{T: c.genPrim()}
		if rapid.IntRange(0, 9).Draw(t, "complexKey") == 0 {
			key = c.genAttr(cur, depth-1, underObj, false)
		}
		return &typeM{K: "map", Key: c.decorate(key, false), Elem: c.genAttr(cur, depth-1, underObj, false)}
	case w < 38:
		return c.genObject(cur, depth)
	case w < 52:
		return c.genUnion(cur, depth, underObj)
	case w < 75:
		if len(cands) > 0 {
			return &typeM{K: "ref", Ref: c.pickRef(cur, cands)}
		}
		return c.genObject(cur, depth)
	default:
		return &typeM{K: "empty"}
	}
}

func (c *genCtx) genNames(lo, hi int) []string {
	n := rapid.IntRange(lo, hi+2).Draw(c.t, "nFields")
	if n > hi {
		n -= 2 // 2..hi attributes twice as likely as 0 or 1
	}
	if n < lo {
		n = lo
	}
	return rapid.Permutation(fieldNames).Draw(c.t, "fieldNames")[:n]
}

func (c *genCtx) genObject(cur, depth int) *typeM {
	hi := 4
	if depth <= 2 {
		hi = 3
	}
	o := &typeM{K: "object"}
	for _, n := range c.genNames(0, hi) {
		o.Fields = append(o.Fields, fieldM{n, c.genAttr(cur, depth-1, true, true)})
	}
	return o
}

func (c *genCtx) genUnion(cur, depth int, underObj bool) *typeM {
	u := &typeM{K: "union", UName: rapid.SampledFrom([]string{"u", "v", "kind", "choice"}).Draw(c.t, "uname")}
	for _, n := range c.genNames(1, 4) {
		var a *attrM
		if rapid.IntRange(0, 99).Draw(c.t, "dslAlt") < 60 {
			// the DSL wraps every alternative that is not a user type into a
			// user type named <Union><Alternative>
			c.wrapN++
			idx := len(c.g.UTs)
			w := &utM{Name: fmt.Sprintf("%sW%d%s%s", c.cfg.prefix, c.wrapN, expr.Title(u.UName), expr.Title(n))}
			c.g.UTs = append(c.g.UTs, w)
			w.A = c.genAttr(idx, depth-1, false, false)
			a = c.decorate(&attrM{T: &typeM{K: "ref", Ref: idx}}, false)
		} else {
			a = c.genAttr(cur, depth-1, underObj, false)
		}
		u.Fields = append(u.Fields, fieldM{n, a})
	}
	return u
}

// ---------------------------------------------------------------- model facts

type facts struct {
	cyclic, union, rt, views, multiTag, twoAttrs, hasMap, hasArray, empty bool
	depth, nodes, uts                                                     int
}

func (g *graphM) facts() facts {
	var f facts
	f.uts = len(g.UTs)
	// cycle detection over user type references
	state := make([]int, len(g.UTs))
	var visitA func(a *attrM, d int)
	var visitUT func(i, d int)
	visitT := func(t *typeM, d int) {}
	visitT = func(t *typeM, d int) {
		if t == nil {
			return
		}
		f.nodes++
		if d > f.depth {
			f.depth = d
		}
		switch t.K {
		case "array":
			f.hasArray = true
			visitA(t.Elem, d+1)
		case "map":
			f.hasMap = true
			visitA(t.Key, d+1)
			visitA(t.Elem, d+1)
		case "object", "union":
			if t.K == "union" {
				f.union = true
			} else if len(t.Fields) >= 2 {
				f.twoAttrs = true
			}
			for _, fl := range t.Fields {
				visitA(fl.A, d+1)
			}
		case "ref":
			if state[t.Ref] == 1 {
				f.cyclic = true
			}
			visitUT(t.Ref, d)
		case "empty":
			f.empty = true
		}
	}
	visitA = func(a *attrM, d int) {
		if a == nil {
			return
		}
		n := 0
		for _, kv := range a.Meta {
			if strings.HasPrefix(kv.K, "struct:field:") || strings.HasPrefix(kv.K, "struct:tag:") {
				n++
			}
		}
		if n >= 2 {
			f.multiTag = true
		}
		visitT(a.T, d)
	}
	visitUT = func(i, d int) {
		if state[i] != 0 {
			return
		}
		state[i] = 1
		u := g.UTs[i]
		if u.RT {
			f.rt = true
		}
		if len(u.Views) > 0 {
			f.views = true
		}
		visitA(u.A, d+1)
		state[i] = 2
	}
	visitA(g.Root, 0)
	return f
}

// nontrivial implements the rule DESIGN.md states for C13: a graph with a
// cycle, or an object with >= 2 attributes, or a union, or an attribute with
// >= 2 tag metas.
func (f facts) nontrivial() bool { return f.cyclic || f.twoAttrs || f.union || f.multiTag }

// ---------------------------------------------------------------- builder

type builtG struct {
	uts  []expr.UserType
	root *expr.AttributeExpr
}

func build(g *graphM) *builtG {
	b := &builtG{}
	for _, u := range g.UTs {
		ute := &expr.UserTypeExpr{AttributeExpr: &expr.AttributeExpr{Type: &expr.Object{}}, TypeName: u.Name, UID: u.UID}
		if u.RT {
			b.uts = append(b.uts, &expr.ResultTypeExpr{UserTypeExpr: ute, Identifier: u.Ident, ContentType: u.CT})
		} else {
			b.uts = append(b.uts, ute)
		}
	}
	for i, u := range g.UTs {
		b.uts[i].SetAttribute(b.attr(u.A))
		if rt, ok := b.uts[i].(*expr.ResultTypeExpr); ok {
			for _, v := range u.Views {
				vo := &expr.Object{}
				for _, n := range v.Fields {
					if pa := expr.AsObject(rt.Type).Attribute(n); pa != nil {
						vo.Set(n, &expr.AttributeExpr{Type: pa.Type, Description: pa.Description})
					}
				}
				rt.Views = append(rt.Views, &expr.ViewExpr{AttributeExpr: &expr.AttributeExpr{Type: vo}, Name: v.Name, Parent: rt})
			}
		}
	}
	b.root = b.attr(g.Root)
	return b
}

func (b *builtG) attr(a *attrM) *expr.AttributeExpr {
	if a == nil {
		return nil
	}
	out := &expr.AttributeExpr{Type: b.typ(a.T), Description: a.Desc, DefaultValue: a.Def}
	if len(a.Meta) == 0 && a.EmptyMeta {
		out.Meta = expr.MetaExpr{}
	}
	if len(a.Meta) > 0 {
		out.Meta = expr.MetaExpr{}
		for _, kv := range a.Meta {
			var v []string
			if kv.V != nil {
				v = append([]string{}, kv.V...)
			}
			out.Meta[kv.K] = v
		}
	}
	if a.Val != nil {
		v := a.Val
		out.Validation = &expr.ValidationExpr{
			Values: append([]any(nil), v.Enum...), Format: expr.ValidationFormat(v.Format), Pattern: v.Pattern,
			Minimum: cpF(v.Min), Maximum: cpF(v.Max), ExclusiveMinimum: cpF(v.ExMin), ExclusiveMaximum: cpF(v.ExMax),
			MinLength: cpI(v.MinLen), MaxLength: cpI(v.MaxLen), Required: append([]string(nil), v.Required...),
		}
	}
	for i := 0; i < a.Ex; i++ {
		out.UserExamples = append(out.UserExamples, &expr.ExampleExpr{Summary: fmt.Sprintf("ex%d", i), Value: fmt.Sprintf("v%d", i)})
	}
	if a.Docs {
		out.Docs = &expr.DocsExpr{Description: "docs", URL: "http://example.com/docs"}
	}
	for _, r := range a.Refs {
		out.References = append(out.References, b.uts[r])
	}
	for _, r := range a.Bases {
		out.Bases = append(out.Bases, b.uts[r])
	}
	return out
}

func cpF(p *float64) *float64 {
	if p == nil {
		return nil
	}
	v := *p
	return &v
}

func cpI(p *int) *int {
	if p == nil {
		return nil
	}
	v := *p
	return &v
}

func (b *builtG) typ(t *typeM) expr.DataType {
	switch t.K {
	case "prim":
		return prims[t.P]
	case "array":
		return &expr.Array{ElemType: b.attr(t.Elem)}
	case "map":
		return &expr.Map{KeyType: b.attr(t.Key), ElemType: b.attr(t.Elem)}
	case "object":
		o := &expr.Object{}
		for _, f := range t.Fields {
			o.Set(f.Name, b.attr(f.A))
		}
		return o
	case "union":
		u := &expr.Union{TypeName: t.UName}
		for _, f := range t.Fields {
			u.Values = append(u.Values, &expr.NamedAttributeExpr{Name: f.Name, Attribute: b.attr(f.A)})
		}
		return u
	case "ref":
		return b.uts[t.Ref]
	case "empty":
		return expr.Empty
	}
	panic("unknown model kind " + t.K)
}

// ---------------------------------------------------------------- model edits

// index of the parts of a model that edits address
type modelIndex struct {
	attrs   []*attrM // every attribute
	fields  []*attrM // attributes that are object fields
	objects []*typeM
	unions  []*typeM
	prims   []*typeM
	refs    []*typeM
	all     []*typeM
}

func (g *graphM) index() *modelIndex {
	ix := &modelIndex{}
	var wa func(a *attrM, field bool)
	wt := func(t *typeM) {}
	wt = func(t *typeM) {
		if t == nil {
			return
		}
		ix.all = append(ix.all, t)
		switch t.K {
		case "prim":
			ix.prims = append(ix.prims, t)
		case "ref":
			ix.refs = append(ix.refs, t)
		case "array":
			wa(t.Elem, false)
		case "map":
			wa(t.Key, false)
			wa(t.Elem, false)
		case "object":
			ix.objects = append(ix.objects, t)
			for _, f := range t.Fields {
				wa(f.A, true)
			}
		case "union":
			ix.unions = append(ix.unions, t)
			for _, f := range t.Fields {
				wa(f.A, false)
			}
		}
	}
	wa = func(a *attrM, field bool) {
		if a == nil {
			return
		}
		ix.attrs = append(ix.attrs, a)
		if field {
			ix.fields = append(ix.fields, a)
		}
		wt(a.T)
	}
	wa(g.Root, false)
	for _, u := range g.UTs {
		wa(u.A, false)
	}
	return ix
}

func hasField(t *typeM, n string) bool {
	for _, f := range t.Fields {
		if f.Name == n {
			return true
		}
	}
	return false
}

// resolveComposite follows arrays and references from t to an object or
// union node (the node whose attribute list a hoist/sink edit changes).
func (g *graphM) resolveComposite(t *typeM, kind string) *typeM {
	for i := 0; i < 6 && t != nil; i++ {
		switch t.K {
		case kind:
			return t
		case "array":
			t = t.Elem.T
		case "ref":
			t = g.UTs[t.Ref].A.T
		default:
			return nil
		}
	}
	return nil
}

// shuffle permutes the declaration order of every object and union.
func shuffle(t *rapid.T, g *graphM) {
	for _, n := range append(g.index().objects, g.index().unions...) {
		if len(n.Fields) > 1 {
			n.Fields = rapid.Permutation(n.Fields).Draw(t, "perm")
		}
	}
}

// editNames lists the structural edits; the reference equality decides, per
// flag combination, whether the edited graph is still equal to the original.
var editNames = []string{
	"shuffle", "cosmetic", "rename-uts", "rename-one-ut", "rename-field", "change-prim", "add-field", "drop-field",
	"tag-set", "tag-drop", "othermeta-set", "toggle-rt", "union-name", "hoist", "sink", "retarget", "wrap-array",
	"swap-map", "elem-tag", "inline-ref",
}

// applyEdit changes g in place and reports whether it changed anything.
func applyEdit(t *rapid.T, g *graphM, name string) bool {
	ix := g.index()
	pick := func(n int, label string) int { return rapid.IntRange(0, n-1).Draw(t, label) }
	switch name {
	case "shuffle":
		shuffle(t, g)
		return true
	case "cosmetic":
		if len(ix.attrs) == 0 {
			return false
		}
		a := ix.attrs[pick(len(ix.attrs), "attr")]
		a.Desc += "!"
		a.Val = &valM{Pattern: "changed", Min: fp(3)}
		a.Def = "other"
		a.Ex++
		return true
	case "rename-uts":
		for _, u := range g.UTs {
			u.Name = "R" + u.Name
			if u.UID != "" && !u.RT {
				u.UID = "r" + u.UID
			}
			for i, kv := range u.A.Meta {
				if kv.K == "struct:type:name" {
					u.A.Meta[i].V = []string{"R" + kv.V[0]}
				}
			}
		}
		return len(g.UTs) > 0
	case "rename-one-ut":
		if len(g.UTs) == 0 {
			return false
		}
		u := g.UTs[pick(len(g.UTs), "ut")]
		u.Name = "Q" + u.Name
		return true
	case "rename-field":
		cs := append(append([]*typeM{}, ix.objects...), ix.unions...)
		var ok []*typeM
		for _, c := range cs {
			if len(c.Fields) > 0 {
				ok = append(ok, c)
			}
		}
		if len(ok) == 0 {
			return false
		}
		c := ok[pick(len(ok), "node")]
		i := pick(len(c.Fields), "field")
		nn := rapid.SampledFrom(fieldNames).Draw(t, "newName")
		if hasField(c, nn) {
			nn = c.Fields[i].Name + "2"
		}
		c.Fields[i].Name = nn
		return true
	case "change-prim":
		if len(ix.prims) == 0 {
			return false
		}
		p := ix.prims[pick(len(ix.prims), "primNode")]
		p.P = (p.P + 1 + pick(len(prims)-1, "shift")) % len(prims)
		return true
	case "add-field":
		cs := append(append([]*typeM{}, ix.objects...), ix.unions...)
		if len(cs) == 0 {
			return false
		}
		c := cs[pick(len(cs), "node")]
		nn := rapid.SampledFrom(fieldNames).Draw(t, "newName")
		if hasField(c, nn) {
			return false
		}
		pos := pick(len(c.Fields)+1, "pos")
		nf := fieldM{nn, &attrM{T: &typeM{K: "prim", P: pick(len(prims), "prim")}}}
		c.Fields = append(c.Fields[:pos:pos], append([]fieldM{nf}, c.Fields[pos:]...)...)
		return true
	case "drop-field":
		var ok []*typeM
		for _, c := range ix.objects {
			if len(c.Fields) > 0 {
				ok = append(ok, c)
			}
		}
		for _, c := range ix.unions {
			if len(c.Fields) > 1 {
				ok = append(ok, c)
			}
		}
		if len(ok) == 0 {
			return false
		}
		c := ok[pick(len(ok), "node")]
		i := pick(len(c.Fields), "field")
		c.Fields = append(c.Fields[:i:i], c.Fields[i+1:]...)
		return true
	case "tag-set":
		if len(ix.fields) == 0 {
			return false
		}
		a := ix.fields[pick(len(ix.fields), "attr")]
		k := rapid.SampledFrom(tagKeys).Draw(t, "tagKey")
		v := []string{rapid.SampledFrom(metaVals).Draw(t, "tagVal")}
		for i, kv := range a.Meta {
			if kv.K == k {
				if len(kv.V) == 1 && kv.V[0] == v[0] {
					v = []string{v[0], "more"}
				}
				a.Meta[i].V = v
				return true
			}
		}
		a.Meta = append(a.Meta, metaKV{k, v})
		return true
	case "tag-drop":
		var ok []*attrM
		for _, a := range ix.attrs {
			for _, kv := range a.Meta {
				if strings.HasPrefix(kv.K, "struct:field:") {
					ok = append(ok, a)
					break
				}
			}
		}
		if len(ok) == 0 {
			return false
		}
		a := ok[pick(len(ok), "attr")]
		for i, kv := range a.Meta {
			if strings.HasPrefix(kv.K, "struct:field:") {
				a.Meta = append(a.Meta[:i:i], a.Meta[i+1:]...)
				return true
			}
		}
		return false
	case "othermeta-set":
		if len(ix.attrs) == 0 {
			return false
		}
		a := ix.attrs[pick(len(ix.attrs), "attr")]
		k := rapid.SampledFrom(otherMetaKeys).Draw(t, "metaKey")
		a.Meta = dedupMeta(append([]metaKV{{k, []string{"changed"}}}, a.Meta...))
		return true
	case "toggle-rt":
		if len(g.UTs) == 0 {
			return false
		}
		k := pick(len(g.UTs), "ut")
		u := g.UTs[k]
		if u.RT {
			u.RT, u.Ident, u.CT, u.Views = false, "", "", nil
			u.UID = fmt.Sprintf("uid:was-rt-%d", k)
		} else {
			u.RT = true
			u.Ident = fmt.Sprintf("application/vnd.c13.toggled%d", k)
			u.UID = u.Ident
		}
		return true
	case "union-name":
		if len(ix.unions) == 0 {
			return false
		}
		u := ix.unions[pick(len(ix.unions), "union")]
		u.UName += "x"
		return true
	case "hoist", "sink":
		// move an attribute between a composite and a composite nested in
		// one of its attributes (objects in objects, unions in unions)
		type cand struct {
			parent, child *typeM
			via           int
		}
		var cs []cand
		for _, kind := range []string{"object", "union"} {
			list := ix.objects
			if kind == "union" {
				list = ix.unions
			}
			for _, p := range list {
				for i, f := range p.Fields {
					if ch := g.resolveComposite(f.A.T, kind); ch != nil && ch != p {
						cs = append(cs, cand{p, ch, i})
					}
				}
			}
		}
		if len(cs) == 0 {
			return false
		}
		c := cs[pick(len(cs), "pair")]
		if name == "hoist" {
			if len(c.child.Fields) == 0 {
				return false
			}
			i := pick(len(c.child.Fields), "field")
			f := c.child.Fields[i]
			if hasField(c.parent, f.Name) || containsInline(f.A.T, c.parent) {
				return false // (the child can be an ancestor of the parent through a recursive reference)
			}
			c.child.Fields = append(c.child.Fields[:i:i], c.child.Fields[i+1:]...)
			c.parent.Fields = append(c.parent.Fields, f)
			return true
		}
		if len(c.parent.Fields) < 2 {
			return false
		}
		i := pick(len(c.parent.Fields), "field")
		if i == c.via {
			return false
		}
		f := c.parent.Fields[i]
		if hasField(c.child, f.Name) {
			return false
		}
		c.parent.Fields = append(c.parent.Fields[:i:i], c.parent.Fields[i+1:]...)
		c.child.Fields = append(c.child.Fields, f)
		return true
	case "retarget":
		// point a reference at another user type: an existing one, or a new
		// one whose body keeps only some of the old target's attributes
		if len(ix.refs) == 0 {
			return false
		}
		r := ix.refs[pick(len(ix.refs), "refNode")]
		old := g.UTs[r.Ref]
		if rapid.Bool().Draw(t, "toExisting") && len(g.UTs) > 1 {
			// only to a user type whose body is an object, so that a cycle
			// closed by this edit still passes through an object
			nr := pick(len(g.UTs), "newTarget")
			if nr == r.Ref || g.UTs[nr].A.T.K != "object" {
				return false
			}
			r.Ref = nr
			return true
		}
		nu := &utM{Name: "X" + old.Name, A: &attrM{T: &typeM{K: "object"}}}
		if old.A.T.K == "object" {
			keep := rapid.IntRange(0, len(old.A.T.Fields)).Draw(t, "keep")
			srt := append([]fieldM{}, old.A.T.Fields...)
			sortFields(srt)
			nu.A.T.Fields = append(nu.A.T.Fields, srt[:keep]...)
		}
		g.UTs = append(g.UTs, nu)
		r.Ref = len(g.UTs) - 1
		return true
	case "wrap-array":
		if len(ix.fields) == 0 {
			return false
		}
		a := ix.fields[pick(len(ix.fields), "attr")]
		a.T = &typeM{K: "array", Elem: &attrM{T: a.T}}
		return true
	case "swap-map":
		for _, n := range ix.all {
			if n.K == "map" {
				n.Key, n.Elem = n.Elem, n.Key
				return true
			}
		}
		return false
	case "elem-tag":
		// struct:field tags on an array element / map key / map element
		// attribute: not an object attribute, so never part of equality
		for _, n := range ix.all {
			if n.K == "array" {
				n.Elem.Meta = dedupMeta(append([]metaKV{{"struct:field:name", []string{"Changed"}}}, n.Elem.Meta...))
				return true
			}
			if n.K == "map" {
				n.Key.Meta = dedupMeta(append([]metaKV{{"struct:field:type", []string{"Changed"}}}, n.Key.Meta...))
				return true
			}
		}
		return false
	case "inline-ref":
		// replace a reference to a user type by that type's body (the kind
		// changes from user type to object/array/...)
		var ok []*typeM
		for _, r := range ix.refs {
			if k := g.UTs[r.Ref].A.T.K; k == "prim" || k == "empty" {
				ok = append(ok, r)
			}
		}
		if len(ok) == 0 {
			return false
		}
		r := ok[pick(len(ok), "refNode")]
		*r = *g.UTs[r.Ref].A.T
		return true
	}
	panic("unknown edit " + name)
}

// containsInline tells whether target occurs in the tree below t (references
// are not followed).
func containsInline(t, target *typeM) bool {
	if t == nil {
		return false
	}
	if t == target {
		return true
	}
	if t.Key != nil && containsInline(t.Key.T, target) {
		return true
	}
	if t.Elem != nil && containsInline(t.Elem.T, target) {
		return true
	}
	for _, f := range t.Fields {
		if containsInline(f.A.T, target) {
			return true
		}
	}
	return false
}

func sortFields(fs []fieldM) {
	for i := 1; i < len(fs); i++ {
		for j := i; j > 0 && fs[j].Name < fs[j-1].Name; j-- {
			fs[j], fs[j-1] = fs[j-1], fs[j]
		}
	}
}

// objectlessCycle reports whether some user type reaches itself through
// arrays, maps, unions and user type references only, never entering an
// object. goa's DSL cannot build such a graph (recursion needs the lazily
// evaluated attribute list of an object) and neither goa's hasher nor the
// reference serialiser terminates on it, so it is outside the domain.
func objectlessCycle(g *graphM) bool {
	var reach func(t *typeM, from int, seen map[int]bool) bool
	reach = func(t *typeM, from int, seen map[int]bool) bool {
		if t == nil {
			return false
		}
		switch t.K {
		case "array":
			return t.Elem != nil && reach(t.Elem.T, from, seen)
		case "map":
			return (t.Key != nil && reach(t.Key.T, from, seen)) || (t.Elem != nil && reach(t.Elem.T, from, seen))
		case "union":
			for _, f := range t.Fields {
				if f.A != nil && reach(f.A.T, from, seen) {
					return true
				}
			}
		case "ref":
			if t.Ref == from {
				return true
			}
			if seen[t.Ref] || t.Ref < 0 || t.Ref >= len(g.UTs) {
				return false
			}
			seen[t.Ref] = true
			if a := g.UTs[t.Ref].A; a != nil {
				return reach(a.T, from, seen)
			}
		}
		return false
	}
	for i, ut := range g.UTs {
		if ut.A != nil && reach(ut.A.T, i, map[int]bool{}) {
			return true
		}
	}
	return false
}
