package c13

import (
	"fmt"
	"os"
	"runtime"
	"sort"
	"strconv"
	"strings"
	"testing"

	"goa.design/goa/v3/expr"
	"pgregory.net/rapid"

	"verif/internal/kf"
	"verif/internal/stats"
)

func TestMain(m *testing.M) { stats.Main(m) }

// Known findings of this property (known_findings.d/c13.json). Each constant
// is used in exactly one narrow exclusion of the main search and one probe.
const (
	kfUnionOrder  = "C13-union-hash-order"
	kfMetaOrder   = "C13-hash-meta-order"
	kfNestedObj   = "C13-nested-object-hash-collision"
	kfNestedUnion = "C13-nested-union-hash-collision"
	kfRecursive   = "C13-recursive-hash-collision"
)

// ---------------------------------------------------------------- generator profiles

func sizeCfg(t *rapid.T) genCfg {
	switch w := rapid.IntRange(0, 99).Draw(t, "size"); {
	case w < 30:
		return genCfg{maxUT: 2, budget: 8, depth: 3, tagBias: 35}
	case w < 75:
		return genCfg{maxUT: 3, budget: 25, depth: 4, tagBias: 30}
	default:
		return genCfg{maxUT: 4, budget: 60, depth: 5, tagBias: 25}
	}
}

func tinyCfg() genCfg { return genCfg{maxUT: 1, budget: 4, depth: 2, tagBias: 20} }

func record(g *graphM, what string) facts {
	fc := g.facts()
	stats.CaseSample(what+"|"+g.key(), fc.nontrivial(), map[string]any{"test": what, "graph": g})
	cls := func(b bool, l string) {
		if b {
			stats.Class(l)
		}
	}
	cls(fc.cyclic, "graph:cyclic")
	cls(fc.union, "graph:union")
	cls(fc.rt, "graph:result-type")
	cls(fc.views, "graph:views")
	cls(fc.multiTag, "graph:attr-with>=2-tag-metas")
	cls(fc.twoAttrs, "graph:object>=2-attrs")
	cls(fc.hasMap, "graph:map")
	cls(fc.hasArray, "graph:array")
	cls(fc.depth >= 4, "graph:depth>=4")
	cls(fc.uts >= 2, "graph:>=2-user-types")
	cls(!fc.nontrivial(), "graph:trivial")
	return fc
}

// ---------------------------------------------------------------- hash <=> equality oracle

// collisionClass tells whether an unequal pair lies in the input class of an
// open collision finding: it renders both types with exactly the delimiters
// that the open findings say are missing left out; if the two texts then
// coincide, the pair is one the open findings already describe. The result
// names the finding the exclusion is booked on ("" = not excluded).
func collisionClass(a, b expr.DataType, f flags) string {
	open := map[string]bool{kfNestedObj: kf.Open(kfNestedObj), kfNestedUnion: kf.Open(kfNestedUnion), kfRecursive: kf.Open(kfRecursive)}
	if !open[kfNestedObj] && !open[kfNestedUnion] && !open[kfRecursive] {
		return ""
	}
	o := canonOpts{f: f, closeObj: !open[kfNestedObj], closeUnion: !open[kfNestedUnion], backRef: !open[kfRecursive], declOrderUnions: kf.Open(kfUnionOrder)}
	if canon(a, o) != canon(b, o) {
		return ""
	}
	// book it on the single finding that explains it alone, if there is one
	for _, id := range []string{kfNestedObj, kfRecursive, kfNestedUnion} {
		if !open[id] {
			continue
		}
		single := canonOpts{f: f, closeObj: id != kfNestedObj, closeUnion: id != kfNestedUnion, backRef: id != kfRecursive}
		if canon(a, single) == canon(b, single) {
			return id
		}
	}
	for _, id := range []string{kfNestedObj, kfRecursive, kfNestedUnion} {
		if open[id] {
			return id
		}
	}
	return ""
}

// brief is the deep serialisation of a type, cut to a readable length.
func brief(dt expr.DataType) string {
	s := snapshotType(dt, true)
	if len(s) > 1200 {
		s = s[:1200] + fmt.Sprintf("... (%d bytes)", len(s))
	}
	return s
}

type failer interface {
	Fatalf(format string, args ...any)
}

// checkPair asserts, for all 8 flag combinations, that goa's hashes of a and
// b are equal exactly when the reference equality says the types are equal.
// sameOrder is set when b was derived from a without changing any
// declaration order (a copy): the union-order finding cannot show then.
func checkPair(t failer, a, b expr.DataType, what string, sameOrder bool) {
	for _, f := range allFlags {
		v := refVerdict(a, b, f)
		switch v {
		case 0:
			stats.Class("pair:unspecified")
			continue
		case 1:
			stats.Class("pair:equal")
			if !sameOrder && kf.Open(kfUnionOrder) && (unorderedUnion3(a, f) || unorderedUnion3(b, f)) {
				stats.Excluded(kfUnionOrder)
				continue
			}
			if kf.Open(kfMetaOrder) && (multiTagAttr(a, f) || multiTagAttr(b, f)) {
				stats.Excluded(kfMetaOrder)
				continue
			}
			ha, hb := goaHash(a, f), goaHash(b, f)
			if ha != hb {
				t.Fatalf("%s: structurally equal types hash differently under %v:\n  %s\n  %s\n a: %s\n b: %s", what, f, ha, hb, brief(a), brief(b))
			}
			if f == (flags{false, true, true}) && !expr.Equal(a, b) {
				t.Fatalf("%s: expr.Equal is false for structurally equal types\n a: %s\n b: %s", what, brief(a), brief(b))
			}
		case -1:
			stats.Class("pair:unequal")
			if id := collisionClass(a, b, f); id != "" {
				stats.Excluded(id)
				continue
			}
			ha, hb := goaHash(a, f), goaHash(b, f)
			if ha == hb {
				t.Fatalf("%s: structurally different types hash equal under %v: %s\n a: %s\n b: %s", what, f, ha, brief(a), brief(b))
			}
			if f == (flags{false, true, true}) && expr.Equal(a, b) {
				t.Fatalf("%s: expr.Equal is true for structurally different types\n a: %s\n b: %s", what, brief(a), brief(b))
			}
		}
	}
}

// TestHashMatchesEquality: a generated graph against (1) a rebuild with every
// declaration order permuted and fresh expressions, (2) edited variants,
// (3) an independent small graph; also from other entry points (user types).
func TestHashMatchesEquality(t *testing.T) {
	rapid.Check(t, func(t *rapid.T) {
		g := genGraph(t, sizeCfg(t))
		if objectlessCycle(g) {
			t.Fatalf("check bug: the generator produced a cycle that does not pass through an object")
		}
		record(g, "hash-eq")
		b := build(g)

		// (1) permuted rebuild: must be definitely equal under every flag combination
		g2 := cloneGraph(g)
		shuffle(t, g2)
		b2 := build(g2)
		for _, f := range allFlags {
			if v := refVerdict(b.root.Type, b2.root.Type, f); v != 1 {
				t.Fatalf("check bug: a permuted rebuild is not equal for the reference equality under %v (verdict %d)", f, v)
			}
		}
		checkPair(t, b.root.Type, b2.root.Type, "permuted rebuild", false)
		if n := len(b.uts); n > 0 {
			i := rapid.IntRange(0, n-1).Draw(t, "entry")
			checkPair(t, b.uts[i], b2.uts[i], "permuted rebuild, entry at user type "+g.UTs[i].Name, false)
			if n > 1 {
				j := rapid.IntRange(0, n-1).Draw(t, "entry2")
				checkPair(t, b.uts[i], b2.uts[j], "two user types of one graph", false)
			}
		}

		// (2) edited variants
		nv := rapid.IntRange(1, 3).Draw(t, "nVariants")
		for k := 0; k < nv; k++ {
			gv := cloneGraph(g2)
			ne := rapid.IntRange(1, 2).Draw(t, "nEdits")
			var applied []string
			for e := 0; e < ne; e++ {
				name := rapid.SampledFrom(editNames).Draw(t, "edit")
				before := cloneGraph(gv)
				if applyEdit(t, gv, name) {
					if objectlessCycle(gv) {
						// the edit closed a cycle that does not pass through an object
						// (a reference to U sunk into U's own union body): outside the domain
						gv = before
						stats.Class("edit-undone:objectless-cycle")
						continue
					}
					applied = append(applied, name)
					stats.Class("edit:" + name)
				}
			}
			bv := build(gv)
			checkPair(t, b.root.Type, bv.root.Type, "variant "+strings.Join(applied, "+"), false)
		}

		// (3) independent small graphs
		gi := genGraph(t, tinyCfg())
		bi := build(gi)
		checkPair(t, b.root.Type, bi.root.Type, "independent graph", false)
		gj := genGraph(t, tinyCfg())
		bj := build(gj)
		checkPair(t, bi.root.Type, bj.root.Type, "two small independent graphs", false)
	})
}

// ---------------------------------------------------------------- permutations

func permutations(n int) [][]int {
	if n == 0 {
		return [][]int{{}}
	}
	var out [][]int
	for _, p := range permutations(n - 1) {
		for pos := 0; pos <= len(p); pos++ {
			q := append(append(append([]int{}, p[:pos]...), n-1), p[pos:]...)
			out = append(out, q)
		}
	}
	return out
}

// TestPermutationInvariance: every declaration order of one object or union
// (<= 4 attributes/alternatives) inside a generated graph gives the same
// hash, for all 8 flag combinations.
func TestPermutationInvariance(t *testing.T) {
	rapid.Check(t, func(t *rapid.T) {
		g := genGraph(t, sizeCfg(t))
		ix := g.index()
		var cands []int
		nodes := append(append([]*typeM{}, ix.objects...), ix.unions...)
		for i, n := range nodes {
			if len(n.Fields) >= 2 && len(n.Fields) <= 4 {
				cands = append(cands, i)
			}
		}
		if len(cands) == 0 {
			// make the root an object of 2-4 attributes around the generated type
			names := rapid.Permutation(fieldNames).Draw(t, "wrapNames")[:rapid.IntRange(2, 4).Draw(t, "wrapN")]
			o := &typeM{K: "object"}
			for i, n := range names {
				a := &attrM{T: &typeM{K: "prim", P: i}}
				if i == 0 {
					a = g.Root
				}
				o.Fields = append(o.Fields, fieldM{n, a})
			}
			g.Root = &attrM{T: o}
			ix = g.index()
			nodes = append(append([]*typeM{}, ix.objects...), ix.unions...)
			for i, n := range nodes {
				if n == o {
					cands = []int{i}
				}
			}
		}
		record(g, "perm")
		ni := rapid.SampledFrom(cands).Draw(t, "node")
		base := build(g)
		nf := len(nodes[ni].Fields)
		stats.Class(fmt.Sprintf("perm:%s-of-%d", nodes[ni].K, nf))
		for _, p := range permutations(nf) {
			gp := cloneGraph(g)
			ixp := gp.index()
			np := append(append([]*typeM{}, ixp.objects...), ixp.unions...)[ni]
			orig := append([]fieldM{}, np.Fields...)
			for i, j := range p {
				np.Fields[i] = orig[j]
			}
			bp := build(gp)
			for _, f := range allFlags {
				if v := refVerdict(base.root.Type, bp.root.Type, f); v != 1 {
					t.Fatalf("check bug: permutation %v not equal for the reference equality under %v", p, f)
				}
			}
			checkPair(t, base.root.Type, bp.root.Type, fmt.Sprintf("declaration order %v of %s node", p, nodes[ni].K), false)
		}
	})
}

// TestPermutationsExhaustive enumerates, without rapid, every declaration
// order of n <= 4 attributes / alternatives in five contexts and all 8 flag
// combinations.
func TestPermutationsExhaustive(t *testing.T) {
	mkAttr := func(i int, tags int) *attrM {
		pool := []*typeM{
			{K: "prim", P: 1},
			{K: "prim", P: 9},
			{K: "array", Elem: &attrM{T: &typeM{K: "prim", P: 1}}},
			{K: "object", Fields: []fieldM{{"p", &attrM{T: &typeM{K: "prim", P: 1}}}, {"q", &attrM{T: &typeM{K: "prim", P: 9}}}}},
		}
		a := &attrM{T: pool[i%len(pool)]}
		for k := 0; k < tags; k++ {
			a.Meta = append(a.Meta, metaKV{tagKeys[k], []string{fmt.Sprintf("V%d", i)}})
		}
		return a
	}
	names := []string{"a", "b", "c", "d"}
	contexts := []string{"object", "object-in-user-type", "object-in-array", "union", "union-in-object"}
	cases := 0
	for n := 0; n <= 4; n++ {
		for _, ctx := range contexts {
			if strings.HasPrefix(ctx, "union") && n == 0 {
				continue
			}
			for tags := 0; tags <= 2; tags++ {
				mk := func(p []int) *builtG {
					kind := "object"
					if strings.HasPrefix(ctx, "union") {
						kind = "union"
					}
					node := &typeM{K: kind, UName: "u"}
					for _, j := range p {
						node.Fields = append(node.Fields, fieldM{names[j], mkAttr(j, tags)})
					}
					g := &graphM{}
					switch ctx {
					case "object", "union":
						g.Root = &attrM{T: node}
					case "object-in-user-type":
						g.UTs = []*utM{{Name: "PT", A: &attrM{T: node}}}
						g.Root = &attrM{T: &typeM{K: "ref", Ref: 0}}
					case "object-in-array":
						g.Root = &attrM{T: &typeM{K: "array", Elem: &attrM{T: node}}}
					case "union-in-object":
						g.Root = &attrM{T: &typeM{K: "object", Fields: []fieldM{{"first", &attrM{T: &typeM{K: "prim", P: 0}}}, {"u", &attrM{T: node}}, {"zlast", &attrM{T: &typeM{K: "prim", P: 0}}}}}}
					}
					return build(cloneGraph(g))
				}
				id := make([]int, n)
				for i := range id {
					id[i] = i
				}
				base := mk(id)
				for _, p := range permutations(n) {
					cases++
					stats.Case(fmt.Sprintf("exh|%s|%d|%d|%v", ctx, n, tags, p), n >= 2)
					bp := mk(p)
					for _, f := range allFlags {
						if v := refVerdict(base.root.Type, bp.root.Type, f); v != 1 {
							t.Fatalf("check bug: %s order %v verdict %d under %v", ctx, p, v, f)
						}
					}
					checkPair(t, base.root.Type, bp.root.Type, fmt.Sprintf("%s with %d attributes (%d tags each) declared in order %v", ctx, n, tags, p), false)
				}
			}
		}
	}
	stats.Exhaustive("all n! declaration orders of n<=4 object attributes / union alternatives x {top level, in user type, in array, union, union in object} x {0,1,2 tags per attribute} x 8 hash flag combinations")
	_ = cases
}

// ---------------------------------------------------------------- copies

type siteSet struct {
	attrs  []*expr.AttributeExpr
	fields []*expr.AttributeExpr // attributes of objects
	objs   []*expr.Object
	unions []*expr.Union
	arrs   []*expr.Array
	maps   []*expr.Map
	uts    []expr.UserType
}

// collectSites walks the copy along Type edges only: Views, References,
// Bases, default values and examples stay untouched because goa shares them
// between a copy and its original by design.
func collectSites(root *expr.AttributeExpr) *siteSet {
	s := &siteSet{}
	seen := map[expr.UserType]bool{}
	var wa func(a *expr.AttributeExpr, field bool)
	var wt func(dt expr.DataType)
	wa = func(a *expr.AttributeExpr, field bool) {
		if a == nil {
			return
		}
		s.attrs = append(s.attrs, a)
		if field {
			s.fields = append(s.fields, a)
		}
		wt(a.Type)
	}
	wt = func(dt expr.DataType) {
		switch t := dt.(type) {
		case *expr.Array:
			s.arrs = append(s.arrs, t)
			wa(t.ElemType, false)
		case *expr.Map:
			s.maps = append(s.maps, t)
			wa(t.KeyType, false)
			wa(t.ElemType, false)
		case *expr.Object:
			s.objs = append(s.objs, t)
			for _, nat := range *t {
				wa(nat.Attribute, true)
			}
		case *expr.Union:
			s.unions = append(s.unions, t)
			for _, nat := range t.Values {
				wa(nat.Attribute, false)
			}
		case expr.UserType:
			if t == expr.UserType(expr.Empty) || seen[t] {
				return
			}
			seen[t] = true
			s.uts = append(s.uts, t)
			wa(t.Attribute(), false)
		}
	}
	wa(root, false)
	return s
}

var mutationOps = []string{
	"obj-set-new", "obj-set-existing", "obj-delete", "obj-rename", "obj-swap",
	"attr-type", "attr-type-ut", "attr-desc", "attr-meta-add", "attr-meta-set", "attr-meta-del",
	"val-required-add", "val-required-remove", "val-required-write", "val-fields", "val-merge", "val-nil",
	"attr-default", "attr-examples", "attr-refs-bases",
	"array-elem", "array-elem-type", "map-key", "map-elem",
	"union-name", "union-alt-rename", "union-alt-attr", "union-append", "union-remove",
	"ut-rename", "ut-setattribute", "ut-fields",
}

var freshSerial int

func freshAttr(t *rapid.T) *expr.AttributeExpr {
	freshSerial++
	g := genGraph(t, genCfg{maxUT: 1, budget: 4, depth: 2, prefix: fmt.Sprintf("N%d", freshSerial), tagBias: 30})
	return build(g).root
}

// mutateCopy applies one change to the copy through the ordinary mutators
// (Object.Set/Delete/Rename, AddMeta, AddRequired/RemoveRequired/Merge,
// UserType.Rename/SetAttribute, plain field assignment). It returns the name
// of the operation, "" if the drawn operation did not apply.
func mutateCopy(t *rapid.T, s *siteSet) string {
	op := rapid.SampledFrom(mutationOps).Draw(t, "op")
	pick := func(n int) int { return rapid.IntRange(0, n-1).Draw(t, "site") }
	freshName := func() string { freshSerial++; return fmt.Sprintf("m%d", freshSerial) }
	switch {
	case strings.HasPrefix(op, "obj-"):
		if len(s.objs) == 0 {
			return ""
		}
		o := s.objs[pick(len(s.objs))]
		switch op {
		case "obj-set-new":
			o.Set(freshName(), freshAttr(t))
		case "obj-set-existing":
			if len(*o) == 0 {
				return ""
			}
			o.Set((*o)[pick(len(*o))].Name, freshAttr(t))
		case "obj-delete":
			if len(*o) == 0 {
				return ""
			}
			o.Delete((*o)[pick(len(*o))].Name)
		case "obj-rename":
			if len(*o) == 0 {
				return ""
			}
			o.Rename((*o)[pick(len(*o))].Name, freshName())
		case "obj-swap":
			if len(*o) < 2 {
				return ""
			}
			(*o)[0], (*o)[len(*o)-1] = (*o)[len(*o)-1], (*o)[0]
		}
	case strings.HasPrefix(op, "attr-") || strings.HasPrefix(op, "val-"):
		if len(s.attrs) == 0 {
			return ""
		}
		a := s.attrs[pick(len(s.attrs))]
		switch op {
		case "attr-type":
			a.Type = freshAttr(t).Type
		case "attr-type-ut":
			if len(s.fields) == 0 || len(s.uts) == 0 {
				return ""
			}
			s.fields[pick(len(s.fields))].Type = s.uts[pick(len(s.uts))]
		case "attr-desc":
			a.Description += " (changed)"
		case "attr-meta-add":
			a.AddMeta(rapid.SampledFrom(append(append([]string{}, tagKeys...), otherMetaKeys...)).Draw(t, "metaKey"), "added")
		case "attr-meta-set":
			if a.Meta == nil {
				a.Meta = expr.MetaExpr{}
			}
			a.Meta[rapid.SampledFrom(append(append([]string{}, tagKeys...), otherMetaKeys...)).Draw(t, "metaKey")] = []string{"set"}
		case "attr-meta-del":
			if len(a.Meta) == 0 {
				return ""
			}
			keys := make([]string, 0, len(a.Meta))
			for k := range a.Meta {
				keys = append(keys, k)
			}
			sort.Strings(keys)
			delete(a.Meta, keys[pick(len(keys))])
		case "val-required-add":
			if a.Validation == nil {
				a.Validation = &expr.ValidationExpr{}
			}
			a.Validation.AddRequired(freshName())
		case "val-required-remove":
			if a.Validation == nil || len(a.Validation.Required) == 0 {
				return ""
			}
			a.Validation.RemoveRequired(a.Validation.Required[0])
		case "val-required-write":
			if a.Validation == nil || len(a.Validation.Required) == 0 {
				return ""
			}
			a.Validation.Required[pick(len(a.Validation.Required))] = freshName()
		case "val-fields":
			if a.Validation == nil {
				a.Validation = &expr.ValidationExpr{}
			}
			mn, ml := 42.0, 17
			a.Validation.Minimum, a.Validation.MaxLength = &mn, &ml
			a.Validation.Format, a.Validation.Pattern = expr.FormatIP, "changed"
			a.Validation.Values = []any{"changed"}
		case "val-merge":
			if a.Validation == nil {
				a.Validation = &expr.ValidationExpr{}
			}
			mx := -5.0
			a.Validation.Merge(&expr.ValidationExpr{Maximum: &mx, Pattern: "merged", Required: []string{freshName()}})
		case "val-nil":
			if a.Validation == nil {
				return ""
			}
			a.Validation = nil
		case "attr-default":
			a.DefaultValue = "changed default"
		case "attr-examples":
			a.UserExamples = []*expr.ExampleExpr{{Summary: "changed", Value: 1}}
		case "attr-refs-bases":
			a.References = []expr.DataType{expr.String}
			a.Bases = nil
		}
	case strings.HasPrefix(op, "array-"):
		if len(s.arrs) == 0 {
			return ""
		}
		ar := s.arrs[pick(len(s.arrs))]
		if op == "array-elem" {
			ar.ElemType = freshAttr(t)
		} else {
			ar.ElemType.Type = freshAttr(t).Type
		}
	case strings.HasPrefix(op, "map-"):
		if len(s.maps) == 0 {
			return ""
		}
		m := s.maps[pick(len(s.maps))]
		if op == "map-key" {
			m.KeyType = &expr.AttributeExpr{Type: expr.Int64}
		} else {
			m.ElemType = freshAttr(t)
		}
	case strings.HasPrefix(op, "union-"):
		if len(s.unions) == 0 {
			return ""
		}
		u := s.unions[pick(len(s.unions))]
		switch op {
		case "union-name":
			u.TypeName += "Changed"
		case "union-alt-rename":
			if len(u.Values) == 0 {
				return ""
			}
			u.Values[pick(len(u.Values))].Name = freshName()
		case "union-alt-attr":
			if len(u.Values) == 0 {
				return ""
			}
			u.Values[pick(len(u.Values))].Attribute = freshAttr(t)
		case "union-append":
			u.Values = append(u.Values, &expr.NamedAttributeExpr{Name: freshName(), Attribute: freshAttr(t)})
		case "union-remove":
			if len(u.Values) < 2 {
				return ""
			}
			i := pick(len(u.Values))
			u.Values = append(u.Values[:i], u.Values[i+1:]...)
		}
	case strings.HasPrefix(op, "ut-"):
		if len(s.uts) == 0 {
			return ""
		}
		ut := s.uts[pick(len(s.uts))]
		switch op {
		case "ut-rename":
			freshSerial++
			ut.Rename(fmt.Sprintf("Renamed%d", freshSerial))
		case "ut-setattribute":
			ut.SetAttribute(freshAttr(t))
		case "ut-fields":
			freshSerial++
			switch u := ut.(type) {
			case *expr.UserTypeExpr:
				u.TypeName, u.UID = fmt.Sprintf("Direct%d", freshSerial), fmt.Sprintf("uid:direct%d", freshSerial)
			case *expr.ResultTypeExpr:
				u.Identifier = fmt.Sprintf("application/vnd.changed%d", freshSerial)
				u.TypeName = fmt.Sprintf("Direct%d", freshSerial)
				u.ContentType = "text/plain"
			}
		}
	}
	return op
}

func firstDiff(a, b string) string {
	i := 0
	for i < len(a) && i < len(b) && a[i] == b[i] {
		i++
	}
	lo := i - 80
	if lo < 0 {
		lo = 0
	}
	cut := func(s string) string {
		hi := i + 80
		if hi > len(s) {
			hi = len(s)
		}
		return s[lo:hi]
	}
	return fmt.Sprintf("at byte %d:\n   was: ...%s...\n   now: ...%s...", i, cut(a), cut(b))
}

// TestDupIndependent: Dup / DupAtt give a structurally equal type (own deep
// comparison, own equality, expr.Equal, equal hashes) that shares no mutable
// structure with the original; mutating the copy leaves the original's deep
// serialisation unchanged.
func TestDupIndependent(t *testing.T) {
	rapid.Check(t, func(t *rapid.T) {
		freshSerial = 0 // fresh names are a function of the case, so that a failure replays exactly
		g := genGraph(t, sizeCfg(t))
		record(g, "dup")
		b := build(g)
		orig := b.root
		before := snapshotAttr(orig, false)

		useAtt := rapid.Bool().Draw(t, "useDupAtt")
		var cp *expr.AttributeExpr
		if useAtt {
			stats.Class("dup:DupAtt")
			cp = expr.DupAtt(orig)
			if l, r := snapshotAttr(orig, true), snapshotAttr(cp, true); l != r {
				t.Fatalf("DupAtt result differs from its argument %s", firstDiff(l, r))
			}
		} else {
			stats.Class("dup:Dup")
			cp = &expr.AttributeExpr{Type: expr.Dup(orig.Type)}
			if l, r := snapshotType(orig.Type, true), snapshotType(cp.Type, true); l != r {
				t.Fatalf("Dup result differs from its argument %s", firstDiff(l, r))
			}
		}
		if after := snapshotAttr(orig, false); after != before {
			t.Fatalf("copying changed the original %s", firstDiff(before, after))
		}
		// (a) structural equality: own equality, expr.Equal, hashes
		for _, f := range allFlags {
			if v := refVerdict(orig.Type, cp.Type, f); v != 1 {
				t.Fatalf("the copy is not structurally equal to the original under %v (reference verdict %d)\n original: %s\n copy:     %s", f, v, snapshotType(orig.Type, true), snapshotType(cp.Type, true))
			}
		}
		if !expr.Equal(orig.Type, cp.Type) {
			t.Fatalf("expr.Equal(t, Dup(t)) is false for %s", snapshotType(orig.Type, true))
		}
		checkPair(t, orig.Type, cp.Type, "type and its copy", true)

		// (b) no shared mutable structure
		// (C13_SKIP_POINTER_CHECK is a knob for sensitivity experiments only: it
		// shows that the mutate-and-compare oracle below also works alone)
		if _, isPrim := orig.Type.(expr.Primitive); !isPrim && orig.Type != expr.DataType(expr.Empty) && os.Getenv("C13_SKIP_POINTER_CHECK") == "" {
			ro, rc := orig, cp
			if !useAtt {
				// only the types were copied: compare below two wrapper attributes
				ro, rc = &expr.AttributeExpr{Type: orig.Type}, &expr.AttributeExpr{Type: cp.Type}
			}
			po, pc := mutablePointers(ro), mutablePointers(rc)
			// identities are addresses: both graphs must stay alive until compared
			runtime.KeepAlive(ro)
			runtime.KeepAlive(rc)
			runtime.KeepAlive(b)
			for k, path := range pc {
				if opath, shared := po[k]; shared {
					t.Fatalf("the copy shares a mutable %s with the original: copy %s is original %s", k.kind, path, opath)
				}
			}
		}

		// (b) mutate the copy, the original's serialisation must not move
		nm := rapid.IntRange(1, 3).Draw(t, "nMutations")
		var ops []string
		for i := 0; i < nm; i++ {
			op := ""
			for try := 0; try < 4 && op == ""; try++ {
				op = mutateCopy(t, collectSites(cp))
			}
			if op == "" {
				cp.Description += "!"
				op = "attr-desc"
			}
			ops = append(ops, op)
			stats.Class("mut:" + op)
			if after := snapshotAttr(orig, false); after != before {
				t.Fatalf("mutating the copy (%s) changed the original %s", strings.Join(ops, ", "), firstDiff(before, after))
			}
		}
		// the mutated copy against the original: one more source of near pairs
		checkPair(t, orig.Type, cp.Type, "original and mutated copy ("+strings.Join(ops, ", ")+")", false)
	})
}

// ---------------------------------------------------------------- repetition

// TestRepeatStable: hashing and copying the same type again and again
// terminates with the same answer (Go randomises map iteration per loop, so
// types with several metadata keys get 60-200 repetitions).
func TestRepeatStable(t *testing.T) {
	rapid.Check(t, func(t *rapid.T) {
		cfg := sizeCfg(t)
		cfg.tagBias = 60
		g := genGraph(t, cfg)
		fc := record(g, "repeat")
		b := build(g)
		reps := 5
		if fc.multiTag {
			reps = rapid.SampledFrom([]int{60, 100, 200}).Draw(t, "reps")
		}
		dt := b.root.Type
		for _, f := range allFlags {
			if kf.Open(kfMetaOrder) && multiTagAttr(dt, f) {
				stats.Excluded(kfMetaOrder)
				continue
			}
			h0 := goaHash(dt, f)
			for i := 0; i < reps; i++ {
				if h := goaHash(dt, f); h != h0 {
					t.Fatalf("hashing the same type twice gives different answers under %v (call %d):\n  %s\n  %s", f, i+2, h0, h)
				}
			}
		}
		s0 := snapshotType(expr.Dup(dt), true)
		want := snapshotType(dt, true)
		for i := 0; i < reps/4+2; i++ {
			if s := snapshotType(expr.Dup(dt), true); s != s0 || s != want {
				t.Fatalf("copying the same type again gives a different copy (call %d) %s", i+2, firstDiff(want, s))
			}
		}
		// a copy of a copy is still equal to the original
		c2 := expr.Dup(expr.Dup(dt))
		if s := snapshotType(c2, true); s != want {
			t.Fatalf("copy of a copy differs from the original %s", firstDiff(want, s))
		}
		stats.Class(fmt.Sprintf("repeat:%d", reps))
	})
}

// ---------------------------------------------------------------- probes

type plainFailer struct{ msg string }

func (p *plainFailer) Fatalf(format string, args ...any) {
	if p.msg == "" {
		p.msg = fmt.Sprintf(format, args...)
	}
}

func mAttr(t *typeM) *attrM                { return &attrM{T: t} }
func mPrim(i int) *typeM                   { return &typeM{K: "prim", P: i} }
func mObj(fs ...fieldM) *typeM             { return &typeM{K: "object", Fields: fs} }
func mUnion(n string, fs ...fieldM) *typeM { return &typeM{K: "union", UName: n, Fields: fs} }
func mF(n string, t *typeM) fieldM         { return fieldM{n, mAttr(t)} }

// TestProbes re-creates the minimal input of every known finding and reports
// whether it still fails. It never fails the test itself.
func TestProbes(t *testing.T) {
	only := os.Getenv("VERIF_PROBE_ONLY")
	run := func(id string, fn func() (bool, string)) {
		if only != "" && only != id {
			return
		}
		hit, what := fn()
		stats.ProbeResult(id, hit, what)
	}
	all := flags{false, false, false}

	run(kfUnionOrder, func() (bool, string) {
		u1 := build(&graphM{Root: mAttr(mUnion("u", mF("a", mPrim(1)), mF("b", mPrim(9)), mF("c", mPrim(0))))}).root.Type
		u2 := build(&graphM{Root: mAttr(mUnion("u", mF("c", mPrim(0)), mF("a", mPrim(1)), mF("b", mPrim(9))))}).root.Type
		h1, h2 := goaHash(u1, all), goaHash(u2, all)
		return h1 != h2, fmt.Sprintf("union u{a:int,b:string,c:boolean} hashes %q, declared as {c,a,b} it hashes %q", h1, h2)
	})
	run(kfMetaOrder, func() (bool, string) {
		a := mAttr(mPrim(1))
		a.Meta = []metaKV{{"struct:field:name", []string{"X"}}, {"struct:field:type", []string{"Y"}}}
		o := build(&graphM{Root: mAttr(mObj(fieldM{"f", a}))}).root.Type
		seen := map[string]bool{}
		for i := 0; i < 300; i++ {
			seen[goaHash(o, all)] = true
		}
		var hs []string
		for h := range seen {
			hs = append(hs, h)
		}
		sort.Strings(hs)
		return len(seen) > 1, fmt.Sprintf("300 hashes of one object whose attribute f carries struct:field:name and struct:field:type gave %d different strings: %q", len(seen), hs)
	})
	run(kfNestedObj, func() (bool, string) {
		x := build(&graphM{Root: mAttr(mObj(mF("a", mObj(mF("x", mPrim(1)), mF("y", mPrim(1)))), mF("z", mPrim(1))))}).root.Type
		y := build(&graphM{Root: mAttr(mObj(mF("a", mObj(mF("x", mPrim(1)))), mF("y", mPrim(1)), mF("z", mPrim(1))))}).root.Type
		h1, h2 := goaHash(x, all), goaHash(y, all)
		return h1 == h2 || expr.Equal(x, y), fmt.Sprintf("{a:{x,y},z} hashes %q and {a:{x},y,z} hashes %q; expr.Equal=%v", h1, h2, expr.Equal(x, y))
	})
	run(kfNestedUnion, func() (bool, string) {
		x := build(&graphM{Root: mAttr(mUnion("u", mF("a", mUnion("v", mF("x", mPrim(1)), mF("y", mPrim(1)))), mF("z", mPrim(1))))}).root.Type
		y := build(&graphM{Root: mAttr(mUnion("u", mF("a", mUnion("v", mF("x", mPrim(1)))), mF("y", mPrim(1)), mF("z", mPrim(1))))}).root.Type
		h1, h2 := goaHash(x, all), goaHash(y, all)
		return h1 == h2, fmt.Sprintf("union u{a:v{x,y},z} hashes %q and u{a:v{x},y,z} hashes %q", h1, h2)
	})
	run(kfRecursive, func() (bool, string) {
		rec := build(&graphM{UTs: []*utM{{Name: "T", A: mAttr(mObj(mF("next", &typeM{K: "ref", Ref: 0})))}}, Root: mAttr(&typeM{K: "ref", Ref: 0})}).root.Type
		fin := build(&graphM{UTs: []*utM{{Name: "U", A: mAttr(mObj(mF("next", &typeM{K: "ref", Ref: 1})))}, {Name: "V", A: mAttr(mObj())}}, Root: mAttr(&typeM{K: "ref", Ref: 0})}).root.Type
		f := flags{false, true, true}
		h1, h2 := goaHash(rec, f), goaHash(fin, f)
		return h1 == h2 || expr.Equal(rec, fin), fmt.Sprintf("recursive T{next:T} hashes %q and finite U{next:V{}} hashes %q with names ignored; expr.Equal=%v", h1, h2, expr.Equal(rec, fin))
	})
}

// TestRegressions runs the minimal inputs of the findings through the main
// oracle. While a finding is open its class is excluded there, so nothing
// fails; once it is marked fixed the pair is asserted like any other.
func TestRegressions(t *testing.T) {
	pairs := [][2]*graphM{
		{{Root: mAttr(mUnion("u", mF("a", mPrim(1)), mF("b", mPrim(9)), mF("c", mPrim(0))))}, {Root: mAttr(mUnion("u", mF("c", mPrim(0)), mF("a", mPrim(1)), mF("b", mPrim(9))))}},
		{{Root: mAttr(mObj(mF("a", mObj(mF("x", mPrim(1)), mF("y", mPrim(1)))), mF("z", mPrim(1))))}, {Root: mAttr(mObj(mF("a", mObj(mF("x", mPrim(1)))), mF("y", mPrim(1)), mF("z", mPrim(1))))}},
		{{Root: mAttr(mObj(mF("a", &typeM{K: "array", Elem: mAttr(mObj(mF("x", mPrim(1)), mF("y", mPrim(1))))})))}, {Root: mAttr(mObj(mF("a", &typeM{K: "array", Elem: mAttr(mObj(mF("x", mPrim(1))))}), mF("y", mPrim(1))))}},
		{{UTs: []*utM{{Name: "T", A: mAttr(mObj(mF("x", mPrim(1)), mF("y", mPrim(1))))}}, Root: mAttr(mObj(mF("a", &typeM{K: "ref", Ref: 0})))}, {UTs: []*utM{{Name: "T", A: mAttr(mObj(mF("x", mPrim(1))))}}, Root: mAttr(mObj(mF("a", &typeM{K: "ref", Ref: 0}), mF("y", mPrim(1))))}},
		{{Root: mAttr(mUnion("u", mF("a", mUnion("v", mF("x", mPrim(1)), mF("y", mPrim(1)))), mF("z", mPrim(1))))}, {Root: mAttr(mUnion("u", mF("a", mUnion("v", mF("x", mPrim(1)))), mF("y", mPrim(1)), mF("z", mPrim(1))))}},
		{{UTs: []*utM{{Name: "T", A: mAttr(mObj(mF("next", &typeM{K: "ref", Ref: 0})))}}, Root: mAttr(&typeM{K: "ref", Ref: 0})}, {UTs: []*utM{{Name: "U", A: mAttr(mObj(mF("next", &typeM{K: "ref", Ref: 1})))}, {Name: "V", A: mAttr(mObj())}}, Root: mAttr(&typeM{K: "ref", Ref: 0})}},
		{{UTs: []*utM{{Name: "T", A: mAttr(mObj(mF("a", mPrim(1)), mF("next", &typeM{K: "ref", Ref: 0})))}}, Root: mAttr(&typeM{K: "ref", Ref: 0})}, {UTs: []*utM{{Name: "U", A: mAttr(mObj(mF("a", mPrim(1)), mF("next", &typeM{K: "ref", Ref: 1})))}, {Name: "V", A: mAttr(mObj(mF("a", mPrim(1))))}}, Root: mAttr(&typeM{K: "ref", Ref: 0})}},
	}
	for i, p := range pairs {
		a, b := build(p[0]).root.Type, build(p[1]).root.Type
		stats.Case("reg|"+strconv.Itoa(i), true)
		pf := &plainFailer{}
		checkPair(pf, a, b, fmt.Sprintf("regression pair %d", i), false)
		if pf.msg != "" {
			t.Errorf("%s", pf.msg)
		}
	}
	// two struct:field keys on one attribute: 200 hashes agree
	a := mAttr(mPrim(1))
	a.Meta = []metaKV{{"struct:field:name", []string{"X"}}, {"struct:field:type", []string{"Y"}}}
	o := build(&graphM{Root: mAttr(mObj(fieldM{"f", a}))}).root.Type
	stats.Case("reg|meta", true)
	if kf.Open(kfMetaOrder) {
		stats.Excluded(kfMetaOrder)
		return
	}
	h0 := goaHash(o, flags{})
	for i := 0; i < 200; i++ {
		if h := goaHash(o, flags{}); h != h0 {
			t.Errorf("hash of an attribute with two struct:field keys changes between calls: %q vs %q", h0, h)
			break
		}
	}
}
