package c15

import (
	"testing"
)

// FuzzHeaders is the native fuzz target (thorough tier only): byte-level
// search over the three header-ish strings with the same oracle as the rapid
// tests. sel chooses which of the three are present and the value kind; the
// values are the fixed ones every format can carry. The same string is also
// used as a request Content-Type (RequestDecoder: decode correctly or 415).
func FuzzHeaders(f *testing.F) {
	seeds := [][3]string{
		{"", "", ""},
		{"application/json", "", ""},
		{"application/xml; charset=utf-8", "", "application/vnd.goa.thing"},
		{"application/gob;q=0.8", "application/vnd.goa.thing+xml", ""},
		{"text/html,application/xhtml+xml,application/xml;q=0.9,*/*;q=0.8", "", "application/vnd.goa.error"},
		{"*/*", "text/plain; charset=utf-8", "application/vnd.goa.thing+json"},
		{"application/vnd.api+json", "+gob", "application/vnd.goa.thing; type=collection"},
		{"text/plain", "application/vnd.x+txt", "text/plain"},
		{"\xff;=", "image/png", "a b"},
		{"application/xml;;", "application/json; charset", "x;"},
	}
	for _, s := range seeds {
		for sel := 0; sel < 40; sel += 7 {
			f.Add(s[0], s[1], s[2], uint8(sel))
		}
	}
	vals := fixedValues()
	f.Fuzz(func(t *testing.T, accept, ct, preset string, sel uint8) {
		c := respCase{Val: vals[int(sel>>3)%len(vals)]}
		if sel&1 != 0 {
			c.Accept = optStr{true, accept}
		}
		if sel&2 != 0 {
			c.CT = optStr{true, ct}
		}
		if sel&4 != 0 {
			c.Preset = optStr{true, preset}
		}
		if msg := checkResponse(c, true); msg != "" {
			t.Fatalf("%s\ncase: accept=%s designed=%s preset=%s kind=%s", msg, c.Accept, c.CT, c.Preset, c.Val.Kind)
		}
		ec := errCase{Accept: c.Accept, CT: c.CT, Preset: c.Preset, Name: "bad_request", Msg: "m<&>", Wrapped: sel&8 != 0, Custom: sel&16 != 0, Timeout: sel&32 != 0}
		if msg := checkError(ec, true); msg != "" {
			t.Fatalf("%s\ncase: %+v", msg, ec)
		}
		// the designed-content-type string doubles as a request Content-Type
		rct := optStr{Set: sel&2 != 0, V: ct}
		_, fam := requestExpectation(rct)
		if canCarry(fam, c.Val.Kind) {
			if msg := checkRequestDecode(reqCase{CT: rct, Val: c.Val}); msg != "" {
				t.Fatalf("%s", msg)
			}
		}
	})
}
