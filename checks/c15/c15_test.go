package c15

import (
	"bytes"
	"context"
	"errors"
	"fmt"
	"io"
	"mime"
	"net/http"
	"net/http/httptest"
	"os"
	"strings"
	"testing"

	goahttp "goa.design/goa/v3/http"
	goa "goa.design/goa/v3/pkg"
	"pgregory.net/rapid"

	"verif/internal/kf"
	"verif/internal/stats"
)

func TestMain(m *testing.M) { stats.Main(m) }

// ---------------------------------------------------------------- known findings

const (
	// SetContentType treats a pre-set header as an opaque string.
	kfPreset = "C15-preset-header-suffix"
	// a designed content type that is not a well-formed media type yields no encoder at all
	kfMalformedCT = "C15-malformed-designed-content-type"
)

// ---------------------------------------------------------------- responses

type respCase struct {
	Accept optStr `json:"accept"` // value stored under AcceptTypeKey (generated handlers store r.Header.Get("Accept"))
	CT     optStr `json:"ct"`     // value stored under ContentTypeKey (the designed content type)
	Preset optStr `json:"preset"` // Content-Type header already present on the ResponseWriter
	Val    value  `json:"value"`  // body value
}

func (c respCase) key() string {
	return fmt.Sprintf("resp|%s|%s|%s|%s", c.Accept, c.CT, c.Preset, c.Val.canon())
}

// predict is the reference model of the negotiation, written from the
// property text and the ResponseEncoder documentation: a designed content
// type decides (its format, or JSON when it names none); otherwise an Accept
// value naming one of the five supported types decides; otherwise JSON.
// negotiated is the bare media type the response is labelled with when no
// header is pre-set.
func (c respCase) predict() (fam family, negotiated string, malformedCT bool) {
	if c.CT.Set && c.CT.V != "" {
		mt, _, err := mime.ParseMediaType(c.CT.V)
		if err != nil {
			// "does not match any of the supported mime types" => JSON (ResponseEncoder doc)
			return famJSON, "application/json", true
		}
		f := familyOf(mt)
		if f == famNone {
			f = famJSON
		}
		return f, mt, false
	}
	if c.Accept.Set {
		if mt, ok := recognisedAccept(c.Accept.V); ok {
			return familyOf(mt), mt, false
		}
	}
	return famJSON, "application/json", false
}

func (c respCase) nontrivial() bool {
	if c.Preset.Set && c.Preset.V != "" {
		return true
	}
	if c.Accept.Set && c.Accept.V != "" && !isSupportedExact(c.Accept.V) {
		return true
	}
	return strings.Contains(c.Accept.V, "+") || strings.Contains(c.CT.V, "+")
}

// inPresetFindingClass: signature of kfPreset in the model's words. A header
// is pre-set, the negotiated type is application/json or application/xml, and
// the documented SetContentType construction (keep a header that contains
// "+", otherwise append "+json"/"+xml" to the raw header string) yields a
// header that does not announce the negotiated format.
func (c respCase) inPresetFindingClass() bool {
	if !c.Preset.Set || c.Preset.V == "" {
		return false
	}
	fam, neg, _ := c.predict() // a malformed designed type is documented to mean plain JSON
	if neg != "application/json" && neg != "application/xml" {
		return false
	}
	h := c.Preset.V
	if !strings.Contains(h, "+") {
		h += "+" + fam.String()
	}
	return announcedLoose(h) != fam
}

func (c respCase) inMalformedCTClass() bool {
	_, _, malformed := c.predict()
	return malformed
}

func safeEncode(enc goahttp.Encoder, v any) (err error) {
	defer func() {
		if r := recover(); r != nil {
			err = fmt.Errorf("PANIC in Encode: %v", r)
		}
	}()
	return enc.Encode(v)
}

// checkResponse runs one response case against goa and returns a description
// of the first disagreement with the property, or "". With exclude set, cases
// inside the class of an OPEN known finding are counted and skipped.
func checkResponse(c respCase, exclude bool) string {
	if exclude {
		if c.inMalformedCTClass() && kf.Open(kfMalformedCT) {
			stats.Excluded(kfMalformedCT)
			return ""
		}
		if c.inPresetFindingClass() && kf.Open(kfPreset) {
			stats.Excluded(kfPreset)
			return ""
		}
	}
	ctx := context.Background()
	if c.Accept.Set {
		ctx = context.WithValue(ctx, goahttp.AcceptTypeKey, c.Accept.V)
	}
	if c.CT.Set {
		ctx = context.WithValue(ctx, goahttp.ContentTypeKey, c.CT.V)
	}
	w := httptest.NewRecorder()
	if c.Preset.Set {
		w.Header().Set("Content-Type", c.Preset.V)
	}
	enc := goahttp.ResponseEncoder(ctx, w)
	if enc == nil {
		return "ResponseEncoder returned a nil Encoder (documented: defaults to the JSON encoder)"
	}
	encErr := safeEncode(enc, c.Val.payload())
	if encErr != nil && strings.HasPrefix(encErr.Error(), "PANIC") {
		return encErr.Error()
	}
	resp := w.Result()
	h := resp.Header.Get("Content-Type")
	body := w.Body.Bytes()
	pred, _, _ := c.predict()
	fam, wellFormed := announced(h)
	carrier := fam
	if !wellFormed {
		carrier = pred
	}
	if encErr != nil {
		if canCarry(carrier, c.Val.Kind) {
			return fmt.Sprintf("Encode failed for a value the announced format can carry (Content-Type %q): %v", h, encErr)
		}
		stats.Class("resp:rejected-uncarriable")
		return ""
	}
	stats.Class("resp:fam-" + carrier.String())
	want := c.Val.canon()
	if wellFormed {
		// the preferences are honoured / fall back to JSON. (With a pre-set
		// header only consistency is required: keeping the pre-set format
		// and writing the body in it would satisfy the property as well.)
		if fam != pred && !(c.Preset.Set && c.Preset.V != "") {
			return fmt.Sprintf("Content-Type %q announces %s but accept=%s designed=%s call for %s", h, fam, c.Accept, c.CT, pred)
		}
		// independent check: the body parses under the announced format
		got, err := independentDecode(fam, c.Val, body)
		if err != nil {
			return fmt.Sprintf("body %q does not parse as the %s announced by Content-Type %q: %v", trunc(body), fam, h, err)
		}
		if got != want {
			return fmt.Sprintf("body %q parsed as %s (Content-Type %q) gives %s, want %s", trunc(body), fam, h, got, want)
		}
	} else {
		stats.Class("resp:final-header-malformed")
	}
	// the round trip the property names: the library's own response decoder
	p := c.Val.fresh()
	if err := goahttp.ResponseDecoder(resp).Decode(p); err != nil {
		return fmt.Sprintf("ResponseDecoder cannot read what ResponseEncoder wrote (Content-Type %q, body %q): %v", h, trunc(body), err)
	}
	if got := c.Val.canonDecoded(p); got != want {
		return fmt.Sprintf("ResponseDecoder recovered %s, want %s (Content-Type %q, body %q)", got, want, h, trunc(body))
	}
	return ""
}

func trunc(b []byte) string {
	if len(b) > 120 {
		return string(b[:120]) + "..."
	}
	return string(b)
}

func recordResp(c respCase) {
	stats.CaseSample(c.key(), c.nontrivial(), c)
	stats.Class("accept:" + headerClass(c.Accept))
	stats.Class("ct:" + headerClass(c.CT))
	stats.Class("preset:" + headerClass(c.Preset))
	stats.Class("kind:" + c.Val.Kind)
}

// TestResponseRoundTrip: random (accept, designed content type, pre-set
// header, value).
func TestResponseRoundTrip(t *testing.T) {
	rapid.Check(t, func(t *rapid.T) {
		c := respCase{Accept: acceptGen().Draw(t, "accept"), CT: ctGen().Draw(t, "ct"), Preset: presetGen().Draw(t, "preset")}
		pred, _, _ := c.predict()
		c.Val = valueGen(pred).Draw(t, "value")
		recordResp(c)
		if msg := checkResponse(c, true); msg != "" {
			t.Fatalf("%s\ncase: accept=%s designed=%s preset=%s value=%s", msg, c.Accept, c.CT, c.Preset, c.Val.canon())
		}
	})
}

// curated header strings for the enumerated grid
var gridAccept = []optStr{
	{}, {Set: true},
	{true, "application/json"}, {true, "application/xml"}, {true, "application/gob"}, {true, "text/html"}, {true, "text/plain"},
	{true, "application/xml; charset=utf-8"}, {true, "application/gob;q=0.8"}, {true, "TEXT/PLAIN"}, {true, " application/xml "}, {true, "text/html ; q=1"},
	{true, "application/xml, application/json"}, {true, "text/html,application/xhtml+xml,application/xml;q=0.9,*/*;q=0.8"}, {true, "application/json,"},
	{true, "*/*"}, {true, "application/*"}, {true, "text/*"}, {true, "*/*;q=0.8"},
	{true, "application/vnd.x+json"}, {true, "application/vnd.x+xml"}, {true, "application/vnd.x+gob"}, {true, "application/hal+json; charset=utf-8"}, {true, "+xml"},
	{true, "text/xml"}, {true, "image/png"}, {true, "json"}, {true, "xml"},
	{true, ";"}, {true, "a b"}, {true, "application/xml; charset"}, {true, "\xff\x00"}, {true, "application/xml;;"},
}

var gridCT = []optStr{
	{}, {Set: true},
	{true, "application/json"}, {true, "application/xml"}, {true, "application/gob"}, {true, "text/html"}, {true, "text/plain"},
	{true, "application/json; charset=utf-8"}, {true, "application/xml; charset=utf-8"}, {true, "text/plain; charset=utf-8"}, {true, "APPLICATION/GOB"},
	{true, "application/vnd.goa.thing+json"}, {true, "application/vnd.goa.thing+xml"}, {true, "application/vnd.goa.thing+gob"}, {true, "text/vnd.x+html"}, {true, "application/vnd.x+txt"},
	{true, "application/vnd.goa.thing+xml; type=collection"}, {true, "+json"}, {true, "+xml"}, {true, "+gob"},
	{true, "application/vnd.goa.thing"}, {true, "application/vnd.goa.thing; view=default"}, {true, "image/png"}, {true, "text/xml"}, {true, "application/vnd.x+yaml"}, {true, "application/octet-stream"},
	{true, "application/json; charset"}, {true, "a b"}, {true, ";"},
}

var gridPreset = []optStr{
	{}, {Set: true},
	{true, "application/vnd.goa.thing"}, {true, "application/vnd.goa.error"},
	{true, "application/vnd.goa.thing+json"}, {true, "application/vnd.goa.thing+xml"}, {true, "application/vnd.goa.thing+gob"},
	{true, "application/vnd.goa.thing; type=collection"}, {true, "text/plain; charset=utf-8"}, {true, "application/json"}, {true, "application/xml"}, {true, "text/plain"},
	{true, "application/vnd.c++lib"}, {true, "a b"}, {true, "x;"},
}

// TestResponseGrid enumerates the complete product of the curated lists above
// with one value of every kind.
func TestResponseGrid(t *testing.T) {
	vals := fixedValues()
	fails := 0
	for _, a := range gridAccept {
		for _, ct := range gridCT {
			for _, p := range gridPreset {
				for _, v := range vals {
					c := respCase{Accept: a, CT: ct, Preset: p, Val: v}
					recordResp(c)
					if msg := checkResponse(c, true); msg != "" {
						fails++
						if fails <= 15 {
							t.Errorf("%s\ncase: accept=%s designed=%s preset=%s kind=%s", msg, a, ct, p, v.Kind)
						}
					}
				}
			}
		}
	}
	if fails > 15 {
		t.Errorf("... %d failing grid cases in total", fails)
	}
	stats.Exhaustive(fmt.Sprintf("response grid: %d accept x %d designed x %d pre-set literals x %d value kinds", len(gridAccept), len(gridCT), len(gridPreset), len(vals)))
}

// ---------------------------------------------------------------- error responses

type customErr struct {
	Code   string `json:"code" xml:"code"`
	Detail string `json:"detail" xml:"detail"`
	status int
}

func (c *customErr) StatusCode() int { return c.status }

type errCase struct {
	Accept    optStr `json:"accept"`
	CT        optStr `json:"ct"`
	Preset    optStr `json:"preset"`
	Plain     bool   `json:"plain"`   // a non-goa error
	Wrapped   bool   `json:"wrapped"` // fmt.Errorf("%w") around the service error
	Custom    bool   `json:"custom"`  // custom formatter
	Name      string `json:"name"`
	Msg       string `json:"msg"`
	Timeout   bool   `json:"timeout"`
	Temporary bool   `json:"temporary"`
	Fault     bool   `json:"fault"`
}

func (c errCase) asResp() respCase {
	return respCase{Accept: c.Accept, CT: c.CT, Preset: c.Preset, Val: value{Kind: kDoc, Doc: &Doc{}}}
}

func (c errCase) key() string {
	return fmt.Sprintf("err|%s|%s|%s|%v%v%v|%q|%q|%v%v%v", c.Accept, c.CT, c.Preset, c.Plain, c.Wrapped, c.Custom, c.Name, c.Msg, c.Timeout, c.Temporary, c.Fault)
}

func checkError(c errCase, exclude bool) string {
	rc := c.asResp()
	if exclude {
		if rc.inMalformedCTClass() && kf.Open(kfMalformedCT) {
			stats.Excluded(kfMalformedCT)
			return ""
		}
		if rc.inPresetFindingClass() && kf.Open(kfPreset) {
			stats.Excluded(kfPreset)
			return ""
		}
	}
	ctx := context.Background()
	if c.Accept.Set {
		ctx = context.WithValue(ctx, goahttp.AcceptTypeKey, c.Accept.V)
	}
	if c.CT.Set {
		ctx = context.WithValue(ctx, goahttp.ContentTypeKey, c.CT.V)
	}
	var e error
	var se *goa.ServiceError
	if c.Plain {
		e = errors.New(c.Msg)
	} else {
		se = &goa.ServiceError{Name: c.Name, ID: "id-" + c.Name, Message: c.Msg, Timeout: c.Timeout, Temporary: c.Temporary, Fault: c.Fault}
		e = se
		if c.Wrapped {
			e = fmt.Errorf("ctx: %w", se)
		}
	}
	var formatter func(context.Context, error) goahttp.Statuser
	wantStatus := goahttp.NewErrorResponse(ctx, e).StatusCode()
	if c.Custom {
		wantStatus = 418
		formatter = func(_ context.Context, err error) goahttp.Statuser {
			return &customErr{Code: "E-" + c.Name, Detail: c.Msg, status: 418}
		}
	}
	w := httptest.NewRecorder()
	if c.Preset.Set {
		w.Header().Set("Content-Type", c.Preset.V)
	}
	var encErr error
	func() {
		defer func() {
			if r := recover(); r != nil {
				encErr = fmt.Errorf("PANIC in ErrorEncoder: %v", r)
			}
		}()
		encErr = goahttp.ErrorEncoder(goahttp.ResponseEncoder, formatter)(ctx, w, e)
	}()
	if encErr != nil && strings.HasPrefix(encErr.Error(), "PANIC") {
		return encErr.Error()
	}
	resp := w.Result()
	h := resp.Header.Get("Content-Type")
	body := w.Body.Bytes()
	if w.Code != wantStatus {
		return fmt.Sprintf("status %d, want %d", w.Code, wantStatus)
	}
	pred, _, _ := rc.predict()
	fam, wellFormed := announced(h)
	carrier := fam
	if !wellFormed {
		carrier = pred
	}
	if encErr != nil {
		if carrier != famText {
			return fmt.Sprintf("error encoding failed although Content-Type %q can carry a struct: %v", h, encErr)
		}
		stats.Class("err:rejected-text")
		return ""
	}
	if wellFormed && fam != pred && !(c.Preset.Set && c.Preset.V != "") {
		return fmt.Sprintf("Content-Type %q announces %s but accept=%s designed=%s call for %s", h, fam, c.Accept, c.CT, pred)
	}
	stats.Class("err:fam-" + carrier.String())
	type decoder interface{ Decode(any) error }
	decs := []struct {
		what string
		mk   func() (decoder, bool)
	}{
		{"independent " + fam.String() + " parser", func() (decoder, bool) {
			if !wellFormed {
				return nil, false
			}
			return stdDecoder(fam, body), true
		}},
		{"ResponseDecoder", func() (decoder, bool) { return goahttp.ResponseDecoder(resp), true }},
	}
	for _, d := range decs {
		dec, ok := d.mk()
		if !ok {
			continue
		}
		if dec == nil {
			return fmt.Sprintf("error body written without error under Content-Type %q which cannot carry a struct (body %q)", h, trunc(body))
		}
		if c.Custom {
			var got customErr
			if err := dec.Decode(&got); err != nil {
				return fmt.Sprintf("%s cannot read the error body (Content-Type %q, body %q): %v", d.what, h, trunc(body), err)
			}
			if got.Code != "E-"+c.Name || got.Detail != c.Msg {
				return fmt.Sprintf("%s recovered %+v, want code %q detail %q (Content-Type %q)", d.what, got, "E-"+c.Name, c.Msg, h)
			}
			continue
		}
		var got goahttp.ErrorResponse
		if err := dec.Decode(&got); err != nil {
			return fmt.Sprintf("%s cannot read the error body (Content-Type %q, body %q): %v", d.what, h, trunc(body), err)
		}
		wantR := goahttp.ErrorResponse{Name: "fault", Message: c.Msg, Fault: true}
		if se != nil {
			wantR = goahttp.ErrorResponse{Name: se.Name, ID: se.ID, Message: se.Message, Timeout: se.Timeout, Temporary: se.Temporary, Fault: se.Fault}
		} else {
			if got.ID == "" {
				return "error response for a plain error has no ID"
			}
			got.ID = ""
		}
		if got != wantR {
			return fmt.Sprintf("%s recovered %+v, want %+v (Content-Type %q, body %q)", d.what, got, wantR, h, trunc(body))
		}
	}
	return ""
}

type readerDecoder struct {
	f    family
	body []byte
}

func stdDecoder(f family, body []byte) interface{ Decode(any) error } {
	if f == famText {
		return nil
	}
	return &readerDecoder{f, body}
}

func (d *readerDecoder) Decode(p any) error {
	switch d.f {
	case famJSON:
		return jsonUnmarshalStrict(d.body, p)
	case famXML:
		return xmlUnmarshal(d.body, p)
	case famGob:
		return gobUnmarshal(d.body, p)
	}
	return fmt.Errorf("no format")
}

var errNameGen = rapid.SampledFrom([]string{"not_found", "bad_request", "unsupported_media_type", "fault", "error", "x", "invalid_range", "e&<>"})

func TestErrorEncoder(t *testing.T) {
	rapid.Check(t, func(t *rapid.T) {
		c := errCase{Accept: acceptGen().Draw(t, "accept"), Preset: presetGen().Draw(t, "preset")}
		if rapid.IntRange(0, 3).Draw(t, "designed") == 0 {
			c.CT = ctGen().Draw(t, "ct")
		}
		pred, _, _ := c.asResp().predict()
		c.Name = errNameGen.Draw(t, "name")
		c.Msg = contentGen(pred).Draw(t, "msg")
		switch rapid.IntRange(0, 5).Draw(t, "errKind") {
		case 0:
			c.Plain = true
		case 1:
			c.Wrapped = true
		case 2:
			c.Custom = true
		}
		c.Timeout, c.Temporary, c.Fault = rapid.Bool().Draw(t, "timeout"), rapid.Bool().Draw(t, "temporary"), rapid.Bool().Draw(t, "fault")
		rc := c.asResp()
		stats.CaseSample(c.key(), rc.nontrivial(), c)
		stats.Class("err-accept:" + headerClass(c.Accept))
		if msg := checkError(c, true); msg != "" {
			t.Fatalf("%s\ncase: %+v", msg, c)
		}
	})
}

// ---------------------------------------------------------------- requests

func is415(err error) string {
	var se *goa.ServiceError
	if !errors.As(err, &se) {
		return fmt.Sprintf("error is not a *goa.ServiceError: %T %v", err, err)
	}
	if se.Name != "unsupported_media_type" {
		return fmt.Sprintf("error name %q, want unsupported_media_type", se.Name)
	}
	if code := goahttp.NewErrorResponse(context.Background(), err).StatusCode(); code != http.StatusUnsupportedMediaType {
		return fmt.Sprintf("NewErrorResponse(...).StatusCode() = %d, want 415", code)
	}
	// and through the default error encoder, whatever the client accepts
	w := httptest.NewRecorder()
	if e := goahttp.ErrorEncoder(goahttp.ResponseEncoder, nil)(context.WithValue(context.Background(), goahttp.AcceptTypeKey, ""), w, err); e != nil {
		return fmt.Sprintf("default error encoder failed: %v", e)
	}
	if w.Code != http.StatusUnsupportedMediaType {
		return fmt.Sprintf("default error encoder wrote status %d, want 415", w.Code)
	}
	var er goahttp.ErrorResponse
	if e := goahttp.ResponseDecoder(w.Result()).Decode(&er); e != nil || er.Name != "unsupported_media_type" {
		return fmt.Sprintf("415 body does not decode to the unsupported_media_type error: %v %+v", e, er)
	}
	return ""
}

type reqCase struct {
	CT  optStr `json:"content_type"`
	Val value  `json:"value"`
}

func (c reqCase) key() string { return fmt.Sprintf("req|%s|%s", c.CT, c.Val.canon()) }

// requestExpectation classifies a request Content-Type header:
//
//	"must"  absent/empty (JSON default) or, after mime normalisation, exactly one of the five documented types: decoding must succeed
//	"never" well-formed and naming no format: Decode must fail with 415
//	"may"   a structured-syntax suffix type, or a malformed string: either 415 or a correct decode in the announced format
//
// fam is the format the body is written in by the test (JSON when the header names none).
func requestExpectation(ct optStr) (mode string, fam family) {
	if !ct.Set || ct.V == "" {
		return "must", famJSON
	}
	mt, _, err := mime.ParseMediaType(ct.V)
	if err != nil {
		// malformed as a whole. When what stands before the parameters is a
		// well-formed media type outside the supported set, no reading makes
		// the request's media type a supported one: it must not be decoded.
		if bt, _, berr := mime.ParseMediaType(baseType(ct.V)); berr == nil && !isSupportedExact(bt) && familyOf(bt) == famNone {
			return "never", famJSON
		}
		return "may", announcedLoose(ct.V)
	}
	if isSupportedExact(mt) {
		return "must", familyOf(mt)
	}
	if f := familyOf(mt); f != famNone {
		return "may", f
	}
	return "never", famJSON
}

// checkRequestDecode: a request with an arbitrary Content-Type whose body is
// written (by the standard library) in the format that header announces —
// JSON, the tempting wrong default, when it announces none.
func checkRequestDecode(c reqCase) string {
	mode, fam := requestExpectation(c.CT)
	body, err := independentEncode(fam, c.Val)
	if err != nil {
		return "" // format cannot carry the value: nothing to send (generators avoid this)
	}
	r := httptest.NewRequest("POST", "/", bytes.NewReader(body))
	r.Header.Del("Content-Type")
	if c.CT.Set {
		r.Header.Set("Content-Type", c.CT.V)
	}
	p := c.Val.fresh()
	derr := goahttp.RequestDecoder(r).Decode(p)
	stats.Class("req:" + mode)
	switch {
	case derr == nil && mode == "never":
		return fmt.Sprintf("request with unsupported Content-Type %s was decoded (as %s) instead of failing with unsupported_media_type", c.CT, c.Val.canonDecoded(p))
	case derr == nil:
		if got, want := c.Val.canonDecoded(p), c.Val.canon(); got != want {
			return fmt.Sprintf("request Content-Type %s, %s body %q decoded to %s, want %s", c.CT, fam, trunc(body), got, want)
		}
		stats.Class("req:decoded-" + fam.String())
		return ""
	case mode == "must":
		return fmt.Sprintf("request Content-Type %s (supported, %s) failed to decode body %q: %v", c.CT, fam, trunc(body), derr)
	default:
		if why := is415(derr); why != "" {
			return fmt.Sprintf("request Content-Type %s: %s", c.CT, why)
		}
		stats.Class("req:415")
		return ""
	}
}

func reqNontrivial(ct optStr) bool {
	return ct.Set && ct.V != "" && !isSupportedExact(ct.V)
}

// carriedValueGen draws a value the format can carry.
func carriedValueGen(f family) *rapid.Generator[value] {
	return valueGen(f).Filter(func(v value) bool { return canCarry(f, v.Kind) })
}

func TestRequestDecoder(t *testing.T) {
	rapid.Check(t, func(t *rapid.T) {
		var ct optStr
		switch rapid.IntRange(0, 9).Draw(t, "class") {
		case 0:
		case 1:
			ct = optStr{Set: true}
		case 2, 3:
			ct = optStr{true, supportedGen().Draw(t, "sup")}
		default:
			ct = optStr{true, anyTypeGen().Draw(t, "any")}
		}
		_, fam := requestExpectation(ct)
		c := reqCase{CT: ct, Val: carriedValueGen(fam).Draw(t, "value")}
		stats.CaseSample(c.key(), reqNontrivial(ct), c)
		stats.Class("req-ct:" + headerClass(ct))
		if msg := checkRequestDecode(c); msg != "" {
			t.Fatalf("%s", msg)
		}
	})
}

var gridRequestCT = []optStr{
	{}, {Set: true},
	{true, "application/json"}, {true, "application/xml"}, {true, "application/gob"}, {true, "text/html"}, {true, "text/plain"},
	{true, "application/json; charset=utf-8"}, {true, "application/xml;charset=UTF-8"}, {true, "application/gob; q=1"}, {true, "text/plain; charset=utf-8"}, {true, "TEXT/HTML"}, {true, " application/json "}, {true, "application/json;"},
	{true, "application/vnd.api+json"}, {true, "application/soap+xml"}, {true, "application/vnd.x+gob"}, {true, "text/vnd.x+html"}, {true, "+json"},
	{true, "application/foo"}, {true, "text/xml"}, {true, "image/png"}, {true, "application/x-www-form-urlencoded"}, {true, "multipart/form-data; boundary=x"}, {true, "application/octet-stream"}, {true, "json"}, {true, "application/jsonx"}, {true, "text/json"}, {true, "*/*"}, {true, "application/*"}, {true, "application/vnd.x+yaml"},
	{true, "application/json; charset"}, {true, "a b"}, {true, ";"}, {true, "application/json, application/xml"}, {true, "\xff"},
	{true, "application/xml; charset"}, {true, "text/plain; charset=utf-8; charset=iso-8859-1"}, {true, "application/gob; ="}, {true, "text/html; q"}, {true, "application/xml, application/json"}, {true, "image/png; ="}, {true, "/json"},
}

func TestRequestGrid(t *testing.T) {
	for _, ct := range gridRequestCT {
		_, fam := requestExpectation(ct)
		for _, v := range fixedValues() {
			if !canCarry(fam, v.Kind) {
				continue
			}
			c := reqCase{CT: ct, Val: v}
			stats.CaseSample(c.key(), reqNontrivial(ct), c)
			stats.Class("req-ct:" + headerClass(ct))
			if msg := checkRequestDecode(c); msg != "" {
				t.Errorf("%s", msg)
			}
		}
	}
	stats.Exhaustive(fmt.Sprintf("request grid: %d Content-Type literals x carriable value kinds", len(gridRequestCT)))
}

// TestRequestRoundTrip: RequestEncoder on a client request, the bytes and
// headers carried over to a server-side request, RequestDecoder there. The
// request encoder documents that it always writes JSON and only sets
// Content-Type when none is present (pinned by goa's TestRequestEncoder), so
// the pre-set request header ranges over absent and JSON-announcing values;
// arbitrary request Content-Types are the business of TestRequestDecoder.
func TestRequestRoundTrip(t *testing.T) {
	rapid.Check(t, func(t *rapid.T) {
		var pre optStr
		switch rapid.IntRange(0, 5).Draw(t, "preset") {
		case 0, 1, 2:
		case 3:
			pre = optStr{true, "application/json"}
		case 4:
			pre = optStr{true, caseMangle(t, "application/json") + rapid.SampledFrom(paramForms).Draw(t, "params")}
		default:
			pre = optStr{true, rapid.SampledFrom(vendorBases).Draw(t, "base") + "+json" + rapid.SampledFrom(paramForms).Draw(t, "params")}
		}
		v := valueGen(famJSON).Draw(t, "value")
		c := reqCase{CT: pre, Val: v}
		stats.CaseSample("rt-"+c.key(), pre.Set, c)
		stats.Class("reqrt-preset:" + headerClass(pre))
		if msg := checkRequestRoundTrip(pre, v); msg != "" {
			t.Fatalf("%s", msg)
		}
	})
}

func checkRequestRoundTrip(pre optStr, v value) string {
	creq, err := http.NewRequest("POST", "http://example.test/things", nil)
	if err != nil {
		return "INCONCLUSIVE: " + err.Error()
	}
	if pre.Set {
		creq.Header.Set("Content-Type", pre.V)
	}
	if err := goahttp.RequestEncoder(creq).Encode(v.payload()); err != nil {
		return fmt.Sprintf("RequestEncoder failed: %v", err)
	}
	h := creq.Header.Get("Content-Type")
	if f, ok := announced(h); !ok || f != famJSON || h == "" {
		return fmt.Sprintf("request Content-Type after RequestEncoder is %q: does not announce JSON", h)
	}
	body, _ := io.ReadAll(creq.Body)
	if got, err := independentDecode(famJSON, v, body); err != nil || got != v.canon() {
		return fmt.Sprintf("request body %q is not the JSON of the value: %v %s", trunc(body), err, got)
	}
	sreq := httptest.NewRequest("POST", "/things", bytes.NewReader(body))
	sreq.Header = creq.Header.Clone()
	p := v.fresh()
	derr := goahttp.RequestDecoder(sreq).Decode(p)
	mode, _ := requestExpectation(optStr{true, h})
	if derr != nil {
		if mode == "may" {
			if why := is415(derr); why != "" {
				return fmt.Sprintf("request Content-Type %q: %s", h, why)
			}
			stats.Class("reqrt:415-suffix")
			return ""
		}
		return fmt.Sprintf("RequestDecoder cannot read what RequestEncoder wrote (Content-Type %q, body %q): %v", h, trunc(body), derr)
	}
	if got := v.canonDecoded(p); got != v.canon() {
		return fmt.Sprintf("RequestDecoder recovered %s, want %s", got, v.canon())
	}
	return ""
}

// ---------------------------------------------------------------- the muxer's own use of the Accept value

var nfMux = func() goahttp.Muxer {
	m := goahttp.NewMuxer()
	m.Use(func(h http.Handler) http.Handler { return h })
	m.Handle("GET", "/known", func(w http.ResponseWriter, r *http.Request) { w.WriteHeader(204) })
	return m
}()

// TestMuxNotFound: goa's muxer answers unknown paths itself, negotiating
// with the request's real Accept header (mux.go): the 404 body must be in the
// format its Content-Type announces.
func TestMuxNotFound(t *testing.T) {
	rapid.Check(t, func(t *rapid.T) {
		a := acceptGen().Draw(t, "accept")
		r := httptest.NewRequest("GET", "/missing", nil)
		if a.Set {
			r.Header.Set("Accept", a.V)
		}
		w := httptest.NewRecorder()
		nfMux.ServeHTTP(w, r)
		rc := respCase{Accept: optStr{true, a.V}}
		stats.CaseSample("nf|"+a.String(), rc.nontrivial(), map[string]any{"accept": a, "path": "/missing"})
		stats.Class("nf-accept:" + headerClass(a))
		if w.Code != 404 {
			t.Fatalf("status %d for an unknown path", w.Code)
		}
		resp := w.Result()
		h := resp.Header.Get("Content-Type")
		fam, ok := announced(h)
		pred, _, _ := rc.predict()
		if ok && fam != pred {
			t.Fatalf("404 Content-Type %q announces %s, Accept %s calls for %s", h, fam, a, pred)
		}
		if fam == famText {
			return // an error struct cannot be carried; the muxer sends the bare status
		}
		var got goahttp.ErrorResponse
		if ok {
			if err := stdDecoder(fam, w.Body.Bytes()).Decode(&got); err != nil || got.Message != "404 page not found" {
				t.Fatalf("404 body %q does not parse as the %s announced by %q: %v %+v", trunc(w.Body.Bytes()), fam, h, err, got)
			}
		}
		got = goahttp.ErrorResponse{}
		if err := goahttp.ResponseDecoder(resp).Decode(&got); err != nil || got.Message != "404 page not found" || !got.Fault {
			t.Fatalf("ResponseDecoder cannot read the 404 body %q (Content-Type %q): %v %+v", trunc(w.Body.Bytes()), h, err, got)
		}
	})
}

// ---------------------------------------------------------------- probes and regressions

type probe struct {
	id   string
	what string
	run  func() string
}

var probes = []probe{
	{kfPreset, "pre-set \"application/vnd.goa.thing+xml\" with no Accept: header kept, body JSON", func() string {
		return checkResponse(respCase{Preset: optStr{true, "application/vnd.goa.thing+xml"}, Val: fixedValues()[0]}, false)
	}},
	{kfPreset, "pre-set \"application/vnd.goa.thing; type=collection\" with Accept application/xml", func() string {
		return checkResponse(respCase{Accept: optStr{true, "application/xml"}, Preset: optStr{true, "application/vnd.goa.thing; type=collection"}, Val: fixedValues()[0]}, false)
	}},
	{kfPreset, "pre-set \"text/plain; charset=utf-8\" with no Accept", func() string {
		return checkResponse(respCase{Preset: optStr{true, "text/plain; charset=utf-8"}, Val: fixedValues()[1]}, false)
	}},
	{kfMalformedCT, "designed content type \"application/json; charset\"", func() string {
		return checkResponse(respCase{CT: optStr{true, "application/json; charset"}, Val: fixedValues()[0]}, false)
	}},
}

// TestProbes re-creates the minimal input of every known finding (never fails).
func TestProbes(t *testing.T) {
	only := os.Getenv("VERIF_PROBE_ONLY")
	done := map[string]bool{}
	for _, id := range []string{kfPreset, kfMalformedCT} {
		if only != "" && only != id {
			continue
		}
		if _, listed := kf.Get(id); !listed {
			continue
		}
		hit, what := false, ""
		for _, p := range probes {
			if p.id != id {
				continue
			}
			if msg := p.run(); msg != "" && !hit {
				hit, what = true, p.what+": "+msg
			}
		}
		if !done[id] {
			stats.ProbeResult(id, hit, what)
			done[id] = true
		}
	}
}
