// Package c15 decides property C15: response and request bodies are encoded
// as the Content-Type announces.
//
// This file holds the check's own model: what a media type string announces,
// which Go values each wire format can carry, and the generators of header
// strings and values. Nothing here calls goa.
package c15

import (
	"bytes"
	"encoding/gob"
	"encoding/json"
	"encoding/xml"
	"fmt"
	"mime"
	"strings"
	"unicode/utf8"

	"pgregory.net/rapid"
)

// ---------------------------------------------------------------- formats

type family int

const (
	famNone family = iota // the string names no format this library knows
	famJSON
	famXML
	famGob
	famText
)

func (f family) String() string {
	return [...]string{"none", "json", "xml", "gob", "text"}[f]
}

// the five media types the library documents (encoding.go doc comments)
var supported = []string{"application/json", "application/xml", "application/gob", "text/html", "text/plain"}

func isSupportedExact(mt string) bool {
	for _, s := range supported {
		if s == mt {
			return true
		}
	}
	return false
}

// familyOf classifies a bare (lower-case, parameter-free) media type: the five
// documented types plus RFC 6839-style structured-syntax suffixes (+json,
// +xml, +gob and, as goa's own tests pin, +html / +txt for text).
func familyOf(mt string) family {
	switch {
	case mt == "application/json" || strings.HasSuffix(mt, "+json"):
		return famJSON
	case mt == "application/xml" || strings.HasSuffix(mt, "+xml"):
		return famXML
	case mt == "application/gob" || strings.HasSuffix(mt, "+gob"):
		return famGob
	case mt == "text/html" || mt == "text/plain" || strings.HasSuffix(mt, "+html") || strings.HasSuffix(mt, "+txt"):
		return famText
	}
	return famNone
}

// announced tells which format a Content-Type header value announces. A
// missing header or a well-formed type that names no known format means JSON
// (the documented default of the response decoder). ok is false for a header
// that is not a well-formed media type: what such a string "announces" is
// not defined, so the independent body check is skipped for it (the library's
// own round trip is still required).
func announced(h string) (f family, ok bool) {
	if h == "" {
		return famJSON, true
	}
	mt, _, err := mime.ParseMediaType(h)
	if err != nil {
		return famNone, false
	}
	f = familyOf(mt)
	if f == famNone {
		f = famJSON
	}
	return f, true
}

// baseType returns what stands before the first ';' or ',' of a header value.
func baseType(h string) string {
	if i := strings.IndexAny(h, ";,"); i >= 0 {
		h = h[:i]
	}
	return strings.TrimSpace(h)
}

// announcedLoose is announced for possibly malformed strings: a malformed
// string is classified by its raw suffix. Used only to describe the input
// class of a known finding, never as an oracle.
func announcedLoose(h string) family {
	if f, ok := announced(h); ok {
		return f
	}
	if f, ok := announced(baseType(h)); ok && baseType(h) != "" {
		return f
	}
	f := familyOf(h)
	if f == famNone {
		f = famJSON
	}
	return f
}

// recognisedAccept: the Accept value names exactly one of the five documented
// types, possibly with parameters / different case (i.e. it needs at most the
// normalisation of mime.ParseMediaType). Everything else (lists, wildcards,
// vendor types, garbage, absent) is "missing or unrecognised" and must fall
// back to JSON.
func recognisedAccept(a string) (string, bool) {
	if isSupportedExact(a) {
		return a, true
	}
	if mt, _, err := mime.ParseMediaType(a); err == nil && isSupportedExact(mt) {
		return mt, true
	}
	return "", false
}

// ---------------------------------------------------------------- values

// Inner and Doc are the structured values: exported fields with json and xml
// tags, nested struct, pointer, slices, byte slice, attribute.
type Inner struct {
	ID    int64  `json:"id" xml:"id,attr"`
	Label string `json:"label" xml:"label"`
}

type Doc struct {
	Name  string   `json:"name" xml:"name"`
	Count int      `json:"count" xml:"count"`
	Ratio float64  `json:"ratio" xml:"ratio"`
	OK    bool     `json:"ok" xml:"ok,attr"`
	Tags  []string `json:"tags" xml:"tags>tag"`
	Data  []byte   `json:"data" xml:"data"`
	Inner *Inner   `json:"inner,omitempty" xml:"inner"`
	Items []Inner  `json:"items" xml:"item"`
	Opt   *string  `json:"opt,omitempty" xml:"opt"`
}

const (
	kDoc    = "doc"    // *Doc
	kString = "string" // string
	kStrPtr = "strptr" // *string
	kBytes  = "bytes"  // []byte
	kInt    = "int"    // int (a fmt-able scalar)
)

var allKinds = []string{kDoc, kString, kStrPtr, kBytes, kInt}

type value struct {
	Kind string `json:"kind"`
	Doc  *Doc   `json:"doc,omitempty"`
	S    string `json:"s,omitempty"`
	B    []byte `json:"b,omitempty"`
	I    int    `json:"i,omitempty"`
}

// payload is what is handed to Encode.
func (v value) payload() any {
	switch v.Kind {
	case kDoc:
		d := *v.Doc
		return &d
	case kString:
		return v.S
	case kStrPtr:
		s := v.S
		return &s
	case kBytes:
		return append([]byte(nil), v.B...)
	default:
		return v.I
	}
}

// fresh returns a pointer to a zero value to decode into.
func (v value) fresh() any {
	switch v.Kind {
	case kDoc:
		return new(Doc)
	case kString, kStrPtr:
		return new(string)
	case kBytes:
		return new([]byte)
	default:
		return new(int)
	}
}

// canon renders a value (or a decoded pointer) canonically; nil and empty
// slices are the same thing (no wire format here distinguishes them).
func canonDoc(d *Doc) string {
	c := *d
	if len(c.Tags) == 0 {
		c.Tags = []string{}
	}
	if len(c.Data) == 0 {
		c.Data = []byte{}
	}
	if len(c.Items) == 0 {
		c.Items = []Inner{}
	}
	var b bytes.Buffer
	fmt.Fprintf(&b, "name=%q count=%d ratio=%v ok=%v tags=%q data=%x items=%v", c.Name, c.Count, c.Ratio, c.OK, c.Tags, c.Data, c.Items)
	if c.Inner != nil {
		fmt.Fprintf(&b, " inner=%+v", *c.Inner)
	} else {
		b.WriteString(" inner=nil")
	}
	if c.Opt != nil {
		fmt.Fprintf(&b, " opt=%q", *c.Opt)
	} else {
		b.WriteString(" opt=nil")
	}
	return b.String()
}

func (v value) canon() string {
	switch v.Kind {
	case kDoc:
		return "doc:" + canonDoc(v.Doc)
	case kString, kStrPtr:
		return fmt.Sprintf("str:%q", v.S)
	case kBytes:
		return fmt.Sprintf("bytes:%x", v.B)
	default:
		return fmt.Sprintf("int:%d", v.I)
	}
}

// canonDecoded renders what a decoder stored through the pointer returned by fresh.
func (v value) canonDecoded(p any) string {
	switch x := p.(type) {
	case *Doc:
		return "doc:" + canonDoc(x)
	case *string:
		return fmt.Sprintf("str:%q", *x)
	case *[]byte:
		return fmt.Sprintf("bytes:%x", *x)
	case *int:
		return fmt.Sprintf("int:%d", *x)
	}
	return fmt.Sprintf("?%T", p)
}

// canCarry states which top-level Go values a wire FORMAT can carry. These
// are facts about the formats (encoding/xml has no element name for a
// top-level []byte; the text formats carry a string or bytes verbatim and
// nothing else), not about goa. A format that cannot carry the value must
// reject it with an error.
func canCarry(f family, kind string) bool {
	switch f {
	case famXML:
		return kind != kBytes
	case famText:
		return kind == kString || kind == kStrPtr || kind == kBytes
	}
	return true
}

// independentDecode parses body under format f with the standard library
// directly (no goa) into a fresh value and returns its canonical rendering.
func independentDecode(f family, v value, body []byte) (string, error) {
	p := v.fresh()
	switch f {
	case famJSON:
		dec := json.NewDecoder(bytes.NewReader(body))
		if err := dec.Decode(p); err != nil {
			return "", err
		}
		if dec.More() {
			return "", fmt.Errorf("trailing data after the JSON value")
		}
	case famXML:
		if err := xml.Unmarshal(body, p); err != nil {
			return "", err
		}
	case famGob:
		if err := gob.NewDecoder(bytes.NewReader(body)).Decode(p); err != nil {
			return "", err
		}
	case famText:
		switch x := p.(type) {
		case *string:
			*x = string(body)
		case *[]byte:
			*x = append([]byte(nil), body...)
		default:
			return "", fmt.Errorf("text cannot carry %T", p)
		}
	default:
		return "", fmt.Errorf("no format")
	}
	return v.canonDecoded(p), nil
}

// independentEncode writes v in format f with the standard library directly.
func independentEncode(f family, v value) ([]byte, error) {
	var b bytes.Buffer
	var err error
	switch f {
	case famJSON:
		err = json.NewEncoder(&b).Encode(v.payload())
	case famXML:
		err = xml.NewEncoder(&b).Encode(v.payload())
	case famGob:
		err = gob.NewEncoder(&b).Encode(v.payload())
	case famText:
		switch x := v.payload().(type) {
		case string:
			b.WriteString(x)
		case *string:
			b.WriteString(*x)
		case []byte:
			b.Write(x)
		default:
			err = fmt.Errorf("text cannot carry %T", x)
		}
	default:
		err = fmt.Errorf("no format")
	}
	return b.Bytes(), err
}

// ---------------------------------------------------------------- value generators

func validXMLRune(r rune) bool {
	return r == 0x9 || r == 0xA || r == 0xD || (r >= 0x20 && r <= 0xD7FF) || (r >= 0xE000 && r <= 0xFFFD) || (r >= 0x10000 && r <= 0x10FFFF)
}

// text every format can carry: characters XML 1.0 allows (so also valid UTF-8)
var safeRune = rapid.OneOf(
	rapid.RuneFrom([]rune("abcXYZ019 <>&\"'\t\n\r;=+/{}[]:,\\é日𝄞")),
	rapid.Rune().Filter(validXMLRune),
)

func safeString() *rapid.Generator[string] {
	return rapid.OneOf(rapid.SampledFrom([]string{"", "a", "hello world", "<a&b>", " lead and trail ", "{\"k\":1}", "<string>x</string>", "null", "true", "0"}), rapid.StringOfN(safeRune, 0, 12, -1))
}

// contentGen yields string content suited to the format the reference model
// predicts: XML gets XML-1.0 characters, JSON any valid UTF-8, gob and text
// arbitrary bytes. (The predicted format is only used to pick content; the
// oracle works from the header actually set.)
func contentGen(f family) *rapid.Generator[string] {
	switch f {
	case famJSON:
		return rapid.OneOf(safeString(), rapid.StringN(0, 12, -1).Filter(utf8.ValidString))
	case famGob, famText:
		return rapid.OneOf(safeString(), rapid.Map(rapid.SliceOfN(rapid.Byte(), 0, 12), func(b []byte) string { return string(b) }))
	}
	return safeString()
}

func docGen(f family) *rapid.Generator[*Doc] {
	str := contentGen(f)
	if f == famGob || f == famText {
		// struct fields also travel through JSON/XML error paths in no test; for
		// gob, strings are byte strings, keep them arbitrary
		str = contentGen(famGob)
	}
	return rapid.Custom(func(t *rapid.T) *Doc {
		d := &Doc{
			Name:  str.Draw(t, "name"),
			Count: rapid.IntRange(-1000, 1000).Draw(t, "count"),
			Ratio: rapid.SampledFrom([]float64{0, 1, -1.5, 0.1, 3.141592653589793, 1e21, -2.5e-7}).Draw(t, "ratio"),
			OK:    rapid.Bool().Draw(t, "ok"),
			Tags:  rapid.SliceOfN(str, 0, 3).Draw(t, "tags"),
		}
		data := str.Draw(t, "data")
		if f == famJSON || f == famGob {
			data = string(rapid.SliceOfN(rapid.Byte(), 0, 8).Draw(t, "rawdata"))
		}
		d.Data = []byte(data)
		if rapid.Bool().Draw(t, "hasInner") {
			d.Inner = &Inner{ID: rapid.Int64Range(-5, 1<<40).Draw(t, "innerID"), Label: str.Draw(t, "innerLabel")}
		}
		n := rapid.IntRange(0, 2).Draw(t, "nItems")
		for i := 0; i < n; i++ {
			d.Items = append(d.Items, Inner{ID: int64(i + 1), Label: str.Draw(t, "itemLabel")})
		}
		if rapid.Bool().Draw(t, "hasOpt") {
			s := str.Draw(t, "opt")
			d.Opt = &s
			if f == famGob && s == "" {
				// gob flattens pointers and omits zero values: a pointer to
				// "" is not representable (it arrives as nil)
				d.Opt = nil
			}
		}
		return d
	})
}

func valueGen(f family) *rapid.Generator[value] {
	return rapid.Custom(func(t *rapid.T) value {
		kind := rapid.SampledFrom([]string{kDoc, kDoc, kString, kString, kStrPtr, kBytes, kInt}).Draw(t, "kind")
		v := value{Kind: kind}
		switch kind {
		case kDoc:
			v.Doc = docGen(f).Draw(t, "doc")
		case kString, kStrPtr:
			v.S = contentGen(f).Draw(t, "s")
		case kBytes:
			if f == famXML {
				v.B = []byte(safeString().Draw(t, "b"))
			} else {
				v.B = rapid.SliceOfN(rapid.Byte(), 0, 16).Draw(t, "b")
			}
		default:
			v.I = rapid.IntRange(-100000, 100000).Draw(t, "i")
		}
		return v
	})
}

// fixedValues are used by the enumerated grid and the native fuzz target:
// one value per kind, content every format can carry.
func fixedValues() []value {
	opt := "o<p>t"
	return []value{
		{Kind: kDoc, Doc: &Doc{Name: "n&<ame>", Count: 42, Ratio: 0.1, OK: true, Tags: []string{"a", " b "}, Data: []byte("da ta"), Inner: &Inner{ID: 7, Label: "in\"ner"}, Items: []Inner{{1, "x"}, {2, "é日"}}, Opt: &opt}},
		{Kind: kString, S: "plain <s>tring & \"q\""},
		{Kind: kStrPtr, S: "{\"json\":\"looking\"}"},
		{Kind: kBytes, B: []byte("<bytes>1</bytes>")},
		{Kind: kInt, I: 12345},
	}
}

// ---------------------------------------------------------------- header string generators

var paramForms = []string{"", "", "; charset=utf-8", ";charset=UTF-8", ";q=0.8", "; q=0.5; level=1", "; charset=\"utf-8\"", "; type=collection", ";", " ; q=1", "; q=0", "; view=default; charset=utf-8"}

var vendorBases = []string{"application/vnd.goa.thing", "application/vnd.api", "application/hal", "application/problem", "application/vnd.goa.error", "text/vnd.x", "image/svg", "application/vnd.c++lib", "application/vnd.github.v3"}

var suffixes = []string{"+json", "+xml", "+gob", "+html", "+txt"}

var unknownSuffixes = []string{"+yaml", "+cbor", "+zip", "+jsonx", "+json-seq"}

var unknownTypes = []string{"image/png", "application/octet-stream", "application/x-www-form-urlencoded", "text/csv", "multipart/form-data; boundary=x", "application/yaml", "application/jsonx", "application/json-patch", "json", "xml", "text/xml", "application/x-gob", "text/json", "application/xhtml", "text/x-plain", "application/jsonapplication/json", "gob", "text", "html"}

var wildcards = []string{"*/*", "application/*", "text/*", "*/*;q=0.8", "*", "*/json", "application/*+json", "*/*; q=0.1"}

var garbageLiterals = []string{" ", ";", "/", "//", "a/b/c", ";;;", ",", "application/json,", ",application/xml", "application/", "/json", "application/json; charset", "text/plain; charset=\"utf-8", "application/xml; =x", "a b", "application/json\x00", "\xff\xfe", "application/json;;q=1", "application/xml ; ; ", "x;+json", "x; a=b", "\"application/json\"", "application/json\r\n", "application/xml\tx", "+", "++json", "application/gob; a=1; a=2", "text/html; charset=utf-8; charset=latin1"}

func caseMangle(t *rapid.T, s string) string {
	switch rapid.IntRange(0, 5).Draw(t, "case") {
	case 0:
		return strings.ToUpper(s)
	case 1:
		return strings.Title(s) //nolint:staticcheck // ASCII header strings
	}
	return s
}

func supportedGen() *rapid.Generator[string] {
	return rapid.Custom(func(t *rapid.T) string {
		return caseMangle(t, rapid.SampledFrom(supported).Draw(t, "type")) + rapid.SampledFrom(paramForms).Draw(t, "params")
	})
}

func vendorGen(withSuffix bool) *rapid.Generator[string] {
	return rapid.Custom(func(t *rapid.T) string {
		s := rapid.SampledFrom(vendorBases).Draw(t, "base")
		if withSuffix {
			if rapid.IntRange(0, 5).Draw(t, "unknownSuffix") == 0 {
				s += rapid.SampledFrom(unknownSuffixes).Draw(t, "usuffix")
			} else {
				s += rapid.SampledFrom(suffixes).Draw(t, "suffix")
			}
		}
		return caseMangle(t, s) + rapid.SampledFrom(paramForms).Draw(t, "params")
	})
}

func garbageGen() *rapid.Generator[string] {
	return rapid.OneOf(
		rapid.SampledFrom(garbageLiterals),
		rapid.StringN(0, 12, -1),
		rapid.Map(rapid.SliceOfN(rapid.Byte(), 0, 10), func(b []byte) string { return string(b) }),
		rapid.StringOfN(rapid.RuneFrom([]rune("aj/+;=, *\"q.x")), 0, 14, -1),
	)
}

// malformedParamGen: a media type of any class followed by a parameter list
// that mime.ParseMediaType refuses (parameter without a value, empty name, the
// same parameter twice with different values, a second type after a comma).
func malformedParamGen() *rapid.Generator[string] {
	return rapid.Custom(func(t *rapid.T) string {
		base := rapid.OneOf(rapid.SampledFrom(supported), vendorGen(true), rapid.SampledFrom(unknownTypes)).Draw(t, "base")
		tail := rapid.SampledFrom([]string{"; charset", "; =", "; charset=utf-8; charset=iso-8859-1", "; q", ", application/json", "; charset=\"utf-8", ";;x"}).Draw(t, "tail")
		return base + tail
	})
}

// anyTypeGen: one media-type-like string of any class.
func anyTypeGen() *rapid.Generator[string] {
	return rapid.OneOf(
		malformedParamGen(),
		supportedGen(), supportedGen(),
		vendorGen(true), vendorGen(true),
		vendorGen(false),
		rapid.SampledFrom(unknownTypes),
		rapid.SampledFrom(wildcards),
		rapid.Map(rapid.SampledFrom(suffixes), func(s string) string { return s }), // bare "+json"
		garbageGen(),
	)
}

// acceptGen: (set, value). Lists are comma-joined items of any class.
func acceptGen() *rapid.Generator[optStr] {
	return rapid.Custom(func(t *rapid.T) optStr {
		switch rapid.IntRange(0, 11).Draw(t, "acceptClass") {
		case 0:
			return optStr{}
		case 1:
			return optStr{Set: true}
		case 2:
			return optStr{true, rapid.SampledFrom(supported).Draw(t, "exact")}
		case 3, 4:
			return optStr{true, supportedGen().Draw(t, "sup")}
		case 5, 6:
			n := rapid.IntRange(2, 4).Draw(t, "n")
			var items []string
			for i := 0; i < n; i++ {
				items = append(items, anyTypeGen().Draw(t, "item"))
			}
			return optStr{true, strings.Join(items, rapid.SampledFrom([]string{",", ", "}).Draw(t, "sep"))}
		case 7:
			return optStr{true, rapid.SampledFrom(wildcards).Draw(t, "wild")}
		case 8:
			return optStr{true, vendorGen(true).Draw(t, "vendor")}
		case 9:
			return optStr{true, rapid.SampledFrom(unknownTypes).Draw(t, "unknown")}
		default:
			return optStr{true, garbageGen().Draw(t, "garbage")}
		}
	})
}

// ctGen: the designed content type stored under ContentTypeKey.
func ctGen() *rapid.Generator[optStr] {
	return rapid.Custom(func(t *rapid.T) optStr {
		switch rapid.IntRange(0, 13).Draw(t, "ctClass") {
		case 0, 1, 2, 3:
			return optStr{}
		case 4:
			return optStr{Set: true}
		case 5, 6:
			return optStr{true, supportedGen().Draw(t, "sup")}
		case 7, 8:
			return optStr{true, vendorGen(true).Draw(t, "vendor")}
		case 9:
			return optStr{true, vendorGen(false).Draw(t, "bare")}
		case 10:
			return optStr{true, rapid.SampledFrom(suffixes).Draw(t, "suffixOnly") + rapid.SampledFrom(paramForms).Draw(t, "params")}
		case 11:
			return optStr{true, rapid.SampledFrom(unknownTypes).Draw(t, "unknown")}
		case 12:
			return optStr{true, rapid.SampledFrom(wildcards).Draw(t, "wild")}
		default:
			return optStr{true, garbageGen().Draw(t, "garbage")}
		}
	})
}

// presetGen: a Content-Type header already on the ResponseWriter.
func presetGen() *rapid.Generator[optStr] {
	return rapid.Custom(func(t *rapid.T) optStr {
		switch rapid.IntRange(0, 11).Draw(t, "presetClass") {
		case 0, 1, 2, 3, 4:
			return optStr{}
		case 5:
			return optStr{true, rapid.SampledFrom(vendorBases).Draw(t, "bare")}
		case 6:
			return optStr{true, rapid.SampledFrom(vendorBases).Draw(t, "base") + rapid.SampledFrom(suffixes).Draw(t, "suffix")}
		case 7:
			return optStr{true, vendorGen(false).Draw(t, "bareParams")}
		case 8:
			return optStr{true, vendorGen(true).Draw(t, "vendor")}
		case 9:
			return optStr{true, supportedGen().Draw(t, "sup")}
		case 10:
			return optStr{true, rapid.SampledFrom(unknownTypes).Draw(t, "unknown")}
		default:
			return optStr{true, garbageGen().Draw(t, "garbage")}
		}
	})
}

type optStr struct {
	Set bool   `json:"set"`
	V   string `json:"v"`
}

func (o optStr) String() string {
	if !o.Set {
		return "<absent>"
	}
	return fmt.Sprintf("%q", o.V)
}

// headerClass labels a header-ish string for the generator health histogram.
func headerClass(o optStr) string {
	if !o.Set {
		return "absent"
	}
	s := o.V
	if s == "" {
		return "empty"
	}
	if isSupportedExact(s) {
		return "exact-supported"
	}
	if strings.Contains(s, ",") {
		return "list"
	}
	mt, params, err := mime.ParseMediaType(s)
	if err != nil {
		return "malformed"
	}
	switch {
	case strings.Contains(mt, "*"):
		return "wildcard"
	case isSupportedExact(mt) && len(params) > 0:
		return "supported+params"
	case isSupportedExact(mt):
		return "supported-normalised"
	case familyOf(mt) != famNone:
		return "suffix-" + familyOf(mt).String()
	case strings.Contains(mt, "+"):
		return "suffix-unknown"
	}
	return "unknown-wellformed"
}

func jsonUnmarshalStrict(b []byte, p any) error {
	dec := json.NewDecoder(bytes.NewReader(b))
	if err := dec.Decode(p); err != nil {
		return err
	}
	if dec.More() {
		return fmt.Errorf("trailing data after the JSON value")
	}
	return nil
}

func xmlUnmarshal(b []byte, p any) error { return xml.Unmarshal(b, p) }

func gobUnmarshal(b []byte, p any) error { return gob.NewDecoder(bytes.NewReader(b)).Decode(p) }
