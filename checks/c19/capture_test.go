package c19

import (
	"bytes"
	"context"
	"fmt"
	"io"
	"net/http"
	"net/http/httptest"
	"os"
	"sync"
	"testing"

	httpmw "goa.design/goa/v3/http/middleware"
	"goa.design/goa/v3/middleware"
	"pgregory.net/rapid"

	"verif/internal/kf"
	"verif/internal/stats"
)

const findingImplicitStatus = "C19-capture-implicit-status"

// writeOp is one step of a handler's write history.
type writeOp struct {
	Kind string // "header" (WriteHeader), "info" (WriteHeader with a 1xx code, before the final one), "write", "flush", "copy" (io.Copy into the writer), "error" (http.Error)
	Code int
	N    int
}

// history is a well-formed use of a http.ResponseWriter: at most one
// WriteHeader / http.Error, before anything else.
type history struct {
	Form string // "explicit", "implicit" (first Write/Flush sends the implicit 200), "none" (handler writes nothing)
	Ops  []writeOp
}

var statusCodes = []int{200, 200, 201, 202, 204, 301, 304, 400, 401, 404, 418, 500, 503, 599}

func historyGen(t *rapid.T) history {
	h := history{Form: rapid.SampledFrom([]string{"explicit", "explicit", "explicit", "implicit", "implicit", "none"}).Draw(t, "form")}
	if h.Form == "none" {
		return h
	}
	if h.Form == "explicit" {
		kind := rapid.SampledFrom([]string{"header", "header", "header", "error"}).Draw(t, "headerKind")
		code := rapid.SampledFrom(statusCodes).Draw(t, "code")
		if kind == "error" && code < 400 {
			code = 500
		}
		h.Ops = append(h.Ops, writeOp{Kind: kind, Code: code, N: rapid.IntRange(0, 40).Draw(t, "msgLen")})
	}
	min := 0
	if h.Form == "implicit" {
		min = 1
	}
	n := rapid.IntRange(min, 6).Draw(t, "nWrites")
	for i := 0; i < n; i++ {
		k := rapid.SampledFrom([]string{"write", "write", "write", "flush", "copy"}).Draw(t, "op")
		op := writeOp{Kind: k}
		switch k {
		case "write":
			op.N = rapid.SampledFrom([]int{0, 1, 2, 17, 255, 256, 4095, 4096, 4097, -1}).Draw(t, "size")
			if op.N < 0 {
				op.N = rapid.IntRange(0, 20000).Draw(t, "sizeAny")
			}
		case "copy":
			op.N = rapid.SampledFrom([]int{0, 1, 511, 32768, 32769, 70000}).Draw(t, "copySize")
		}
		h.Ops = append(h.Ops, op)
	}
	return h
}

// explicitCode returns the status the history writes explicitly, 0 if none.
func (h history) explicitCode() int {
	if h.Form == "explicit" {
		for _, op := range h.Ops {
			if op.Kind == "header" || op.Kind == "error" {
				return op.Code
			}
		}
	}
	return 0
}

// writesHeader tells whether the history makes the writer send a status line:
// explicitly, or implicitly through the first Write (also of zero bytes) or
// Flush. io.Copy of an empty reader never calls Write.
func (h history) writesHeader() bool {
	for _, op := range h.Ops {
		if op.Kind != "copy" || op.N > 0 {
			return true
		}
	}
	return false
}

var payload = bytes.Repeat([]byte("0123456789abcdef"), 70000/16+1)

// play runs the history against w and returns the number of bytes w accepted
// according to its own return values.
func (h history) play(w http.ResponseWriter) (accepted int) {
	for _, op := range h.Ops {
		switch op.Kind {
		case "header", "info":
			w.WriteHeader(op.Code)
		case "error":
			// http.Error writes the header then the message through w
			msg := string(payload[:op.N])
			http.Error(w, msg, op.Code)
		case "write":
			n, _ := w.Write(payload[:op.N])
			accepted += n
		case "copy":
			n, _ := io.Copy(w, bytes.NewReader(payload[:op.N]))
			accepted += int(n)
		case "flush":
			if f, ok := w.(http.Flusher); ok {
				f.Flush()
			}
		}
	}
	return accepted
}

// limitedWriter is a ResponseWriter that stops accepting bytes after cap
// bytes (a connection that breaks in the middle of a response): the write
// that crosses the limit is short and returns an error.
type limitedWriter struct {
	rec  *httptest.ResponseRecorder
	left int
}

func (l *limitedWriter) Header() http.Header { return l.rec.Header() }
func (l *limitedWriter) WriteHeader(c int)   { l.rec.WriteHeader(c) }
func (l *limitedWriter) Flush()              { l.rec.Flush() }
func (l *limitedWriter) Write(b []byte) (int, error) {
	if len(b) <= l.left {
		l.left -= len(b)
		return l.rec.Write(b)
	}
	k := l.left
	l.left = 0
	n, _ := l.rec.Write(b[:k])
	return n, io.ErrShortWrite
}

// captureLogger records the key/value pairs the Log middleware emits.
type captureLogger struct {
	mu    sync.Mutex
	lines [][]any
}

func (l *captureLogger) Log(keyvals ...any) error {
	l.mu.Lock()
	l.lines = append(l.lines, append([]any{}, keyvals...))
	l.mu.Unlock()
	return nil
}

func kv(line []any, key string) (any, bool) {
	for i := 0; i+1 < len(line); i += 2 {
		if line[i] == key {
			return line[i+1], true
		}
	}
	return nil, false
}

// captured is what the capture (or the Log middleware built on it) reported.
type captured struct {
	Status, Bytes int
	LogIDs        []any
	HandlerReqID  any
}

// received is what the underlying writer / the real client actually got.
type received struct {
	Status        int
	HeaderWritten bool
	Bytes         int
}

// runCapture plays the history through a ResponseCapture (direct) or through
// the Log middleware (which wraps the writer in a ResponseCapture and logs its
// fields), on top of the given kind of underlying writer.
func runCapture(h history, via, sink string, limit int, withRID bool) (captured, received, error) {
	var (
		cp captured
		lg = &captureLogger{}
	)
	var handler http.Handler
	if via == "direct" {
		handler = http.HandlerFunc(func(w http.ResponseWriter, r *http.Request) {
			rc := httpmw.CaptureResponse(w)
			h.play(rc)
			cp.Status, cp.Bytes = rc.StatusCode, rc.ContentLength
		})
	} else {
		mw := httpmw.Log(lg)
		if via == "logctx" {
			// LogContext takes the logger from the request context
			mw = httpmw.LogContext(func(context.Context) middleware.Logger { return lg })
		}
		handler = mw(http.HandlerFunc(func(w http.ResponseWriter, r *http.Request) {
			cp.HandlerReqID = observeCtx(r.Context()).ReqID
			h.play(w)
		}))
		if withRID {
			handler = httpmw.RequestID()(handler)
		}
	}
	var rcv received
	switch sink {
	case "server":
		srv, err := startServer(handler)
		if err != nil {
			return cp, rcv, err
		}
		resp, err := http.Get(srv.URL + "/capture")
		if err != nil {
			srv.Close()
			return cp, rcv, err
		}
		b, err := io.ReadAll(resp.Body)
		resp.Body.Close()
		srv.Close()
		if err != nil {
			return cp, rcv, err
		}
		rcv = received{Status: resp.StatusCode, HeaderWritten: true, Bytes: len(b)}
	default:
		rec := httptest.NewRecorder()
		var w http.ResponseWriter = rec
		if sink == "limited" {
			w = &limitedWriter{rec: rec, left: limit}
		}
		handler.ServeHTTP(w, httptest.NewRequest("GET", "http://example.com/capture", nil))
		// rec.Code is meaningful only once a header was written (explicitly or
		// by the first Write/Flush); Result() tells through its status text
		rcv = received{Status: rec.Code, HeaderWritten: len(h.Ops) > 0, Bytes: rec.Body.Len()}
	}
	if via != "direct" {
		lg.mu.Lock()
		defer lg.mu.Unlock()
		if len(lg.lines) != 2 {
			return cp, rcv, fmt.Errorf("Log middleware emitted %d lines, want 2 (request, response)", len(lg.lines))
		}
		st, ok1 := kv(lg.lines[1], "status")
		by, ok2 := kv(lg.lines[1], "bytes")
		s, ok3 := st.(int)
		b, ok4 := by.(int)
		if !ok1 || !ok2 || !ok3 || !ok4 {
			return cp, rcv, fmt.Errorf("response log line %v has no integer status/bytes", lg.lines[1])
		}
		cp.Status, cp.Bytes = s, b
		for _, l := range lg.lines {
			id, _ := kv(l, "id")
			cp.LogIDs = append(cp.LogIDs, id)
		}
	}
	return cp, rcv, nil
}

// checkCapture compares the capture with what was actually written. It
// returns (problem, isKnownImplicitStatus).
func checkCapture(h history, cp captured, rcv received) (string, bool) {
	if cp.Bytes != rcv.Bytes {
		return fmt.Sprintf("ContentLength = %d but the underlying writer received %d bytes", cp.Bytes, rcv.Bytes), false
	}
	if !rcv.HeaderWritten {
		// the handler wrote nothing at all: no status was written through the capture
		return "", false
	}
	if cp.Status != rcv.Status {
		return fmt.Sprintf("StatusCode = %d but the status actually written is %d", cp.Status, rcv.Status), h.Form != "explicit" && cp.Status == 0
	}
	return "", false
}

// TestCapture: ResponseCapture (directly and inside the Log middleware) under
// generated write histories on a recorder, on a writer that breaks after a
// number of bytes, and on a real server observed by a real client.
func TestCapture(t *testing.T) {
	rapid.Check(t, func(t *rapid.T) {
		h := historyGen(t)
		via := rapid.SampledFrom([]string{"direct", "direct", "direct", "log", "logctx"}).Draw(t, "via")
		sink := rapid.SampledFrom([]string{"recorder", "recorder", "recorder", "limited", "limited", "server"}).Draw(t, "sink")
		if sink == "server" && !realSocket() {
			sink = "recorder"
		}
		limit := 0
		if sink == "limited" {
			limit = rapid.SampledFrom([]int{0, 1, 16, 300, 4096, 40000}).Draw(t, "breakAfter")
		}
		// informational responses: net/http lets a handler send 1xx headers
		// (102 Processing, 103 Early Hints) before the final status; the
		// status actually written is the final one. Only a real server speaks
		// that part of the protocol (a recorder takes the first WriteHeader
		// for the status).
		if sink == "server" && h.Form == "explicit" && rapid.IntRange(0, 2).Draw(t, "informational") == 0 {
			n := rapid.IntRange(1, 2).Draw(t, "nInfo")
			var info []writeOp
			for i := 0; i < n; i++ {
				info = append(info, writeOp{Kind: "info", Code: rapid.SampledFrom([]int{102, 103}).Draw(t, "infoCode")})
			}
			h.Ops = append(info, h.Ops...)
			stats.Class("capture:informational-before-final")
		}
		withRID := via != "direct" && rapid.Bool().Draw(t, "withRequestID")
		key := fmt.Sprintf("capture|%+v|%s|%s|%d|%v", h, via, sink, limit, withRID)
		stats.CaseSample(key, false, map[string]any{"test": "capture", "history": h, "via": via, "sink": sink, "break_after": limit})
		stats.Class("capture-form:" + h.Form)
		stats.Class("capture-sink:" + sink)
		stats.Class("capture-via:" + via)

		cp, rcv, err := runCapture(h, via, sink, limit, withRID)
		if err != nil {
			t.Fatalf("history %+v via %s on %s: %v", h, via, sink, err)
		}
		// a status counts as written when the handler caused it; the 200 a real
		// server sends after a handler that wrote nothing did not pass through
		// the capture
		rcv.HeaderWritten = h.writesHeader()
		if want := h.explicitCode(); want != 0 && rcv.Status != want {
			t.Fatalf("harness: explicit status %d but the sink saw %d", want, rcv.Status)
		}
		if p, known := checkCapture(h, cp, rcv); p != "" {
			if known && kf.Open(findingImplicitStatus) {
				stats.Excluded(findingImplicitStatus)
			} else {
				t.Fatalf("history %+v via %s on %s (break after %d): %s", h, via, sink, limit, p)
			}
		}
		if rcv.Bytes > 0 && sink == "limited" {
			stats.Class("capture:short-write")
		}
		if via != "direct" {
			// "uses the request ID set by the RequestID middleware or creates a
			// short unique request ID if missing"
			if len(cp.LogIDs) != 2 || cp.LogIDs[0] != cp.LogIDs[1] {
				t.Fatalf("Log middleware: request and response lines carry different ids %v", cp.LogIDs)
			}
			id, _ := cp.LogIDs[0].(string)
			if id == "" {
				t.Fatalf("Log middleware: logged id %v is not a non-empty string", cp.LogIDs[0])
			}
			if withRID && cp.LogIDs[0] != cp.HandlerReqID {
				t.Fatalf("Log middleware logged id %v, the request ID in the context is %v", cp.LogIDs[0], cp.HandlerReqID)
			}
		}
	})
}

// TestProbes re-creates the minimal input of every known finding of C19.
func TestProbes(t *testing.T) {
	only := os.Getenv("VERIF_PROBE_ONLY")
	if only == "" || only == findingImplicitStatus {
		// a handler that writes a body without calling WriteHeader: net/http
		// sends 200
		h := history{Form: "implicit", Ops: []writeOp{{Kind: "write", N: 2}}}
		cp, rcv, err := runCapture(h, "direct", "recorder", 0, false)
		hit := err == nil && rcv.Status == 200 && cp.Status != rcv.Status
		stats.ProbeResult(findingImplicitStatus, hit, fmt.Sprintf("CaptureResponse(w).Write([]byte(\"01\")) without WriteHeader: the recorder received status %d and %d bytes, ResponseCapture reports StatusCode=%d ContentLength=%d", rcv.Status, rcv.Bytes, cp.Status, cp.Bytes))
	}
}
