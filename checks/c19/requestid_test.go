package c19

import (
	"context"
	"fmt"
	"net/http"
	"net/http/httptest"
	"testing"

	grpcmw "goa.design/goa/v3/grpc/middleware"
	httpmw "goa.design/goa/v3/http/middleware"
	"goa.design/goa/v3/middleware"
	"google.golang.org/grpc"
	"google.golang.org/grpc/metadata"
	"pgregory.net/rapid"

	"verif/internal/stats"
)

// fakeServerStream is a grpc.ServerStream whose only meaningful method is
// Context: that is all the interceptors under test use.
type fakeServerStream struct {
	grpc.ServerStream
	ctx context.Context
}

func (s *fakeServerStream) Context() context.Context { return s.ctx }

func (c ridConfig) httpOptions() []middleware.RequestIDOption {
	var out []middleware.RequestIDOption
	for _, o := range c.Opts {
		switch o.Kind {
		case "use":
			out = append(out, httpmw.UseXRequestIDHeaderOption(o.B))
		case "limit":
			out = append(out, httpmw.XRequestHeaderLimitOption(o.N))
		case "custom":
			out = append(out, httpmw.RequestIDHeaderOption(o.Name))
		}
	}
	return out
}

func (c ridConfig) grpcOptions() []middleware.RequestIDOption {
	var out []middleware.RequestIDOption
	for _, o := range c.Opts {
		switch o.Kind {
		case "use":
			out = append(out, grpcmw.UseXRequestIDMetadataOption(o.B))
		case "limit":
			out = append(out, grpcmw.XRequestMetadataLimitOption(o.N))
		}
	}
	return out
}

func (c ridConfig) coreOptions() []middleware.RequestIDOption {
	var out []middleware.RequestIDOption
	for _, o := range c.Opts {
		switch o.Kind {
		case "use":
			out = append(out, middleware.UseRequestIDOption(o.B))
		case "limit":
			out = append(out, middleware.RequestIDLimitOption(o.N))
		case "custom":
			out = append(out, middleware.RequestIDHeaderOption(o.Name))
		}
	}
	return out
}

// incomingMD builds the incoming metadata of a gRPC request.
func incomingMD(key string, in inbound, extra ...string) metadata.MD {
	md := metadata.Pairs(extra...)
	if in.Present {
		md.Append(key, in.Values...)
	}
	return md
}

// ridRunner sends one inbound value through a constructed middleware and
// returns what the handler saw.
type ridRunner func(in inbound, decoy string) (calls int, o ctxObs, mdID []string)

func newRIDRunner(variant string, c ridConfig) ridRunner {
	switch variant {
	case "http":
		var (
			calls int
			o     ctxObs
		)
		h := httpmw.RequestID(c.httpOptions()...)(http.HandlerFunc(func(w http.ResponseWriter, r *http.Request) {
			calls++
			o = observeCtx(r.Context())
			w.WriteHeader(http.StatusNoContent)
		}))
		return func(in inbound, decoy string) (int, ctxObs, []string) {
			calls, o = 0, ctxObs{}
			r := httptest.NewRequest("GET", "http://example.com/x", nil)
			if in.Present {
				for _, v := range in.Values {
					r.Header.Add(c.Header, v)
				}
			}
			if decoy != "" {
				// a header the middleware is not configured to look at
				other := "X-Request-Id"
				if http.CanonicalHeaderKey(c.Header) == other {
					other = "Custom-Id"
				}
				r.Header.Set(other, decoy)
			}
			h.ServeHTTP(httptest.NewRecorder(), r)
			return calls, o, nil
		}
	case "unary":
		ic := grpcmw.UnaryRequestID(c.grpcOptions()...)
		return func(in inbound, decoy string) (int, ctxObs, []string) {
			var (
				calls int
				o     ctxObs
				mdID  []string
			)
			ctx := context.Background()
			if in.Present || decoy != "" {
				extra := []string{}
				if decoy != "" {
					extra = append(extra, "custom-id", decoy)
				}
				ctx = metadata.NewIncomingContext(ctx, incomingMD("X-Request-Id", in, extra...))
			}
			req := &struct{ n int }{1}
			resp, err := ic(ctx, req, &grpc.UnaryServerInfo{FullMethod: "/pkg.Svc/Get"}, func(ctx context.Context, r any) (any, error) {
				calls++
				o = observeCtx(ctx)
				md, _ := metadata.FromIncomingContext(ctx)
				mdID = md.Get(grpcmw.RequestIDMetadataKey)
				if r != any(req) {
					calls += 100
				}
				return "resp", nil
			})
			if err != nil || resp != "resp" {
				calls += 1000
			}
			return calls, o, mdID
		}
	case "stream":
		ic := grpcmw.StreamRequestID(c.grpcOptions()...)
		return func(in inbound, decoy string) (int, ctxObs, []string) {
			var (
				calls int
				o     ctxObs
				mdID  []string
			)
			ctx := context.Background()
			if in.Present || decoy != "" {
				extra := []string{}
				if decoy != "" {
					extra = append(extra, "custom-id", decoy)
				}
				ctx = metadata.NewIncomingContext(ctx, incomingMD("x-request-id", in, extra...))
			}
			err := ic("srv", &fakeServerStream{ctx: ctx}, &grpc.StreamServerInfo{FullMethod: "/pkg.Svc/Watch"}, func(srv any, ss grpc.ServerStream) error {
				calls++
				o = observeCtx(ss.Context())
				md, _ := metadata.FromIncomingContext(ss.Context())
				mdID = md.Get(grpcmw.RequestIDMetadataKey)
				if srv != "srv" {
					calls += 100
				}
				return nil
			})
			if err != nil {
				calls += 1000
			}
			return calls, o, mdID
		}
	default: // "direct": middleware.GenerateRequestID, the inbound value is the context value
		opts := middleware.NewRequestIDOptions(c.coreOptions()...)
		return func(in inbound, decoy string) (int, ctxObs, []string) {
			ctx := context.Background()
			if in.first() != "" {
				ctx = context.WithValue(ctx, middleware.RequestIDKey, in.first()) // nolint: staticcheck
			}
			ctx = middleware.GenerateRequestID(ctx, opts)
			return 1, observeCtx(ctx), nil
		}
	}
}

// TestRequestID: option lists in their documented forms x inbound values x
// HTTP / gRPC unary / gRPC stream / GenerateRequestID. Every request reaches
// the handler exactly once with a non-empty request ID: the inbound value
// truncated to the limit iff the middleware trusts the header and a
// non-empty value is present, a fresh ID otherwise.
func TestRequestID(t *testing.T) {
	rapid.Check(t, func(t *rapid.T) {
		variant := rapid.SampledFrom([]string{"http", "http", "unary", "stream", "direct"}).Draw(t, "variant")
		// the values first, then a limit placed around one of them
		n := rapid.IntRange(1, 3).Draw(t, "nRequests")
		ins := make([]inbound, n)
		for i := range ins {
			ins[i] = inboundGen(false).Draw(t, "inbound")
		}
		pivot := ins[rapid.IntRange(0, n-1).Draw(t, "pivot")].first()
		limit, limitKind := limitFor(t, pivot)
		cfg := ridConfigGen(t, variant == "http" || variant == "direct", limit)
		decoy := ""
		if rapid.IntRange(0, 3).Draw(t, "decoy") == 0 {
			decoy = "decoy-" + rapid.StringOfN(rapid.SampledFrom(asciiRunes), 1, 6, -1).Draw(t, "decoyV")
		}
		run := newRIDRunner(variant, cfg)
		stats.Class("rid-variant:" + variant)
		stats.Class("rid-form:" + cfg.Form)
		stats.Class("rid-limit:" + limitKind)
		for i, in := range ins {
			value := in.first()
			if variant == "direct" && value == "" {
				in = inbound{Class: "absent"}
			}
			key := fmt.Sprintf("rid|%s|%+v|%q|%q", variant, cfg, in.Values, decoy)
			stats.CaseSample(key, ridNontrivial(cfg, value), map[string]any{"test": "request-id", "variant": variant, "options": cfg.Opts, "inbound": in.Values, "present": in.Present, "limit": cfg.Limit})
			stats.Class(ridClass(cfg, value))
			stats.Class("rid-inbound:" + in.Class)
			calls, o, mdID := run(in, decoy)
			if calls != 1 {
				t.Fatalf("request %d (%s, %s): handler call bookkeeping = %d, want exactly one call with the original arguments", i, variant, cfg.Form, calls)
			}
			if p := checkRequestID(cfg, value, o.ReqID); p != "" {
				t.Fatalf("request %d (%s, options %+v, inbound %q): %s", i, variant, cfg.Opts, in.Values, p)
			}
			if variant == "unary" || variant == "stream" {
				// "initializes the request metadata with a unique value under the RequestIDMetadata key"
				if len(mdID) == 0 || mdID[0] != o.ReqID.(string) {
					t.Fatalf("request %d (%s): incoming metadata %q = %q, context request ID = %q", i, variant, grpcmw.RequestIDMetadataKey, mdID, o.ReqID)
				}
			}
		}
	})
}

// TestFreshIDsDistinct: 2000 requests without a usable inbound value through
// one middleware instance per variant get 2000 different, non-empty IDs.
func TestFreshIDsDistinct(t *testing.T) {
	const n = 2000
	for _, variant := range []string{"http", "unary", "stream", "direct"} {
		for _, cfg := range []ridConfig{
			{Form: "none", Header: "X-Request-Id"},
			{Form: "use-true", Header: "X-Request-Id", Trust: true, Opts: []ridOpt{{Kind: "use", B: true}}},
			{Form: "use-true+limit", Header: "X-Request-Id", Trust: true, Limit: 4, Opts: []ridOpt{{Kind: "use", B: true}, {Kind: "limit", N: 4}}},
		} {
			run := newRIDRunner(variant, cfg)
			seen := map[string]bool{}
			for i := 0; i < n; i++ {
				in := inbound{}
				if !cfg.Trust && i%2 == 1 {
					in = inbound{Present: true, Values: []string{"same-inbound-value"}}
				}
				calls, o, _ := run(in, "")
				id, _ := o.ReqID.(string)
				if calls != 1 || id == "" {
					t.Fatalf("%s/%s: draw %d: calls=%d id=%q", variant, cfg.Form, i, calls, id)
				}
				if seen[id] {
					t.Fatalf("%s/%s: draw %d: generated request ID %q repeats within %d draws", variant, cfg.Form, i, id, n)
				}
				seen[id] = true
			}
			stats.Case(fmt.Sprintf("fresh-distinct|%s|%s", variant, cfg.Form), false)
			stats.ClassN("fresh-id-draws", n)
		}
	}
}
