package c19

import (
	"context"
	"fmt"
	"io"
	"net"
	"net/http"
	"net/http/httptest"
	"testing"

	grpcmw "goa.design/goa/v3/grpc/middleware"
	httpmw "goa.design/goa/v3/http/middleware"
	"goa.design/goa/v3/middleware"
	"google.golang.org/grpc"
	"google.golang.org/grpc/credentials/insecure"
	"google.golang.org/grpc/metadata"
	"google.golang.org/grpc/test/bufconn"
	"google.golang.org/protobuf/types/known/emptypb"
	"pgregory.net/rapid"

	"verif/internal/stats"
)

// hopSpec describes one service of a call chain: its protocol, its server
// middleware stack and how its handler calls the next service.
type hopSpec struct {
	Proto    string // "http", "unary", "stream"
	Wire     bool   // reached over a real connection: http.Client -> httptest.Server, or grpc.ClientConn -> grpc.Server on an in-memory listener
	Path     string
	Query    string
	Trace    traceSpec
	RID      *ridConfig // nil: no request-ID middleware
	RIDOuter bool       // request-ID middleware mounted outside (before) the trace middleware
	// Canceler (stream hops): goa's StreamCanceler interceptor is part of the
	// chain, "inner" (after the ID interceptors, next to the handler) or
	// "outer" (before them); "" = not mounted. It wraps the stream and must
	// hand the identifiers on.
	Canceler string
	// how this hop's handler prepares its call to the next hop
	Stale      bool // the outgoing request already carries stale trace header/metadata values
	ForwardRID bool // the handler forwards its own request ID as the next hop's inbound request ID
}

// key is the canonical text of a hop (no pointers).
func (h hopSpec) key() string {
	rid := "-"
	if h.RID != nil {
		rid = fmt.Sprintf("%+v", *h.RID)
	}
	return fmt.Sprintf("%s,%v,%s,%s,%+v,%s,%v,%v,%v,%s", h.Proto, h.Wire, h.Path, h.Query, h.Trace, rid, h.RIDOuter, h.Stale, h.ForwardRID, h.Canceler)
}

// wireIn is what arrived at a hop, recorded before any middleware ran.
type wireIn struct {
	Seen   bool
	Trace  string
	Parent string
	RID    string // value under the header/key the hop's request-ID middleware consults
}

type hopObs struct {
	Calls int
	Ctx   ctxObs
	MDRid []string
}

type chainRun struct {
	hops    []hopSpec
	rts     []*traceRT
	in      []wireIn
	obs     []hopObs
	http    []http.Handler
	servers []*httptest.Server
	gsrv    []*grpc.Server
	conns   []*grpc.ClientConn
	unary   [][]grpc.UnaryServerInterceptor
	stream  [][]grpc.StreamServerInterceptor
	errs    []string
	// stop ends the goroutines of the StreamCanceler interceptors
	stop context.CancelFunc
}

func (c *chainRun) errf(format string, a ...any) {
	c.errs = append(c.errs, fmt.Sprintf(format, a...))
}

const (
	staleTrace = "stale-trace"
	staleSpan  = "stale-span"
)

func (h hopSpec) ridHeader() string {
	if h.RID != nil {
		return h.RID.Header
	}
	return "X-Request-Id"
}

func newChainRun(hops []hopSpec) *chainRun {
	c := &chainRun{hops: hops}
	n := len(hops)
	c.rts = make([]*traceRT, n)
	c.in = make([]wireIn, n)
	c.obs = make([]hopObs, n)
	c.http = make([]http.Handler, n)
	c.servers = make([]*httptest.Server, n)
	c.gsrv = make([]*grpc.Server, n)
	c.conns = make([]*grpc.ClientConn, n)
	c.unary = make([][]grpc.UnaryServerInterceptor, n)
	c.stream = make([][]grpc.StreamServerInterceptor, n)
	for i := range hops {
		i, h := i, hops[i]
		switch h.Proto {
		case "http":
			rt, opts := h.Trace.build(httpOptionFuncs)
			c.rts[i] = rt
			var handler http.Handler = http.HandlerFunc(func(w http.ResponseWriter, r *http.Request) {
				c.obs[i].Calls++
				c.obs[i].Ctx = observeCtx(r.Context())
				c.callNext(i, r.Context())
				w.WriteHeader(http.StatusOK)
				io.WriteString(w, "ok") // nolint: errcheck
			})
			mws := []func(http.Handler) http.Handler{httpmw.Trace(opts...)}
			if h.RID != nil {
				rid := httpmw.RequestID(h.RID.httpOptions()...)
				if h.RIDOuter {
					mws = append([]func(http.Handler) http.Handler{rid}, mws...)
				} else {
					mws = append(mws, rid)
				}
			}
			for k := len(mws) - 1; k >= 0; k-- {
				handler = mws[k](handler)
			}
			inner := handler
			c.http[i] = http.HandlerFunc(func(w http.ResponseWriter, r *http.Request) {
				// tap: what is on the wire, before any middleware
				c.in[i] = wireIn{Seen: true, Trace: r.Header.Get(httpmw.TraceIDHeader), Parent: r.Header.Get(httpmw.ParentSpanIDHeader), RID: r.Header.Get(h.ridHeader())}
				inner.ServeHTTP(w, r)
			})
			if h.Wire {
				srv, err := startServer(c.http[i])
				if err != nil {
					panic(err.Error())
				}
				c.servers[i] = srv
			}
		case "unary":
			rt, opts := h.Trace.build(grpcOptionFuncs)
			c.rts[i] = rt
			ics := []grpc.UnaryServerInterceptor{grpcmw.UnaryServerTrace(opts...)}
			if h.RID != nil {
				rid := grpcmw.UnaryRequestID(h.RID.grpcOptions()...)
				if h.RIDOuter {
					ics = append([]grpc.UnaryServerInterceptor{rid}, ics...)
				} else {
					ics = append(ics, rid)
				}
			}
			c.unary[i] = ics
		default:
			rt, opts := h.Trace.build(grpcOptionFuncs)
			c.rts[i] = rt
			ics := []grpc.StreamServerInterceptor{grpcmw.StreamServerTrace(opts...)}
			if h.RID != nil {
				rid := grpcmw.StreamRequestID(h.RID.grpcOptions()...)
				if h.RIDOuter {
					ics = append([]grpc.StreamServerInterceptor{rid}, ics...)
				} else {
					ics = append(ics, rid)
				}
			}
			switch h.Canceler {
			case "inner":
				ics = append(ics, grpcmw.StreamCanceler(c.stopCtx()))
			case "outer":
				ics = append([]grpc.StreamServerInterceptor{grpcmw.StreamCanceler(c.stopCtx())}, ics...)
			}
			c.stream[i] = ics
		}
		if h.Proto != "http" && h.Wire {
			c.startGRPC(i)
		}
	}
	return c
}

// stopCtx is the shutdown context handed to StreamCanceler (cancelled by close).
func (c *chainRun) stopCtx() context.Context {
	ctx, cancel := context.WithCancel(context.Background())
	prev := c.stop
	c.stop = func() {
		cancel()
		if prev != nil {
			prev()
		}
	}
	return ctx
}

func (c *chainRun) close() {
	if c.stop != nil {
		c.stop()
	}
	for _, s := range c.servers {
		if s != nil {
			s.Close()
		}
	}
	for _, cc := range c.conns {
		if cc != nil {
			cc.Close()
		}
	}
	for _, s := range c.gsrv {
		if s != nil {
			s.Stop()
		}
	}
}

// record is the body of hop i's gRPC handler.
func (c *chainRun) record(i int, ctx context.Context) {
	c.obs[i].Calls++
	c.obs[i].Ctx = observeCtx(ctx)
	m, _ := metadata.FromIncomingContext(ctx)
	c.obs[i].MDRid = m.Get(grpcmw.RequestIDMetadataKey)
	c.callNext(i, ctx)
}

func (c *chainRun) tap(i int, ctx context.Context) {
	md, _ := metadata.FromIncomingContext(ctx)
	c.in[i] = wireIn{Seen: true, Trace: grpcmw.MetadataValue(md, grpcmw.TraceIDMetadataKey), Parent: grpcmw.MetadataValue(md, grpcmw.ParentSpanIDMetadataKey), RID: grpcmw.MetadataValue(md, grpcmw.RequestIDMetadataKey)}
}

// hopService is the service a real gRPC hop registers.
type hopService interface {
	call(ctx context.Context)
}

type wireHop struct {
	c *chainRun
	i int
}

func (w *wireHop) call(ctx context.Context) { w.c.record(w.i, ctx) }

const (
	wireUnaryMethod  = "/c19.Hop/Call"
	wireStreamMethod = "/c19.Hop/Watch"
)

var hopServiceDesc = grpc.ServiceDesc{
	ServiceName: "c19.Hop",
	HandlerType: (*hopService)(nil),
	Methods: []grpc.MethodDesc{{
		MethodName: "Call",
		Handler: func(srv any, ctx context.Context, dec func(any) error, interceptor grpc.UnaryServerInterceptor) (any, error) {
			in := new(emptypb.Empty)
			if err := dec(in); err != nil {
				return nil, err
			}
			h := func(ctx context.Context, req any) (any, error) {
				srv.(hopService).call(ctx)
				return &emptypb.Empty{}, nil
			}
			if interceptor == nil {
				return h(ctx, in)
			}
			return interceptor(ctx, in, &grpc.UnaryServerInfo{Server: srv, FullMethod: wireUnaryMethod}, h)
		},
	}},
	Streams: []grpc.StreamDesc{{
		StreamName:    "Watch",
		ServerStreams: true,
		Handler: func(srv any, stream grpc.ServerStream) error {
			if err := stream.RecvMsg(new(emptypb.Empty)); err != nil {
				return err
			}
			srv.(hopService).call(stream.Context())
			return stream.SendMsg(&emptypb.Empty{})
		},
	}},
}

// startGRPC runs hop i as a real gRPC server on an in-memory listener with
// the hop's interceptors, and dials it with the traced client interceptors.
func (c *chainRun) startGRPC(i int) {
	lis := bufconn.Listen(1 << 16)
	unary := append([]grpc.UnaryServerInterceptor{func(ctx context.Context, req any, info *grpc.UnaryServerInfo, handler grpc.UnaryHandler) (any, error) {
		c.tap(i, ctx)
		return handler(ctx, req)
	}}, c.unary[i]...)
	stream := append([]grpc.StreamServerInterceptor{func(srv any, ss grpc.ServerStream, info *grpc.StreamServerInfo, handler grpc.StreamHandler) error {
		c.tap(i, ss.Context())
		return handler(srv, ss)
	}}, c.stream[i]...)
	s := grpc.NewServer(grpc.ChainUnaryInterceptor(unary...), grpc.ChainStreamInterceptor(stream...))
	s.RegisterService(&hopServiceDesc, &wireHop{c, i})
	go s.Serve(lis) // nolint: errcheck
	c.gsrv[i] = s
	cc, err := grpc.NewClient("passthrough:///c19-hop",
		grpc.WithContextDialer(func(ctx context.Context, _ string) (net.Conn, error) { return lis.DialContext(ctx) }),
		grpc.WithTransportCredentials(insecure.NewCredentials()),
		grpc.WithUnaryInterceptor(grpcmw.UnaryClientTrace()),
		grpc.WithStreamInterceptor(grpcmw.StreamClientTrace()))
	if err != nil {
		c.errf("hop %d: dial: %v", i, err)
		return
	}
	c.conns[i] = cc
}

// callWire calls hop i over its real connection; the client interceptors
// installed on the connection do the propagation.
func (c *chainRun) callWire(i int, ctx context.Context) {
	cc := c.conns[i]
	if cc == nil {
		return
	}
	if c.hops[i].Proto == "unary" {
		if err := cc.Invoke(ctx, wireUnaryMethod, &emptypb.Empty{}, &emptypb.Empty{}); err != nil {
			c.errf("hop %d: Invoke: %v", i, err)
		}
		return
	}
	st, err := cc.NewStream(ctx, &grpc.StreamDesc{ServerStreams: true}, wireStreamMethod)
	if err != nil {
		c.errf("hop %d: NewStream: %v", i, err)
		return
	}
	if err := st.SendMsg(&emptypb.Empty{}); err != nil {
		c.errf("hop %d: SendMsg: %v", i, err)
		return
	}
	st.CloseSend() // nolint: errcheck
	for {
		if err := st.RecvMsg(new(emptypb.Empty)); err != nil {
			if err != io.EOF {
				c.errf("hop %d: RecvMsg: %v", i, err)
			}
			return
		}
	}
}

// serveGRPC delivers a gRPC request carrying the given metadata to hop i.
// The server context is a fresh one: nothing but the metadata crosses the wire.
func (c *chainRun) serveGRPC(i int, md metadata.MD) {
	h := c.hops[i]
	ctx := context.Background()
	if md != nil {
		ctx = metadata.NewIncomingContext(ctx, md)
	}
	c.tap(i, ctx)
	record := func(ctx context.Context) { c.record(i, ctx) }
	if h.Proto == "unary" {
		info := &grpc.UnaryServerInfo{FullMethod: h.Path}
		var handler grpc.UnaryHandler = func(ctx context.Context, req any) (any, error) {
			record(ctx)
			return "resp", nil
		}
		ics := c.unary[i]
		for k := len(ics) - 1; k >= 0; k-- {
			ic, next := ics[k], handler
			handler = func(ctx context.Context, req any) (any, error) { return ic(ctx, req, info, next) }
		}
		if resp, err := handler(ctx, "req"); err != nil || resp != "resp" {
			c.errf("hop %d: unary call returned (%v, %v)", i, resp, err)
		}
		return
	}
	info := &grpc.StreamServerInfo{FullMethod: h.Path, IsServerStream: true}
	var handler grpc.StreamHandler = func(srv any, ss grpc.ServerStream) error {
		record(ss.Context())
		return nil
	}
	ics := c.stream[i]
	for k := len(ics) - 1; k >= 0; k-- {
		ic, next := ics[k], handler
		handler = func(srv any, ss grpc.ServerStream) error { return ic(srv, ss, info, next) }
	}
	if err := handler("srv", &fakeServerStream{ctx: ctx}); err != nil {
		c.errf("hop %d: stream call returned %v", i, err)
	}
}

// directDoer hands a client request to the next hop's server stack in
// memory. Only method, URL and headers cross: the server request has its own
// context.
type directDoer struct {
	c *chainRun
	i int
}

func (d directDoer) Do(r *http.Request) (*http.Response, error) {
	sr := httptest.NewRequest(r.Method, r.URL.String(), nil)
	sr.Header = r.Header.Clone()
	rec := httptest.NewRecorder()
	d.c.http[d.i].ServeHTTP(rec, sr)
	return rec.Result(), nil
}

// callNext is what hop i's handler does: call hop i+1 through a traced client
// using the handler's own context.
func (c *chainRun) callNext(i int, ctx context.Context) {
	if i+1 >= len(c.hops) {
		return
	}
	h, next := c.hops[i], c.hops[i+1]
	ownRID, _ := ctx.Value(middleware.RequestIDKey).(string)
	switch next.Proto {
	case "http":
		base := "http://hop.example"
		var inner httpmw.Doer = directDoer{c, i + 1}
		if next.Wire {
			base = c.servers[i+1].URL
			inner = &http.Client{}
		}
		u := base + next.Path
		if next.Query != "" {
			u += "?" + next.Query
		}
		req, err := http.NewRequestWithContext(ctx, "GET", u, nil)
		if err != nil {
			c.errf("hop %d: %v", i, err)
			return
		}
		if h.Stale {
			req.Header.Set(httpmw.TraceIDHeader, staleTrace)
			req.Header.Set(httpmw.ParentSpanIDHeader, staleSpan)
		}
		if h.ForwardRID && ownRID != "" {
			req.Header.Set(next.ridHeader(), ownRID)
		}
		resp, err := httpmw.WrapDoer(inner).Do(req)
		if err != nil {
			c.errf("hop %d: traced Doer returned %v", i, err)
			return
		}
		b, _ := io.ReadAll(resp.Body)
		resp.Body.Close()
		if resp.StatusCode != http.StatusOK || string(b) != "ok" {
			c.errf("hop %d: response from hop %d is %d %q", i, i+1, resp.StatusCode, b)
		}
	default:
		out := metadata.MD{}
		if h.Stale {
			out.Set(grpcmw.TraceIDMetadataKey, staleTrace)
			out.Set(grpcmw.ParentSpanIDMetadataKey, staleSpan)
		}
		if h.ForwardRID && ownRID != "" {
			out.Set(grpcmw.RequestIDMetadataKey, ownRID)
		}
		if len(out) > 0 {
			ctx = metadata.NewOutgoingContext(ctx, out)
		}
		if next.Wire {
			c.callWire(i+1, ctx)
			return
		}
		deliver := func(ctx context.Context) {
			md, _ := metadata.FromOutgoingContext(ctx)
			c.serveGRPC(i+1, md)
		}
		if next.Proto == "unary" {
			err := grpcmw.UnaryClientTrace()(ctx, next.Path, "req", nil, nil, func(ctx context.Context, method string, req, reply any, cc *grpc.ClientConn, opts ...grpc.CallOption) error {
				if method != next.Path || req != "req" {
					c.errf("hop %d: client interceptor changed the call arguments", i)
				}
				deliver(ctx)
				return nil
			})
			if err != nil {
				c.errf("hop %d: unary client interceptor returned %v", i, err)
			}
		} else {
			_, err := grpcmw.StreamClientTrace()(ctx, &grpc.StreamDesc{ServerStreams: true}, nil, next.Path, func(ctx context.Context, desc *grpc.StreamDesc, cc *grpc.ClientConn, method string, opts ...grpc.CallOption) (grpc.ClientStream, error) {
				if method != next.Path {
					c.errf("hop %d: client interceptor changed the method", i)
				}
				deliver(ctx)
				return nil, nil
			})
			if err != nil {
				c.errf("hop %d: stream client interceptor returned %v", i, err)
			}
		}
	}
}

// start sends the first request of the chain to hop 0.
func (c *chainRun) start(first traceRequest, rid inbound) {
	h := c.hops[0]
	if h.Proto == "http" {
		base := "http://hop.example"
		var d httpmw.Doer = directDoer{c, 0}
		if h.Wire {
			base, d = c.servers[0].URL, &http.Client{}
		}
		u := base + h.Path
		if h.Query != "" {
			u += "?" + h.Query
		}
		req, _ := http.NewRequest("GET", u, nil)
		if first.Trace.Present {
			req.Header.Set(httpmw.TraceIDHeader, first.Trace.Value)
		}
		if first.Parent.Present {
			req.Header.Set(httpmw.ParentSpanIDHeader, first.Parent.Value)
		}
		if rid.Present {
			req.Header.Set(h.ridHeader(), rid.first())
		}
		resp, err := d.Do(req)
		if err != nil {
			c.errf("first request: %v", err)
			return
		}
		io.Copy(io.Discard, resp.Body) // nolint: errcheck
		resp.Body.Close()
		return
	}
	var md metadata.MD
	if first.Trace.Present || first.Parent.Present || rid.Present {
		md = metadata.MD{}
		if first.Trace.Present {
			md.Set(grpcmw.TraceIDMetadataKey, first.Trace.Value)
		}
		if first.Parent.Present {
			md.Set(grpcmw.ParentSpanIDMetadataKey, first.Parent.Value)
		}
		if rid.Present {
			md.Set(grpcmw.RequestIDMetadataKey, rid.first())
		}
	}
	if h.Wire {
		ctx := context.Background()
		if md != nil {
			ctx = metadata.NewOutgoingContext(ctx, md)
		}
		c.callWire(0, ctx)
		return
	}
	c.serveGRPC(0, md)
}

func hopSpecGen(t *rapid.T, i int, asciiRID string) hopSpec {
	label := fmt.Sprintf("hop%d.", i)
	h := hopSpec{}
	h.Proto = rapid.SampledFrom([]string{"http", "http", "unary", "stream"}).Draw(t, label+"proto")
	if h.Proto == "http" {
		h.Wire = rapid.IntRange(0, 5).Draw(t, label+"wire") == 0 && realSocket()
		h.Path = rapid.SampledFrom(httpPaths).Draw(t, label+"path")
		h.Query = rapid.SampledFrom(httpQueries).Draw(t, label+"query")
	} else {
		h.Path = rapid.SampledFrom(grpcMethods).Draw(t, label+"method")
		if rapid.IntRange(0, 9).Draw(t, label+"wire") == 0 {
			// a real gRPC server and connection: the method name is fixed by the registered service
			h.Wire = true
			h.Path = wireUnaryMethod
			if h.Proto == "stream" {
				h.Path = wireStreamMethod
			}
		}
	}
	h.Trace = traceSpecGen(t, label)
	if i > 0 && rapid.Bool().Draw(t, label+"hostile") {
		// later hops: configurations that would never start a trace on their
		// own, to show that an inbound trace ID overrides them
		if rapid.Bool().Draw(t, label+"hostileKind") {
			h.Trace.Sampling, h.Trace.Percent = "percent", 0
			h.Trace.Order = nil
		} else {
			h.Trace.Discards = append(h.Trace.Discards, `^/`)
			h.Trace.Order = nil
		}
	}
	if rapid.IntRange(0, 2).Draw(t, label+"hasRID") > 0 {
		limit, _ := limitFor(t, asciiRID)
		cfg := ridConfigGen(t, h.Proto == "http", limit)
		h.RID = &cfg
		h.RIDOuter = rapid.Bool().Draw(t, label+"ridOuter")
	}
	h.Stale = rapid.IntRange(0, 3).Draw(t, label+"stale") == 0
	h.ForwardRID = rapid.Bool().Draw(t, label+"forwardRID")
	if h.Proto == "stream" {
		h.Canceler = rapid.SampledFrom([]string{"", "", "inner", "outer"}).Draw(t, label+"canceler")
	}
	return h
}

// TestChain: call chains of depth 1-4. Every hop is a traced server (HTTP,
// gRPC unary or gRPC stream, optionally behind a request-ID middleware) whose
// handler calls the next hop through a traced client (WrapDoer,
// UnaryClientTrace, StreamClientTrace) with its own context.
func TestChain(t *testing.T) {
	rapid.Check(t, func(t *rapid.T) {
		depth := rapid.SampledFrom([]int{1, 2, 2, 3, 3, 4, 4}).Draw(t, "depth")
		first := traceRequestGen(t, "grpc")
		first.Path = ""
		// first-hop request ID: printable ASCII so that it is a legal header on a real connection
		rid := inboundGen(true).Draw(t, "firstRID")
		if len(rid.Values) > 1 {
			rid.Values = rid.Values[:1]
		}
		hops := make([]hopSpec, depth)
		for i := range hops {
			hops[i] = hopSpecGen(t, i, rid.first())
		}
		c := newChainRun(hops)
		defer c.close()
		c.start(first, rid)

		nontrivial := depth >= 2
		for i, h := range hops {
			if h.RID != nil && ridNontrivial(*h.RID, c.in[i].RID) {
				nontrivial = true
			}
		}
		key := fmt.Sprintf("chain|%+v|%q", first, rid.Values)
		for _, h := range hops {
			key += "|" + h.key()
		}
		stats.CaseSample(key, nontrivial, map[string]any{"test": "chain", "depth": depth, "first": first, "first_request_id": rid.Values, "hops": hops})
		stats.Class(fmt.Sprintf("chain-depth:%d", depth))

		for _, e := range c.errs {
			t.Fatalf("chain %+v: %s", hops, e)
		}
		for i, h := range hops {
			o, in := c.obs[i], c.in[i]
			stats.Class("chain-hop:" + h.Proto)
			if h.Canceler != "" {
				stats.Class("chain-hop:stream-canceler-" + h.Canceler)
			}
			if h.Wire {
				stats.Class("chain-hop:" + h.Proto + "-wire")
			}
			if !in.Seen || o.Calls != 1 {
				t.Fatalf("hop %d (%s): reached=%v handler calls=%d, want exactly one", i, h.Proto, in.Seen, o.Calls)
			}
			// --- the traced client of the previous hop
			if i > 0 {
				prev := c.obs[i-1].Ctx
				if prev.traced() {
					// "sets the trace headers so that the downstream service may
					// properly retrieve the parent span ID and trace ID"
					if in.Trace != prev.Trace.(string) || in.Parent != prev.Span.(string) {
						t.Fatalf("hop %d -> %d (%s): the caller's context has trace=%q span=%q but the wire carries trace=%q parent=%q (stale preset=%v)", i-1, i, h.Proto, prev.Trace, prev.Span, in.Trace, in.Parent, hops[i-1].Stale)
					}
					stats.Class("chain-client:forwarded")
					if hops[i-1].Stale {
						stats.Class("chain-client:stale-overwritten")
					}
				} else {
					stats.Class("chain-client:untraced-caller")
				}
			}
			// --- the traced server of this hop, given what is on the wire
			class, p := c.rts[i].checkTraceObs(h.Path, wireTrace{Trace: in.Trace, Parent: in.Parent}, o.Ctx, 0, 0)
			stats.Class("chain-trace:" + class)
			if p != "" {
				t.Fatalf("hop %d (%s, options %+v, wire %+v): %s", i, h.Proto, h.Trace, in, p)
			}
			// --- end to end: one trace, each hop's parent is the previous hop's span
			if i > 0 && c.obs[i-1].Ctx.traced() {
				prev := c.obs[i-1].Ctx
				if o.Ctx.Trace != prev.Trace {
					t.Fatalf("hop %d: trace ID %v differs from the caller's trace ID %v", i, o.Ctx.Trace, prev.Trace)
				}
				if o.Ctx.Parent != prev.Span {
					t.Fatalf("hop %d: parent span %v is not the caller's span %v", i, o.Ctx.Parent, prev.Span)
				}
				for k := 0; k < i; k++ {
					if c.obs[k].Ctx.Span == o.Ctx.Span {
						t.Fatalf("hop %d: span %v was already used by hop %d", i, o.Ctx.Span, k)
					}
				}
			}
			// --- request ID
			if h.RID != nil {
				stats.Class(ridClass(*h.RID, in.RID))
				if p := checkRequestID(*h.RID, in.RID, o.Ctx.ReqID); p != "" {
					t.Fatalf("hop %d (%s, request-ID options %+v, wire value %q): %s", i, h.Proto, h.RID.Opts, in.RID, p)
				}
				if h.Proto != "http" && (len(o.MDRid) == 0 || o.MDRid[0] != o.Ctx.ReqID.(string)) {
					t.Fatalf("hop %d (%s): incoming metadata x-request-id = %q, context request ID = %q", i, h.Proto, o.MDRid, o.Ctx.ReqID)
				}
			}
		}
		if depth >= 2 && c.obs[0].Ctx.traced() {
			last := c.obs[depth-1].Ctx
			if last.Trace != c.obs[0].Ctx.Trace {
				t.Fatalf("the chain does not share one trace: hop 0 has %v, hop %d has %v", c.obs[0].Ctx.Trace, depth-1, last.Trace)
			}
			stats.Class("chain:one-trace-end-to-end")
		}
	})
}
