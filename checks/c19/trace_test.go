package c19

import (
	"context"
	"fmt"
	"net/http"
	"net/http/httptest"
	"os"
	"strings"
	"testing"

	grpcmw "goa.design/goa/v3/grpc/middleware"
	httpmw "goa.design/goa/v3/http/middleware"
	"goa.design/goa/v3/middleware"
	"google.golang.org/grpc"
	"google.golang.org/grpc/metadata"
	"pgregory.net/rapid"

	"verif/internal/stats"
)

var (
	httpOptionFuncs = optionFuncs{httpmw.TraceIDFunc, httpmw.SpanIDFunc, httpmw.SamplingPercent, httpmw.MaxSamplingRate, httpmw.SampleSize, httpmw.DiscardFromTrace}
	grpcOptionFuncs = optionFuncs{grpcmw.TraceIDFunc, grpcmw.SpanIDFunc, grpcmw.SamplingPercent, grpcmw.MaxSamplingRate, grpcmw.SampleSize, grpcmw.DiscardFromTrace}
	coreOptionFuncs = optionFuncs{middleware.TraceIDFunc, middleware.SpanIDFunc, middleware.SamplingPercent, middleware.MaxSamplingRate, middleware.SampleSize, middleware.DiscardFromTrace}
)

// traceRequest is one request sent to a traced server.
type traceRequest struct {
	Path   string // URL path (HTTP) or full method (gRPC)
	Query  string
	Trace  inboundOne
	Parent inboundOne
}

// inboundOne is a single-valued header: absent, empty or a value.
type inboundOne struct {
	Present bool
	Value   string
}

func traceRequestGen(t *rapid.T, proto string) traceRequest {
	var r traceRequest
	if proto == "http" {
		r.Path = rapid.SampledFrom(httpPaths).Draw(t, "path")
		r.Query = rapid.SampledFrom(httpQueries).Draw(t, "query")
	} else {
		r.Path = rapid.SampledFrom(grpcMethods).Draw(t, "method")
	}
	switch rapid.SampledFrom([]string{"none", "none", "trace+parent", "trace+parent", "trace-only", "empty-trace", "stray-parent", "trace+empty-parent"}).Draw(t, "inboundTrace") {
	case "trace+parent":
		r.Trace = inboundOne{true, "t-" + rapid.StringOfN(rapid.SampledFrom(asciiRunes), 1, 12, -1).Draw(t, "traceV")}
		r.Parent = inboundOne{true, "p-" + rapid.StringOfN(rapid.SampledFrom(asciiRunes), 1, 12, -1).Draw(t, "parentV")}
	case "trace-only":
		r.Trace = inboundOne{true, "t-" + rapid.StringOfN(rapid.SampledFrom(asciiRunes), 1, 12, -1).Draw(t, "traceV")}
	case "empty-trace":
		r.Trace = inboundOne{true, ""}
	case "stray-parent":
		// a parent span without a trace ID: no traced client sends this; only
		// the trace/span clauses are asserted for it
		r.Parent = inboundOne{true, "p-" + rapid.StringOfN(rapid.SampledFrom(asciiRunes), 1, 12, -1).Draw(t, "parentV")}
	case "trace+empty-parent":
		r.Trace = inboundOne{true, "t-" + rapid.StringOfN(rapid.SampledFrom(asciiRunes), 1, 12, -1).Draw(t, "traceV")}
		r.Parent = inboundOne{true, ""}
	}
	return r
}

func (r traceRequest) wire() wireTrace {
	return wireTrace{Trace: r.Trace.Value, Parent: r.Parent.Value}
}

// traceServer sends requests through one instance of a trace middleware.
type traceServer struct {
	proto string
	rt    *traceRT
	send  func(r traceRequest) (calls int, o ctxObs)
}

func newTraceServer(proto string, spec traceSpec) *traceServer {
	ts := &traceServer{proto: proto}
	switch proto {
	case "http":
		rt, opts := spec.build(httpOptionFuncs)
		ts.rt = rt
		var (
			calls int
			o     ctxObs
		)
		h := httpmw.Trace(opts...)(http.HandlerFunc(func(w http.ResponseWriter, r *http.Request) {
			calls++
			o = observeCtx(r.Context())
			w.WriteHeader(http.StatusAccepted)
		}))
		ts.send = func(r traceRequest) (int, ctxObs) {
			calls, o = 0, ctxObs{}
			u := "http://example.com" + r.Path
			if r.Query != "" {
				u += "?" + r.Query
			}
			req := httptest.NewRequest("GET", u, nil)
			if r.Trace.Present {
				req.Header.Set(httpmw.TraceIDHeader, r.Trace.Value)
			}
			if r.Parent.Present {
				req.Header.Set(httpmw.ParentSpanIDHeader, r.Parent.Value)
			}
			rec := httptest.NewRecorder()
			h.ServeHTTP(rec, req)
			if rec.Code != http.StatusAccepted {
				calls += 1000 // the handler's response did not reach the caller's writer
			}
			return calls, o
		}
	case "unary":
		rt, opts := spec.build(grpcOptionFuncs)
		ts.rt = rt
		ic := grpcmw.UnaryServerTrace(opts...)
		ts.send = func(r traceRequest) (int, ctxObs) {
			var (
				calls int
				o     ctxObs
			)
			ctx := grpcIncoming(r)
			req := &struct{ n int }{7}
			resp, err := ic(ctx, req, &grpc.UnaryServerInfo{FullMethod: r.Path}, func(ctx context.Context, got any) (any, error) {
				calls++
				o = observeCtx(ctx)
				if got != any(req) {
					calls += 100
				}
				return "resp", nil
			})
			if err != nil || resp != "resp" {
				calls += 1000
			}
			return calls, o
		}
	default:
		rt, opts := spec.build(grpcOptionFuncs)
		ts.rt = rt
		ic := grpcmw.StreamServerTrace(opts...)
		ts.send = func(r traceRequest) (int, ctxObs) {
			var (
				calls int
				o     ctxObs
			)
			err := ic("srv", &fakeServerStream{ctx: grpcIncoming(r)}, &grpc.StreamServerInfo{FullMethod: r.Path}, func(srv any, ss grpc.ServerStream) error {
				calls++
				o = observeCtx(ss.Context())
				if srv != "srv" {
					calls += 100
				}
				return nil
			})
			if err != nil {
				calls += 1000
			}
			return calls, o
		}
	}
	return ts
}

func grpcIncoming(r traceRequest) context.Context {
	ctx := context.Background()
	if !r.Trace.Present && !r.Parent.Present {
		return ctx // no metadata at all
	}
	md := metadata.MD{}
	if r.Trace.Present {
		md.Set(grpcmw.TraceIDMetadataKey, r.Trace.Value)
	}
	if r.Parent.Present {
		md.Set(grpcmw.ParentSpanIDMetadataKey, r.Parent.Value)
	}
	return metadata.NewIncomingContext(ctx, md)
}

// TestTraceServer: trace option lists x request sequences x HTTP / gRPC
// unary / gRPC stream through one middleware instance per case.
func TestTraceServer(t *testing.T) {
	rapid.Check(t, func(t *rapid.T) {
		proto := rapid.SampledFrom([]string{"http", "unary", "stream"}).Draw(t, "proto")
		spec := traceSpecGen(t, "")
		ts := newTraceServer(proto, spec)
		n := rapid.IntRange(1, 5).Draw(t, "nRequests")
		stats.Class("trace-proto:" + proto)
		stats.Class("trace-sampling:" + spec.Sampling)
		for i := 0; i < n; i++ {
			r := traceRequestGen(t, proto)
			it, is := ts.rt.issued()
			calls, o := ts.send(r)
			key := fmt.Sprintf("trace|%s|%+v|%d|%+v", proto, spec, i, r)
			stats.CaseSample(key, false, map[string]any{"test": "trace-server", "proto": proto, "options": spec, "request": r})
			if calls != 1 {
				t.Fatalf("request %d: handler call bookkeeping = %d, want exactly one call with the original arguments and response", i, calls)
			}
			class, p := ts.rt.checkTraceObs(r.Path, r.wire(), o, it, is)
			stats.Class("trace:" + class)
			if p != "" {
				t.Fatalf("request %d (%s, options %+v, request %+v): %s", i, proto, spec, r, p)
			}
		}
	})
}

func tierDraws(quick, thorough int) int {
	if os.Getenv("VERIF_TIER") == "thorough" {
		return thorough
	}
	return quick
}

// TestSamplingExact: SamplingPercent(0) never samples, SamplingPercent(100)
// and the default always sample, over >= 10^4 requests per case and
// variant; an inbound trace ID is traced whatever the percentage. The
// adaptive sampler samples everything before the sample size is reached.
func TestSamplingExact(t *testing.T) {
	n := tierDraws(10000, 200000)
	for _, proto := range []string{"sampler", "http", "unary", "stream"} {
		for _, c := range []struct {
			name string
			spec traceSpec
			want bool
		}{
			{"percent-0", traceSpec{Sampling: "percent", Percent: 0}, false},
			{"percent-100", traceSpec{Sampling: "percent", Percent: 100}, true},
			{"default", traceSpec{Sampling: "default"}, true},
			// SampleSize without MaxSamplingRate changes nothing
			{"percent-0+size", traceSpec{Sampling: "percent+size", Percent: 0, Size: 1000}, false},
			{"percent-100+size", traceSpec{Sampling: "percent+size", Percent: 100, Size: 1}, true},
		} {
			stats.CaseSample(fmt.Sprintf("sampling|%s|%s", proto, c.name), false, map[string]any{"test": "sampling-exact", "variant": proto, "case": c.name, "draws": n})
			stats.ClassN("sampling-draws:"+c.name, int64(n))
			if proto == "sampler" {
				_, opts := c.spec.build(coreOptionFuncs)
				s := middleware.NewTraceOptions(opts...).NewSampler()
				for i := 0; i < n; i++ {
					if got := s.Sample(); got != c.want {
						t.Fatalf("sampler %s: draw %d: Sample() = %v", c.name, i, got)
					}
				}
				continue
			}
			ts := newTraceServer(proto, c.spec)
			path := "/pkg.Svc/Get"
			if proto == "http" {
				path = "/api/v1/users/42"
			}
			for i := 0; i < n; i++ {
				calls, o := ts.send(traceRequest{Path: path})
				if calls != 1 || o.traced() != c.want {
					t.Fatalf("%s %s: request %d: calls=%d traced=%v, want traced=%v", proto, c.name, i, calls, o.traced(), c.want)
				}
				if c.want {
					if p := checkFresh("generated trace ID", o.Trace.(string)); p != "" {
						t.Fatalf("%s %s: request %d: %s", proto, c.name, i, p)
					}
				}
			}
			if strings.HasPrefix(c.name, "percent-0") {
				// an inbound trace ID bypasses sampling
				for i := 0; i < n/10; i++ {
					in := fmt.Sprintf("in-%d", i)
					_, o := ts.send(traceRequest{Path: path, Trace: inboundOne{true, in}})
					if o.Trace != any(in) {
						t.Fatalf("%s percent-0: inbound trace ID %q not kept: %v", proto, in, o.Trace)
					}
				}
			}
		}
		// in-between percentages: no exact claim, only that both outcomes are well-formed
		if proto != "sampler" {
			ts := newTraceServer(proto, traceSpec{Sampling: "percent", Percent: 50})
			k := 0
			for i := 0; i < 2000; i++ {
				_, o := ts.send(traceRequest{Path: "/x"})
				if o.traced() {
					k++
				}
			}
			stats.Note("sampling 50%% on %s: %d of 2000 requests traced (no assertion)", proto, k)
		}
	}
	// NewFixedSampler directly
	for _, p := range []int{0, 100} {
		s := middleware.NewFixedSampler(p)
		for i := 0; i < n; i++ {
			if s.Sample() != (p == 100) {
				t.Fatalf("NewFixedSampler(%d): draw %d: Sample() = %v", p, i, p != 100)
			}
		}
		stats.Case(fmt.Sprintf("sampling|fixed|%d", p), false)
		stats.ClassN("sampling-draws:fixed", int64(n))
	}
	// adaptive sampler, documented bound: everything is sampled until the
	// sample size is reached for the first time
	for _, rate := range []int{1, 2, 50, 1000000} {
		for _, size := range []int{1, 2, 3, 10, 100, 1000} {
			s := middleware.NewAdaptiveSampler(rate, size)
			for i := 1; i <= size-1; i++ {
				if !s.Sample() {
					t.Fatalf("NewAdaptiveSampler(%d,%d): call %d returned false before the sample size was reached", rate, size, i)
				}
			}
			// later calls may go either way; they must not panic
			for i := 0; i < 3*size; i++ {
				s.Sample()
			}
			stats.Case(fmt.Sprintf("sampling|adaptive|%d|%d", rate, size), false)
			for _, proto := range []string{"http", "unary", "stream"} {
				ts := newTraceServer(proto, traceSpec{Sampling: "adaptive+size", Rate: rate, Size: size})
				for i := 1; i <= size-1; i++ {
					if _, o := ts.send(traceRequest{Path: "/pkg.Svc/Get"}); !o.traced() {
						t.Fatalf("%s MaxSamplingRate(%d) SampleSize(%d): request %d not traced before the sample size was reached", proto, rate, size, i)
					}
				}
				stats.Case(fmt.Sprintf("sampling|adaptive|%s|%d|%d", proto, rate, size), false)
			}
		}
	}
	// Observation only, never asserted (the property statement says nothing
	// about the adaptive sampler beyond what is checked above, and the outcome
	// depends on the clock): how many of 2000 back-to-back requests are traced
	// with MaxSamplingRate(1) + SampleSize(2). See NOTES.md, "gRPC adaptive
	// sampler".
	for _, proto := range []string{"http", "unary", "stream"} {
		ts := newTraceServer(proto, traceSpec{Sampling: "adaptive+size", Rate: 1, Size: 2})
		k := 0
		for i := 0; i < 2000; i++ {
			if _, o := ts.send(traceRequest{Path: "/pkg.Svc/Get"}); o.traced() {
				k++
			}
		}
		stats.Note("MaxSamplingRate(1)+SampleSize(2) on %s: %d of 2000 back-to-back requests traced (observation, no assertion)", proto, k)
	}
	stats.Exhaustive("sampling: percentages {0,100,default} x {sampler, HTTP, gRPC unary, gRPC stream}")
}
