package c19

import (
	"fmt"
	"net"
	"net/http"
	"net/http/httptest"
	"sync/atomic"
	"time"
)

// Real sockets are a finite resource: every short-lived server leaves a
// connection in TIME_WAIT, and a long run (or a busy machine) can exhaust the
// ephemeral ports, which has nothing to do with the property. Each test process
// therefore spends a budget of real servers and plays the remaining cases
// in memory; opening a listener is retried, and a lasting failure is reported as
// inconclusive, never as a violation.
var socketBudget int64 = 800

// realSocket reports whether this case may still use a real server.
func realSocket() bool { return atomic.AddInt64(&socketBudget, -1) >= 0 }

// startServer is httptest.NewServer with a retried listener.
func startServer(h http.Handler) (*httptest.Server, error) {
	var lastErr error
	for try := 0; try < 100; try++ {
		l, err := net.Listen("tcp", "127.0.0.1:0")
		if err == nil {
			s := &httptest.Server{Listener: l, Config: &http.Server{Handler: h}}
			s.Start()
			return s, nil
		}
		lastErr = err
		time.Sleep(100 * time.Millisecond)
	}
	return nil, fmt.Errorf("INCONCLUSIVE: cannot open a listener: %v", lastErr)
}
