// Package c19 decides property C19: request-ID and trace middlewares
// propagate identifiers end to end (HTTP and gRPC), sampling at 0 and 100 is
// exact, and ResponseCapture reports what was actually written.
//
// This file holds what the individual tests share: the reference model of the
// documented option forms, value generators, the observation of a handler's
// context and the bookkeeping for "fresh" identifiers.
package c19

import (
	"context"
	"fmt"
	"regexp"
	"strings"
	"sync"
	"sync/atomic"
	"testing"
	"unicode/utf8"

	"goa.design/goa/v3/middleware"
	"pgregory.net/rapid"

	"verif/internal/stats"
)

func TestMain(m *testing.M) { stats.Main(m) }

// ---------------------------------------------------------------- fresh identifiers

// freshWindow remembers the identifiers goa generated itself. A fresh
// identifier must be non-empty and must not repeat. goa's identifiers carry
// 48 random bits, so the comparison is made inside windows of 1000
// identifiers (collision probability per window < 2e-9): enough to notice a
// generator that repeats, small enough never to raise a birthday false alarm.
type freshWindow struct {
	mu sync.Mutex
	m  map[string]struct{}
}

var fresh = &freshWindow{m: map[string]struct{}{}}

// add reports whether id was already handed out inside the current window.
func (f *freshWindow) add(id string) (dup bool) {
	f.mu.Lock()
	defer f.mu.Unlock()
	if _, ok := f.m[id]; ok {
		return true
	}
	if len(f.m) >= 1000 {
		f.m = map[string]struct{}{}
	}
	f.m[id] = struct{}{}
	return false
}

// checkFresh returns a non-empty description if id is not acceptable as a
// freshly generated identifier.
func checkFresh(what, id string) string {
	if id == "" {
		return what + " is empty"
	}
	if fresh.add(id) {
		return fmt.Sprintf("%s %q was already handed out to an earlier request (not fresh)", what, id)
	}
	return ""
}

// ---------------------------------------------------------------- value generators

var (
	asciiRunes = []rune("abcdefghXYZ0123456789-_.:/=+~")
	wideRunes  = []rune("éßжλ日本語€😀𝄞")
	mixedRunes = append(append([]rune{}, asciiRunes...), wideRunes...)
	b64Runes   = []rune("ABCDEFGHIJKLMNOPQRSTUVWXYZabcdefghijklmnopqrstuvwxyz0123456789-_")
)

// inbound is one inbound header / metadata value.
type inbound struct {
	Present bool
	// Values are the values sent under the key; the middleware documents that
	// it looks at the first one (http.Header.Get, MetadataValue).
	Values []string
	Class  string
}

// first is the value the middleware is documented to look at.
func (in inbound) first() string {
	if !in.Present || len(in.Values) == 0 {
		return ""
	}
	return in.Values[0]
}

// inboundGen draws header/metadata values: absent, empty, short and long
// ASCII, multi-byte UTF-8, a value that looks like one of goa's own IDs,
// several values under one key.
func inboundGen(asciiOnly bool) *rapid.Generator[inbound] {
	return rapid.Custom(func(t *rapid.T) inbound {
		classes := []string{"absent", "empty", "ascii-short", "ascii-short", "ascii-short", "ascii-long", "ascii-long", "multibyte", "multibyte", "multibyte", "multibyte", "looks-fresh", "multi-value", "multi-value", "empty-then-value"}
		c := rapid.SampledFrom(classes).Draw(t, "inboundClass")
		if asciiOnly && c == "multibyte" {
			c = "ascii-short"
		}
		in := inbound{Present: true, Class: c}
		switch c {
		case "absent":
			in.Present = false
		case "empty":
			in.Values = []string{""}
		case "ascii-short":
			in.Values = []string{rapid.StringOfN(rapid.SampledFrom(asciiRunes), 1, 16, -1).Draw(t, "v")}
		case "ascii-long":
			in.Values = []string{rapid.StringOfN(rapid.SampledFrom(asciiRunes), 17, 300, -1).Draw(t, "v")}
		case "multibyte":
			v := rapid.StringOfN(rapid.SampledFrom(mixedRunes), 1, 24, -1).Draw(t, "v")
			if len(v) == utf8.RuneCountInString(v) {
				// make sure there is at least one wide rune
				v += string(rapid.SampledFrom(wideRunes).Draw(t, "wide"))
			}
			in.Values = []string{v}
		case "looks-fresh":
			in.Values = []string{rapid.StringOfN(rapid.SampledFrom(b64Runes), 8, 8, -1).Draw(t, "v")}
		case "multi-value":
			in.Values = []string{
				rapid.StringOfN(rapid.SampledFrom(asciiRunes), 1, 16, -1).Draw(t, "v"),
				rapid.StringOfN(rapid.SampledFrom(asciiRunes), 1, 16, -1).Draw(t, "v2"),
			}
		case "empty-then-value":
			in.Values = []string{"", rapid.StringOfN(rapid.SampledFrom(asciiRunes), 1, 16, -1).Draw(t, "v2")}
		}
		return in
	})
}

// limitFor draws a length limit placed relative to the byte length of v:
// no limit (0, negative), far below, one below, equal, one above, inside a
// multi-byte rune, far above.
func limitFor(t *rapid.T, v string) (int, string) {
	l := len(v)
	kinds := []string{"zero", "lenMinus1", "len", "lenPlus1", "lenPlus1", "one", "random", "random", "huge", "negative"}
	// positions that fall inside a multi-byte rune
	var inside []int
	for i := 1; i < l; i++ {
		if !utf8.RuneStart(v[i]) {
			inside = append(inside, i)
		}
	}
	if len(inside) > 0 {
		kinds = append(kinds, "insideRune", "insideRune", "insideRune", "insideRune", "insideRune", "insideRune")
	}
	switch k := rapid.SampledFrom(kinds).Draw(t, "limitKind"); k {
	case "zero":
		return 0, k
	case "negative":
		return -rapid.IntRange(1, 5).Draw(t, "neg"), k
	case "lenMinus1":
		return l - 1, k
	case "len":
		return l, k
	case "lenPlus1":
		return l + 1, k
	case "one":
		return 1, k
	case "huge":
		return rapid.SampledFrom([]int{128, 1024, 1 << 30}).Draw(t, "hugeLimit"), k
	case "insideRune":
		return rapid.SampledFrom(inside).Draw(t, "cut"), k
	default:
		return rapid.IntRange(1, 2*l+2).Draw(t, "limit"), k
	}
}

// ---------------------------------------------------------------- request-ID reference model

// ridOpt is one request-ID option in the order given to the middleware.
type ridOpt struct {
	Kind string // "use" (UseXRequestIDHeaderOption / UseXRequestIDMetadataOption / UseRequestIDOption), "limit", "custom" (RequestIDHeaderOption)
	B    bool
	N    int
	Name string
}

// ridConfig is an option list in one of the documented, non-conflicting forms
// together with what the documentation says it means.
type ridConfig struct {
	Form string
	Opts []ridOpt
	// reference semantics
	Trust  bool   // the middleware is configured to use the inbound value
	Header string // HTTP header consulted when Trust (canonical X-Request-Id unless a custom name is given)
	Limit  int    // > 0: truncate at that length; otherwise no limit
}

var customHeaders = []string{"Custom-Id", "custom-id", "X-Correlation-ID", "REQID", "X-B3-Traceid"}

// ridConfigGen draws an option list. allowCustom is true for the HTTP
// middleware and for middleware.GenerateRequestID; the gRPC package documents
// no custom key option. limitOf supplies a limit once the caller knows the
// inbound value the limit should be placed around.
func ridConfigGen(t *rapid.T, allowCustom bool, limit int) ridConfig {
	forms := []string{"none", "use-true", "use-true", "use-false", "use-true+limit", "use-true+limit", "use-true+limit", "limit+use-true", "limit-only", "use-false+limit"}
	if allowCustom {
		forms = append(forms, "custom", "custom+limit", "custom+limit", "limit+custom")
	}
	f := rapid.SampledFrom(forms).Draw(t, "ridForm")
	c := ridConfig{Form: f, Header: "X-Request-Id"}
	name := ""
	if strings.Contains(f, "custom") {
		name = rapid.SampledFrom(customHeaders).Draw(t, "customHeader")
	}
	switch f {
	case "none":
	case "use-true":
		c.Opts = []ridOpt{{Kind: "use", B: true}}
		c.Trust = true
	case "use-false":
		c.Opts = []ridOpt{{Kind: "use", B: false}}
	case "use-true+limit":
		c.Opts = []ridOpt{{Kind: "use", B: true}, {Kind: "limit", N: limit}}
		c.Trust, c.Limit = true, limit
	case "limit+use-true":
		c.Opts = []ridOpt{{Kind: "limit", N: limit}, {Kind: "use", B: true}}
		c.Trust, c.Limit = true, limit
	case "limit-only":
		// "The default behavior is to always generate a new ID": a limit alone does not enable the header
		c.Opts = []ridOpt{{Kind: "limit", N: limit}}
		c.Limit = limit
	case "use-false+limit":
		c.Opts = []ridOpt{{Kind: "use", B: false}, {Kind: "limit", N: limit}}
		c.Limit = limit
	case "custom":
		c.Opts = []ridOpt{{Kind: "custom", Name: name}}
		c.Trust, c.Header = true, name
	case "custom+limit":
		c.Opts = []ridOpt{{Kind: "custom", Name: name}, {Kind: "limit", N: limit}}
		c.Trust, c.Header, c.Limit = true, name, limit
	case "limit+custom":
		c.Opts = []ridOpt{{Kind: "limit", N: limit}, {Kind: "custom", Name: name}}
		c.Trust, c.Header, c.Limit = true, name, limit
	}
	return c
}

// truncations returns the results the phrase "the inbound value truncated to
// the configured limit" admits: the first limit bytes, the first limit
// runes, or the longest prefix of whole runes that fits in limit bytes. For
// ASCII values the three coincide.
func truncations(in string, limit int) []string {
	if limit <= 0 || len(in) <= limit {
		return []string{in}
	}
	out := []string{in[:limit]}
	// first limit runes
	n, cut := 0, len(in)
	for i := range in {
		if n == limit {
			cut = i
			break
		}
		n++
	}
	out = append(out, in[:cut])
	// longest rune-aligned prefix within limit bytes
	cut = limit
	for cut > 0 && !utf8.RuneStart(in[cut]) {
		cut--
	}
	out = append(out, in[:cut])
	return out
}

// checkRequestID compares the ID a handler saw with the reference model.
// value is the inbound value the middleware is documented to look at ("" =
// absent or empty). It returns a description of the disagreement or "".
func checkRequestID(c ridConfig, value string, got any) string {
	id, ok := got.(string)
	if !ok {
		return fmt.Sprintf("context value under RequestIDKey is %T(%v), want a string", got, got)
	}
	if id == "" {
		return "request ID in the context is empty"
	}
	if c.Trust && value != "" {
		for _, w := range truncations(value, c.Limit) {
			if id == w {
				return ""
			}
		}
		return fmt.Sprintf("trusted inbound value %q with limit %d: got request ID %q, want the inbound value truncated to the limit (%q)", value, c.Limit, id, truncations(value, c.Limit)[0])
	}
	// fresh identifier
	if value != "" && id == value {
		return fmt.Sprintf("the middleware is not configured to trust the inbound value but the request ID is the inbound value %q", value)
	}
	return checkFresh("generated request ID", id)
}

// ridNontrivial implements the non-triviality rule for request-ID cases:
// limit boundary (len == limit, len == limit+1, cut inside a multi-byte rune)
// or trusted-and-truncated.
func ridNontrivial(c ridConfig, value string) bool {
	if !c.Trust || value == "" || c.Limit <= 0 {
		return false
	}
	l := len(value)
	if l > c.Limit {
		return true // trusted and truncated (includes limit+1 and cuts inside a rune)
	}
	return l == c.Limit
}

func ridClass(c ridConfig, value string) string {
	switch {
	case !c.Trust:
		return "rid:untrusted"
	case value == "":
		return "rid:trusted-absent"
	case c.Limit <= 0:
		return "rid:trusted-nolimit"
	case len(value) < c.Limit:
		return "rid:trusted-shorter"
	case len(value) == c.Limit:
		return "rid:trusted-equal"
	case len(value) == c.Limit+1:
		return "rid:trusted-limit+1"
	case !utf8.RuneStart(value[c.Limit]):
		return "rid:trusted-cut-inside-rune"
	default:
		return "rid:trusted-truncated"
	}
}

// ---------------------------------------------------------------- trace reference model

// traceSpec is a trace option list in a documented, non-conflicting form.
type traceSpec struct {
	CustomIDs bool   // TraceIDFunc + SpanIDFunc given
	Sampling  string // "default", "percent", "adaptive" (MaxSamplingRate), "adaptive+size" (MaxSamplingRate + SampleSize)
	Percent   int
	Rate      int
	Size      int
	Discards  []string
	Order     []int // permutation applied to the option list
}

var discardPool = []string{
	`^/healthz$`, `/livez`, `^/admin/`, `(?i)^/HEALTHZ`, `ping$`, `/healthz|/livez`,
	`^/grpc\.health\.v1\.Health/`, `Check$`, `^/pkg\.Admin/`, `^$`, `^/api/v[0-9]+/users/[0-9]+$`,
}

var httpPaths = []string{"/", "/healthz", "/livez", "/healthz/deep", "/HEALTHZ", "/api/v1/users/42", "/api/v1/users/x", "/admin/metrics", "/svc/ping", "/ping/svc", "/x/livez/y"}
var httpQueries = []string{"", "", "x=1", "probe=/healthz", "next=/admin/", "q=ping"}
var grpcMethods = []string{"/pkg.Svc/Get", "/pkg.Svc/ping", "/grpc.health.v1.Health/Check", "/grpc.health.v1.Health/Watch", "/pkg.Admin/Metrics", "/pkg.Svc/livez", "/pkg.Svc/Check"}

func traceSpecGen(t *rapid.T, label string) traceSpec {
	s := traceSpec{}
	s.CustomIDs = rapid.Bool().Draw(t, label+"customIDs")
	s.Sampling = rapid.SampledFrom([]string{"default", "percent", "percent", "percent", "adaptive", "adaptive+size", "percent+size"}).Draw(t, label+"sampling")
	switch s.Sampling {
	case "percent", "percent+size":
		s.Percent = rapid.SampledFrom([]int{0, 0, 100, 100, 1, 50, 99, -1}).Draw(t, label+"percent")
		if s.Percent < 0 {
			s.Percent = rapid.IntRange(0, 100).Draw(t, label+"percentAny")
		}
		if s.Sampling == "percent+size" {
			// SampleSize "sets the number of requests between two adjustments of the
			// sampling rate when MaxSamplingRate is set": without it, nothing changes
			s.Size = rapid.SampledFrom([]int{1, 2, 10, 1000}).Draw(t, label+"size")
		}
	case "adaptive":
		s.Rate = rapid.SampledFrom([]int{1, 2, 50, 1000000}).Draw(t, label+"rate")
		s.Size = 1000 // documented default
	case "adaptive+size":
		s.Rate = rapid.SampledFrom([]int{1, 2, 50, 1000000}).Draw(t, label+"rate")
		s.Size = rapid.SampledFrom([]int{1, 2, 3, 4, 10, 1000}).Draw(t, label+"size")
	}
	n := rapid.SampledFrom([]int{0, 0, 1, 1, 2, 3}).Draw(t, label+"nDiscards")
	for i := 0; i < n; i++ {
		s.Discards = append(s.Discards, rapid.SampledFrom(discardPool).Draw(t, label+"discard"))
	}
	nopts := len(s.Discards)
	if s.CustomIDs {
		nopts += 2
	}
	switch s.Sampling {
	case "percent", "adaptive":
		nopts++
	case "adaptive+size", "percent+size":
		nopts += 2
	}
	idx := make([]int, nopts)
	for i := range idx {
		idx[i] = i
	}
	s.Order = rapid.Permutation(idx).Draw(t, label+"order")
	return s
}

// idSource produces deterministic, unique identifiers for TraceIDFunc /
// SpanIDFunc and remembers what it handed out.
type idSource struct {
	prefix string
	n      int
	issued []string
}

var caseCounter atomic.Int64

func newIDSource(kind string) *idSource {
	return &idSource{prefix: fmt.Sprintf("%s%d-", kind, caseCounter.Add(1))}
}

func (s *idSource) next() string {
	s.n++
	id := fmt.Sprintf("%s%d", s.prefix, s.n)
	s.issued = append(s.issued, id)
	return id
}

// traceRT is the run-time side of a traceSpec: the goa options plus the
// bookkeeping the oracle needs.
type traceRT struct {
	spec     traceSpec
	traceIDs *idSource
	spanIDs  *idSource
	discards []*regexp.Regexp
	// samplerCalls counts the requests that reached the sampler of this
	// middleware instance according to the documentation (no inbound trace ID,
	// not discarded).
	samplerCalls int
}

// optionFuncs abstracts over the three packages exporting the option
// constructors (middleware, http/middleware, grpc/middleware).
type optionFuncs struct {
	traceIDFunc      func(middleware.IDFunc) middleware.TraceOption
	spanIDFunc       func(middleware.IDFunc) middleware.TraceOption
	samplingPercent  func(int) middleware.TraceOption
	maxSamplingRate  func(int) middleware.TraceOption
	sampleSize       func(int) middleware.TraceOption
	discardFromTrace func(*regexp.Regexp) middleware.TraceOption
}

func (s traceSpec) build(f optionFuncs) (*traceRT, []middleware.TraceOption) {
	rt := &traceRT{spec: s}
	var opts []middleware.TraceOption
	if s.CustomIDs {
		rt.traceIDs, rt.spanIDs = newIDSource("T"), newIDSource("S")
		opts = append(opts, f.traceIDFunc(rt.traceIDs.next), f.spanIDFunc(rt.spanIDs.next))
	}
	switch s.Sampling {
	case "percent":
		opts = append(opts, f.samplingPercent(s.Percent))
	case "percent+size":
		opts = append(opts, f.samplingPercent(s.Percent), f.sampleSize(s.Size))
	case "adaptive":
		opts = append(opts, f.maxSamplingRate(s.Rate))
	case "adaptive+size":
		opts = append(opts, f.maxSamplingRate(s.Rate), f.sampleSize(s.Size))
	}
	for _, d := range s.Discards {
		re := regexp.MustCompile(d)
		rt.discards = append(rt.discards, re)
		opts = append(opts, f.discardFromTrace(re))
	}
	if len(s.Order) == len(opts) {
		p := make([]middleware.TraceOption, len(opts))
		for i, j := range s.Order {
			p[i] = opts[j]
		}
		opts = p
	}
	return rt, opts
}

// wireTrace is what a request carries on the wire.
type wireTrace struct {
	Trace  string // "" = absent or empty
	Parent string
}

// ctxObs is what a handler finds in its context.
type ctxObs struct {
	ReqID  any
	Trace  any
	Span   any
	Parent any
}

func observeCtx(ctx context.Context) ctxObs {
	return ctxObs{
		ReqID:  ctx.Value(middleware.RequestIDKey),
		Trace:  ctx.Value(middleware.TraceIDKey),
		Span:   ctx.Value(middleware.TraceSpanIDKey),
		Parent: ctx.Value(middleware.TraceParentSpanIDKey),
	}
}

func (o ctxObs) traced() bool { return o.Trace != nil }

// expectTraced tells what the documentation promises for one request:
// +1 must be traced, -1 must not be traced, 0 either (statistical sampler).
// It also advances the model's count of sampler calls.
func (rt *traceRT) expectTraced(path string, in wireTrace) (int, string) {
	if in.Trace != "" {
		// "If the incoming request has a Trace ID the sampling rate is
		// disregarded and tracing is enabled"; "discards can be overridden if
		// the incoming request already has a trace ID"
		return +1, "inbound"
	}
	for _, d := range rt.discards {
		if d.MatchString(path) {
			return -1, "discarded"
		}
	}
	rt.samplerCalls++
	switch rt.spec.Sampling {
	case "default":
		return +1, "sampled-default"
	case "percent", "percent+size":
		if rt.spec.Percent == 0 {
			return -1, "percent-0"
		}
		if rt.spec.Percent == 100 {
			return +1, "percent-100"
		}
		return 0, "percent-between"
	default:
		// adaptive: "the sample rate cannot be adjusted until the sample size
		// is reached at least once": the first size-1 requests are sampled
		if rt.samplerCalls <= rt.spec.Size-1 {
			return +1, "adaptive-initial"
		}
		return 0, "adaptive-adjusted"
	}
}

// checkTraceObs compares what a handler saw with the reference model for one
// request that arrived with the given wire values.
func (rt *traceRT) checkTraceObs(path string, in wireTrace, o ctxObs, issuedTraceBefore, issuedSpanBefore int) (class string, problem string) {
	want, class := rt.expectTraced(path, in)
	if want > 0 && !o.traced() {
		return class, fmt.Sprintf("request must be traced (%s) but the handler's context has no trace ID", class)
	}
	if want < 0 && o.traced() {
		return class, fmt.Sprintf("request must not be traced (%s) but the handler's context has trace ID %v", class, o.Trace)
	}
	if !o.traced() {
		if o.Span != nil || o.Parent != nil {
			return class, fmt.Sprintf("untraced request has span=%v parent=%v in its context", o.Span, o.Parent)
		}
		return class + ":untraced", ""
	}
	trace, ok1 := o.Trace.(string)
	span, ok2 := o.Span.(string)
	if !ok1 || !ok2 {
		return class, fmt.Sprintf("trace/span context values are %T/%T, want strings", o.Trace, o.Span)
	}
	parent := ""
	if o.Parent != nil {
		p, ok := o.Parent.(string)
		if !ok {
			return class, fmt.Sprintf("parent span context value is %T, want string", o.Parent)
		}
		parent = p
	}
	if trace == "" {
		return class, "trace ID in the context is empty"
	}
	if span == "" {
		return class, "span ID in the context is empty"
	}
	if in.Trace != "" {
		if trace != in.Trace {
			return class, fmt.Sprintf("inbound trace ID %q was not kept: context has %q", in.Trace, trace)
		}
		if parent != in.Parent {
			return class, fmt.Sprintf("parent span: context has %q, the caller's span on the wire is %q", parent, in.Parent)
		}
	} else {
		// fresh trace
		if in.Parent == "" && o.Parent != nil {
			return class, fmt.Sprintf("fresh trace without a caller has parent span %q", parent)
		}
		if rt.traceIDs != nil {
			if !contains(rt.traceIDs.issued[issuedTraceBefore:], trace) {
				return class, fmt.Sprintf("trace ID %q is not one TraceIDFunc produced for this request (%v)", trace, rt.traceIDs.issued[issuedTraceBefore:])
			}
		} else if p := checkFresh("generated trace ID", trace); p != "" {
			return class, p
		}
	}
	// span is fresh
	if span == parent {
		return class, fmt.Sprintf("span ID %q equals the parent span ID", span)
	}
	if span == trace && rt.spanIDs == nil {
		return class, fmt.Sprintf("span ID equals the trace ID %q", span)
	}
	if rt.spanIDs != nil {
		if !contains(rt.spanIDs.issued[issuedSpanBefore:], span) {
			return class, fmt.Sprintf("span ID %q is not one SpanIDFunc produced for this request (%v)", span, rt.spanIDs.issued[issuedSpanBefore:])
		}
	} else if p := checkFresh("generated span ID", span); p != "" {
		return class, p
	}
	return class + ":traced", ""
}

func contains(l []string, s string) bool {
	for _, x := range l {
		if x == s {
			return true
		}
	}
	return false
}

func (rt *traceRT) issued() (int, int) {
	if rt.traceIDs == nil {
		return 0, 0
	}
	return len(rt.traceIDs.issued), len(rt.spanIDs.issued)
}
