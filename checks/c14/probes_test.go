package c14

import (
	"context"
	"encoding/json"
	"os"
	"path/filepath"
	"strings"
	"testing"

	"verif/harness"
	m "verif/internal/model"
	"verif/internal/rt"
	"verif/internal/value"
)

func ip(i int) *int { return &i }

func probeDesign() *m.Design {
	d := &m.Design{API: m.API{Name: "probe"}}
	s := &m.Service{Name: "probe", HasHTTP: true}
	add := func(name string, payload, result *m.Attr) {
		s.Methods = append(s.Methods, &m.Method{Name: name, Payload: payload, Result: result, HTTP: &m.HTTPEndpoint{Routes: []m.Route{{Verb: "POST", Path: "/" + name}}}})
	}
	add("nulls", rt.Obj(rt.Fld("o", rt.Obj(rt.Fld("x", m.Prim(m.String), false), rt.Fld("y", m.Prim(m.Int), false)), false)), nil)
	add("byteslen", rt.Obj(rt.Fld("b", &m.Attr{Type: &m.Type{Kind: m.Bytes}, V: &m.Validation{MaxLen: ip(4)}}, true)), nil)
	add("maplen", rt.Obj(rt.Fld("mm", &m.Attr{Type: &m.Type{Kind: m.Map, Key: m.Prim(m.String), Val: m.Prim(m.Boolean)}, V: &m.Validation{MinLen: ip(2)}}, true)), nil)
	// a bound written in the Param mapping of an alias-typed attribute
	d.Types = append(d.Types, &m.UserType{Name: "Quantity", Var: "v9", Attr: &m.Attr{Type: &m.Type{Kind: m.Int}, V: &m.Validation{Min: fp(1)}}})
	s.Methods = append(s.Methods, &m.Method{Name: "stock", Payload: rt.Obj(rt.Fld("batch", &m.Attr{Type: &m.Type{Kind: m.User, User: "Quantity"}, V: &m.Validation{Max: fp(50)}, VAtMapping: true}, false)),
		HTTP: &m.HTTPEndpoint{Routes: []m.Route{{Verb: "POST", Path: "/stock"}}, Query: []m.Mapping{{Attr: "batch"}}}})
	// two bodies with the same attributes, only the first restricts "a"
	add("enuma", rt.Obj(rt.Fld("a", &m.Attr{Type: &m.Type{Kind: m.String}, V: &m.Validation{Enum: []value.V{value.Str("red"), value.Str("green")}}}, true)), nil)
	add("enumb", rt.Obj(rt.Fld("a", m.Prim(m.String), true)), nil)
	// Body("codes") for an attribute that is not required and has a length validation
	s.Methods = append(s.Methods, &m.Method{Name: "optbody", Payload: rt.Obj(rt.Fld("q", m.Prim(m.String), false), rt.Fld("codes", &m.Attr{Type: &m.Type{Kind: m.Array, Elem: m.Prim(m.String)}, V: &m.Validation{MinLen: ip(2)}}, false)),
		HTTP: &m.HTTPEndpoint{Routes: []m.Route{{Verb: "POST", Path: "/optbody"}}, Query: []m.Mapping{{Attr: "q"}}, Body: &m.Body{Mode: "attr", Attr: "codes"}}})
	d.Services = []*m.Service{s}
	return d
}

// TestProbes re-creates the minimal input of every known finding of C14.
func TestProbes(t *testing.T) {
	if rt.ReplayDir() != "" && os.Getenv("VERIF_PROBE_ONLY") == "" {
		t.Skip("replay of a search case")
	}
	sess, h := rt.BuildOne(t, "c14p", probeDesign())
	defer sess.Close()
	defer h.Close()
	jb, _ := os.ReadFile(filepath.Join(sess.Root, "d1", "gen", "http", "openapi3.json"))
	doc := string(jb)
	_ = context.Background
	call := func(method string, p value.V, edits ...harness.Edit) *harness.Obs {
		o, err := h.Do(&harness.Case{Op: "call", Svc: "probe", Method: method, HasPayload: true, Payload: p, Edits: edits})
		if err != nil {
			t.Fatalf("INCONCLUSIVE: %v", err)
		}
		return o
	}
	f := func(n string, v value.V) value.Field { return value.Field{N: n, V: v} }
	rt.Probe("C14-openapi3-schema-shared-by-bodies-with-different-validations", func() (bool, string) {
		var d3 struct {
			Paths map[string]map[string]struct {
				RequestBody struct {
					Content map[string]struct {
						Schema struct {
							Ref string `json:"$ref"`
						} `json:"schema"`
					} `json:"content"`
				} `json:"requestBody"`
			} `json:"paths"`
		}
		_ = json.Unmarshal(jb, &d3)
		ra := d3.Paths["/enuma"]["post"].RequestBody.Content["application/json"].Schema.Ref
		rb := d3.Paths["/enumb"]["post"].RequestBody.Content["application/json"].Schema.Ref
		return ra != "" && ra == rb, "request bodies {a: String Enum(red, green)} and {a: String}: openapi3.json refers both to " + ra + " / " + rb
	})
	rt.Probe("C14-param-mapping-validation-on-alias-not-documented", func() (bool, string) {
		o := call("stock", value.Object(f("batch", value.Int(51))))
		i := strings.Index(doc, `"name":"batch"`)
		param := ""
		if i >= 0 {
			param = doc[i:]
			if j := strings.Index(param, "}"); j > 0 {
				param = param[:j]
			}
		}
		return o.StubCalls == 0 && !strings.Contains(param, `"maximum":50`), "Param(\"batch\", func(){ Maximum(50) }) on an attribute of type Quantity (Int, Minimum(1)): the server rejects 51, openapi3.json documents " + param
	})
	rt.Probe("C14-null-for-unset-nested-attribute", func() (bool, string) {
		o := call("nulls", value.Object(f("o", value.Object(f("x", value.Str("a"))))))
		body := ""
		if len(o.Requests) == 1 {
			body = string(o.Requests[0].Body)
		}
		return o.StubCalls == 1 && strings.Contains(body, `"y":null`) && !strings.Contains(doc, `"nullable":true`), "payload {o:{x:\"a\"}}: request body " + strings.TrimSpace(body) + " accepted by the server; the schema declares no nullable property"
	})
	rt.Probe("C14-bytes-length-applied-to-base64-text", func() (bool, string) {
		o := call("byteslen", value.Object(f("b", value.Bytes([]byte{1, 2, 3, 4}))))
		return o.StubCalls == 1 && strings.Contains(doc, `"maxLength":4`), "4 bytes (base64 \"AQIDBA==\", 8 characters) accepted by the server under MaxLength(4); the schema says maxLength 4 on the string"
	})
	rt.Probe("C14-absent-optional-body-attribute-validated-as-zero-value", func() (bool, string) {
		o := call("optbody", value.Object(f("q", value.Str("x")), f("codes", value.Array(value.Str("a"), value.Str("b")))), harness.Edit{Op: "del_body"})
		st := 0
		if o.Response != nil {
			st = o.Response.Status
		}
		return o.StubCalls == 0 && st == 400 && strings.Contains(string(o.Response.Body), "invalid_length"), "request without body for Body(\"codes\") of an optional array with MinLength(2): the server answers " + itoa(st) + " invalid_length for the zero value although the attribute is simply unset (the document says the body is optional)"
	})
	rt.Probe("C14-map-length-not-documented", func() (bool, string) {
		o := call("maplen", value.Object(f("mm", value.MapOf(value.Str("k"), value.Bool(true)))))
		st := 0
		if o.Response != nil {
			st = o.Response.Status
		}
		return o.StubCalls == 0 && st == 400 && !strings.Contains(doc, "minProperties"), "map with 1 entry under MinLength(2): server answers " + itoa(st) + "; the schema has no minProperties"
	})
}

func itoa(i int) string {
	return string(rune('0'+i/100%10)) + string(rune('0'+i/10%10)) + string(rune('0'+i%10))
}

func fp(f float64) *float64 { return &f }
