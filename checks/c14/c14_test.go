// Package c14 decides property C14: a request is accepted by the generated
// server exactly when it conforms to the parameter and request-body schemas of
// the operation in the generated OpenAPI 3 document, and every success or
// declared-error response conforms to the documented response schema.
package c14

import (
	"bytes"
	"context"
	"encoding/json"
	"fmt"
	"net/http"
	"os"
	"path/filepath"
	"strings"
	"sync"
	"testing"

	"github.com/getkin/kin-openapi/openapi2"
	"github.com/getkin/kin-openapi/openapi2conv"
	"github.com/getkin/kin-openapi/openapi3"
	"github.com/getkin/kin-openapi/openapi3filter"
	"github.com/getkin/kin-openapi/routers"
	"github.com/getkin/kin-openapi/routers/legacy"
	"pgregory.net/rapid"

	"verif/harness"
	"verif/internal/gen"
	"verif/internal/kf"
	m "verif/internal/model"
	"verif/internal/rt"
	"verif/internal/stats"
	"verif/internal/value"
)

func TestMain(m *testing.M) {
	openapi3filter.RegisterBodyDecoder("application/vnd.goa.error", openapi3filter.JSONBodyDecoder)
	stats.Main(m)
}

type caseRec struct {
	Service string         `json:"service"`
	Method  string         `json:"method"`
	Kind    string         `json:"kind"` // "valid", "mutant", "wire"
	Payload value.V        `json:"payload"`
	Result  value.V        `json:"result"`
	Fault   gen.Fault      `json:"fault"`
	Edits   []harness.Edit `json:"edits,omitempty"`
	Message string         `json:"message"`
}

type docs struct {
	doc    *openapi3.T
	router routers.Router
	// the OpenAPI 2 document converted to version 3 (nil when the converter cannot handle it)
	router2 routers.Router
}

func profile() gen.Profile {
	p := gen.Request()
	p.Name = "contract"
	return p
}

var avoid = []string{"C07-exclusive-bounds-as-numbers", "C07-uint32-documented-as-int32", "C07-openapi2-response-header-go-type-names", "C14-bytes-length-applied-to-base64-text", "C14-map-length-not-documented"}

func TestContract(t *testing.T) {
	n := rt.EnvInt("VERIF_CHECKS", 24)
	seed := rt.EnvInt("VERIF_SEED", 1)
	// open finding: bounds written in the Param mapping of an alias-typed attribute are enforced but not documented
	strip := func(d *m.Design) {
		if kf.Open("C14-param-mapping-validation-on-alias-not-documented") {
			for i := gen.StripAliasMappingBounds(d); i > 0; i-- {
				stats.Excluded("C14-param-mapping-validation-on-alias-not-documented")
			}
		}
	}
	vm := gen.ValidationMatrix()
	strip(vm)
	sess, built := rt.Prepare(t, "c14", rt.Options{Profile: profile(), N: n, Seed: seed, AvoidIfOpen: avoid, Tweak: strip, Extra: []*m.Design{gen.ParamMatrix(), gen.ViewMatrix(), gen.MapParamsMatrix(), vm, gen.InheritMatrix()}})
	defer sess.Close()
	defer rt.CloseAll(built)
	if len(built) == 0 {
		t.Fatalf("INCONCLUSIVE: no design could be built")
	}
	if len(built)*2 < n && rt.ReplayDir() == "" {
		t.Fatalf("INCONCLUSIVE: only %d of %d designs could be built (generator health)", len(built), n)
	}
	var wg sync.WaitGroup
	var mu sync.Mutex
	failures := 0
	sem := make(chan struct{}, 16)
	for _, b := range built {
		wg.Add(1)
		go func(b *rt.Built) {
			defer wg.Done()
			sem <- struct{}{}
			defer func() { <-sem }()
			dc, err := loadDocs(b)
			if err != nil {
				stats.Class("design-skipped:openapi3-does-not-load")
				stats.Note("openapi3.json of %s does not load or validate (C07's subject): %v", b.Run.Name, err)
				return
			}
			for _, s := range b.Design.Services {
				for _, meth := range s.Methods {
					if meth.HTTP == nil {
						continue
					}
					if !checkMethod(t, b, dc, s, meth) {
						mu.Lock()
						failures++
						mu.Unlock()
					}
				}
			}
		}(b)
	}
	wg.Wait()
	if failures > 0 {
		t.Fatalf("%d method(s) violate C14", failures)
	}
}

func loadDocs(b *rt.Built) (*docs, error) {
	jb, err := os.ReadFile(filepath.Join(b.Run.Dir, "gen", "http", "openapi3.json"))
	if err != nil {
		return nil, err
	}
	// examples are not part of the contract (they SHOULD match, C07 counts them); the router
	// validates the document including examples, so they are taken out first
	var tree any
	if err := json.Unmarshal(jb, &tree); err != nil {
		return nil, err
	}
	var strip func(v any, inProps bool) any
	strip = func(v any, inProps bool) any {
		switch t := v.(type) {
		case map[string]any:
			for k, e := range t {
				if !inProps && (k == "example" || k == "examples") {
					delete(t, k)
					continue
				}
				t[k] = strip(e, k == "properties")
			}
		case []any:
			for i, e := range t {
				t[i] = strip(e, false)
			}
		}
		return v
	}
	jb, _ = json.Marshal(strip(tree, false))
	loader := openapi3.NewLoader()
	doc, err := loader.LoadFromData(jb)
	if err != nil {
		return nil, err
	}
	if err := doc.Validate(context.Background(), openapi3.DisableExamplesValidation()); err != nil {
		return nil, err
	}
	// the harness serves on 127.0.0.1:<port>: match any server
	doc.Servers = nil
	r, err := legacy.NewRouter(doc)
	if err != nil {
		return nil, err
	}
	dc := &docs{doc: doc, router: r}
	// OpenAPI 2: converted, examples removed; any problem on the way means "not compared"
	// (experimental, off by default: the property speaks about the OpenAPI 3 document and the 2->3
	// converter adds verdicts of its own; enable with VERIF_C14_V2=1)
	if j2, err := os.ReadFile(filepath.Join(b.Run.Dir, "gen", "http", "openapi.json")); err == nil && os.Getenv("VERIF_C14_V2") != "" {
		var t2 any
		var d2 openapi2.T
		if json.Unmarshal(j2, &t2) == nil {
			j2, _ = json.Marshal(strip(t2, false))
			if json.Unmarshal(j2, &d2) == nil {
				if v3, err := openapi2conv.ToV3(&d2); err == nil {
					v3.Servers = nil
					if v3.Validate(context.Background(), openapi3.DisableExamplesValidation()) == nil {
						if r2, err := legacy.NewRouter(v3); err == nil {
							dc.router2 = r2
						}
					}
				}
			}
		}
	}
	if dc.router2 == nil && os.Getenv("VERIF_C14_V2") != "" {
		stats.Class("openapi2-not-compared")
	}
	return dc, nil
}

func checkMethod(t *testing.T, b *rt.Built, dc *docs, s *m.Service, meth *m.Method) bool {
	d := b.Design
	label := rt.MethodLabel(b, s, meth)
	var last *caseRec
	var replay caseRec
	if rt.LoadReplayCase(&replay) {
		if replay.Service != s.Name || replay.Method != meth.Name {
			return true
		}
		if msg := runCase(b, dc, s, meth, &replay); msg != "" {
			t.Errorf("replayed case still fails: %s", msg)
			return false
		}
		fmt.Printf("replayed case passes: %s %s\n", s.Name, meth.Name)
		return true
	}
	where := gen.WhereOf(d, meth)
	ok := t.Run(label, func(t *testing.T) {
		rapid.Check(t, func(rt_ *rapid.T) {
			c := &caseRec{Service: s.Name, Method: meth.Name}
			c.Payload = gen.PayloadGen(d, meth).Draw(rt_, "payload")
			c.Result = gen.ResultGen(d, meth).Draw(rt_, "result")
			kinds := []string{"valid", "valid"}
			if meth.Payload != nil {
				kinds = append(kinds, "mutant", "mutant", "wire")
			}
			c.Kind = rapid.SampledFrom(kinds).Draw(rt_, "kind")
			switch c.Kind {
			case "mutant":
				mut, f, ok := gen.Mutate(rt_, d, meth.Payload, c.Payload, func(name string) gen.Loc {
					if name == "" {
						return gen.LocFor("body")
					}
					return gen.LocFor(where[name])
				})
				if !ok {
					c.Kind = "valid"
				} else {
					c.Payload, c.Fault = mut, f
				}
			case "wire":
				if !wireFault(rt_, d, meth, c) {
					c.Kind = "valid"
				}
			}
			msg := runCase(b, dc, s, meth, c)
			record(c)
			if msg != "" {
				c.Message = msg
				last = c
				rt_.Fatalf("%s [%s]: %s\n  payload: %s\n  fault: %+v edits: %+v", label, c.Kind, msg, c.Payload.Canon(), c.Fault, c.Edits)
			}
		})
	})
	if !ok && last != nil {
		dir := rt.SaveReplay(b, label, last)
		fmt.Printf("C14 failing case saved: %s\n  design: %s\n  [%s] %s\n", dir, b.Run.Name, last.Kind, last.Message)
	}
	return ok
}

func record(c *caseRec) {
	nt := c.Kind == "wire" || (c.Kind == "mutant" && (c.Fault.OneStep || c.Fault.Depth >= 1))
	stats.Class("case:" + c.Kind)
	if c.Kind == "mutant" {
		stats.Class("fault-rule:" + c.Fault.Rule)
	}
	key := c.Service + "|" + c.Method + "|" + c.Kind + "|" + c.Payload.Canon() + fmt.Sprint(c.Edits)
	stats.CaseSample(key, nt, map[string]any{"method": c.Service + "." + c.Method, "kind": c.Kind, "payload": c.Payload.Canon(), "fault": c.Fault, "edits": c.Edits})
}

// wireFault: delete a required member / break a type on the wire (JSON bodies and parameters).
func wireFault(t *rapid.T, d *m.Design, meth *m.Method, c *caseRec) bool {
	h := meth.HTTP
	fields := d.ObjectFields(meth.Payload)
	var opts [][]harness.Edit
	wireOf := func(l []m.Mapping, attr string) string {
		for _, mp := range l {
			if mp.Attr == attr {
				return mp.WireName()
			}
		}
		return attr
	}
	where := gen.WhereOf(d, meth)
	bodyObject := fields != nil && !(h.Body != nil && h.Body.Mode == "attr") && len(gen.BodyAttrs(d, meth)) > 0
	for _, f := range fields {
		_, set := c.Payload.Get(f.Name)
		k := d.Underlying(f.Attr)
		w := where[f.Name]
		if f.Required && set {
			switch w {
			case "query":
				opts = append(opts, []harness.Edit{{Op: "del_query", Name: wireOf(h.Query, f.Name)}})
			case "header":
				opts = append(opts, []harness.Edit{{Op: "del_header", Name: wireOf(h.Headers, f.Name)}})
			case "cookie":
				opts = append(opts, []harness.Edit{{Op: "del_cookie", Name: wireOf(h.Cookies, f.Name)}})
			case "body":
				if bodyObject {
					opts = append(opts, []harness.Edit{{Op: "json_del", Name: f.Name}})
				}
			}
		}
		if set && (k.IsNumeric() || k == m.Boolean) {
			switch w {
			case "query":
				opts = append(opts, []harness.Edit{{Op: "set_query", Name: wireOf(h.Query, f.Name), Value: "not-a-number"}})
			case "header":
				opts = append(opts, []harness.Edit{{Op: "set_header", Name: wireOf(h.Headers, f.Name), Value: "not-a-number"}})
			case "body":
				if bodyObject {
					opts = append(opts, []harness.Edit{{Op: "json_set", Name: f.Name, Value: `"a string"`}})
				}
			}
		}
		if set && w == "body" && bodyObject && (k == m.String || k == m.Array || k == m.Object) {
			opts = append(opts, []harness.Edit{{Op: "json_set", Name: f.Name, Value: `12345`}})
		}
	}
	// the request sent without any body (the document's requestBody.required
	// against the server's missing_payload)
	if len(gen.BodyAttrs(d, meth)) > 0 || (h.Body != nil && h.Body.Mode == "attr") {
		// open finding: for Body("attr") of an attribute that is not required
		// the server does not insist on a body, but it validates the zero value
		// it decoded nothing into; only bodies whose type carries no constraint
		// at all are sent without body while the finding is open
		if f := bodyAttrField(d, meth); f != nil && !f.Required && constrained(d, f.Attr) && kf.Open("C14-absent-optional-body-attribute-validated-as-zero-value") {
			stats.Excluded("C14-absent-optional-body-attribute-validated-as-zero-value")
		} else {
			opts = append(opts, []harness.Edit{{Op: "del_body"}})
		}
	}
	if len(opts) == 0 {
		return false
	}
	c.Edits = opts[rapid.IntRange(0, len(opts)-1).Draw(t, "wirefault")]
	if c.Edits[0].Op == "del_body" {
		stats.Class("wire:body-removed")
	}
	return true
}

// bodyAttrField returns the payload attribute named by Body("attr"), if any.
func bodyAttrField(d *m.Design, meth *m.Method) *m.Field {
	if meth.HTTP == nil || meth.HTTP.Body == nil || meth.HTTP.Body.Mode != "attr" {
		return nil
	}
	return d.FieldByName(meth.Payload, meth.HTTP.Body.Attr)
}

// constrained reports whether a value of the attribute can be invalid at all:
// a validation on it (or on the user types it refers to), a required field of
// an object, or anything of that kind below.
func constrained(d *m.Design, a *m.Attr) bool {
	seen := map[string]bool{}
	var walk func(a *m.Attr) bool
	walk = func(a *m.Attr) bool {
		if a == nil || a.Type == nil {
			return false
		}
		if !a.V.Empty() {
			return true
		}
		switch a.Type.Kind {
		case m.User:
			if seen[a.Type.User] {
				return false
			}
			seen[a.Type.User] = true
			if ut := d.TypeByName(a.Type.User); ut != nil {
				return walk(ut.Attr)
			}
		case m.Array:
			return walk(a.Type.Elem)
		case m.Map:
			return walk(a.Type.Key) || walk(a.Type.Val)
		case m.Object, m.Union:
			for _, f := range a.Type.Fields {
				if f.Required || walk(f.Attr) {
					return true
				}
			}
		}
		return false
	}
	return walk(a)
}

func runCase(b *rt.Built, dc *docs, s *m.Service, meth *m.Method, c *caseRec) string {
	d := b.Design
	if hasRequiredCookie(d, meth) && c.Kind != "valid" && kf.Open("C04-required-cookie-discards-earlier-errors") &&
		!(c.Kind == "mutant" && len(meth.HTTP.Cookies) == 1 && meth.HTTP.Cookies[0].Attr == c.Fault.Top) &&
		!(c.Kind == "wire" && len(meth.HTTP.Cookies) == 1 && len(c.Edits) == 1 && c.Edits[0].Op == "del_cookie") {
		// (the finding loses errors found before a required cookie is read; a fault in
		// the method's only cookie is not affected and stays in the search)
		stats.Excluded("C04-required-cookie-discards-earlier-errors")
		return ""
	}
	hc := &harness.Case{Op: "call", Svc: s.Name, Method: meth.Name, HasPayload: meth.Payload != nil, Payload: c.Payload, Edits: c.Edits}
	hc.Stub = harness.StubSpec{HasResult: meth.Result != nil, Result: c.Result, View: "default"}
	obs, err := b.H.Do(hc)
	if err != nil {
		return "INCONCLUSIVE: harness: " + err.Error()
	}
	if obs.Err != "" {
		if strings.Contains(obs.Err, "conversion") && c.Kind != "valid" {
			return ""
		}
		return "harness could not run the case: " + obs.Err
	}
	if obs.Panic != "" || obs.ServerPanic != "" || len(obs.Requests) != 1 || obs.Response == nil {
		stats.Class("skipped:no-exchange")
		return "" // other properties' subject
	}
	ro := obs.Requests[0]
	reqBody := ro.Body
	respBody := obs.Response.Body
	if kf.Open("C14-null-for-unset-nested-attribute") {
		// open finding: unset nested attributes travel as explicit nulls; compare the bodies without them
		var n1, n2 int
		reqBody, n1 = stripNulls(reqBody)
		respBody, n2 = stripNulls(respBody)
		if n1+n2 > 0 {
			stats.Class("known-finding-hit:C14-null-for-unset-nested-attribute")
		}
	}
	req, err := http.NewRequest(ro.Method, "http://localhost"+pathAndQuery(ro), bytes.NewReader(reqBody))
	if err != nil {
		return ""
	}
	for k, vs := range ro.Header {
		for _, v := range vs {
			req.Header.Add(k, v)
		}
	}
	route, pathParams, err := dc.router.FindRoute(req)
	if err != nil {
		stats.Class("skipped:operation-not-documented")
		return "" // C07's subject
	}
	in := &openapi3filter.RequestValidationInput{Request: req, PathParams: pathParams, Route: route,
		// (defaults are not filled in before validating: a default does not satisfy "required")
		Options: &openapi3filter.Options{AuthenticationFunc: openapi3filter.NoopAuthenticationFunc, SkipSettingDefaults: true}}
	docErr := openapi3filter.ValidateRequest(context.Background(), in)
	serverAccepted := obs.StubCalls == 1
	serverRejected := obs.StubCalls == 0 && obs.Response.Status >= 400 && obs.Response.Status < 500
	if !serverAccepted && !serverRejected {
		stats.Class("skipped:server-neither")
		return ""
	}
	if serverAccepted && docErr != nil {
		if kin := kinLimit(docErr); kin != "" {
			stats.Class("not-compared:" + kin)
		} else if strings.Contains(docErr.Error(), "in header has an error") && headerArrayNamed(d, meth, docErr.Error()) {
			stats.Class("not-compared:header-array")
		} else if strings.TrimSpace(string(ro.Body)) == "null" && kf.Open("C14-null-for-unset-nested-attribute") {
			stats.Class("known-finding-hit:C14-null-for-unset-nested-attribute")
		} else if (strings.Contains(docErr.Error(), `the format "int32"`) || strings.Contains(docErr.Error(), `the format "int64"`) || strings.Contains(docErr.Error(), "value out of range")) && kf.Open("C07-uint32-documented-as-int32") {
			stats.Class("known-finding-hit:C07-uint32-documented-as-int32")
		} else if false {
			stats.Class("not-compared:" + kin)
		} else {
			return fmt.Sprintf("the server accepts a request the OpenAPI 3 document forbids: %s\n  request: %s %s body %q", trunc(docErr.Error()), ro.Method, ro.URL, trunc(string(ro.Body)))
		}
	}
	if serverRejected && docErr == nil {
		if strings.Contains(string(obs.Response.Body), "missing_field") && requiredDefaultInHeaderOrCookie(d, meth) && kf.Open("C07-required-header-with-default-documented-optional") {
			stats.Class("known-finding-hit:C07-required-header-with-default-documented-optional")
		} else if c.Kind == "mutant" && gen.WhereOf(d, meth)[c.Fault.Top] == "header" && d.Underlying(d.FieldByName(meth.Payload, c.Fault.Top).Attr) == m.Array {
			// the validator only reads the first line of a repeated header: arrays in headers are not compared
			stats.Class("not-compared:header-array")
		} else if c.Kind == "mutant" && (c.Fault.Rule == "invalid_format" || c.Fault.Rule == "invalid_pattern") {
			// kin does not implement every format / RE2 pattern identically: compared only where both sides define them
			stats.Class("not-compared:format-or-pattern")
		} else {
			return fmt.Sprintf("the server rejects (%d %s) a request that conforms to the OpenAPI 3 document\n  request: %s %s body %q", obs.Response.Status, trunc(string(obs.Response.Body)), ro.Method, ro.URL, trunc(string(ro.Body)))
		}
	}
	// the OpenAPI 2 document (converted) must give the same request verdict as the OpenAPI 3 one gave
	if dc.router2 != nil && (serverAccepted && docErr == nil || serverRejected && docErr != nil) {
		req2, _ := http.NewRequest(ro.Method, "http://localhost"+pathAndQuery(ro), bytes.NewReader(reqBody))
		for k, vs := range ro.Header {
			for _, v := range vs {
				req2.Header.Add(k, v)
			}
		}
		if route2, pp2, err := dc.router2.FindRoute(req2); err == nil {
			in2 := &openapi3filter.RequestValidationInput{Request: req2, PathParams: pp2, Route: route2,
				Options: &openapi3filter.Options{AuthenticationFunc: openapi3filter.NoopAuthenticationFunc, SkipSettingDefaults: true}}
			err2 := openapi3filter.ValidateRequest(context.Background(), in2)
			switch {
			case err2 != nil && kinLimit(err2) != "":
				stats.Class("not-compared:" + kinLimit(err2))
			case serverAccepted && err2 != nil:
				if strings.Contains(err2.Error(), "in header has an error") && headerArrayNamed(d, meth, err2.Error()) {
					stats.Class("not-compared:header-array")
				} else if strings.Contains(err2.Error(), `the format "int32"`) || strings.Contains(err2.Error(), `the format "int64"`) || strings.Contains(err2.Error(), "value out of range") {
					stats.Class("known-finding-hit:C07-uint32-documented-as-int32")
				} else {
					return fmt.Sprintf("the server (and the OpenAPI 3 document) accept a request the OpenAPI 2 document forbids: %s\n  request: %s %s body %q", trunc(err2.Error()), ro.Method, ro.URL, trunc(string(ro.Body)))
				}
			case serverRejected && err2 == nil:
				if c.Kind == "mutant" && (c.Fault.Rule == "invalid_format" || c.Fault.Rule == "invalid_pattern") {
					stats.Class("not-compared:format-or-pattern")
				} else {
					return fmt.Sprintf("the server (and the OpenAPI 3 document) reject a request that conforms to the OpenAPI 2 document\n  request: %s %s body %q (server: %s)", ro.Method, ro.URL, trunc(string(ro.Body)), trunc(string(obs.Response.Body)))
				}
			default:
				stats.Class("openapi2-agrees")
			}
		}
	}
	// responses the server produces conform to the documented schema for their status
	if serverAccepted && c.Kind == "valid" && strings.TrimSpace(string(obs.Response.Body)) == "null" && kf.Open("C14-null-for-unset-nested-attribute") {
		stats.Class("known-finding-hit:C14-null-for-unset-nested-attribute")
	} else if serverAccepted && (c.Kind == "valid") {
		rin := &openapi3filter.ResponseValidationInput{RequestValidationInput: in, Status: obs.Response.Status, Header: http.Header(obs.Response.Header),
			Options: &openapi3filter.Options{IncludeResponseStatus: true}}
		rin.SetBodyBytes(respBody)
		if err := openapi3filter.ValidateResponse(context.Background(), rin); err != nil {
			if kin := kinLimit(err); kin != "" {
				stats.Class("not-compared:" + kin)
			} else if (strings.Contains(err.Error(), `the format "int32"`) || strings.Contains(err.Error(), `the format "int64"`) || strings.Contains(err.Error(), "value out of range")) && kf.Open("C07-uint32-documented-as-int32") {
				stats.Class("known-finding-hit:C07-uint32-documented-as-int32")
			} else {
				return fmt.Sprintf("a response of the server does not conform to the OpenAPI 3 document: %s\n  status %d body %q", trunc(err.Error()), obs.Response.Status, trunc(string(obs.Response.Body)))
			}
		}
	}
	return ""
}

// kinLimit recognises verdicts that stem from the validator's own limits rather than from the document.
func kinLimit(err error) string {
	s := err.Error()
	switch {
	case strings.Contains(s, "unsupported content type"):
		return "unsupported-content-type"
	case strings.Contains(s, "error compiling regex"):
		return "regex-dialect"
	case strings.Contains(s, "parameter ") && strings.Contains(s, "is not one of the allowed values"):
		// numeric enums of parameters: the validator compares the parsed int64 with the float64 of the JSON document
		return "parameter-numeric-enum"
	}
	return ""
}

// stripNulls removes null-valued object members from a JSON body.
func stripNulls(b []byte) ([]byte, int) {
	var x any
	if len(bytes.TrimSpace(b)) == 0 || json.Unmarshal(b, &x) != nil {
		return b, 0
	}
	n := 0
	var walk func(v any) any
	walk = func(v any) any {
		switch t := v.(type) {
		case map[string]any:
			for k, e := range t {
				if e == nil {
					delete(t, k)
					n++
				} else {
					t[k] = walk(e)
				}
			}
		case []any:
			for i, e := range t {
				t[i] = walk(e)
			}
		}
		return v
	}
	x = walk(x)
	if n == 0 {
		return b, 0
	}
	out, _ := json.Marshal(x)
	return out, n
}

// headerArrayNamed reports whether the validator's message names a header that carries an array attribute
// (the validator only reads the first line of a repeated header).
func headerArrayNamed(d *m.Design, meth *m.Method, msg string) bool {
	for _, hm := range meth.HTTP.Headers {
		if strings.Contains(msg, `"`+hm.WireName()+`"`) {
			if f := d.FieldByName(meth.Payload, hm.Attr); f != nil && d.Underlying(f.Attr) == m.Array {
				return true
			}
			if d.ObjectFields(meth.Payload) == nil && d.Underlying(meth.Payload) == m.Array {
				return true
			}
		}
	}
	return false
}

func requiredDefaultInHeaderOrCookie(d *m.Design, meth *m.Method) bool {
	for _, l := range [][]m.Mapping{meth.HTTP.Headers, meth.HTTP.Cookies} {
		for _, mp := range l {
			if f := d.FieldByName(meth.Payload, mp.Attr); f != nil && f.Required && f.Attr.Default != nil {
				return true
			}
		}
	}
	return false
}

func pathAndQuery(ro harness.ReqObs) string {
	p := ro.RawPath
	if ro.RawQuery != "" {
		p += "?" + ro.RawQuery
	}
	return p
}

func hasRequiredCookie(d *m.Design, meth *m.Method) bool {
	if meth.Payload == nil {
		return false
	}
	for _, ck := range meth.HTTP.Cookies {
		if f := d.FieldByName(meth.Payload, ck.Attr); f != nil && f.Required {
			return true
		}
		if d.ObjectFields(meth.Payload) == nil {
			return true
		}
	}
	return false
}

func trunc(s string) string {
	if len(s) > 400 {
		return s[:400] + "…"
	}
	return s
}
