// Package c18 decides property C18: error merging and status mapping follow
// fixed algebraic rules.
package c18

import (
	"context"
	"errors"
	"fmt"
	"net/http"
	"strings"
	"testing"

	goagrpc "goa.design/goa/v3/grpc"
	goapb "goa.design/goa/v3/grpc/pb"
	goahttp "goa.design/goa/v3/http"
	goa "goa.design/goa/v3/pkg"
	"google.golang.org/grpc/codes"
	"google.golang.org/grpc/status"
	"pgregory.net/rapid"

	"verif/internal/stats"
)

func TestMain(m *testing.M) { stats.Main(m) }

// ---------------------------------------------------------------- model

// part describes one error handed to MergeErrors. Fresh Go values are built
// from it for every grouping because MergeErrors mutates its first argument.
type part struct {
	Kind      string // "service", "svc-cause" (NewServiceError(cause,...)), "plain", "wrapped-plain", "wrapped-service", "nil"
	Name      string
	Msg       string
	Field     string // "" = no field
	Timeout   bool
	Temporary bool
	Fault     bool
}

type built struct {
	err   error             // value handed to MergeErrors
	svc   *goa.ServiceError // the ServiceError inside (nil for plain kinds)
	cause error             // underlying Go cause that must stay reachable (nil if none)
	id    string
}

func (p part) build() built {
	switch p.Kind {
	case "nil":
		return built{}
	case "plain":
		e := errors.New(p.Msg)
		return built{err: e, cause: e}
	case "wrapped-plain":
		inner := errors.New(p.Msg)
		e := fmt.Errorf("ctx: %w", inner)
		return built{err: e, cause: inner}
	case "svc-cause":
		c := errors.New(p.Msg)
		s := goa.NewServiceError(c, p.Name, p.Timeout, p.Temporary, p.Fault)
		if p.Field != "" {
			f := p.Field
			s.Field = &f
		}
		return built{err: s, svc: s, cause: c, id: s.ID}
	case "wrapped-service":
		s := mkService(p)
		return built{err: fmt.Errorf("ctx: %w", s), svc: s, id: s.ID}
	default:
		s := mkService(p)
		return built{err: s, svc: s, id: s.ID}
	}
}

func mkService(p part) *goa.ServiceError {
	var s *goa.ServiceError
	switch {
	case p.Timeout && p.Temporary && !p.Fault:
		s = goa.TemporaryTimeoutError(p.Name, "%s", p.Msg)
	case p.Timeout && !p.Temporary && !p.Fault:
		s = goa.PermanentTimeoutError(p.Name, "%s", p.Msg)
	case !p.Timeout && p.Temporary && !p.Fault:
		s = goa.TemporaryError(p.Name, "%s", p.Msg)
	case !p.Timeout && !p.Temporary && !p.Fault:
		s = goa.PermanentError(p.Name, "%s", p.Msg)
	default:
		s = goa.PermanentError(p.Name, "%s", p.Msg)
		s.Timeout, s.Temporary, s.Fault = p.Timeout, p.Temporary, p.Fault
	}
	if p.Field != "" {
		f := p.Field
		s.Field = &f
	}
	return s
}

// observable view of a part as the documentation describes the conversion
// of a non-service error: name "error", fault.
func (p part) view() (name, msg string, to, tmp, fault bool) {
	switch p.Kind {
	case "plain":
		return "error", p.Msg, false, false, true
	case "wrapped-plain":
		return "error", "ctx: " + p.Msg, false, false, true
	default:
		return p.Name, p.Msg, p.Timeout, p.Temporary, p.Fault
	}
}

type expected struct {
	Nil     bool
	Name    string
	Msg     string
	Timeout bool
	Temp    bool
	Fault   bool
	Hist    []histEntry
}

type histEntry struct {
	Name, Msg, Field string
}

func model(parts []part) expected {
	var ex expected
	ex.Nil = true
	ex.Timeout, ex.Temp, ex.Fault = true, true, true
	var msgs []string
	first := true
	for _, p := range parts {
		if p.Kind == "nil" {
			continue
		}
		ex.Nil = false
		n, m, to, tmp, f := p.view()
		msgs = append(msgs, m)
		if first || ex.Name == "error" {
			ex.Name = n
		}
		first = false
		ex.Timeout = ex.Timeout && to
		ex.Temp = ex.Temp && tmp
		ex.Fault = ex.Fault && f
		fld := p.Field
		if p.Kind == "plain" || p.Kind == "wrapped-plain" {
			fld = ""
		}
		ex.Hist = append(ex.Hist, histEntry{n, m, fld})
	}
	ex.Msg = strings.Join(msgs, "; ")
	return ex
}

// tree is a parenthesisation: leaf (index) or node.
type tree struct {
	Leaf int
	L, R *tree
}

func (t *tree) String() string {
	if t.L == nil {
		return fmt.Sprint(t.Leaf)
	}
	return "(" + t.L.String() + " " + t.R.String() + ")"
}

// evalTree merges fresh errors according to the tree.
func evalTree(t *tree, bs []built) error {
	if t.L == nil {
		return bs[t.Leaf].err
	}
	return goa.MergeErrors(evalTree(t.L, bs), evalTree(t.R, bs))
}

// allTrees enumerates every parenthesisation of leaves lo..hi-1.
func allTrees(lo, hi int) []*tree {
	if hi-lo == 1 {
		return []*tree{{Leaf: lo}}
	}
	var out []*tree
	for mid := lo + 1; mid < hi; mid++ {
		for _, l := range allTrees(lo, mid) {
			for _, r := range allTrees(mid, hi) {
				out = append(out, &tree{L: l, R: r})
			}
		}
	}
	return out
}

func randomTree(t *rapid.T, lo, hi int, label string) *tree {
	if hi-lo == 1 {
		return &tree{Leaf: lo}
	}
	mid := rapid.IntRange(lo+1, hi-1).Draw(t, label)
	return &tree{L: randomTree(t, lo, mid, label), R: randomTree(t, mid, hi, label)}
}

// observe extracts the observable result of a merge.
type observed struct {
	Nil     bool
	Name    string
	Msg     string
	Timeout bool
	Temp    bool
	Fault   bool
	Hist    []histEntry
	histPtr []*goa.ServiceError
}

func observe(err error) observed {
	if err == nil {
		return observed{Nil: true}
	}
	var se *goa.ServiceError
	if !errors.As(err, &se) {
		// a lone non-service error is returned as is; the documented
		// conversion gives it the name "error" and the fault flag
		return observed{Name: "error", Msg: err.Error(), Fault: true, Hist: []histEntry{{"error", err.Error(), ""}}}
	}
	o := observed{Name: se.Name, Msg: se.Message, Timeout: se.Timeout, Temp: se.Temporary, Fault: se.Fault}
	if se != err {
		// wrapped service error returned unchanged by a merge with nil
		o.Msg = se.Message
	}
	for _, h := range se.History() {
		f := ""
		if h.Field != nil {
			f = *h.Field
		}
		o.Hist = append(o.Hist, histEntry{h.Name, h.Message, f})
		o.histPtr = append(o.histPtr, h)
	}
	return o
}

var nameGen = rapid.SampledFrom([]string{"error", "error", "not_found", "bad", "missing_field", "invalid_range", "fault", "unsupported_media_type", "e1", "e2", ""})
var msgGen = rapid.SampledFrom([]string{"ma", "mb", "mc", "x; y", "", "boom", "é", "a;b", "; "})

func partGen() *rapid.Generator[part] {
	return rapid.Custom(func(t *rapid.T) part {
		kind := rapid.SampledFrom([]string{"service", "service", "service", "svc-cause", "plain", "wrapped-plain", "wrapped-service", "nil"}).Draw(t, "kind")
		p := part{Kind: kind}
		p.Msg = msgGen.Draw(t, "msg")
		switch kind {
		case "nil":
			return part{Kind: "nil"}
		case "plain", "wrapped-plain":
			return p
		}
		p.Name = nameGen.Draw(t, "name")
		p.Timeout = rapid.Bool().Draw(t, "timeout")
		p.Temporary = rapid.Bool().Draw(t, "temporary")
		p.Fault = rapid.Bool().Draw(t, "fault")
		if rapid.Bool().Draw(t, "hasField") {
			p.Field = rapid.SampledFrom([]string{"body.a", "id", "x"}).Draw(t, "field")
		}
		return p
	})
}

// checkMerge evaluates one grouping and compares it with the model. It
// returns a description of the first disagreement, or "".
func checkMerge(parts []part, tr *tree) string {
	bs := make([]built, len(parts))
	for i, p := range parts {
		bs[i] = p.build()
	}
	res := evalTree(tr, bs)
	ex := model(parts)
	ob := observe(res)
	if ex.Nil != ob.Nil {
		return fmt.Sprintf("nil-ness: want nil=%v got %v", ex.Nil, res)
	}
	if ex.Nil {
		return ""
	}
	nonNil := 0
	for _, p := range parts {
		if p.Kind != "nil" {
			nonNil++
		}
	}
	if nonNil == 1 {
		// merging with nil changes nothing: the very same error value comes back
		for i, p := range parts {
			if p.Kind != "nil" && res != bs[i].err {
				return fmt.Sprintf("merge with nil returned a different value: %#v vs %#v", res, bs[i].err)
			}
		}
		// for a lone wrapped error the message rule speaks about the inner service error
		if ob.Msg != ex.Msg {
			return fmt.Sprintf("lone error message changed: want %q got %q", ex.Msg, ob.Msg)
		}
		return ""
	}
	if ob.Msg != ex.Msg {
		return fmt.Sprintf("message: want %q got %q", ex.Msg, ob.Msg)
	}
	if ob.Name != ex.Name {
		return fmt.Sprintf("name: want %q got %q", ex.Name, ob.Name)
	}
	if ob.Timeout != ex.Timeout || ob.Temp != ex.Temp || ob.Fault != ex.Fault {
		return fmt.Sprintf("flags (timeout,temporary,fault): want %v,%v,%v got %v,%v,%v", ex.Timeout, ex.Temp, ex.Fault, ob.Timeout, ob.Temp, ob.Fault)
	}
	if len(ob.Hist) != len(ex.Hist) {
		return fmt.Sprintf("history length: want %d got %d (%v)", len(ex.Hist), len(ob.Hist), ob.Hist)
	}
	for i := range ex.Hist {
		if ob.Hist[i] != ex.Hist[i] {
			return fmt.Sprintf("history[%d]: want %+v got %+v", i, ex.Hist[i], ob.Hist[i])
		}
	}
	// every history entry exactly once (no pointer twice)
	seen := map[*goa.ServiceError]bool{}
	for _, h := range ob.histPtr {
		if seen[h] {
			return "history lists one error value twice"
		}
		seen[h] = true
	}
	// IDs of original service errors are kept in the history
	j := 0
	for i, p := range parts {
		if p.Kind == "nil" {
			continue
		}
		if bs[i].id != "" && ob.histPtr[j].ID != bs[i].id {
			return fmt.Sprintf("history[%d] id: want %q got %q", j, bs[i].id, ob.histPtr[j].ID)
		}
		j++
	}
	// causes reachable through errors.Is
	for i := range parts {
		if bs[i].cause != nil && !errors.Is(res, bs[i].cause) {
			return fmt.Sprintf("cause of part %d (%q) not reachable through errors.Is", i, bs[i].cause)
		}
	}
	// the merged error is itself findable as a ServiceError
	var se *goa.ServiceError
	if !errors.As(res, &se) {
		return "merged error is not a ServiceError"
	}
	return ""
}

func nontrivial(parts []part, tr *tree) bool {
	kinds := map[string]bool{}
	n := 0
	for _, p := range parts {
		if p.Kind != "nil" {
			n++
		}
		kinds[p.Kind] = true
	}
	leftNested := true
	for t := tr; t.L != nil; t = t.L {
		if t.R.L != nil {
			leftNested = false
		}
	}
	return (n >= 3 && len(kinds) >= 2) || (n >= 2 && !leftNested)
}

// TestMergeGroupings: random error sequences (0–8) under a random
// parenthesisation, the left-nested and the right-nested one.
func TestMergeGroupings(t *testing.T) {
	rapid.Check(t, func(t *rapid.T) {
		parts := rapid.SliceOfN(partGen(), 1, 8).Draw(t, "parts")
		n := len(parts)
		trees := []*tree{randomTree(t, 0, n, "split")}
		// left- and right-nested
		l := &tree{Leaf: 0}
		for i := 1; i < n; i++ {
			l = &tree{L: l, R: &tree{Leaf: i}}
		}
		r := &tree{Leaf: n - 1}
		for i := n - 2; i >= 0; i-- {
			r = &tree{L: &tree{Leaf: i}, R: r}
		}
		trees = append(trees, l, r)
		for _, tr := range trees {
			key := fmt.Sprintf("%+v|%s", parts, tr)
			stats.CaseSample(key, nontrivial(parts, tr), map[string]any{"parts": parts, "grouping": tr.String()})
			for _, p := range parts {
				stats.Class("kind:" + p.Kind)
			}
			if msg := checkMerge(parts, tr); msg != "" {
				t.Fatalf("grouping %s of %+v: %s", tr, parts, msg)
			}
		}
	})
}

// TestMergeAllGroupings: every parenthesisation for n ≤ 6 of random parts.
func TestMergeAllGroupings(t *testing.T) {
	rapid.Check(t, func(t *rapid.T) {
		parts := rapid.SliceOfN(partGen(), 2, 6).Draw(t, "parts")
		for _, tr := range allTrees(0, len(parts)) {
			key := fmt.Sprintf("%+v|%s", parts, tr)
			stats.Case(key, nontrivial(parts, tr))
			if msg := checkMerge(parts, tr); msg != "" {
				t.Fatalf("grouping %s of %+v: %s", tr, parts, msg)
			}
		}
		stats.Class("all-groupings-sequences")
	})
}

// TestMergeNilNeutral: merging with nil on either side returns the other
// argument unchanged (same value, same observable fields).
func TestMergeNilNeutral(t *testing.T) {
	rapid.Check(t, func(t *rapid.T) {
		p := partGen().Filter(func(p part) bool { return p.Kind != "nil" }).Draw(t, "p")
		for side := 0; side < 2; side++ {
			b := p.build()
			before := observe(b.err)
			var res error
			if side == 0 {
				res = goa.MergeErrors(nil, b.err)
			} else {
				res = goa.MergeErrors(b.err, nil)
			}
			stats.Case(fmt.Sprintf("nil|%d|%+v", side, p), false)
			if res != b.err {
				t.Fatalf("merge with nil (side %d) returned another value", side)
			}
			after := observe(res)
			if fmt.Sprint(before.Name, before.Msg, before.Timeout, before.Temp, before.Fault, before.Hist) != fmt.Sprint(after.Name, after.Msg, after.Timeout, after.Temp, after.Fault, after.Hist) {
				t.Fatalf("merge with nil changed the error: %+v -> %+v", before, after)
			}
		}
		if goa.MergeErrors(nil, nil) != nil {
			t.Fatalf("MergeErrors(nil,nil) != nil")
		}
	})
}

// ---------------------------------------------------------------- status tables

func httpStatusModel(name string, timeout, temporary, fault bool) int {
	// documented table, http/error.go StatusCode
	if name == "unsupported_media_type" {
		return http.StatusUnsupportedMediaType
	}
	if fault {
		return http.StatusInternalServerError
	}
	if timeout && temporary {
		return http.StatusGatewayTimeout
	}
	if timeout {
		return http.StatusRequestTimeout
	}
	if temporary {
		return http.StatusServiceUnavailable
	}
	return http.StatusBadRequest
}

var specialNames = []string{"", "error", "fault", "unsupported_media_type", "missing_field", "invalid_field_type", "invalid_enum_value", "invalid_format", "invalid_pattern", "invalid_range", "invalid_length", "decode_payload", "missing_payload", "custom", "Unsupported_Media_Type", "unsupported_media_type "}

// TestStatusTables enumerates all 8 flag combinations × special names,
// for ServiceErrors, wrapped ServiceErrors and (flag-less) plain errors.
func TestStatusTables(t *testing.T) {
	ctx := context.Background()
	n := 0
	for _, name := range specialNames {
		for bits := 0; bits < 8; bits++ {
			to, tmp, fault := bits&1 != 0, bits&2 != 0, bits&4 != 0
			for _, wrap := range []bool{false, true} {
				se := goa.NewServiceError(errors.New("m"), name, to, tmp, fault)
				var err error = se
				if wrap {
					err = fmt.Errorf("w: %w", se)
				}
				n++
				stats.CaseSample(fmt.Sprintf("status|%s|%d|%v", name, bits, wrap), bits != 0 || wrap, map[string]any{"name": name, "timeout": to, "temporary": tmp, "fault": fault, "wrapped": wrap})
				// HTTP
				resp := goahttp.NewErrorResponse(ctx, err)
				if resp == nil {
					t.Fatalf("NewErrorResponse returned nil for %q/%d", name, bits)
				}
				want := httpStatusModel(name, to, tmp, fault)
				if got := resp.StatusCode(); got != want {
					t.Errorf("HTTP status for name=%q timeout=%v temporary=%v fault=%v wrapped=%v: want %d got %d", name, to, tmp, fault, wrap, want, got)
				}
				er, ok := resp.(*goahttp.ErrorResponse)
				if !ok {
					t.Fatalf("NewErrorResponse did not return *ErrorResponse")
				}
				if er.Name != name || er.ID != se.ID || er.Message != "m" || er.Timeout != to || er.Temporary != tmp || er.Fault != fault {
					t.Errorf("ErrorResponse fields differ from the error: %+v vs %+v", er, se)
				}
				// gRPC
				gerr := goagrpc.EncodeError(err)
				st, ok := status.FromError(gerr)
				if !ok {
					t.Fatalf("EncodeError did not return a status error")
				}
				// the table of grpc/error.go EncodeError: Temporary, else Timeout, else Fault, else Unknown.
				// (Callers key retries on Unavailable / DeadlineExceeded, so which flag wins when
				// several are set is part of the mapping, as it is for the HTTP status.)
				wantCode := codes.Unknown
				switch {
				case tmp:
					wantCode = codes.Unavailable
				case to:
					wantCode = codes.DeadlineExceeded
				case fault:
					wantCode = codes.Internal
				}
				if st.Code() != wantCode {
					t.Errorf("gRPC code for timeout=%v temporary=%v fault=%v: want %v got %v", to, tmp, fault, wantCode, st.Code())
				}
				if st.Message() != err.Error() {
					t.Errorf("gRPC status message %q != error text %q", st.Message(), err.Error())
				}
				msg := goagrpc.DecodeError(gerr)
				pb, ok := msg.(*goapb.ErrorResponse)
				if !ok {
					t.Fatalf("DecodeError did not return *ErrorResponse: %T", msg)
				}
				back := goagrpc.NewServiceError(pb)
				if back.Name != name || back.ID != se.ID || back.Message != "m" || back.Timeout != to || back.Temporary != tmp || back.Fault != fault {
					t.Errorf("gRPC round trip changed the error: %+v -> %+v", se, back)
				}
			}
		}
	}
	// plain errors: HTTP 500 with fault; gRPC Unknown with fault detail
	for _, e := range []error{errors.New("plain"), fmt.Errorf("w: %w", errors.New("inner")), errors.New("")} {
		n++
		stats.Case("status|plain|"+e.Error(), true)
		resp := goahttp.NewErrorResponse(ctx, e)
		if resp.StatusCode() != 500 {
			t.Errorf("plain error: want 500 got %d", resp.StatusCode())
		}
		er := resp.(*goahttp.ErrorResponse)
		if !er.Fault || er.Timeout || er.Temporary || er.Message != e.Error() || er.Name != "fault" || er.ID == "" {
			t.Errorf("plain error response: %+v", er)
		}
		gerr := goagrpc.EncodeError(e)
		st, _ := status.FromError(gerr)
		if st.Code() != codes.Unknown {
			t.Errorf("plain error gRPC code: want Unknown got %v", st.Code())
		}
		pb, ok := goagrpc.DecodeError(gerr).(*goapb.ErrorResponse)
		if !ok || !pb.Fault || pb.Msg != e.Error() {
			t.Errorf("plain error gRPC detail: %+v", pb)
		}
	}
	stats.Exhaustive("status tables: 8 flag combinations x special names x {direct,wrapped}")
	_ = n
}

// TestGRPCRoundTrip: random service errors survive EncodeError → DecodeError →
// NewServiceError with name, id, message and flags.
func TestGRPCRoundTrip(t *testing.T) {
	rapid.Check(t, func(t *rapid.T) {
		name := rapid.OneOf(rapid.SampledFrom(specialNames), rapid.StringN(0, 20, -1)).Draw(t, "name")
		msg := rapid.OneOf(rapid.SampledFrom([]string{"", "m", "a; b"}), rapid.StringN(0, 40, -1)).Draw(t, "msg")
		id := rapid.OneOf(rapid.Just(""), rapid.StringN(0, 12, -1)).Draw(t, "id")
		to, tmp, fault := rapid.Bool().Draw(t, "to"), rapid.Bool().Draw(t, "tmp"), rapid.Bool().Draw(t, "fault")
		if !validUTF8(name) || !validUTF8(msg) || !validUTF8(id) {
			t.Skip("proto3 strings are UTF-8")
		}
		se := &goa.ServiceError{Name: name, ID: id, Message: msg, Timeout: to, Temporary: tmp, Fault: fault}
		wrap := rapid.Bool().Draw(t, "wrap")
		var err error = se
		if wrap {
			err = fmt.Errorf("w: %w", se)
		}
		stats.CaseSample(fmt.Sprintf("rt|%q|%q|%q|%v%v%v|%v", name, msg, id, to, tmp, fault, wrap), len(name) > 0 && len(msg) > 0, map[string]any{"name": name, "msg": msg, "id": id, "flags": []bool{to, tmp, fault}, "wrapped": wrap})
		gerr := goagrpc.EncodeError(err)
		pb, ok := goagrpc.DecodeError(gerr).(*goapb.ErrorResponse)
		if !ok {
			t.Fatalf("no ErrorResponse detail in %v", gerr)
		}
		back := goagrpc.NewServiceError(pb)
		if back.Name != name || back.ID != id || back.Message != msg || back.Timeout != to || back.Temporary != tmp || back.Fault != fault {
			t.Fatalf("round trip changed the error: %+v -> %+v", se, back)
		}
		// HTTP status is total and follows the table for arbitrary names too
		if got, want := goahttp.NewErrorResponse(context.Background(), err).StatusCode(), httpStatusModel(name, to, tmp, fault); got != want {
			t.Fatalf("HTTP status: want %d got %d", want, got)
		}
	})
}

func validUTF8(s string) bool {
	for _, r := range s {
		if r == '�' {
			return false
		}
	}
	return true
}

// TestRegressions re-runs, without rapid, the minimal cases of defects that
// were found by this check and repaired in goa (known_findings.json, status
// "fixed"): they must stay repaired.
func TestRegressions(t *testing.T) {
	svc := func(name, msg string) part { return part{Kind: "service", Name: name, Msg: msg} }
	cases := [][]part{
		{svc("a", "ma"), svc("b", "mb")},                           // History()[0].Message was "ma; mb"
		{{Kind: "plain", Msg: "ma"}, svc("b", "mb")},               // History()[0].Name was "b"
		{svc("error", "ma"), svc("b", "mb"), svc("c", "mc")},       // renamed first entry
		{svc("a", "ma"), {Kind: "nil"}, {Kind: "plain", Msg: "p"}}, // nil in the middle
	}
	for _, parts := range cases {
		for _, tr := range allTrees(0, len(parts)) {
			stats.Case(fmt.Sprintf("reg|%+v|%s", parts, tr), true)
			if msg := checkMerge(parts, tr); msg != "" {
				t.Errorf("grouping %s of %+v: %s", tr, parts, msg)
			}
		}
	}
}
