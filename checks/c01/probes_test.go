package c01

import (
	"encoding/json"
	"os"
	"path/filepath"
	"strings"
	"sync"
	"testing"
	"time"

	"verif/internal/gen"
	"verif/internal/kf"
	m "verif/internal/model"
	"verif/internal/pipeline"
	"verif/internal/rt"
	"verif/internal/stats"
	"verif/internal/value"
)

func pdesign(types []*m.UserType, schemes []*m.Scheme, methods ...*m.Method) *m.Design {
	return &m.Design{API: m.API{Name: "probe"}, Types: types, Schemes: schemes,
		Services: []*m.Service{{Name: "probe", HasHTTP: true, Methods: methods}}}
}

func route(verb, path string) []m.Route { return []m.Route{{Verb: verb, Path: path}} }

func intp(i int) *int { return &i }

type c01probe struct {
	id string
	d  *m.Design
}

func c01probes() []c01probe {
	str, i64, boolean := m.Prim(m.String), m.Prim(m.Int64), m.Prim(m.Boolean)
	_ = boolean
	defInt := func() *m.Attr { a := m.Prim(m.Int); v := value.Int(3); a.Default = &v; return a }
	views := func(names ...string) []m.ViewField {
		var out []m.ViewField
		for _, n := range names {
			out = append(out, m.ViewField{Name: n})
		}
		return out
	}
	var ps []c01probe
	add := func(id string, d *m.Design) { ps = append(ps, c01probe{id, d}) }

	add("C01-cookie-nonstring", pdesign(nil, nil, &m.Method{Name: "m", Payload: rt.Obj(rt.Fld("c", m.Prim(m.Int), false)),
		HTTP: &m.HTTPEndpoint{Routes: route("GET", "/m"), Cookies: []m.Mapping{{Attr: "c"}}}}))
	add("C01-primitive-payload-header", pdesign(nil, nil, &m.Method{Name: "m", Payload: m.Prim(m.Int),
		HTTP: &m.HTTPEndpoint{Routes: route("GET", "/m"), Headers: []m.Mapping{{Attr: "", Wire: "X-Val"}}}}))
	add("C01-nested-inline-object", pdesign(nil, nil, &m.Method{Name: "m",
		Payload: rt.Obj(rt.Fld("outer", rt.Obj(rt.Fld("inner", rt.Obj(rt.Fld("x", str, true)), true)), true)),
		HTTP:    &m.HTTPEndpoint{Routes: route("POST", "/m")}}))
	add("C01-usertype-in-inline-object", pdesign(
		[]*m.UserType{{Name: "Item", Var: "v1", Attr: rt.Obj(rt.Fld("a", str, false))}}, nil,
		&m.Method{Name: "m", Payload: rt.Obj(rt.Fld("box", rt.Obj(rt.Fld("item", m.UserRef("Item"), false)), false)),
			HTTP: &m.HTTPEndpoint{Routes: route("POST", "/m")}}))
	add("C01-body-attr-optional-nonpointer", pdesign(nil, nil, &m.Method{Name: "m",
		Payload: rt.Obj(rt.Fld("n", defInt(), false), rt.Fld("q", str, false)),
		HTTP:    &m.HTTPEndpoint{Routes: route("POST", "/m"), Query: []m.Mapping{{Attr: "q"}}, Body: &m.Body{Mode: "attr", Attr: "n"}}}))
	add("C01-path-param-named-p", pdesign(nil, nil, &m.Method{Name: "m",
		Payload: rt.Obj(rt.Fld("p", str, true), rt.Fld("q", str, false)),
		HTTP:    &m.HTTPEndpoint{Routes: route("GET", "/m/{p}"), Path: []m.Mapping{{Attr: "p"}}, Query: []m.Mapping{{Attr: "q"}}}}))
	add("C01-body-fields-user-type", pdesign(
		[]*m.UserType{{Name: "Item", Var: "v1", Attr: rt.Obj(rt.Fld("a", str, false))}}, nil,
		&m.Method{Name: "m", Payload: rt.Obj(rt.Fld("item", m.UserRef("Item"), false), rt.Fld("q", str, false)),
			HTTP: &m.HTTPEndpoint{Routes: route("POST", "/m"), Query: []m.Mapping{{Attr: "q"}}, Body: &m.Body{Mode: "fields", Fields: []string{"item"}}}}))
	add("C01-body-fields-inline-required", pdesign(nil, nil,
		&m.Method{Name: "m", Payload: rt.Obj(rt.Fld("b", rt.Obj(rt.Fld("x", str, true)), false), rt.Fld("q", str, false)),
			HTTP: &m.HTTPEndpoint{Routes: route("POST", "/m"), Query: []m.Mapping{{Attr: "q"}}, Body: &m.Body{Mode: "fields", Fields: []string{"b"}}}}))
	{
		schemes := []*m.Scheme{{Kind: "apikey", Name: "key_a", Var: "s1"}, {Kind: "apikey", Name: "key_b", Var: "s2"}}
		mk := func(name, scheme string) *m.Method {
			return &m.Method{Name: name, Payload: rt.Obj(rt.Fld("key", str, true)),
				Security: []m.Requirement{{Schemes: []string{scheme}}}, Creds: []m.Cred{{Scheme: scheme, Kind: "apikey", Attr: "key"}},
				HTTP: &m.HTTPEndpoint{Routes: route("GET", "/"+name), Headers: []m.Mapping{{Attr: "key", Wire: "X-Key"}}}}
		}
		add("C01-two-schemes-same-type", pdesign(nil, schemes, mk("one", "key_a"), mk("two", "key_b")))
	}
	add("C01-collection-of-result-type-with-inline-object", pdesign(
		[]*m.UserType{
			{Name: "Item", Var: "v1", Result: true, Identifier: "application/vnd.item",
				Attr:  rt.Obj(rt.Fld("a", str, false), rt.Fld("box", rt.Obj(rt.Fld("x", str, false)), false)),
				Views: []*m.View{{Name: "default", Fields: views("a", "box")}}},
			{Name: "ItemCollection", Var: "v2", Result: true, CollectionOf: "Item"},
		}, nil,
		&m.Method{Name: "m", Result: m.UserRef("ItemCollection"), HTTP: &m.HTTPEndpoint{Routes: route("GET", "/m")}}))
	add("C01-recursive-result-type-nested-view", pdesign(
		[]*m.UserType{{Name: "Node", Var: "v1", Result: true, Identifier: "application/vnd.node",
			Attr: rt.Obj(rt.Fld("b", m.UserRef("Node"), false)),
			Views: []*m.View{{Name: "default", Fields: views("b")}, {Name: "tiny", Fields: views("b")},
				{Name: "full", Fields: []m.ViewField{{Name: "b", View: "tiny"}}}}}}, nil,
		&m.Method{Name: "m", Result: m.UserRef("Node"), HTTP: &m.HTTPEndpoint{Routes: route("GET", "/m")}}))
	add("C01-gen-hangs-recursive-type-with-union", pdesign(
		[]*m.UserType{{Name: "Point", Var: "v1", Attr: rt.Obj(
			rt.Fld("next", m.UserRef("Point"), false),
			rt.Fld("u", &m.Attr{Type: &m.Type{Kind: m.Union, Fields: []*m.Field{rt.Fld("s", str, false), rt.Fld("i", i64, false)}}}, false))}}, nil,
		&m.Method{Name: "m", Payload: m.UserRef("Point"), HTTP: &m.HTTPEndpoint{Routes: route("POST", "/m")}}))
	{
		enum := m.Prim(m.Int64)
		enum.V = &m.Validation{Enum: []value.V{value.Int(1), value.Int(-7)}}
		add("C01-result-type-required-validated-response-header", pdesign(
			[]*m.UserType{{Name: "Bottle", Var: "v1", Result: true, Identifier: "application/vnd.bottle",
				Attr:  rt.Obj(rt.Fld("flag", enum, true)),
				Views: []*m.View{{Name: "default", Fields: views("flag")}, {Name: "full", Fields: views("flag")}}}}, nil,
			&m.Method{Name: "m", Result: m.UserRef("Bottle"), ResultView: "full",
				HTTP: &m.HTTPEndpoint{Routes: route("GET", "/m"), Responses: []*m.Response{{Status: 200, Headers: []m.Mapping{{Attr: "flag", Wire: "X-Flag"}}}}}}))
	}
	add("C01-response-cookie-nonstring", pdesign(nil, nil, &m.Method{Name: "m", Result: rt.Obj(rt.Fld("n", m.Prim(m.Int), false), rt.Fld("s", str, false)),
		HTTP: &m.HTTPEndpoint{Routes: route("GET", "/m"), Responses: []*m.Response{{Status: 200, Cookies: []m.Mapping{{Attr: "n", Wire: "ncookie"}}}}}}))
	add("C01-param-named-like-generated-local", pdesign(nil, nil, &m.Method{Name: "m", Payload: rt.Obj(rt.Fld("r", m.Prim(m.Int), false), rt.Fld("q", str, false)),
		HTTP: &m.HTTPEndpoint{Routes: route("POST", "/m"), Headers: []m.Mapping{{Attr: "r", Wire: "X-R"}}}}))
	{
		a := m.Prim(m.Bytes)
		a.V = &m.Validation{MinLen: intp(2)}
		add("C01-bytes-param-with-length-validation", pdesign(nil, nil, &m.Method{Name: "m", Payload: rt.Obj(rt.Fld("data", a, false)),
			HTTP: &m.HTTPEndpoint{Routes: route("POST", "/m"), Query: []m.Mapping{{Attr: "data"}}}}))
	}
	{
		un := func() *m.Attr {
			return &m.Attr{Type: &m.Type{Kind: m.Union, Fields: []*m.Field{rt.Fld("alt_a", str, false), rt.Fld("alt_b", boolean, false)}}}
		}
		add("C01-union-in-inline-object", pdesign(nil, nil, &m.Method{Name: "m",
			Payload: rt.Obj(rt.Fld("box", rt.Obj(rt.Fld("x", str, false), rt.Fld("u", un(), false)), false)),
			HTTP:    &m.HTTPEndpoint{Routes: route("POST", "/m")}}))
		add("C01-union-in-body-fields", pdesign(nil, nil, &m.Method{Name: "m",
			Payload: rt.Obj(rt.Fld("u", un(), false), rt.Fld("q", str, false)),
			HTTP:    &m.HTTPEndpoint{Routes: route("POST", "/m"), Query: []m.Mapping{{Attr: "q"}}, Body: &m.Body{Mode: "fields", Fields: []string{"u"}}}}))
	}
	{
		dv := value.Str("x")
		a := m.Prim(m.String)
		a.Default = &dv
		add("C01-result-type-response-cookie-with-default", pdesign(
			[]*m.UserType{{Name: "Tree", Var: "v1", Result: true, Identifier: "application/vnd.tree", Attr: rt.Obj(rt.Fld("items", a, false), rt.Fld("other", str, false)),
				Views: []*m.View{{Name: "default", Fields: views("items", "other")}}}}, nil,
			&m.Method{Name: "m", Result: m.UserRef("Tree"), HTTP: &m.HTTPEndpoint{Routes: route("GET", "/m"), Responses: []*m.Response{{Status: 200, Cookies: []m.Mapping{{Attr: "items"}}}}}}))
	}
	add("C01-map-key-bool-or-float-gen-fails", pdesign(nil, nil, &m.Method{Name: "m",
		Payload: rt.Obj(rt.Fld("flags", &m.Attr{Type: &m.Type{Kind: m.Map, Key: m.Prim(m.Boolean), Val: m.Prim(m.Int64)}}, false)),
		HTTP:    &m.HTTPEndpoint{Routes: route("POST", "/m")}}))
	add("C01-map-with-object-key-does-not-compile", pdesign(
		[]*m.UserType{{Name: "Key", Var: "v1", Attr: rt.Obj(rt.Fld("a", m.Prim(m.String), false))}}, nil,
		&m.Method{Name: "m", Payload: rt.Obj(rt.Fld("index", &m.Attr{Type: &m.Type{Kind: m.Map, Key: m.UserRef("Key"), Val: m.Prim(m.String)}}, false)),
			HTTP: &m.HTTPEndpoint{Routes: route("POST", "/m")}}))
	{
		a := m.Prim(m.String)
		a.V = &m.Validation{MinLen: intp(2)}
		add("C01-body-attr-recursive-validated-user-type", pdesign(
			[]*m.UserType{{Name: "Tree", Var: "v1", Attr: rt.Obj(rt.Fld("a", a, true), rt.Fld("lang", m.UserRef("Tree"), false))}}, nil,
			&m.Method{Name: "m", Payload: rt.Obj(rt.Fld("opts", m.UserRef("Tree"), false)), HTTP: &m.HTTPEndpoint{Routes: route("POST", "/m"), Body: &m.Body{Mode: "attr", Attr: "opts"}}}))
	}
	// gRPC
	{
		health := &m.Service{Name: "health", HasHTTP: true, Methods: []*m.Method{{Name: "ping", HTTP: &m.HTTPEndpoint{Routes: route("GET", "/ping")}}}}
		gd := func(types []*m.UserType, withHTTP bool, meth *m.Method) *m.Design {
			d := &m.Design{API: m.API{Name: "probe", Server: true}, Types: types, Services: []*m.Service{{Name: "probe", HasGRPC: true, Methods: []*m.Method{meth}}}}
			if withHTTP {
				d.Services = append(d.Services, health)
			}
			return d
		}
		tf := func(n string, a *m.Attr, req bool, tag int) *m.Field { return &m.Field{Name: n, Attr: a, Required: req, Tag: tag} }
		add("C01-grpc-only-design-example-main", gd(nil, false, &m.Method{Name: "m", GRPC: &m.GRPCEndpoint{}}))
		add("C01-example-grpc-server-streamchain-unused", gd(nil, true, &m.Method{Name: "m", Streaming: "result", Result: m.Prim(m.UInt32), GRPC: &m.GRPCEndpoint{}}))
		add("C01-grpc-response-metadata", gd(nil, true, &m.Method{Name: "m", Result: rt.Obj(tf("name", str, true, 1), tf("other", str, false, 2)), GRPC: &m.GRPCEndpoint{Headers: []m.Mapping{{Attr: "name"}}}}))
		add("C01-gen-hangs-grpc-recursive-type", gd([]*m.UserType{{Name: "Item", Var: "v1", Attr: rt.Obj(tf("children", &m.Attr{Type: &m.Type{Kind: m.Array, Elem: m.UserRef("Item")}}, false, 1))}}, true,
			&m.Method{Name: "m", Payload: m.UserRef("Item"), GRPC: &m.GRPCEndpoint{}}))
		// (fixed: byLength resolves aliases. The probe uses the HTTP spelling of the same defect - a length validation written in a
		// Param mapping of an alias-typed attribute - because alias-typed gRPC metadata does not compile for another, open, reason.)
		add("C01-grpc-metadata-alias-length-validation-gen-panic", pdesign([]*m.UserType{{Name: "Opts", Var: "v1", Attr: &m.Attr{Type: &m.Type{Kind: m.String}, V: &m.Validation{MinLen: intp(0)}}}}, nil,
			&m.Method{Name: "m", Payload: rt.Obj(rt.Fld("unit", &m.Attr{Type: &m.Type{Kind: m.User, User: "Opts"}, V: &m.Validation{MaxLen: intp(5)}, VAtMapping: true}, false), rt.Fld("x", str, false)),
				HTTP: &m.HTTPEndpoint{Routes: route("GET", "/m"), Query: []m.Mapping{{Attr: "unit"}}}}))
		add("C01-grpc-metadata-alias-type", gd([]*m.UserType{{Name: "Leaf", Var: "v1", Attr: m.Prim(m.Int)}}, true,
			&m.Method{Name: "m", Payload: rt.Obj(tf("y2", m.UserRef("Leaf"), false, 1), tf("x", str, false, 2)), GRPC: &m.GRPCEndpoint{Metadata: []m.Mapping{{Attr: "y2"}}}}))
		add("C01-grpc-metadata-uint32-array-does-not-compile", gd(nil, true,
			&m.Method{Name: "m", Payload: rt.Obj(tf("owner", &m.Attr{Type: &m.Type{Kind: m.Array, Elem: m.Prim(m.UInt32)}}, false, 1), tf("x", str, false, 2)), GRPC: &m.GRPCEndpoint{Metadata: []m.Mapping{{Attr: "owner"}}}}))
	}
	add("C01-streaming-payload-validated-alias", pdesign([]*m.UserType{
		{Name: "Node", Var: "v1", Attr: &m.Attr{Type: &m.Type{Kind: m.Int}, V: &m.Validation{Enum: []value.V{value.Int(1), value.Int(42)}}}},
		{Name: "Item", Var: "v3", Attr: rt.Obj(rt.Fld("rank", m.UserRef("Node"), false))}}, nil,
		&m.Method{Name: "m", Streaming: "payload", StreamingPayload: m.UserRef("Item"), HTTP: &m.HTTPEndpoint{Routes: route("GET", "/m")}}))
	{
		dv := value.Str("\tZ\nx")
		zone := m.Prim(m.String)
		zone.Default = &dv
		add("C01-openapi-extension-and-tab-led-multiline-string-gen-fails", pdesign(nil, nil, &m.Method{Name: "m", Payload: rt.Obj(rt.Fld("zone", zone, false)),
			HTTP: &m.HTTPEndpoint{Routes: route("PUT", "/m"), Headers: []m.Mapping{{Attr: "zone", Wire: "X-A"}}, Meta: [][]string{{"openapi:extension:x-ep", `{"a":1}`}}}}))
	}
	add("C01-method-named-like-user-type-in-its-body", pdesign([]*m.UserType{{Name: "Bag", Var: "v1", Attr: rt.Obj(rt.Fld("note", str, false))}}, nil,
		&m.Method{Name: "bag", Payload: rt.Obj(rt.Fld("bag", m.UserRef("Bag"), false)), HTTP: &m.HTTPEndpoint{Routes: route("POST", "/bag")}}))
	// fixed findings: the minimal designs that used to fail
	add("C01-openapi3-streaming-endpoint-several-routes-panics", pdesign(nil, nil, &m.Method{Name: "m", Streaming: "result", Result: rt.Obj(rt.Fld("ratio", m.Prim(m.Int), false)),
		HTTP: &m.HTTPEndpoint{Routes: []m.Route{{Verb: "GET", Path: "/m"}, {Verb: "GET", Path: "/m/alt"}}}}))
	{
		a := &m.Attr{Type: &m.Type{Kind: m.Array, Elem: str}, V: &m.Validation{MaxLen: intp(1)}}
		add("C01-maxlength-below-2-panics", pdesign(nil, nil, &m.Method{Name: "m", Payload: rt.Obj(rt.Fld("xs", a, false)), HTTP: &m.HTTPEndpoint{Routes: route("POST", "/m")}}))
	}
	{
		el := m.Prim(m.UInt)
		el.V = &m.Validation{Enum: []value.V{value.Int(1), value.Int(7)}}
		a := &m.Attr{Type: &m.Type{Kind: m.Array, Elem: el}, V: &m.Validation{MinLen: intp(1)}}
		add("C01-example-array-elements-panic", pdesign(nil, nil, &m.Method{Name: "m", Payload: rt.Obj(rt.Fld("xs", a, false)), HTTP: &m.HTTPEndpoint{Routes: route("POST", "/m")}}))
	}
	{
		a := m.Prim(m.String)
		a.Desc = "with `backtick`"
		add("C01-cli-flag-description-backtick", pdesign(nil, nil, &m.Method{Name: "m", Payload: rt.Obj(rt.Fld("q", a, false)), HTTP: &m.HTTPEndpoint{Routes: route("GET", "/m"), Query: []m.Mapping{{Attr: "q"}}}}))
	}
	{
		a := m.Prim(m.String)
		v := value.Str("a\"b\\c\nd")
		a.Default = &v
		add("C01-cli-flag-default-unquoted", pdesign(nil, nil, &m.Method{Name: "m", Payload: rt.Obj(rt.Fld("q", a, false)), HTTP: &m.HTTPEndpoint{Routes: route("GET", "/m"), Query: []m.Mapping{{Attr: "q"}}}}))
	}
	add("C01-cli-json-example-empty-map", pdesign(
		[]*m.UserType{{Name: "Node", Var: "v1", Attr: rt.Obj(rt.Fld("next", m.UserRef("Node"), false))}}, nil,
		&m.Method{Name: "m", Payload: rt.Obj(rt.Fld("n", m.UserRef("Node"), false), rt.Fld("q", str, false)),
			HTTP: &m.HTTPEndpoint{Routes: route("POST", "/m"), Query: []m.Mapping{{Attr: "q"}}, Body: &m.Body{Mode: "attr", Attr: "n"}}}))
	return ps
}

// TestProbes re-creates the minimal design of every known finding of C01.
func TestProbes(t *testing.T) {
	if rt.ReplayDir() != "" && os.Getenv("VERIF_PROBE_ONLY") == "" {
		t.Skip("replay of a search case")
	}
	sess, err := pipeline.NewSession("c01p")
	if err != nil {
		t.Fatalf("INCONCLUSIVE: %v", err)
	}
	defer sess.Close()
	sess.GenTimeout = 30 * time.Second
	ps := c01probes()
	outs := make([]*pipeline.Outcome, len(ps))
	var wg sync.WaitGroup
	sem := make(chan struct{}, 12)
	for i := range ps {
		wg.Add(1)
		go func(i int) {
			defer wg.Done()
			sem <- struct{}{}
			defer func() { <-sem }()
			outs[i] = sess.GenerateAndCompile(ps[i].d, true)
		}(i)
	}
	wg.Wait()
	for i, p := range ps {
		o := outs[i]
		if only := os.Getenv("VERIF_PROBE_ONLY"); only != "" && only != p.id {
			continue
		}
		// A probe of a finding that is not open must not fail for an
		// infrastructure reason (a loaded machine, a cold build cache): a
		// failure is re-run alone with a generous budget and, when it is a
		// timeout or a crash of the tool chain both times, reported as
		// inconclusive instead of as the defect being back.
		if f, ok := kf.Get(p.id); o.Failure != "" && (!ok || f.Status != "open") {
			sess.GenTimeout = 300 * time.Second
			o2 := sess.GenerateAndCompile(p.d, true)
			t.Logf("probe %s failed (%s); alone with a 300s budget: %q", p.id, firstLine(o.Describe()), firstLine(o2.Describe()))
			o = o2
			if o.Failure == "timeout" || o.Failure == "crash" {
				t.Errorf("INCONCLUSIVE: probe %s could not be evaluated: %s", p.id, firstLine(o.Describe()))
				continue
			}
		}
		if !o.Accepted && o.Failure == "" {
			t.Logf("probe %s: design rejected: %v", p.id, o.Rejected)
			stats.ProbeResult(p.id, false, "design rejected by goa")
			continue
		}
		what := "minimal design builds"
		if o.Failure != "" {
			what = o.Failure + ": " + firstLine(strings.TrimSpace(lastDiag(o.Detail)))
		}
		// a quirk's detector must recognise its own probe (keeps generator exclusion and probe in step)
		for _, q := range gen.Quirks {
			if q.ID == p.id && !q.Detect(p.d) {
				t.Errorf("quirk detector of %s does not recognise its probe design", p.id)
			}
		}
		stats.ProbeResult(p.id, o.Failure != "", what)
	}
}

func lastDiag(detail string) string {
	for _, l := range strings.Split(detail, "\n") {
		if strings.Contains(l, ".go:") || strings.Contains(l, "panic") || strings.Contains(l, "timeout") {
			return l
		}
	}
	return detail
}

// replayDesign re-runs the pipeline on the design saved in a replay directory.
func replayDesign(t *testing.T) {
	rd := rt.ReplayDir()
	var d m.Design
	b, err := os.ReadFile(filepath.Join(rd, "reduced.design.json"))
	if err != nil {
		b, err = os.ReadFile(filepath.Join(rd, "design.json"))
	}
	if err != nil {
		t.Fatalf("INCONCLUSIVE: no design in %s", rd)
	}
	if err := json.Unmarshal(b, &d); err != nil {
		t.Fatalf("INCONCLUSIVE: %v", err)
	}
	sess, err := pipeline.NewSession("c01r")
	if err != nil {
		t.Fatalf("INCONCLUSIVE: %v", err)
	}
	defer sess.Close()
	o := sess.GenerateAndCompile(&d, true)
	if o.Failure != "" {
		t.Fatalf("replayed design still fails: %s\n%s", o.Failure, firstLines(o.Detail, 20))
	}
	t.Logf("replayed design: %s", o.Describe())
}
