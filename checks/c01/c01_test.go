// Package c01 decides property C01: every accepted design generates code that
// compiles (gen and example generators run without error or panic, every Go
// package written type-checks).
package c01

import (
	"encoding/json"
	"fmt"
	"os"
	"path/filepath"
	"sort"
	"strconv"
	"strings"
	"sync"
	"testing"
	"time"

	"verif/internal/gen"
	"verif/internal/kf"
	m "verif/internal/model"
	"verif/internal/pipeline"
	"verif/internal/reduce"
	"verif/internal/rt"
	"verif/internal/stats"
)

func TestMain(m *testing.M) { stats.Main(m) }

func envInt(name string, def int) int {
	if v := os.Getenv(name); v != "" {
		if n, err := strconv.Atoi(v); err == nil {
			return n
		}
	}
	return def
}

func profile() gen.Profile {
	p := baseProfile()
	// experiments: VERIF_FEATURES=HostileFields,Unions,... switches features on
	for _, f := range strings.Split(os.Getenv("VERIF_FEATURES"), ",") {
		switch f {
		case "HostileFields":
			p.HostileFields = true
		case "HostileNames":
			p.HostileNames = true
		case "Unions":
			p.Unions = true
		case "Any":
			p.Any = true
		case "Extend":
			p.Extend = true
		case "Streaming":
			p.Streaming = true
		case "Files":
			p.Files = true
		case "Meta":
			p.Meta = true
		case "Examples":
			p.Examples = true
		case "AllVerbs":
			p.AllVerbs = true
		case "NoRuntime":
			p.Runtime = false
		}
	}
	return p
}

func baseProfile() gen.Profile {
	switch os.Getenv("VERIF_PROFILE") {
	case "request":
		return gen.Request()
	case "response":
		return gen.Response()
	case "security":
		return gen.Security()
	case "views":
		return gen.Views()
	case "routes":
		return gen.Routes()
	case "errors":
		return gen.Errors()
	case "names":
		return gen.Names()
	}
	return gen.Wide()
}

// TestCompile is the campaign over the profile named by VERIF_PROFILE (default: wide).
func TestCompile(t *testing.T) { campaign(t, profile()) }

// One campaign per generator profile, so that the driver can budget them separately.
func TestCompileRoutes(t *testing.T)   { campaign(t, gen.Routes()) }
func TestCompileViews(t *testing.T)    { campaign(t, gen.Views()) }
func TestCompileRequest(t *testing.T)  { campaign(t, gen.Request()) }
func TestCompileResponse(t *testing.T) { campaign(t, gen.Response()) }
func TestCompileErrors(t *testing.T)   { campaign(t, gen.Errors()) }
func TestCompileSecurity(t *testing.T) { campaign(t, gen.Security()) }
func TestCompileNames(t *testing.T)    { campaign(t, gen.Names()) }
func TestCompileWide(t *testing.T)     { campaign(t, gen.Wide()) }
func TestCompileGRPC(t *testing.T)     { campaign(t, gen.GRPCProfile()) }
func TestCompileStreams(t *testing.T)  { campaign(t, streamsProfile()) }

// streamsProfile is the streams profile of C02/C03 plus declared errors:
// websocket streaming endpoints, their example servers and CLI.
func streamsProfile() gen.Profile {
	p := gen.Streams()
	p.Errors = true
	return p
}

// TestCompileFixed pushes the fixed matrix designs (every primitive kind in
// every parameter location alone in its method, the parameter / view /
// defaults / gRPC matrices) through the same pipeline.
func TestCompileFixed(t *testing.T) {
	if rt.ReplayDir() != "" {
		replayDesign(t)
		return
	}
	sess, err := pipeline.NewSession("c01f")
	if err != nil {
		t.Fatalf("INCONCLUSIVE: %v", err)
	}
	defer sess.Close()
	sess.GenTimeout = 300 * time.Second
	designs := []*m.Design{gen.KindMatrix(), gen.ParamMatrix(), gen.ViewMatrix(), gen.DefaultsMatrix(), gen.GRPCMatrix(), gen.MapKeyMatrix(), gen.VerbMatrix(), gen.ValidationMatrix(), gen.RawBodyMatrix(), gen.StreamMatrix(), gen.GRPCStreamMatrix(), gen.MapParamsMatrix(), gen.NestMatrix(), gen.SecurityMatrix(), gen.RecursiveMatrix(), gen.WildcardMatrix(), gen.InheritMatrix(), gen.GetBodyMatrix(), gen.MultipartMatrix(), gen.RespCookieMatrix()}
	if only := os.Getenv("VERIF_FIXED_ONLY"); only != "" { // development aid: one fixed design
		var sel []*m.Design
		for _, d := range designs {
			if d.API.Name == only {
				sel = append(sel, d)
			}
		}
		designs = sel
	}
	outs := make([]*pipeline.Outcome, len(designs))
	var wg sync.WaitGroup
	for i := range designs {
		wg.Add(1)
		go func(i int) {
			defer wg.Done()
			outs[i] = sess.GenerateAndCompile(designs[i], true)
		}(i)
	}
	wg.Wait()
	failures := 0
	for i, o := range outs {
		d := designs[i]
		for _, f := range d.Features {
			stats.Class("feature:" + f)
		}
		if !o.Accepted && o.Failure == "" {
			t.Errorf("INCONCLUSIVE: fixed design %s is rejected by goa: %v", d.API.Name, o.Rejected)
			continue
		}
		stats.Class("accepted")
		stats.CaseSample("fixed|"+d.API.Name, true, map[string]any{"design": d.API.Name, "features": d.Features, "files": o.Files, "outcome": firstLine(o.Describe())})
		if o.Failure == "" {
			continue
		}
		if q := gen.MatchQuirks(d, o.Sig); len(q) > 0 {
			fmt.Printf("fixed design %s: explained by open known finding(s) %v\n", d.API.Name, q)
			continue
		}
		failures++
		dir := saveReplay(t, o, nil, 100+i)
		fmt.Printf("fixed design %s fails: %s\n%s\nVIOLATION-DETAIL property=C01 replay=%s\n", d.API.Name, o.Sig, firstLines(o.Detail, 14), dir)
	}
	if failures > 0 {
		t.Fatalf("%d fixed design(s) whose generated code does not build or whose generator failed", failures)
	}
}

// toolChainTrouble recognises failures of the go command that say nothing
// about the generated code.
func toolChainTrouble(detail string) bool {
	for _, m := range []string{"updating go.mod: existing contents have changed", "no space left on device", "cannot allocate memory", "resource temporarily unavailable", "text file busy", "too many open files"} {
		if strings.Contains(detail, m) {
			return true
		}
	}
	return false
}

func campaign(t *testing.T, prof gen.Profile) {
	if rt.ReplayDir() != "" {
		replayDesign(t)
		return
	}
	n := envInt("VERIF_CHECKS", 48)
	seed := envInt("VERIF_SEED", 1)
	sess, err := pipeline.NewSession("c01")
	if err != nil {
		t.Fatalf("INCONCLUSIVE: %v", err)
	}
	defer sess.Close()
	sess.GenTimeout = 60 * time.Second
	prof.Avoid = gen.OpenQuirks()

	outs := make([]*pipeline.Outcome, n)
	designs := make([]*m.Design, n)
	var wg sync.WaitGroup
	sem := make(chan struct{}, 16)
	for i := 0; i < n; i++ {
		wg.Add(1)
		go func(i int) {
			defer wg.Done()
			sem <- struct{}{}
			defer func() { <-sem }()
			var d *m.Design
			if prof.GRPC && prof.Name == "grpc" {
				d = gen.GRPCDesign(prof).Example(seed*1000003 + i)
			} else {
				d = gen.Design(prof).Example(seed*1000003 + i)
			}
			designs[i] = d
			outs[i] = sess.GenerateAndCompile(d, true)
		}(i)
	}
	wg.Wait()
	// A timeout or a crash of the tool chain under load is not a verdict:
	// such designs are re-run alone with a five times larger budget first.
	sess.GenTimeout = 300 * time.Second
	reruns := 0
	for i, o := range outs {
		if (o.Failure == "timeout" || o.Failure == "crash") && reruns < 3 {
			reruns++
			stats.Class("rerun-alone:" + o.Failure)
			outs[i] = sess.GenerateAndCompile(designs[i], true)
		}
		// the go command itself tripping over the shared scratch module (two
		// builds updating go.mod at once) or the machine (disk, memory)
		if o.Failure != "" && toolChainTrouble(o.Detail) {
			stats.Class("rerun-alone:tool-chain-trouble")
			outs[i] = sess.GenerateAndCompile(designs[i], true)
			if outs[i].Failure != "" && toolChainTrouble(outs[i].Detail) {
				t.Fatalf("INCONCLUSIVE: the Go tool chain keeps failing for an infrastructure reason: %s", firstLines(outs[i].Detail, 3))
			}
		}
	}
	// still timing out: once more with a budget no loaded machine exhausts
	// (a generator that really hangs - there is such a finding - still does)
	sess.GenTimeout = 900 * time.Second
	for i, o := range outs {
		if o.Failure == "timeout" {
			stats.Class("rerun-alone-900s:timeout")
			outs[i] = sess.GenerateAndCompile(designs[i], true)
		}
	}
	sess.GenTimeout = 60 * time.Second

	accepted, rejected := 0, 0
	featSeen := map[string]bool{}
	var rejSamples []string
	for i, o := range outs {
		d := designs[i]
		for _, f := range d.Features {
			stats.Class("feature:" + f)
			if strings.HasPrefix(f, "excluded:") {
				stats.Excluded(strings.TrimPrefix(f, "excluded:"))
			}
		}
		if !o.Accepted && o.Failure == "" {
			rejected++
			stats.Class("rejected")
			if len(rejSamples) < 5 {
				rejSamples = append(rejSamples, strings.Join(o.Rejected, "; "))
			}
			stats.Case("rejected:"+o.Run.Name, false)
			continue
		}
		accepted++
		stats.Class("accepted")
		// non-trivial: accepted design whose feature vector is new in this run and has >= 6 features
		fv := strings.Join(d.Features, ",")
		nt := len(d.Features) >= 6 && !featSeen[fv]
		featSeen[fv] = true
		stats.CaseSample(prof.Name+"|"+fv, nt, map[string]any{"design": o.Run.Name, "features": d.Features, "services": len(d.Services), "types": len(d.Types), "files": o.Files, "outcome": firstLine(o.Describe())})
	}
	for _, r := range rejSamples {
		stats.Note("rejected design: %s", r)
	}
	fmt.Printf("designs=%d accepted=%d rejected=%d\n", n, accepted, rejected)

	clusters := pipeline.Cluster(outs)
	violations := 0
	for ci, cl := range clusters {
		rep := cl[0]
		fmt.Printf("\n=== cluster %d (%d designs): %s\n", ci, len(cl), rep.Sig)
		// does an open known finding explain every member? (cheap check first)
		allKnown := true
		var ids []string
		for _, o := range cl {
			q := gen.MatchQuirks(o.Run.Design, o.Sig)
			if len(q) == 0 {
				allKnown = false
				break
			}
			ids = append(ids, q...)
		}
		if allKnown {
			fmt.Printf("    explained by open known finding(s) %v\n", uniq(ids))
			for _, id := range uniq(ids) {
				stats.Class("known-finding-hit:" + id)
			}
			continue
		}
		// reduce the representative
		if ci >= envInt("VERIF_MAX_REDUCE", 6) {
			fmt.Printf("    (not reduced: reduction budget used)\n%s\n", firstLines(rep.Detail, 12))
			violations++
			saveReplay(t, rep, nil, ci)
			continue
		}
		sig := rep.Sig
		small, evals := reduce.Reduce(rep.Run.Design, func(c *m.Design) bool {
			o := sess.GenerateAndCompile(c, strings.HasPrefix(sig, "example") || strings.Contains(sig, "cmd:") || strings.Contains(sig, "example:"))
			return o.Failure != "" && o.Sig == sig
		}, envInt("VERIF_REDUCE_BUDGET", 60))
		if q := gen.MatchQuirks(small, sig); len(q) > 0 {
			fmt.Printf("    reduced (%d evaluations); explained by open known finding(s) %v\n", evals, q)
			continue
		}
		violations++
		dir := saveReplay(t, rep, small, ci)
		fmt.Printf("    reduced with %d evaluations to:\n%s\n--- diagnostics:\n%s\n", evals, small.Lower().Print("design"), firstLines(rep.Detail, 14))
		fmt.Printf("VIOLATION-DETAIL property=C01 replay=%s\n", dir)
	}
	if accepted == 0 || rejected*100 > n*25 {
		t.Fatalf("INCONCLUSIVE: generator health: %d of %d designs rejected by goa (samples: %v)", rejected, n, rejSamples)
	}
	if violations > 0 {
		t.Fatalf("%d cluster(s) of accepted designs whose generated code does not build or whose generator failed", violations)
	}
}

func uniq(s []string) []string {
	seen := map[string]bool{}
	var out []string
	for _, x := range s {
		if !seen[x] {
			seen[x] = true
			out = append(out, x)
		}
	}
	sort.Strings(out)
	return out
}

func saveReplay(t *testing.T, rep *pipeline.Outcome, small *m.Design, ci int) string {
	dir := os.Getenv("VERIF_REPLAY_OUT")
	if dir == "" {
		dir = filepath.Join(kfRoot(), "replays", "C01")
	}
	dir = filepath.Join(dir, fmt.Sprintf("cluster%d-%s", ci, rep.Run.Name))
	extra := map[string][]byte{"diagnostics.txt": []byte(rep.Detail), "signature.txt": []byte(rep.Sig)}
	if small != nil {
		b, _ := json.MarshalIndent(small, "", " ")
		extra["reduced.design.json"] = b
		extra["reduced.design.go"] = []byte(small.Lower().Print("design"))
	}
	_ = rep.Run.SaveReplay(dir, extra)
	return dir
}

func kfRoot() string { return filepath.Dir(kf.Path()) }

func firstLine(s string) string {
	if i := strings.Index(s, "\n"); i >= 0 {
		return s[:i]
	}
	return s
}

func firstLines(s string, n int) string {
	ls := strings.Split(s, "\n")
	if len(ls) > n {
		ls = ls[:n]
	}
	for i, l := range ls {
		if len(l) > 300 {
			ls[i] = l[:300] + "…"
		}
	}
	return strings.Join(ls, "\n")
}
