package c06

import (
	"os"
	"testing"

	"verif/harness"
	m "verif/internal/model"
	"verif/internal/rt"
	"verif/internal/value"
)

func probeDesign() *m.Design {
	d := &m.Design{API: m.API{Name: "probe"}}
	d.Schemes = []*m.Scheme{{Kind: "basic", Name: "basic", Var: "v1"}}
	s := &m.Service{Name: "probe", HasHTTP: true}
	s.Methods = append(s.Methods, &m.Method{Name: "login",
		Security: []m.Requirement{{Schemes: []string{"basic"}}},
		Payload:  rt.Obj(rt.Fld("user", m.Prim(m.String), false), rt.Fld("pass", m.Prim(m.String), false)),
		Creds:    []m.Cred{{Scheme: "basic", Kind: "username", Attr: "user"}, {Scheme: "basic", Kind: "password", Attr: "pass"}},
		HTTP:     &m.HTTPEndpoint{Routes: []m.Route{{Verb: "POST", Path: "/login"}}}})
	d.Services = []*m.Service{s}
	return d
}

// TestProbes re-creates the minimal input of every known finding of C06.
func TestProbes(t *testing.T) {
	if rt.ReplayDir() != "" && os.Getenv("VERIF_PROBE_ONLY") == "" {
		t.Skip("replay of a search case")
	}
	sess, h := rt.BuildOne(t, "c06p", probeDesign())
	defer sess.Close()
	defer h.Close()
	rt.Probe("C06-basic-partial-credentials-dropped", func() (bool, string) {
		o, err := h.Do(&harness.Case{Op: "call", Svc: "probe", Method: "login", HasPayload: true,
			Payload: value.Object(value.Field{N: "user", V: value.Str("alice")}),
			Auth:    &harness.AuthSpec{Accept: map[string]bool{"basic": true}}})
		if err != nil {
			t.Fatalf("INCONCLUSIVE: %v", err)
		}
		if len(o.AuthCalls) != 1 {
			return false, "no callback"
		}
		return o.AuthCalls[0].User != "alice", "payload {user:\"alice\"} (password unset): the Basic callback received user \"" + o.AuthCalls[0].User + "\""
	})
}
