// Package c06 decides property C06: a method protected by security
// requirements runs only when at least one requirement has all of its
// schemes' authorization callbacks succeed; each callback receives the
// credential from the designed place together with the scheme's declared and
// required scopes; NoSecurity methods run without any callback; requirements
// declared on the API or service apply to methods that do not override them.
package c06

import (
	"fmt"
	"sort"
	"strings"
	"sync"
	"testing"

	"pgregory.net/rapid"

	"verif/harness"
	"verif/internal/gen"
	m "verif/internal/model"
	"verif/internal/rt"
	"verif/internal/stats"
	"verif/internal/streamcase"
	"verif/internal/value"
)

func TestMain(m *testing.M) { stats.Main(m) }

type caseRec struct {
	Service string          `json:"service"`
	Method  string          `json:"method"`
	Payload value.V         `json:"payload"`
	Result  value.V         `json:"result"`
	Accept  map[string]bool `json:"accept"`
	// UseGranted: the callbacks enforce the required scopes with goa's
	// scheme.Validate(Granted)
	UseGranted bool     `json:"use_granted,omitempty"`
	Granted    []string `json:"granted,omitempty"`
	Message    string   `json:"message"`
	// Stream scripts the call when the method is a streaming endpoint
	Stream *harness.StreamSpec `json:"stream,omitempty"`
}

func keep(d *m.Design) bool { return len(d.Schemes) > 0 }

func TestSecurity(t *testing.T) {
	n := rt.EnvInt("VERIF_CHECKS", 24)
	seed := rt.EnvInt("VERIF_SEED", 1)
	sess, built := rt.Prepare(t, "c06", rt.Options{Profile: gen.Security(), N: n, Seed: seed, Keep: keep, Extra: []*m.Design{gen.SecurityMatrix()}})
	defer sess.Close()
	defer rt.CloseAll(built)
	if len(built) == 0 {
		t.Fatalf("INCONCLUSIVE: no design could be built")
	}
	if len(built)*2 < n && rt.ReplayDir() == "" {
		t.Fatalf("INCONCLUSIVE: only %d of %d designs could be built (generator health)", len(built), n)
	}
	var wg sync.WaitGroup
	var mu sync.Mutex
	failures := 0
	sem := make(chan struct{}, 16)
	for _, b := range built {
		wg.Add(1)
		go func(b *rt.Built) {
			defer wg.Done()
			sem <- struct{}{}
			defer func() { <-sem }()
			for _, s := range b.Design.Services {
				for _, meth := range s.Methods {
					if meth.HTTP == nil {
						continue
					}
					if !checkMethod(t, b, s, meth) {
						mu.Lock()
						failures++
						mu.Unlock()
					}
				}
			}
		}(b)
	}
	wg.Wait()
	if failures > 0 {
		t.Fatalf("%d method(s) violate C06", failures)
	}
}

func schemesOf(reqs []m.Requirement) []string {
	seen := map[string]bool{}
	var out []string
	for _, r := range reqs {
		for _, s := range r.Schemes {
			if !seen[s] {
				seen[s] = true
				out = append(out, s)
			}
		}
	}
	return out
}

func checkMethod(t *testing.T, b *rt.Built, s *m.Service, meth *m.Method) bool {
	d := b.Design
	label := rt.MethodLabel(b, s, meth)
	var last *caseRec
	var replay caseRec
	if rt.LoadReplayCase(&replay) {
		if replay.Service != s.Name || replay.Method != meth.Name {
			return true
		}
		if msg := runCase(b, s, meth, &replay); msg != "" {
			t.Errorf("replayed case still fails: %s", msg)
			return false
		}
		fmt.Printf("replayed case passes: %s %s\n", s.Name, meth.Name)
		return true
	}
	reqs := gen.EffectiveSecurity(d, s, meth)
	names := schemesOf(reqs)
	ok := t.Run(label, func(t *testing.T) {
		rapid.Check(t, func(rt_ *rapid.T) {
			c := &caseRec{Service: s.Name, Method: meth.Name, Accept: map[string]bool{}}
			if meth.Streaming != "" {
				// a streaming endpoint: the requirement is checked before the upgrade;
				// when it is satisfied a short scripted stream runs
				sc := streamcase.Gen(d, s, meth, "", 3).Draw(rt_, "stream")
				c.Payload, c.Result, c.Stream = sc.Payload, sc.Final, &sc.Spec
				stats.Class("streaming-endpoint:" + meth.Streaming)
			} else {
				c.Payload = gen.PayloadGen(d, meth).Draw(rt_, "payload")
				c.Result = gen.ResultGen(d, meth).Draw(rt_, "result")
			}
			for _, n := range names {
				c.Accept[n] = rapid.Bool().Draw(rt_, "accept:"+n)
			}
			// schemes of the design that the method does not use also get an outcome:
			// they must never be consulted
			for _, sc := range d.Schemes {
				if _, ok := c.Accept[sc.Name]; !ok {
					c.Accept[sc.Name] = true
				}
			}
			// half of the cases: the caller holds a set of scopes and the callbacks
			// check the required ones with scheme.Validate
			if rapid.Bool().Draw(rt_, "useGranted") {
				c.UseGranted = true
				var all []string
				seenScope := map[string]bool{}
				for _, sc := range d.Schemes {
					for _, x := range sc.Scopes {
						if !seenScope[x] {
							seenScope[x] = true
							all = append(all, x)
						}
					}
				}
				switch rapid.IntRange(0, 4).Draw(rt_, "grantedKind") {
				case 0:
					c.Granted = all
				case 1:
				case 2:
					// all but one of the scopes some requirement asks for
					var multi [][]string
					for _, r := range reqs {
						if len(r.Scopes) >= 2 {
							multi = append(multi, r.Scopes)
						}
					}
					if len(multi) > 0 {
						sc := rapid.SampledFrom(multi).Draw(rt_, "scopesOf")
						drop := rapid.IntRange(0, len(sc)-1).Draw(rt_, "dropScope")
						for i, x := range sc {
							if i != drop {
								c.Granted = append(c.Granted, x)
							}
						}
					}
				default:
					for _, x := range all {
						if rapid.Bool().Draw(rt_, "granted:"+x) {
							c.Granted = append(c.Granted, x)
						}
					}
				}
			}
			msg := runCase(b, s, meth, c)
			record(d, s, meth, c)
			if msg != "" {
				c.Message = msg
				last = c
				rt_.Fatalf("%s: %s\n  accept: %v\n  payload: %s", label, msg, c.Accept, c.Payload.Canon())
			}
		})
	})
	if !ok && last != nil {
		dir := rt.SaveReplay(b, label, last)
		fmt.Printf("C06 failing case saved: %s\n  design: %s\n  %s\n", dir, b.Run.Name, last.Message)
	}
	return ok
}

// reference: does some requirement have all its schemes accepted?
func subset(need, have []string) bool {
	for _, n := range need {
		found := false
		for _, h := range have {
			found = found || h == n
		}
		if !found {
			return false
		}
	}
	return true
}

func allowed(reqs []m.Requirement, c *caseRec) (bool, int) {
	accept := c.Accept
	for i, r := range reqs {
		ok := true
		for _, s := range r.Schemes {
			if !accept[s] {
				ok = false
			}
		}
		if c.UseGranted && !subset(r.Scopes, c.Granted) {
			ok = false
		}
		if ok {
			return true, i
		}
	}
	return false, -1
}

func record(d *m.Design, s *m.Service, meth *m.Method, c *caseRec) {
	reqs := gen.EffectiveSecurity(d, s, meth)
	ok, idx := allowed(reqs, c)
	nt := false
	if len(reqs) > 0 {
		if ok && idx > 0 {
			nt = true
			stats.Class("later-requirement-succeeds")
		}
		for _, r := range reqs {
			if len(r.Schemes) == 2 && c.Accept[r.Schemes[0]] && !c.Accept[r.Schemes[1]] {
				nt = true
				stats.Class("second-scheme-fails")
			}
		}
		if len(meth.Security) == 0 {
			nt = true
			stats.Class("inherited-requirements")
		}
	}
	if c.UseGranted {
		stats.Class("callbacks-enforce-scopes-with-Validate")
		for _, r := range reqs {
			if len(r.Scopes) >= 2 && !subset(r.Scopes, c.Granted) {
				for _, x := range r.Scopes {
					if subset([]string{x}, c.Granted) {
						nt = true
						stats.Class("some-but-not-all-required-scopes-granted")
						break
					}
				}
			}
		}
	}
	switch {
	case meth.NoSecurity:
		stats.Class("method:no-security")
	case len(reqs) == 0:
		stats.Class("method:unsecured")
	case ok:
		stats.Class("outcome:allowed")
	default:
		stats.Class("outcome:denied")
	}
	var acc []string
	for k, v := range c.Accept {
		acc = append(acc, fmt.Sprintf("%s=%v", k, v))
	}
	sort.Strings(acc)
	stats.CaseSample(c.Service+"|"+c.Method+"|"+strings.Join(acc, ",")+"|"+c.Payload.Canon(), nt, map[string]any{"method": c.Service + "." + c.Method, "requirements": reqs, "accept": c.Accept, "payload": c.Payload.Canon()})
}

// expected credential text the callback must receive for a sent attribute
// value: a scheme prefix is removed from tokens carried in a header
func credSeen(kind, sent string, inHeader bool) string {
	if inHeader && (kind == "token" || kind == "accesstoken") && strings.Contains(sent, " ") {
		// a scheme prefix ("Bearer xyz") is removed
		return sent[strings.Index(sent, " ")+1:]
	}
	return sent
}

// sharedHeaderValue: when the token attributes of several schemes travel in
// the same request header (two schemes left to the implicit Authorization
// header), the wire carries one value for all of them: the callback of each
// scheme may see the value sent for any attribute of that group.
func sharedHeaderValue(meth *m.Method, payload value.V, scheme, kind, got string) bool {
	wireOf := func(attr string) string {
		for _, hm := range meth.HTTP.Headers {
			if hm.Attr == attr {
				return strings.ToLower(hm.WireName())
			}
		}
		return ""
	}
	own := ""
	for _, cr := range meth.Creds {
		if cr.Scheme == scheme && cr.Kind == kind {
			own = wireOf(cr.Attr)
		}
	}
	if own == "" {
		return false
	}
	for _, cr := range meth.Creds {
		if (cr.Kind == "token" || cr.Kind == "accesstoken") && !(cr.Scheme == scheme && cr.Kind == kind) && wireOf(cr.Attr) == own {
			if v, ok := payload.Get(cr.Attr); ok && !v.IsNil() && got == credSeen(cr.Kind, v.S, true) {
				return true
			}
		}
	}
	return false
}

func runCase(b *rt.Built, s *m.Service, meth *m.Method, c *caseRec) string {
	d := b.Design
	hc := &harness.Case{Op: "call", Svc: s.Name, Method: meth.Name, HasPayload: meth.Payload != nil, Payload: c.Payload}
	hc.Stub = harness.StubSpec{HasResult: meth.Result != nil, Result: c.Result, View: "default"}
	hc.Auth = &harness.AuthSpec{Accept: c.Accept, UseGranted: c.UseGranted, Granted: c.Granted}
	hc.Stream = c.Stream
	if meth.Streaming != "" {
		hc.Stub.HasResult = meth.Streaming == "payload" && meth.Result != nil
	}
	obs, err := b.H.Do(hc)
	if err != nil {
		return "INCONCLUSIVE: harness: " + err.Error()
	}
	if obs.Err != "" {
		return "harness could not run the case: " + obs.Err
	}
	if obs.Panic != "" {
		return "panic in generated client code: " + firstLines(obs.Panic, 24)
	}
	if obs.ServerPanic != "" {
		return "panic in generated server code: " + firstLines(obs.ServerPanic, 24)
	}
	reqs := gen.EffectiveSecurity(d, s, meth)
	status, body := 0, ""
	if obs.Response != nil {
		status, body = obs.Response.Status, string(obs.Response.Body)
	}
	if status == 400 && len(obs.AuthCalls) == 0 && obs.StubCalls == 0 {
		// the request did not pass decoding/validation: not this property's subject
		stats.Class("skipped:request-rejected-before-auth")
		return ""
	}
	if len(reqs) == 0 {
		if len(obs.AuthCalls) != 0 {
			return fmt.Sprintf("method without security requirement (NoSecurity=%v): %d authorization callback(s) ran: %+v", meth.NoSecurity, len(obs.AuthCalls), obs.AuthCalls)
		}
		if obs.StubCalls != 1 {
			return fmt.Sprintf("unsecured method invoked %d times (status %d %q)", obs.StubCalls, status, trunc(body))
		}
		return ""
	}
	want, _ := allowed(reqs, c)
	ran := obs.StubCalls == 1
	if obs.StubCalls > 1 {
		return fmt.Sprintf("method invoked %d times", obs.StubCalls)
	}
	if want != ran {
		return fmt.Sprintf("requirements %+v with callback outcomes %v: the reference says run=%v, the method ran=%v (status %d %q; callbacks %+v)", reqs, c.Accept, want, ran, status, trunc(body), obs.AuthCalls)
	}
	if len(obs.AuthCalls) == 0 {
		return "secured method: no authorization callback ran"
	}
	// every callback: a scheme of the requirements, right credential, right scopes
	inReq := map[string][]m.Requirement{}
	for _, r := range reqs {
		for _, sn := range r.Schemes {
			inReq[sn] = append(inReq[sn], r)
		}
	}
	credAttr := func(scheme, kind string) (string, bool) {
		for _, cr := range meth.Creds {
			if cr.Scheme == scheme && cr.Kind == kind {
				v, ok := c.Payload.Get(cr.Attr)
				return v.S, ok && !v.IsNil()
			}
		}
		return "", false
	}
	inHeader := func(scheme, kind string) bool {
		for _, cr := range meth.Creds {
			if cr.Scheme == scheme && cr.Kind == kind {
				for _, hm := range meth.HTTP.Headers {
					if hm.Attr == cr.Attr {
						return true
					}
				}
			}
		}
		return false
	}
	for _, ac := range obs.AuthCalls {
		rs, ok := inReq[ac.Scheme]
		if !ok {
			return fmt.Sprintf("callback for scheme %q ran although no effective requirement uses it (requirements %+v)", ac.Scheme, reqs)
		}
		sc := gen.SchemeByName(d, ac.Scheme)
		if c.UseGranted {
			if !ac.Validated {
				return fmt.Sprintf("scheme %q: the scheme passed to the callback has no Validate([]string) error method", ac.Scheme)
			}
			if has := subset(ac.Req, c.Granted); has != (ac.ValidateErr == "") {
				return fmt.Sprintf("scheme %q: Validate(%v) with required scopes %v returned %q; it must fail exactly when a required scope is not granted", ac.Scheme, c.Granted, ac.Req, ac.ValidateErr)
			}
		}
		if ac.Accept != (c.Accept[ac.Scheme] && (!c.UseGranted || ac.ValidateErr == "")) {
			return "harness inconsistency: callback outcome"
		}
		// declared scopes
		if strings.Join(ac.Scopes, ",") != strings.Join(sc.Scopes, ",") {
			return fmt.Sprintf("scheme %q: callback got declared scopes %v, the design declares %v", ac.Scheme, ac.Scopes, sc.Scopes)
		}
		// required scopes: those of one of the requirements using the scheme
		okReq := false
		for _, r := range rs {
			if strings.Join(ac.Req, ",") == strings.Join(r.Scopes, ",") {
				okReq = true
			}
		}
		if !okReq {
			return fmt.Sprintf("scheme %q: callback got required scopes %v, none of the requirements using it asks for that (%+v)", ac.Scheme, ac.Req, rs)
		}
		switch sc.Kind {
		case "basic":
			u, uset := credAttr(ac.Scheme, "username")
			p, pset := credAttr(ac.Scheme, "password")
			if uset && ac.User != u || pset && ac.Pass != p {
				return fmt.Sprintf("basic scheme %q: callback got user %q pass %q, the client sent user %q pass %q", ac.Scheme, ac.User, ac.Pass, u, p)
			}
		case "apikey":
			k, set := credAttr(ac.Scheme, "apikey")
			if set && ac.Key != k {
				return fmt.Sprintf("API key scheme %q: callback got %q, the client sent %q", ac.Scheme, ac.Key, k)
			}
		case "jwt":
			k, set := credAttr(ac.Scheme, "token")
			if set && !sharedHeaderValue(meth, c.Payload, ac.Scheme, "token", ac.Key) && ac.Key != credSeen("token", k, inHeader(ac.Scheme, "token")) {
				return fmt.Sprintf("JWT scheme %q: callback got %q, the client sent %q", ac.Scheme, ac.Key, k)
			}
		case "oauth2":
			k, set := credAttr(ac.Scheme, "accesstoken")
			if set && !sharedHeaderValue(meth, c.Payload, ac.Scheme, "accesstoken", ac.Key) && ac.Key != credSeen("accesstoken", k, inHeader(ac.Scheme, "accesstoken")) {
				return fmt.Sprintf("OAuth2 scheme %q: callback got %q, the client sent %q", ac.Scheme, ac.Key, k)
			}
		}
	}
	if !want {
		// the caller receives the callback's error
		if obs.ClientErr == nil {
			return "every requirement failed but the client got no error"
		}
		found := false
		for _, ac := range obs.AuthCalls {
			if !ac.Accept && strings.Contains(obs.ClientErr.Text+obs.ClientErr.Message+body, "denied:"+ac.Scheme) {
				found = true
			}
		}
		if !found {
			return fmt.Sprintf("every requirement failed: the client error %q (status %d, body %q) is not the error of a rejecting callback (%+v)", obs.ClientErr.Text, status, trunc(body), obs.AuthCalls)
		}
	}
	return ""
}

func trunc(s string) string {
	if len(s) > 300 {
		return s[:300] + "…"
	}
	return s
}

func firstLines(s string, n int) string {
	ls := strings.Split(s, "\n")
	if len(ls) > n {
		ls = ls[:n]
	}
	return strings.Join(ls, "\n")
}
