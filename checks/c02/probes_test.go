package c02

import (
	"encoding/json"
	"os"
	"strconv"
	"strings"
	"testing"

	"verif/harness"
	m "verif/internal/model"
	"verif/internal/pipeline"
	"verif/internal/rt"
	"verif/internal/stats"
	"verif/internal/value"
)

func obj(fields ...*m.Field) *m.Attr { return &m.Attr{Type: &m.Type{Kind: m.Object, Fields: fields}} }
func fld(name string, a *m.Attr, req bool) *m.Field {
	return &m.Field{Name: name, Attr: a, Required: req}
}

// probeDesign holds one method per open C02 finding (minimal inputs).
func probeDesign() *m.Design {
	d := &m.Design{API: m.API{Name: "probe"}}
	d.Types = append(d.Types, &m.UserType{Name: "Thing", Var: "v1", Attr: obj(fld("x", m.Prim(m.String), false))})
	s := &m.Service{Name: "probe", HasHTTP: true}
	add := func(name string, payload *m.Attr, h *m.HTTPEndpoint) {
		s.Methods = append(s.Methods, &m.Method{Name: name, Payload: payload, HTTP: h})
	}
	add("empty", obj(fld("q", m.Prim(m.String), false), fld("h", m.Prim(m.String), false), fld("c", m.Prim(m.String), false)),
		&m.HTTPEndpoint{Routes: []m.Route{{Verb: "GET", Path: "/empty"}}, Query: []m.Mapping{{Attr: "q"}}, Headers: []m.Mapping{{Attr: "h", Wire: "X-H"}}, Cookies: []m.Mapping{{Attr: "c"}}})
	add("slash", obj(fld("seg", m.Prim(m.String), true)),
		&m.HTTPEndpoint{Routes: []m.Route{{Verb: "GET", Path: "/slash/{seg}"}}, Path: []m.Mapping{{Attr: "seg"}}})
	add("fields", obj(fld("a", m.Prim(m.String), false), fld("q", m.Prim(m.String), false)),
		&m.HTTPEndpoint{Routes: []m.Route{{Verb: "POST", Path: "/fields"}}, Query: []m.Mapping{{Attr: "q"}}, Body: &m.Body{Mode: "fields", Fields: []string{"a"}}})
	add("primpath", m.Prim(m.String),
		&m.HTTPEndpoint{Routes: []m.Route{{Verb: "GET", Path: "/prim/{p}"}}, Path: []m.Mapping{{Attr: "p"}}})
	add("bodyobj", obj(fld("t", m.UserRef("Thing"), false)),
		&m.HTTPEndpoint{Routes: []m.Route{{Verb: "POST", Path: "/bodyobj"}}, Body: &m.Body{Mode: "attr", Attr: "t"}})
	add("bodyprim", obj(fld("id", m.Prim(m.Float64), false)),
		&m.HTTPEndpoint{Routes: []m.Route{{Verb: "POST", Path: "/bodyprim"}}, Body: &m.Body{Mode: "attr", Attr: "id"}})
	add("wholemap", &m.Attr{Type: &m.Type{Kind: m.Map, Key: m.Prim(m.String), Val: m.Prim(m.String)}},
		&m.HTTPEndpoint{Routes: []m.Route{{Verb: "GET", Path: "/wholemap"}}, MapParams: "*"})
	d.Services = []*m.Service{s}
	return d
}

// TestProbes re-creates the minimal input of every known finding of C02.
func TestProbes(t *testing.T) {
	if rt.ReplayDir() != "" && os.Getenv("VERIF_PROBE_ONLY") == "" {
		t.Skip("replay of a search case")
	}
	sess, err := pipeline.NewSession("c02p")
	if err != nil {
		t.Fatalf("INCONCLUSIVE: %v", err)
	}
	defer sess.Close()
	d := probeDesign()
	out := sess.GenerateAndCompile(d, false)
	if !out.Accepted || out.Failure != "" {
		t.Fatalf("INCONCLUSIVE: probe design: %s", out.Describe())
	}
	bin, diag, err := sess.BuildHarness(out.Run, false)
	if err != nil {
		t.Fatalf("INCONCLUSIVE: probe harness: %v %s", err, diag)
	}
	h, err := pipeline.StartHarness(bin)
	if err != nil {
		t.Fatalf("INCONCLUSIVE: %v", err)
	}
	defer h.Close()
	call := func(method string, p value.V) *harness.Obs {
		o, err := h.Do(&harness.Case{Op: "call", Svc: "probe", Method: method, HasPayload: true, Payload: p})
		if err != nil {
			t.Fatalf("INCONCLUSIVE: %v", err)
		}
		return o
	}
	only := os.Getenv("VERIF_PROBE_ONLY")
	probe := func(id string, f func() (bool, string)) {
		if only != "" && only != id {
			return
		}
		hit, what := f()
		stats.ProbeResult(id, hit, what)
	}
	probe("C02-empty-string-is-absent", func() (bool, string) {
		o := call("empty", value.Object(value.Field{N: "q", V: value.Str("")}, value.Field{N: "h", V: value.Str("")}, value.Field{N: "c", V: value.Str("")}))
		got := o.Received.Canon()
		return o.StubCalls == 1 && !strings.Contains(got, `Q:""`), `payload {q:"",h:"",c:""} (query, header, cookie) received as ` + got
	})
	probe("C02-client-path-slash-unescaped", func() (bool, string) {
		o := call("slash", value.Object(value.Field{N: "seg", V: value.Str("a/b")}))
		return o.StubCalls != 1 || !strings.Contains(o.Received.Canon(), `"a/b"`), `path value "a/b": stub calls ` + itoa(o.StubCalls) + `, status ` + itoa(status(o))
	})
	probe("C02-body-fields-client-sends-whole-payload", func() (bool, string) {
		o := call("fields", value.Object(value.Field{N: "a", V: value.Str("x")}, value.Field{N: "q", V: value.Str("y")}))
		if len(o.Requests) != 1 {
			return false, "no request"
		}
		var body map[string]json.RawMessage
		_ = json.Unmarshal(o.Requests[0].Body, &body)
		_, hasA := body["a"]
		return !hasA || len(body) != 1, "request body is " + string(o.Requests[0].Body)
	})
	probe("C02-primitive-payload-path-param-named-p", func() (bool, string) {
		o := call("primpath", value.Str("xy"))
		return o.StubCalls != 1 || !strings.Contains(o.Received.Canon(), `"xy"`), `payload "xy" in /prim/{p}: request path ` + reqPath(o) + `, received ` + o.Received.Canon()
	})
	probe("C02-mapparams-whole-map-payload-lost", func() (bool, string) {
		o := call("wholemap", value.MapOf(value.Str("a"), value.Str("b")))
		return o.StubCalls != 1 || !strings.Contains(o.Received.Canon(), `"b"`), `map payload {"a":"b"} with MapParams(): request ` + reqPath(o) + "?" + reqQuery(o) + `, stub calls ` + itoa(o.StubCalls) + `, received ` + o.Received.Canon()
	})
	probe("C02-body-attr-optional-unset-client-panic", func() (bool, string) {
		o := call("bodyobj", value.Object())
		return o.Panic != "", "client panic: " + firstLines(o.Panic, 1)
	})
	probe("C02-body-attr-optional-primitive-unset-arrives-zero", func() (bool, string) {
		o := call("bodyprim", value.Object())
		return o.StubCalls == 1 && strings.Contains(o.Received.Canon(), "ID:"), "payload {} received as " + o.Received.Canon()
	})
}

func reqQuery(o *harness.Obs) string {
	if len(o.Requests) == 0 {
		return ""
	}
	return o.Requests[0].RawQuery
}

func status(o *harness.Obs) int {
	if o.Response == nil {
		return 0
	}
	return o.Response.Status
}

func reqPath(o *harness.Obs) string {
	if len(o.Requests) == 0 {
		return "(none)"
	}
	return o.Requests[0].RawPath
}

func itoa(i int) string { return strconv.Itoa(i) }
