package c02

import (
	"strings"
	"testing"

	"pgregory.net/rapid"

	"verif/internal/gen"
	m "verif/internal/model"
	"verif/internal/rt"
	"verif/internal/stats"
	"verif/internal/streamcase"
)

// TestStreams: streaming endpoints over HTTP (websocket). The initial payload
// travels in the upgrade request (path, query, headers) and must arrive equal;
// every message the client streams must arrive at the service equal and in
// order, none lost, none invented, and the end of the client's stream must be
// visible to the service as io.EOF. (The server-to-client direction of the
// same calls is judged by C03.)
func TestStreams(t *testing.T) {
	if rt.ReplayDir() != "" {
		t.Skip("replay of another test's case")
	}
	d := gen.StreamMatrix()
	sess, h := rt.BuildOne(t, "c02stream", d)
	defer sess.Close()
	defer h.Close()
	s := d.Services[0]
	var streaming []*m.Method
	for _, meth := range s.Methods {
		if meth.Streaming != "" {
			streaming = append(streaming, meth)
		}
	}
	rapid.Check(t, func(rt_ *rapid.T) {
		meth := rapid.SampledFrom(streaming).Draw(rt_, "method")
		c := streamcase.Gen(d, s, meth, "", 10).Draw(rt_, "case")
		obs, err := h.Do(c.Harness())
		if err != nil {
			rt_.Fatalf("INCONCLUSIVE: %v", err)
		}
		nontrivial := len(c.Spec.Send) > 0 || meth.Payload != nil
		stats.CaseSample(c.Key(), nontrivial, c.Describe())
		stats.Class("stream:" + meth.Streaming)
		stats.Class("stream-method:" + meth.Name)
		if len(c.Spec.Send) >= 2 {
			stats.Class("stream:several-client-messages")
		}
		if strings.Contains(c.Spec.Script, "cs") && strings.Contains(c.Spec.Script, "sc") {
			stats.Class("stream:interleaved")
		}
		if c.Spec.ClientCloses {
			stats.Class("stream:client-closes")
		}
		if msg := streamcase.ClientToServer(d, s, meth, c, obs); msg != "" && !streamcase.Skipped(msg) {
			if strings.HasPrefix(msg, "INCONCLUSIVE") {
				rt_.Fatalf("%s", msg)
			}
			rt_.Fatalf("%s %s script %q: %s", meth.Streaming, meth.Name, c.Spec.Script, msg)
		}
	})
}

// TestStreamDesigns: the same relation as TestStreams over generated designs
// (streams profile): streaming methods whose payload is mapped to path, query
// and headers and whose streamed messages are drawn from the whole type
// grammar of the generator.
func TestStreamDesigns(t *testing.T) {
	streamcase.RunDesigns(t, "C02", "c02sd", streamcase.ClientToServer, func(meth *m.Method, c *streamcase.Case) bool {
		return len(c.Spec.Send) > 0 || meth.Payload != nil
	})
}
