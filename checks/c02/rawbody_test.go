package c02

import (
	"bytes"
	"fmt"
	"testing"

	"pgregory.net/rapid"

	"verif/harness"
	"verif/internal/gen"
	"verif/internal/rt"
	"verif/internal/stats"
	"verif/internal/value"
)

// TestRawBodies: methods that stream the HTTP request body themselves
// (SkipRequestBodyEncodeDecode). The payload still travels in path, query and
// headers and must arrive equal; the bytes handed to the generated client as
// the request body must be exactly the bytes the service method reads.
func TestRawBodies(t *testing.T) {
	if rt.ReplayDir() != "" {
		t.Skip("replay of another test's case")
	}
	sess, h := rt.BuildOne(t, "c02raw", gen.RawBodyMatrix())
	defer sess.Close()
	defer h.Close()
	str := rapid.StringMatching(`[a-zA-Z0-9_.~-]{1,12}`)
	bodyGen := rapid.OneOf(
		rapid.Just([]byte(nil)),
		rapid.SliceOfN(rapid.Byte(), 0, 64),
		rapid.Map(rapid.IntRange(1, 200000), func(n int) []byte { return bytes.Repeat([]byte("0123456789abcdef"), n/16+1)[:n] }),
	)
	rapid.Check(t, func(rt_ *rapid.T) {
		method := rapid.SampledFrom([]string{"upload", "pipe", "plain"}).Draw(rt_, "method")
		id := str.Draw(rt_, "id")
		body := bodyGen.Draw(rt_, "body")
		p := value.Object(value.Field{N: "id", V: value.Str(id)})
		switch method {
		case "upload":
			if rapid.Bool().Draw(rt_, "hasTag") {
				p = p.Set("tag", value.Str(str.Draw(rt_, "tag")))
			}
			if rapid.Bool().Draw(rt_, "hasN") {
				p = p.Set("n", value.Int(rapid.Int64().Draw(rt_, "n")))
			}
		case "pipe":
			if rapid.Bool().Draw(rt_, "hasMode") {
				p = p.Set("mode", value.Str(str.Draw(rt_, "mode")))
			}
		case "plain":
			if rapid.Bool().Draw(rt_, "hasNote") {
				p = p.Set("note", value.Str(str.Draw(rt_, "note")))
			}
		}
		c := &harness.Case{Op: "call", Svc: "rawbodies", Method: method, HasPayload: true, Payload: p, ReqBody: body,
			Stub: harness.StubSpec{HasResult: true, Result: resultFor(method, len(body)), RespBody: []byte("response-of-" + id)}}
		o, err := h.Do(c)
		if err != nil {
			rt_.Fatalf("INCONCLUSIVE: %v", err)
		}
		stats.CaseSample(fmt.Sprintf("raw|%s|%s|%d", method, p.Canon(), len(body)), method != "plain", map[string]any{"method": method, "payload": p.Canon(), "request_body_bytes": len(body)})
		stats.Class("rawbody:" + method)
		if len(body) > 65536 {
			stats.Class("rawbody:larger-than-64k")
		}
		if o.Err != "" || o.Panic != "" || o.ServerPanic != "" {
			rt_.Fatalf("%s %s: harness/panic: %s %s %s", method, p.Canon(), o.Err, firstLines(o.Panic, 8), firstLines(o.ServerPanic, 8))
		}
		if o.StubCalls != 1 {
			rt_.Fatalf("%s %s with a %d byte body: the method ran %d times (client error %v)", method, p.Canon(), len(body), o.StubCalls, o.ClientErr)
		}
		if got, want := o.Received.Canon(), p.Canon(); normCanon(got) != normCanon(want) {
			rt_.Fatalf("%s: payload received %s, sent %s", method, got, want)
		}
		if method != "plain" {
			if !o.HadReqBody {
				rt_.Fatalf("%s: the method received no request body reader", method)
			}
			if o.ReceivedBodyErr != "" || !bytes.Equal(o.ReceivedBody, body) {
				rt_.Fatalf("%s %s: the method read %d bytes (err %q) from the request body, the caller streamed %d; first difference at %d", method, p.Canon(), len(o.ReceivedBody), o.ReceivedBodyErr, len(body), firstDiff(o.ReceivedBody, body))
			}
		}
		if method == "pipe" {
			if !o.HadRespBody || !bytes.Equal(o.ResultBody, []byte("response-of-"+id)) {
				rt_.Fatalf("pipe %s: the caller read %q from the response body, the method streamed %q", p.Canon(), o.ResultBody, "response-of-"+id)
			}
		}
	})
}

func resultFor(method string, n int) value.V {
	switch method {
	case "upload":
		return value.Object(value.Field{N: "size", V: value.Int(int64(n))})
	case "pipe":
		return value.Object(value.Field{N: "length", V: value.Int(int64(n))})
	}
	return value.Object(value.Field{N: "ok", V: value.Bool(true)})
}

// normCanon compares canonical texts of Go-named and design-named objects case-insensitively.
func normCanon(s string) string { return gen.Norm(s) }

func firstDiff(a, b []byte) int {
	for i := 0; i < len(a) && i < len(b); i++ {
		if a[i] != b[i] {
			return i
		}
	}
	if len(a) < len(b) {
		return len(a)
	}
	return len(b)
}
