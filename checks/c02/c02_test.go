// Package c02 decides property C02: a payload that satisfies the design, sent
// through the generated HTTP client, arrives at the service method behind the
// generated HTTP server as an equal value, every attribute travelling in the
// location the design assigns it.
package c02

import (
	"fmt"
	"net/url"
	"strings"
	"sync"
	"testing"

	"pgregory.net/rapid"

	"verif/harness"
	"verif/internal/gen"
	"verif/internal/kf"
	m "verif/internal/model"
	"verif/internal/oracle"
	"verif/internal/rt"
	"verif/internal/stats"
	"verif/internal/value"
)

func TestMain(m *testing.M) { stats.Main(m) }

// caseRec is what a replay needs.
type caseRec struct {
	Service string  `json:"service"`
	Method  string  `json:"method"`
	Kind    string  `json:"kind"` // "client", "route", "default"
	Payload value.V `json:"payload"`
	Result  value.V `json:"result"`
	Route   int     `json:"route,omitempty"`
	Drop    string  `json:"drop,omitempty"`
	Message string  `json:"message"`
}

func keep(d *m.Design) bool {
	for _, s := range d.Services {
		for _, meth := range s.Methods {
			if meth.Payload != nil && meth.HTTP != nil {
				return true
			}
		}
	}
	return false
}

func TestRequestRoundTrip(t *testing.T) {
	n := rt.EnvInt("VERIF_CHECKS", 24)
	seed := rt.EnvInt("VERIF_SEED", 1)
	sess, built := rt.Prepare(t, "c02", rt.Options{Profile: gen.Request(), N: n, Seed: seed, Keep: keep, Extra: []*m.Design{gen.ParamMatrix(), gen.DefaultsMatrix(), gen.DefaultsBodyMatrix(), gen.NestMatrix(), gen.KindMatrix(), gen.MapParamsMatrix(), gen.WildcardMatrix(), gen.InheritMatrix(), gen.GetBodyMatrix()}})
	defer sess.Close()
	defer rt.CloseAll(built)
	if len(built) == 0 {
		t.Fatalf("INCONCLUSIVE: no design could be built")
	}
	if len(built)*2 < n && rt.ReplayDir() == "" {
		t.Fatalf("INCONCLUSIVE: only %d of %d designs could be built (generator health)", len(built), n)
	}
	var wg sync.WaitGroup
	var mu sync.Mutex
	failures := 0
	sem := make(chan struct{}, 16)
	for _, b := range built {
		wg.Add(1)
		go func(b *rt.Built) {
			defer wg.Done()
			sem <- struct{}{}
			defer func() { <-sem }()
			for _, s := range b.Design.Services {
				for _, meth := range s.Methods {
					if meth.Payload == nil || meth.HTTP == nil {
						continue
					}
					if !checkMethod(t, b, s, meth) {
						mu.Lock()
						failures++
						mu.Unlock()
					}
				}
			}
		}(b)
	}
	wg.Wait()
	if failures > 0 {
		t.Fatalf("%d method(s) violate C02", failures)
	}
}

// checkMethod runs the value-level search for one method. rapid shrinks the
// payload; the shrunk failing case is saved for replay.
func checkMethod(t *testing.T, b *rt.Built, s *m.Service, meth *m.Method) bool {
	d := b.Design
	label := rt.MethodLabel(b, s, meth)
	var last *caseRec
	var replay caseRec
	if rt.LoadReplayCase(&replay) {
		if replay.Service != s.Name || replay.Method != meth.Name {
			return true
		}
		msg := runCase(b, s, meth, &replay)
		if msg != "" {
			t.Errorf("replayed case still fails: %s", msg)
			return false
		}
		fmt.Printf("replayed case passes: %s %s\n", s.Name, meth.Name)
		return true
	}
	checks := rt.EnvInt("VERIF_VALUE_CHECKS", 120)
	ok := t.Run(label, func(t *testing.T) {
		prop := func(rt_ *rapid.T) {
			c := &caseRec{Service: s.Name, Method: meth.Name, Kind: "client"}
			c.Payload = gen.PayloadGen(d, meth).Draw(rt_, "payload")
			c.Result = gen.ResultGen(d, meth).Draw(rt_, "result")
			// which extra probes to run on this payload
			h := meth.HTTP
			if len(h.Routes) > 1 && rapid.IntRange(0, 2).Draw(rt_, "tryroute") == 0 {
				c.Kind = "route"
				c.Route = rapid.IntRange(1, len(h.Routes)-1).Draw(rt_, "route")
			} else if ds := droppable(d, meth, c.Payload); len(ds) > 0 && rapid.IntRange(0, 2).Draw(rt_, "trydefault") == 0 {
				c.Kind = "default"
				c.Drop = rapid.SampledFrom(ds).Draw(rt_, "drop")
			}
			msg := runCase(b, s, meth, c)
			record(d, meth, c)
			if msg != "" {
				c.Message = msg
				last = c
				rt_.Fatalf("%s: %s\n  payload: %s", label, msg, c.Payload.Canon())
			}
		}
		rapid.Check(t, prop)
		_ = checks
	})
	if !ok && last != nil {
		dir := rt.SaveReplay(b, label, last)
		fmt.Printf("C02 failing case saved: %s\n  design: %s\n  %s\n", dir, b.Run.Name, last.Message)
	}
	return ok
}

func record(d *m.Design, meth *m.Method, c *caseRec) {
	where := gen.WhereOf(d, meth)
	locs := map[string]bool{}
	for _, f := range c.Payload.O {
		locs[where[f.N]] = true
	}
	nt := (len(c.Payload.O) >= 2 && len(locs) >= 2) || oracle.HasBoundary(c.Payload) || c.Kind != "client"
	key := c.Service + "|" + c.Method + "|" + c.Kind + "|" + c.Drop + "|" + fmt.Sprint(c.Route) + "|" + c.Payload.Canon()
	stats.CaseSample(key, nt, map[string]any{"method": c.Service + "." + c.Method, "kind": c.Kind, "payload": c.Payload.Canon(), "locations": keys(locs)})
	stats.Class("case:" + c.Kind)
	for l := range locs {
		stats.Class("payload-location:" + l)
	}
	if oracle.HasBoundary(c.Payload) {
		stats.Class("payload-boundary-value")
	}
	if strings.Contains(c.Payload.Canon(), "union(") {
		stats.Class("payload-has-union")
	}
}

func keys(m map[string]bool) []string {
	var out []string
	for k := range m {
		out = append(out, k)
	}
	return out
}

// droppable lists the top-level attributes that have a default, are set in
// the payload and can be deleted from the wire request.
func droppable(d *m.Design, meth *m.Method, p value.V) []string {
	var out []string
	where := gen.WhereOf(d, meth)
	if meth.HTTP.Body != nil && meth.HTTP.Body.Mode == "attr" {
		return nil
	}
	for _, f := range d.ObjectFields(meth.Payload) {
		if f.Attr.Default == nil || f.Required {
			continue
		}
		if _, ok := p.Get(f.Name); !ok {
			continue
		}
		if where[f.Name] == "path" {
			continue
		}
		out = append(out, f.Name)
	}
	return out
}

// runCase executes one case against the harness and judges it. It returns ""
// when the property holds on the case.
func runCase(b *rt.Built, s *m.Service, meth *m.Method, c *caseRec) string {
	d := b.Design
	hc := &harness.Case{Op: "call", Svc: s.Name, Method: meth.Name, HasPayload: true, Payload: c.Payload}
	hc.Stub = harness.StubSpec{HasResult: meth.Result != nil, Result: c.Result, View: "default"}
	obs, err := b.H.Do(hc)
	if err != nil {
		return "INCONCLUSIVE: harness: " + err.Error()
	}
	if obs.Err != "" {
		return "harness could not run the case: " + obs.Err
	}
	if msg := judge(d, s, meth, c.Payload, obs, true); msg != "" {
		return msg
	}
	req := obs.Requests[0]
	switch c.Kind {
	case "route":
		// the generated client only uses the first route: re-target the captured request
		patterns := oracle.FullPaths(d, s, meth)
		vars, ok := oracle.MatchPath(patterns[0], req.RawPath)
		if !ok {
			return fmt.Sprintf("captured request path %q does not match route %q", req.RawPath, patterns[0])
		}
		raw := &harness.RawReq{Method: meth.HTTP.Routes[c.Route].Verb, URL: oracle.BuildPath(patterns[c.Route], vars), Header: req.Header, Body: req.Body}
		if req.RawQuery != "" {
			raw.URL += "?" + req.RawQuery
		}
		obs2, err := b.H.Do(&harness.Case{Op: "raw", Raw: raw, Stub: hc.Stub})
		if err != nil {
			return "INCONCLUSIVE: harness: " + err.Error()
		}
		if msg := judge(d, s, meth, c.Payload, obs2, false); msg != "" {
			return fmt.Sprintf("route %d (%s %s): %s", c.Route, raw.Method, patterns[c.Route], msg)
		}
	case "default":
		// delete the attribute from the wire: the method must see the declared default
		f := d.FieldByName(meth.Payload, c.Drop)
		where := gen.WhereOf(d, meth)[c.Drop]
		wire := c.Drop
		for _, l := range [][]m.Mapping{meth.HTTP.Query, meth.HTTP.Headers, meth.HTTP.Cookies} {
			for _, mp := range l {
				if mp.Attr == c.Drop {
					wire = mp.WireName()
				}
			}
		}
		var e harness.Edit
		switch where {
		case "query":
			e = harness.Edit{Op: "del_query", Name: wire}
		case "header":
			e = harness.Edit{Op: "del_header", Name: wire}
		case "cookie":
			e = harness.Edit{Op: "del_cookie", Name: wire}
		default:
			e = harness.Edit{Op: "json_del", Name: wire}
		}
		hc2 := *hc
		hc2.Edits = []harness.Edit{e}
		obs2, err := b.H.Do(&hc2)
		if err != nil {
			return "INCONCLUSIVE: harness: " + err.Error()
		}
		if obs2.Err != "" {
			return "harness could not run the case: " + obs2.Err
		}
		expect := c.Payload.Del(c.Drop)
		_ = f
		if msg := judge(d, s, meth, expect, obs2, false); msg != "" {
			return fmt.Sprintf("with %q deleted from the %s: %s", c.Drop, where, msg)
		}
	}
	return ""
}

// judge compares one observation with the reference semantics.
func judge(d *m.Design, s *m.Service, meth *m.Method, sent value.V, obs *harness.Obs, viaClient bool) string {
	if obs.Panic != "" {
		return "panic in generated client code: " + firstLines(obs.Panic, 24)
	}
	if obs.ServerPanic != "" {
		return "panic in generated server code: " + firstLines(obs.ServerPanic, 24)
	}
	if len(obs.Requests) != 1 {
		return fmt.Sprintf("the call produced %d HTTP requests, want exactly 1", len(obs.Requests))
	}
	status := 0
	var body string
	if obs.Response != nil {
		status = obs.Response.Status
		body = string(obs.Response.Body)
	}
	if obs.StubCalls != 1 {
		if viaClient && obs.ClientErr != nil && obs.Response == nil {
			return fmt.Sprintf("generated client refused a valid payload: %s", obs.ClientErr.Text)
		}
		return fmt.Sprintf("service method invoked %d times for a valid payload (status %d, body %q)", obs.StubCalls, status, trunc(body))
	}
	want := oracle.Canonicalize(d, meth.Payload, sent)
	got := oracle.Canonicalize(d, meth.Payload, obs.Received)
	if !obs.HadPayload {
		got = value.Nil()
	}
	if msg := oracle.Match(d, meth.Payload, want, got, false, ""); msg != "" {
		return fmt.Sprintf("payload seen by the method differs: %s\n  sent:     %s\n  received: %s", msg, sent.Canon(), got.Canon())
	}
	if viaClient {
		if msg := oracle.CheckRequestLocations(d, s, meth, sent, obs.Requests[0]); msg != "" {
			return "location: " + msg + "\n  request: " + obs.Requests[0].Method + " " + obs.Requests[0].URL
		}
	}
	if status < 200 || status > 299 {
		return fmt.Sprintf("valid request answered with status %d (%q)", status, trunc(body))
	}
	return ""
}

func trunc(s string) string {
	if len(s) > 300 {
		return s[:300] + "…"
	}
	return s
}

func firstLines(s string, n int) string {
	ls := strings.Split(s, "\n")
	if len(ls) > n {
		ls = ls[:n]
	}
	return strings.Join(ls, "\n")
}

var _ = url.PathEscape
var _ = kf.Open
