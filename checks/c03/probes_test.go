package c03

import (
	"os"
	"strings"
	"testing"

	"verif/harness"
	m "verif/internal/model"
	"verif/internal/rt"
	"verif/internal/streamcase"
	"verif/internal/value"
)

func probeDesign() *m.Design {
	d := &m.Design{API: m.API{Name: "probe"}}
	d.Types = append(d.Types, &m.UserType{Name: "Thing", Var: "v1", Attr: rt.Obj(rt.Fld("x", m.Prim(m.String), false))})
	s := &m.Service{Name: "probe", HasHTTP: true}
	add := func(name string, result *m.Attr, resps ...*m.Response) {
		s.Methods = append(s.Methods, &m.Method{Name: name, Result: result, HTTP: &m.HTTPEndpoint{Routes: []m.Route{{Verb: "GET", Path: "/" + name}}, Responses: resps}})
	}
	add("bodyobj", rt.Obj(rt.Fld("t", m.UserRef("Thing"), false), rt.Fld("h", m.Prim(m.String), false)),
		&m.Response{Status: 200, Headers: []m.Mapping{{Attr: "h", Wire: "X-H"}}, Body: &m.Body{Mode: "attr", Attr: "t"}})
	add("hdrarray", rt.Obj(rt.Fld("l", &m.Attr{Type: &m.Type{Kind: m.Array, Elem: m.Prim(m.Int)}}, false)),
		&m.Response{Status: 200, Headers: []m.Mapping{{Attr: "l", Wire: "X-L"}}})
	add("bodyprim", rt.Obj(rt.Fld("b", m.Prim(m.Boolean), false), rt.Fld("h", m.Prim(m.String), false)),
		&m.Response{Status: 200, Headers: []m.Mapping{{Attr: "h", Wire: "X-H"}}, Body: &m.Body{Mode: "attr", Attr: "b"}})
	add("empty", rt.Obj(rt.Fld("h", m.Prim(m.String), false)),
		&m.Response{Status: 200, Headers: []m.Mapping{{Attr: "h", Wire: "X-H"}}})
	add("tagged", rt.Obj(rt.Fld("a", m.Prim(m.String), false), rt.Fld("id", m.Prim(m.Int32), false)),
		&m.Response{Status: 201, TagName: "a", TagValue: "special", Headers: []m.Mapping{{Attr: "id", Wire: "X-C"}}},
		&m.Response{Status: 200, Headers: []m.Mapping{{Attr: "id", Wire: "X-C"}}})
	d.Types = append(d.Types, &m.UserType{Name: "Node", Var: "v2", Result: true, Identifier: "application/vnd.node",
		Attr:  rt.Obj(rt.Fld("id", m.Prim(m.Boolean), true), rt.Fld("c", m.UserRef("Node"), false)),
		Views: []*m.View{{Name: "default", Fields: []m.ViewField{{Name: "id"}, {Name: "c"}}}}})
	add("recur", m.UserRef("Node"), &m.Response{Status: 200, Headers: []m.Mapping{{Attr: "id", Wire: "X-A"}}})
	un := func(k1, k2 m.Kind) *m.Attr {
		return &m.Attr{Type: &m.Type{Kind: m.Union, Fields: []*m.Field{rt.Fld("alt_a", m.Prim(k1), false), rt.Fld("alt_b", m.Prim(k2), false)}}}
	}
	s.Methods = append(s.Methods, &m.Method{Name: "unions", Payload: rt.Obj(rt.Fld("items", un(m.Boolean, m.String), false)), Result: rt.Obj(rt.Fld("items", un(m.Int, m.Float64), false)),
		HTTP: &m.HTTPEndpoint{Routes: []m.Route{{Verb: "POST", Path: "/unions"}}}})
	d.Types = append(d.Types, &m.UserType{Name: "Pair", Var: "v3", Result: true, Identifier: "application/vnd.pair",
		Attr:  rt.Obj(rt.Fld("id", m.Prim(m.Int64), true), rt.Fld("title", m.Prim(m.String), true)),
		Views: []*m.View{{Name: "default", Fields: []m.ViewField{{Name: "id"}, {Name: "title"}}}, {Name: "tiny", Fields: []m.ViewField{{Name: "id"}}}}})
	dvTrue := value.Bool(true)
	d.Types = append(d.Types, &m.UserType{Name: "Entry", Var: "v4", Result: true, Identifier: "application/vnd.entry",
		Attr:  rt.Obj(rt.Fld("id", m.Prim(m.Int64), true), rt.Fld("label", &m.Attr{Type: &m.Type{Kind: m.Boolean}, Default: &dvTrue}, false)),
		Views: []*m.View{{Name: "default", Fields: []m.ViewField{{Name: "id"}, {Name: "label"}}}}})
	add("rtdefault", m.UserRef("Entry"))
	s.Methods = append(s.Methods, &m.Method{Name: "bview", Streaming: "bidirectional", StreamingPayload: m.Prim(m.String), Result: m.UserRef("Pair"), HTTP: &m.HTTPEndpoint{Routes: []m.Route{{Verb: "GET", Path: "/bview"}}}})
	s.Methods = append(s.Methods, &m.Method{Name: "ticks", Streaming: "result", Result: m.Prim(m.Int64), HTTP: &m.HTTPEndpoint{Routes: []m.Route{{Verb: "GET", Path: "/ticks"}}}})
	d.Services = []*m.Service{s}
	return d
}

// TestProbes re-creates the minimal input of every known finding of C03.
func TestProbes(t *testing.T) {
	if rt.ReplayDir() != "" && os.Getenv("VERIF_PROBE_ONLY") == "" {
		t.Skip("replay of a search case")
	}
	sess, h := rt.BuildOne(t, "c03p", probeDesign())
	defer sess.Close()
	defer h.Close()
	call := func(method string, res value.V) *harness.Obs {
		o, err := h.Do(&harness.Case{Op: "call", Svc: "probe", Method: method, Stub: harness.StubSpec{HasResult: true, Result: res, View: "default"}})
		if err != nil {
			t.Fatalf("INCONCLUSIVE: %v", err)
		}
		return o
	}
	rt.Probe("C03-response-body-attr-optional-unset-server-panic", func() (bool, string) {
		o := call("bodyobj", value.Object())
		return o.ServerPanic != "", "result {} with Body(\"t\"): " + firstLines(o.ServerPanic, 1)
	})
	rt.Probe("C03-unions-with-the-same-name-share-alternative-types", func() (bool, string) {
		// the result's union declares alt_a as Int; the generated wrapper type is the payload union's (Boolean)
		o, err := h.Do(&harness.Case{Op: "call", Svc: "probe", Method: "unions", HasPayload: true, Payload: value.Object(),
			Stub: harness.StubSpec{HasResult: true, Result: value.Object(value.Field{N: "items", V: value.V{K: "union", S: "alt_a", A: []value.V{value.Int(7)}}})}})
		if err != nil {
			return strings.Contains(err.Error(), "cannot use"), "result {items: alt_a(7)} (Int alternative): " + err.Error()
		}
		return !strings.Contains(o.Result.Canon(), "7"), "result {items: alt_a(7)}: client got " + o.Result.Canon() + errText(o)
	})
	rt.Probe(streamcase.EmptyStreamFinding, func() (bool, string) {
		// the service closes the result stream without sending anything
		o, err := h.Do(&harness.Case{Op: "call", Svc: "probe", Method: "ticks", Stream: &harness.StreamSpec{Script: ""}})
		if err != nil {
			t.Fatalf("INCONCLUSIVE: %v", err)
		}
		clean := o.ClientErr == nil && o.ClientStream != nil && o.ClientStream.End == "eof"
		return !clean, "result stream closed by the service without a message: client got" + errText(o)
	})
	rt.Probe(streamcase.ViewLostFinding, func() (bool, string) {
		// the service receives one message, then streams one result rendered with the view "tiny"
		o, err := h.Do(&harness.Case{Op: "call", Svc: "probe", Method: "bview", Stream: &harness.StreamSpec{Script: "cs", View: "tiny",
			Send:    []value.V{value.Str("x")},
			Results: []value.V{value.Object(value.Field{N: "id", V: value.Int(1)}, value.Field{N: "title", V: value.Str("t")})}}})
		if err != nil {
			t.Fatalf("INCONCLUSIVE: %v", err)
		}
		got := "nothing"
		if o.ClientStream != nil {
			got = strings.Join(o.ClientStream.Log, " ")
		}
		clean := o.ClientStream != nil && len(o.ClientStream.Received) == 1
		return !clean, "bidirectional stream, SetView(\"tiny\"), Recv before Send: client " + got
	})
	rt.Probe("C03-result-type-unset-default-not-applied", func() (bool, string) {
		o := call("rtdefault", value.Object(value.Field{N: "id", V: value.Int(1)}))
		return o.ClientErr != nil || !strings.Contains(strings.ToLower(o.Result.Canon()), "label:true"), "result type attribute label (Boolean, Default(true)) left unset by the service: client got " + o.Result.Canon() + errText(o)
	})
	rt.Probe("C03-response-header-array-not-split", func() (bool, string) {
		o := call("hdrarray", value.Object(value.Field{N: "l", V: value.Array(value.Int(1), value.Int(2))}))
		return o.ClientErr != nil || !strings.Contains(o.Result.Canon(), "[1,2]"), "result {l:[1,2]} in header X-L: client got " + o.Result.Canon() + errText(o)
	})
	rt.Probe("C03-response-body-attr-optional-primitive-unset-arrives-zero", func() (bool, string) {
		o := call("bodyprim", value.Object())
		return o.ClientErr == nil && strings.Contains(o.Result.Canon(), "B:false"), "result {} with Body(\"b\"): client got " + o.Result.Canon()
	})
	rt.Probe("C03-empty-string-is-absent", func() (bool, string) {
		o := call("empty", value.Object(value.Field{N: "h", V: value.Str("")}))
		return o.ClientErr == nil && !strings.Contains(o.Result.Canon(), `H:""`), `result {h:""} in header X-H: client got ` + o.Result.Canon()
	})
	rt.Probe("C03-recursive-result-header-attr-lost-in-nested", func() (bool, string) {
		o := call("recur", value.Object(value.Field{N: "id", V: value.Bool(true)}, value.Field{N: "c", V: value.Object(value.Field{N: "id", V: value.Bool(true)})}))
		return o.ClientErr != nil || !strings.Contains(o.Result.Canon(), "C:{ID:true}"), "result {id:true,c:{id:true}} of recursive type Node with Header(id): client got " + o.Result.Canon() + errText(o)
	})
	rt.Probe("C03-tagged-response-optional-header-nil-deref", func() (bool, string) {
		o := call("tagged", value.Object(value.Field{N: "a", V: value.Str("special")}))
		return o.ServerPanic != "", `result {a:"special"} selecting the tagged response with unset header attribute id: ` + firstLines(o.ServerPanic, 1)
	})
}

func errText(o *harness.Obs) string {
	if o.ClientErr == nil {
		return ""
	}
	return " error: " + o.ClientErr.Text
}
