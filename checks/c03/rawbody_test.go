package c03

import (
	"bytes"
	"fmt"
	"testing"

	"pgregory.net/rapid"

	"verif/harness"
	"verif/internal/gen"
	"verif/internal/rt"
	"verif/internal/stats"
	"verif/internal/value"
)

// TestRawResponseBodies: methods that stream the HTTP response body themselves
// (SkipResponseBodyEncodeDecode). The result still travels in the response
// headers and must arrive equal; the bytes the service method streams must be
// exactly the bytes the caller reads from the body the generated client hands
// back.
func TestRawResponseBodies(t *testing.T) {
	if rt.ReplayDir() != "" {
		t.Skip("replay of another test's case")
	}
	sess, h := rt.BuildOne(t, "c03raw", gen.RawBodyMatrix())
	defer sess.Close()
	defer h.Close()
	str := rapid.StringMatching(`[a-zA-Z0-9_.~-]{1,12}`)
	bodyGen := rapid.OneOf(
		rapid.Just([]byte(nil)),
		rapid.SliceOfN(rapid.Byte(), 0, 64),
		rapid.Map(rapid.IntRange(1, 200000), func(n int) []byte { return bytes.Repeat([]byte("fedcba9876543210"), n/16+1)[:n] }),
	)
	rapid.Check(t, func(rt_ *rapid.T) {
		method := rapid.SampledFrom([]string{"download", "pipe"}).Draw(rt_, "method")
		id := str.Draw(rt_, "id")
		body := bodyGen.Draw(rt_, "body")
		res := value.Object(value.Field{N: "length", V: value.Int(rapid.Int64().Draw(rt_, "length"))})
		if method == "download" && rapid.Bool().Draw(rt_, "hasKind") {
			res = res.Set("kind", value.Str(str.Draw(rt_, "kind")))
		}
		c := &harness.Case{Op: "call", Svc: "rawbodies", Method: method, HasPayload: true, Payload: value.Object(value.Field{N: "id", V: value.Str(id)}),
			ReqBody: []byte("request-of-" + id), Stub: harness.StubSpec{HasResult: true, Result: res, RespBody: body}}
		o, err := h.Do(c)
		if err != nil {
			rt_.Fatalf("INCONCLUSIVE: %v", err)
		}
		stats.CaseSample(fmt.Sprintf("rawresp|%s|%s|%d", method, res.Canon(), len(body)), true, map[string]any{"method": method, "result": res.Canon(), "response_body_bytes": len(body)})
		stats.Class("rawbody:" + method)
		if o.Err != "" || o.Panic != "" || o.ServerPanic != "" {
			rt_.Fatalf("%s: harness/panic: %s %s %s", method, o.Err, o.Panic, o.ServerPanic)
		}
		if o.StubCalls != 1 || o.ClientErr != nil {
			rt_.Fatalf("%s %s: the method ran %d times, client error %v", method, id, o.StubCalls, o.ClientErr)
		}
		if o.WriteHeaders != 1 {
			rt_.Fatalf("%s %s: WriteHeader called %d times", method, id, o.WriteHeaders)
		}
		if gen.Norm(o.Result.Canon()) != gen.Norm(res.Canon()) {
			rt_.Fatalf("%s: the caller received result %s, the method returned %s", method, o.Result.Canon(), res.Canon())
		}
		if !o.HadRespBody || o.ResultBodyErr != "" || !bytes.Equal(o.ResultBody, body) {
			rt_.Fatalf("%s %s: the caller read %d response body bytes (err %q), the method streamed %d", method, id, len(o.ResultBody), o.ResultBodyErr, len(body))
		}
		if o.Response != nil && o.Response.Status != 200 {
			rt_.Fatalf("%s: status %d, the design assigns 200", method, o.Response.Status)
		}
	})
}
