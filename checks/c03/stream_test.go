package c03

import (
	"strings"
	"testing"

	"pgregory.net/rapid"

	"verif/internal/gen"
	m "verif/internal/model"
	"verif/internal/rt"
	"verif/internal/stats"
	"verif/internal/streamcase"
)

// TestStreamedResults: streaming endpoints over HTTP (websocket). Every result
// the service streams must reach the caller of the generated client equal
// (rendered with the view the service selected, for result types), in order,
// none lost, none invented; the end of the service's stream must be visible
// to the client as io.EOF; the final result of a payload-streaming method
// must be what CloseAndRecv returns. (The client-to-server direction of the
// same calls is judged by C02.)
func TestStreamedResults(t *testing.T) {
	if rt.ReplayDir() != "" {
		t.Skip("replay of another test's case")
	}
	d := gen.StreamMatrix()
	sess, h := rt.BuildOne(t, "c03stream", d)
	defer sess.Close()
	defer h.Close()
	s := d.Services[0]
	var streaming []*m.Method
	for _, meth := range s.Methods {
		if meth.Streaming != "" {
			streaming = append(streaming, meth)
		}
	}
	rapid.Check(t, func(rt_ *rapid.T) {
		meth := rapid.SampledFrom(streaming).Draw(rt_, "method")
		c := streamcase.Gen(d, s, meth, "", 10).Draw(rt_, "case")
		obs, err := h.Do(c.Harness())
		if err != nil {
			rt_.Fatalf("INCONCLUSIVE: %v", err)
		}
		nontrivial := len(c.Spec.Results) > 0 || c.HasFinal
		stats.CaseSample(c.Key(), nontrivial, c.Describe())
		stats.Class("stream:" + meth.Streaming)
		stats.Class("stream-method:" + meth.Name)
		if len(c.Spec.Results) >= 2 {
			stats.Class("stream:several-server-messages")
		}
		if c.Spec.View != "" {
			stats.Class("stream:view-" + c.Spec.View)
		}
		if strings.Contains(c.Spec.Script, "cs") && strings.Contains(c.Spec.Script, "sc") {
			stats.Class("stream:interleaved")
		}
		if c.Spec.ClientCloses {
			stats.Class("stream:client-closes")
		}
		if msg := streamcase.ServerToClient(d, s, meth, c, obs); msg != "" && !streamcase.Skipped(msg) {
			if strings.HasPrefix(msg, "INCONCLUSIVE") {
				rt_.Fatalf("%s", msg)
			}
			rt_.Fatalf("%s %s script %q: %s", meth.Streaming, meth.Name, c.Spec.Script, msg)
		}
	})
}

// TestStreamDesigns: the same relation as TestStreamedResults over generated
// designs (streams profile).
func TestStreamDesigns(t *testing.T) {
	streamcase.RunDesigns(t, "C03", "c03sd", streamcase.ServerToClient, func(meth *m.Method, c *streamcase.Case) bool {
		return len(c.Spec.Results) > 0 || c.HasFinal
	})
}
