// Package c03 decides property C03: a result returned by a service method
// reaches the caller of the generated HTTP client as an equal value, with the
// status code the design assigns to the selected response and each attribute
// in its designed location.
package c03

import (
	"fmt"
	"strings"
	"sync"
	"testing"

	"pgregory.net/rapid"

	"verif/harness"
	"verif/internal/gen"
	m "verif/internal/model"
	"verif/internal/oracle"
	"verif/internal/rt"
	"verif/internal/stats"
	"verif/internal/value"
)

func TestMain(m *testing.M) { stats.Main(m) }

type caseRec struct {
	Service string  `json:"service"`
	Method  string  `json:"method"`
	Payload value.V `json:"payload"`
	Result  value.V `json:"result"`
	View    string  `json:"view"`
	Message string  `json:"message"`
}

func keep(d *m.Design) bool {
	for _, s := range d.Services {
		for _, meth := range s.Methods {
			if meth.Result != nil && meth.HTTP != nil {
				return true
			}
		}
	}
	return false
}

func TestResponseRoundTrip(t *testing.T) {
	n := rt.EnvInt("VERIF_CHECKS", 24)
	seed := rt.EnvInt("VERIF_SEED", 1)
	sess, built := rt.Prepare(t, "c03", rt.Options{Profile: gen.Response(), N: n, Seed: seed, Keep: keep, Extra: []*m.Design{gen.ParamMatrix(), gen.DefaultsMatrix(), gen.DefaultsBodyMatrix(), gen.NestMatrix(), gen.ViewMatrix(), gen.InheritMatrix(), gen.RespCookieMatrix()}})
	defer sess.Close()
	defer rt.CloseAll(built)
	if len(built) == 0 {
		t.Fatalf("INCONCLUSIVE: no design could be built")
	}
	if len(built)*2 < n && rt.ReplayDir() == "" {
		t.Fatalf("INCONCLUSIVE: only %d of %d designs could be built (generator health)", len(built), n)
	}
	var wg sync.WaitGroup
	var mu sync.Mutex
	failures := 0
	sem := make(chan struct{}, 16)
	for _, b := range built {
		wg.Add(1)
		go func(b *rt.Built) {
			defer wg.Done()
			sem <- struct{}{}
			defer func() { <-sem }()
			for _, s := range b.Design.Services {
				for _, meth := range s.Methods {
					if meth.HTTP == nil {
						continue
					}
					if !checkMethod(t, b, s, meth) {
						mu.Lock()
						failures++
						mu.Unlock()
					}
				}
			}
		}(b)
	}
	wg.Wait()
	if failures > 0 {
		t.Fatalf("%d method(s) violate C03", failures)
	}
}

func checkMethod(t *testing.T, b *rt.Built, s *m.Service, meth *m.Method) bool {
	d := b.Design
	label := rt.MethodLabel(b, s, meth)
	var last *caseRec
	var replay caseRec
	if rt.LoadReplayCase(&replay) {
		if replay.Service != s.Name || replay.Method != meth.Name {
			return true
		}
		if msg := runCase(b, s, meth, &replay); msg != "" {
			t.Errorf("replayed case still fails: %s", msg)
			return false
		}
		fmt.Printf("replayed case passes: %s %s\n", s.Name, meth.Name)
		return true
	}
	views := oracle.ResultViews(d, meth.Result)
	ok := t.Run(label, func(t *testing.T) {
		rapid.Check(t, func(rt_ *rapid.T) {
			c := &caseRec{Service: s.Name, Method: meth.Name}
			c.Payload = gen.PayloadGen(d, meth).Draw(rt_, "payload")
			c.Result = gen.ResultGen(d, meth).Draw(rt_, "result")
			c.View = "default"
			if meth.ResultView != "" {
				c.View = meth.ResultView
			} else if len(views) > 1 {
				c.View = rapid.SampledFrom(append([]string{""}, views...)).Draw(rt_, "view")
			}
			msg := runCase(b, s, meth, c)
			record(d, meth, c)
			if msg != "" {
				c.Message = msg
				last = c
				rt_.Fatalf("%s: %s\n  result: %s (view %q)", label, msg, c.Result.Canon(), c.View)
			}
		})
	})
	if !ok && last != nil {
		dir := rt.SaveReplay(b, label, last)
		fmt.Printf("C03 failing case saved: %s\n  design: %s\n  %s\n", dir, b.Run.Name, last.Message)
	}
	return ok
}

func record(d *m.Design, meth *m.Method, c *caseRec) {
	if strings.Contains(c.Result.Canon(), "union(") {
		stats.Class("result-has-union")
	}
	r := oracle.SelectResponse(d, meth, c.Result)
	tagged := r != nil && r.TagName != ""
	locs := map[string]bool{}
	for k, v := range gen.RespWhereOf(d, meth, r) {
		if fv, ok := c.Result.Get(k); ok && !fv.IsNil() {
			locs[v] = true
		}
	}
	defaulted := false
	for _, f := range d.ObjectFields(meth.Result) {
		if _, ok := c.Result.Get(f.Name); !ok && f.Attr.Default != nil {
			defaulted = true
		}
	}
	nt := tagged || (locs["body"] && (locs["header"] || locs["cookie"])) || defaulted || c.View != "default" && c.View != ""
	stats.CaseSample(c.Service+"|"+c.Method+"|"+c.View+"|"+c.Result.Canon(), nt, map[string]any{"method": c.Service + "." + c.Method, "view": c.View, "result": c.Result.Canon(), "tagged_response": tagged})
	if tagged {
		stats.Class("response:tagged")
	} else {
		stats.Class("response:untagged")
	}
	for l := range locs {
		stats.Class("result-location:" + l)
	}
	if c.View != "default" && c.View != "" {
		stats.Class("non-default-view")
	}
	if meth.Result == nil {
		stats.Class("no-result")
	}
}

func runCase(b *rt.Built, s *m.Service, meth *m.Method, c *caseRec) string {
	d := b.Design
	hc := &harness.Case{Op: "call", Svc: s.Name, Method: meth.Name, HasPayload: meth.Payload != nil, Payload: c.Payload}
	hc.Stub = harness.StubSpec{HasResult: meth.Result != nil, Result: c.Result, View: c.View}
	obs, err := b.H.Do(hc)
	if err != nil {
		return "INCONCLUSIVE: harness: " + err.Error()
	}
	if obs.Err != "" {
		return "harness could not run the case: " + obs.Err
	}
	if obs.Panic != "" {
		return "panic in generated client code: " + firstLines(obs.Panic, 24)
	}
	if obs.ServerPanic != "" {
		return "panic in generated server code: " + firstLines(obs.ServerPanic, 24)
	}
	if obs.StubCalls != 1 {
		// the request did not reach the method: C02's subject, not a verdict here
		stats.Class("skipped:request-not-delivered")
		return ""
	}
	if obs.Response == nil {
		return "no response observed"
	}
	if len(obs.ErrHandler) > 0 {
		return fmt.Sprintf("response encoding failed on the server: %v", obs.ErrHandler)
	}
	if obs.WriteHeaders != 1 {
		return fmt.Sprintf("WriteHeader called %d times, want once", obs.WriteHeaders)
	}
	// what the design promises
	view := c.View
	sent := oracle.Canonicalize(d, meth.Result, c.Result)
	expected := sent
	if vs := oracle.ResultViews(d, meth.Result); len(vs) > 0 {
		expected = oracle.Project(d, meth.Result, sent, view)
	} else {
		// a result that is not a result type has no views: result types nested in
		// it are plain user types there and are rendered in full
		expected = sent
	}
	resp := oracle.SelectResponse(d, meth, c.Result)
	wantStatus := oracle.DefaultStatus(meth)
	if resp != nil {
		wantStatus = resp.Status
	}
	if obs.Response.Status != wantStatus {
		return fmt.Sprintf("status %d, the design assigns %d to this response (body %q)", obs.Response.Status, wantStatus, trunc(string(obs.Response.Body)))
	}
	if obs.ClientErr != nil {
		return fmt.Sprintf("client returned an error for a valid result: %s", obs.ClientErr.Text)
	}
	var got value.V
	if obs.HasResult {
		got = oracle.Canonicalize(d, meth.Result, obs.Result)
	} else {
		got = value.Nil()
	}
	if meth.Result != nil {
		if len(oracle.ResultViews(d, meth.Result)) > 0 {
			got = oracle.MaskOutsideView(d, meth.Result, got, view)
		}
		if msg := oracle.Match(d, meth.Result, expected, got, false, ""); msg != "" {
			return fmt.Sprintf("result seen by the client differs: %s\n  returned by the service: %s\n  expected at the client:  %s\n  received:                %s", msg, c.Result.Canon(), expected.Canon(), got.Canon())
		}
	}
	if msg := oracle.CheckResponseLocations(d, meth, resp, expected, obs.Response); msg != "" {
		return "location: " + msg
	}
	return ""
}

func trunc(s string) string {
	if len(s) > 300 {
		return s[:300] + "…"
	}
	return s
}

func firstLines(s string, n int) string {
	ls := strings.Split(s, "\n")
	if len(ls) > n {
		ls = ls[:n]
	}
	return strings.Join(ls, "\n")
}
