package c12

import (
	"encoding/json"
	"fmt"
	"os"
	"path/filepath"
	"sort"
	"testing"

	"pgregory.net/rapid"

	m "verif/internal/model"
	"verif/internal/stats"
)

// Self-referential and mutually recursive type definitions: the property
// names them explicitly ("including self-referential or mutually recursive
// type definitions"), and the random design profiles only reach a type from
// itself through attributes and array elements. Here the graph of user types
// is the generated value: every edge kind a DSL type expression offers
// (attribute, array element, map element, map key, array of maps, map of
// arrays, union alternative, result type attribute, collection) between 1-3
// user types, used as payload, result or error type of an HTTP endpoint, a
// gRPC endpoint or both. Evaluation has to end - accepted or with located
// errors - on every one of them.

type edgeKind int

const (
	ekField edgeKind = iota
	ekArray
	ekMapVal
	ekMapKey
	ekArrayOfMapVal
	ekMapOfArrayKey
	ekMapKeyAndVal
	ekUnion
	nEdgeKinds
)

var edgeKindNames = []string{"field", "array", "map-val", "map-key", "array-of-map-val", "map-with-array-val-and-type-key", "map-key-and-val", "union-alternative"}

func edgeAttr(k edgeKind, to string) *m.Attr {
	ref := func() *m.Attr { return m.UserRef(to) }
	arr := func(e *m.Attr) *m.Attr { return &m.Attr{Type: &m.Type{Kind: m.Array, Elem: e}} }
	mp := func(k, v *m.Attr) *m.Attr { return &m.Attr{Type: &m.Type{Kind: m.Map, Key: k, Val: v}} }
	switch k {
	case ekField:
		return ref()
	case ekArray:
		return arr(ref())
	case ekMapVal:
		return mp(m.Prim(m.String), ref())
	case ekMapKey:
		return mp(ref(), m.Prim(m.String))
	case ekArrayOfMapVal:
		return arr(mp(m.Prim(m.String), ref()))
	case ekMapOfArrayKey:
		return mp(ref(), arr(m.Prim(m.Int)))
	case ekMapKeyAndVal:
		return mp(ref(), ref())
	case ekUnion:
		return &m.Attr{Type: &m.Type{Kind: m.Union, Fields: []*m.Field{
			{Name: "leaf", Attr: m.Prim(m.String), Tag: 1},
			{Name: "node", Attr: ref(), Tag: 2},
		}}}
	}
	panic("edge kind")
}

type recEdge struct {
	From, To int
	Kind     edgeKind
}

type recShape struct {
	Types     int
	Edges     []recEdge
	ResultTyp []bool // per type: declared with ResultType
	Transport string // "http", "grpc", "both"
	Position  string // "payload", "result", "error", "payload+result"
	Root      int
}

func (s recShape) design() *m.Design {
	d := &m.Design{API: m.API{Name: "rec", Title: "Recursive types"}}
	for i := 0; i < s.Types; i++ {
		name := fmt.Sprintf("Node%d", i)
		fields := []*m.Field{{Name: "name", Attr: m.Prim(m.String), Tag: 1}}
		tag := 1
		for j, e := range s.Edges {
			if e.From != i {
				continue
			}
			tag++
			fields = append(fields, &m.Field{Name: fmt.Sprintf("e%d", j), Attr: edgeAttr(e.Kind, fmt.Sprintf("Node%d", e.To)), Tag: tag})
		}
		ut := &m.UserType{Name: name, Var: fmt.Sprintf("vNode%d", i), Attr: &m.Attr{Type: &m.Type{Kind: m.Object, Fields: fields}}}
		if s.ResultTyp[i] {
			ut.Result = true
			ut.Identifier = fmt.Sprintf("application/vnd.rec.node%d", i)
			v := &m.View{Name: "default"}
			for _, f := range fields {
				v.Fields = append(v.Fields, m.ViewField{Name: f.Name})
			}
			ut.Views = []*m.View{v}
		}
		d.Types = append(d.Types, ut)
	}
	// result types first: a result type gets its name when its own DSL runs,
	// so only types declared after it can name it (by variable); plain types
	// can be named ahead of their declaration
	sort.SliceStable(d.Types, func(i, j int) bool { return d.Types[i].Result && !d.Types[j].Result })
	root := func() *m.Attr { return m.UserRef(fmt.Sprintf("Node%d", s.Root)) }
	meth := &m.Method{Name: "walk"}
	switch s.Position {
	case "payload":
		meth.Payload = root()
	case "result":
		meth.Result = root()
	case "payload+result":
		meth.Payload, meth.Result = root(), root()
	case "error":
		meth.Errors = []*m.ErrorDef{{Name: "broken", Type: root()}}
	}
	svc := &m.Service{Name: "rec", Methods: []*m.Method{meth}}
	if s.Transport != "grpc" {
		svc.HasHTTP = true
		meth.HTTP = &m.HTTPEndpoint{Routes: []m.Route{{Verb: "POST", Path: "/walk"}}}
		if s.Position == "error" {
			meth.HTTP.ErrorResp = []*m.ErrorResponse{{Name: "broken", Status: 400, Level: "method"}}
		}
	}
	if s.Transport != "http" {
		svc.HasGRPC = true
		meth.GRPC = &m.GRPCEndpoint{}
	}
	d.Services = []*m.Service{svc}
	return d
}

func recShapeGen() *rapid.Generator[recShape] {
	return rapid.Custom(func(t *rapid.T) recShape {
		s := recShape{Types: rapid.IntRange(1, 3).Draw(t, "types")}
		s.Root = 0
		// a cycle through all types, then 0-2 extra edges
		for i := 0; i < s.Types; i++ {
			s.Edges = append(s.Edges, recEdge{From: i, To: (i + 1) % s.Types, Kind: edgeKind(rapid.IntRange(0, int(nEdgeKinds)-1).Draw(t, "kind"))})
		}
		for i, n := 0, rapid.IntRange(0, 2).Draw(t, "extra"); i < n; i++ {
			s.Edges = append(s.Edges, recEdge{From: rapid.IntRange(0, s.Types-1).Draw(t, "from"), To: rapid.IntRange(0, s.Types-1).Draw(t, "to"),
				Kind: edgeKind(rapid.IntRange(0, int(nEdgeKinds)-1).Draw(t, "kind"))})
		}
		for i := 0; i < s.Types; i++ {
			s.ResultTyp = append(s.ResultTyp, rapid.IntRange(0, 3).Draw(t, "resulttype") == 0)
		}
		s.Transport = rapid.SampledFrom([]string{"http", "grpc", "both"}).Draw(t, "transport")
		s.Position = rapid.SampledFrom([]string{"payload", "result", "payload+result", "error"}).Draw(t, "position")
		return s
	})
}

// evaluateShape evaluates one shape. A runtime stack overflow cannot be
// recovered, so the program is written out before the evaluation and removed
// after it: if the process dies, what is left is the replay.
func evaluateShape(s recShape) (string, outcome) {
	p := s.design().Lower()
	pending := saveProgram(p, "recursive-pending", map[string]string{"message.txt": "the process died while evaluating this program (stack overflow or other fatal error)"})
	o := evaluate(p)
	msg := judge(p, o)
	if msg == "" {
		_ = os.RemoveAll(pending)
	}
	kinds := map[string]bool{}
	for _, e := range s.Edges {
		kinds[edgeKindNames[e.Kind]] = true
	}
	for k := range kinds {
		stats.Class("recursive:edge:" + k)
	}
	stats.Class("recursive:transport:" + s.Transport)
	stats.Class("recursive:position:" + s.Position)
	switch {
	case o.InterpErr != "":
		stats.Class("recursive:not-expressible")
	case o.Accepted:
		stats.Class("recursive:accepted")
	default:
		stats.Class("recursive:rejected")
	}
	sj, _ := json.Marshal(s)
	stats.CaseSample("recursive|"+string(sj), o.InterpErr == "", map[string]any{"kind": "recursive", "shape": s, "accepted": o.Accepted, "errors": firstN(o.Errors, 2)})
	return msg, o
}

// TestRecursiveTypes: first every single-kind cycle of length 1 and 2 in every
// position and transport (exhaustive), then random graphs.
func TestRecursiveTypes(t *testing.T) {
	if os.Getenv("VERIF_REPLAY_DIR") != "" {
		replayProgram(t)
		return
	}
	n := 0
	for k := edgeKind(0); k < nEdgeKinds; k++ {
		for _, types := range []int{1, 2} {
			for _, tr := range []string{"http", "grpc", "both"} {
				for _, pos := range []string{"payload", "result", "payload+result", "error"} {
					for _, rtyp := range []bool{false, true} {
						s := recShape{Types: types, Transport: tr, Position: pos}
						for i := 0; i < types; i++ {
							kind := k
							if i > 0 {
								kind = ekField // Node1 points back to Node0 through a plain attribute
							}
							s.Edges = append(s.Edges, recEdge{From: i, To: (i + 1) % types, Kind: kind})
							s.ResultTyp = append(s.ResultTyp, rtyp)
						}
						n++
						if msg, o := evaluateShape(s); msg != "" {
							dir := saveProgram(s.design().Lower(), "recursive", map[string]string{"message.txt": msg})
							_ = os.RemoveAll(filepath.Join(filepath.Dir(dir), "recursive-pending"))
							t.Fatalf("%s\nshape %+v\n%s\nsaved: %s", msg, s, firstLines(o.Stack, 30), dir)
						}
					}
				}
			}
		}
	}
	stats.Exhaustive(fmt.Sprintf("C12 recursive types: %d single-kind cycles (8 edge kinds x cycle length 1-2 x http/grpc/both x payload/result/both/error x plain/result type)", n))
	var last *recShape
	var lastMsg string
	defer func() {
		if last != nil {
			dir := saveProgram(last.design().Lower(), "recursive", map[string]string{"message.txt": lastMsg})
			_ = os.RemoveAll(filepath.Join(filepath.Dir(dir), "recursive-pending"))
			fmt.Printf("C12 failing program saved: %s\n", dir)
		}
	}()
	rapid.Check(t, func(rt_ *rapid.T) {
		s := recShapeGen().Draw(rt_, "shape")
		if msg, o := evaluateShape(s); msg != "" {
			last, lastMsg = &s, msg
			rt_.Fatalf("%s\nshape %+v\n%s", msg, s, firstLines(o.Stack, 30))
		}
	})
}
