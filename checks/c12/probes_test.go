package c12

import (
	"os"
	"strings"
	"testing"

	dt "verif/internal/dsltree"
	"verif/internal/stats"
)

// small builders
func n(fn string, args ...dt.Arg) *dt.Node { return dt.N(fn, args...) }
func s(v string) dt.Arg                    { return dt.S(v) }
func c(v string) dt.Arg                    { return dt.C(v) }
func prog(ns ...*dt.Node) *dt.Program      { return &dt.Program{Nodes: ns} }

func itemType() *dt.Node {
	return n("ResultType", s("application/vnd.item")).With(
		n("TypeName", s("Item")),
		n("Attributes").With(n("Attribute", s("a"), c("String")), n("Attribute", s("b"), c("String"))),
		n("View", s("default")).With(n("Attribute", s("a")), n("Attribute", s("b"))),
		n("View", s("tiny")).With(n("Attribute", s("a"))),
	).As("v1")
}

func svc(method ...*dt.Node) *dt.Node {
	return n("Service", s("svc")).With(n("Method", s("m")).With(method...))
}

type probe struct {
	id   string
	what string
	p    *dt.Program
	// hit decides from the outcome whether the defect is present
	hit func(o outcome) bool
}

func panicked(sub string) func(o outcome) bool {
	return func(o outcome) bool { return o.Panic != "" && strings.Contains(o.Panic+"\n"+o.Stack, sub) }
}

func probes() []probe {
	return []probe{
		{"C12-server-outside-api-nil-deref", `Server("x") at top level`, prog(n("Server", s("x"))), panicked("dsl.Server")},
		{"C12-security-no-args-index-out-of-range", `Security() without arguments`, prog(n("Service", s("svc")).With(n("Security"))), panicked("dsl.Security")},
		{"C12-result-type-returns-nil-then-used", `ArrayOf(ResultType("application/vnd.x"), func(){ APIKey("","") }) inside API (wrong context)`,
			prog(n("API", s("a")).With(n("ArrayOf", dt.Call(n("ResultType", s("application/vnd.x")))).With(n("APIKey", s(""), s(""))))), panicked("ResultTypeExpr")},
		{"C12-extend-nil-type", `Type("T", func(){ Extend(Type("Inner", func(){})) }): the inner Type is misplaced and returns nil`,
			prog(n("Type", s("T")).With(n("Extend", dt.Call(n("Type", s("Inner")).With())))), panicked("dsl.Extend")},
		{"C12-error-response-headers-undeclared-error-nil-deref", `Response("nope", StatusBadRequest, func(){ Header("a") }) for an undeclared error`,
			prog(svc(n("Result", c("String")), n("HTTP").With(n("GET", s("/")), n("Response", s("nope"), c("StatusBadRequest")).With(n("Header", s("a")))))), panicked("HTTPErrorExpr")},
		{"C12-cookie-attribute-before-cookie-nil-deref", `Response(StatusOK, func(){ CookiePath("/") }) without Cookie`,
			prog(svc(n("Result", c("String")), n("HTTP").With(n("GET", s("/")), n("Response", c("StatusOK")).With(n("CookiePath", s("/")))))), panicked("cookieAttribute")},
		{"C12-empty-service-name-panics-in-finalize", `Service("") with a method returning a result`,
			prog(itemType(), n("Service", s("")).With(n("Method", s("m")).With(n("Result", dt.Ref("v1")), n("HTTP").With(n("GET", s("/")))))), func(o outcome) bool { return o.Panic != "" || o.Accepted }},
		{"C12-error-with-undefined-view-panics-in-finalize", `Error("conflict", func(){ View("nope") })`,
			prog(svc(n("Error", s("conflict")).With(n("View", s("nope"))), n("HTTP").With(n("GET", s("/")), n("Response", s("conflict"), c("StatusConflict"))))), func(o outcome) bool { return o.Panic != "" || o.Accepted }},
		{"C12-response-header-missing-from-fixed-view-nil-deref", `Result(Item, func(){ View("tiny") }) with Response header "nope"`,
			prog(itemType(), svc(n("Result", dt.Ref("v1")).With(n("View", s("tiny"))), n("HTTP").With(n("GET", s("/")), n("Response", c("StatusOK")).With(n("Header", s("nope")))))), func(o outcome) bool { return o.Panic != "" || o.Accepted }},
		{"C12-default-nil-on-array-panics", `Attribute("a", ArrayOf(String), func(){ Default(nil) })`,
			prog(n("Type", s("T")).With(n("Attribute", s("a"), dt.Call(n("ArrayOf", c("String")))).With(n("Default", dt.Nil())))), panicked("IsCompatible")},
		{"C12-result-type-undefined-own-view-panics-in-finalize", `ResultType with View("nope") (no DSL) at type level`,
			prog(n("ResultType", s("application/vnd.item")).With(
				n("Attributes").With(n("Attribute", s("a"), c("String"))),
				n("View", s("default")).With(n("Attribute", s("a"))),
				n("View", s("nope")),
			)), func(o outcome) bool { return o.Panic != "" || o.Accepted }},
		{"C12-view-attribute-with-undefined-nested-view-panics", `view "tiny" renders attribute of type Opts with View("tiny") that Opts does not define; method fixes view tiny`,
			prog(
				n("ResultType", s("application/vnd.opts")).With(n("Attributes").With(n("Attribute", s("x"), c("String")))).As("v2"),
				n("ResultType", s("application/vnd.inner")).With(
					n("Attributes").With(n("Attribute", s("rank"), dt.Ref("v2")), n("Attribute", s("a"), c("String"))),
					n("View", s("default")).With(n("Attribute", s("rank")), n("Attribute", s("a"))),
					n("View", s("tiny")).With(n("Attribute", s("rank")).With(n("View", s("tiny")))),
				).As("v3"),
				svc(n("Result", dt.Ref("v3")).With(n("View", s("tiny"))), n("HTTP").With(n("GET", s("/")))),
			), func(o outcome) bool { return o.Panic != "" || o.Accepted }},
		{"C12-dangling-view-inside-map-accepted", `payload attribute MapOf(String, Item) where Item has Attribute("b", "Item", func(){ View("nope") })`,
			prog(
				n("ResultType", s("application/vnd.item")).With(
					n("TypeName", s("Item")),
					n("Attributes").With(n("Attribute", s("a"), c("String")), n("Attribute", s("b"), s("Item")).With(n("View", s("nope")))),
					n("View", s("default")).With(n("Attribute", s("a")), n("Attribute", s("b"))),
				).As("v1"),
				svc(n("Payload").With(n("Attribute", s("m"), dt.Call(n("MapOf", c("String"), dt.Ref("v1"))))), n("HTTP").With(n("POST", s("/")))),
			), func(o outcome) bool { return o.Panic != "" || o.Accepted }},
		{"C12-empty-grpc-metadata-dsl-panics", `GRPC(func(){ Metadata(func(){}) })`,
			prog(svc(n("Payload").With(n("Field", dt.I(1), s("a"), c("String"))), n("GRPC").With(n("Metadata").With()))), panicked("NewMappedAttributeExpr")},
		{"C12-empty-body-dsl-panics", `HTTP(func(){ POST("/"); Body(func(){}) }) with an object payload`,
			prog(svc(n("Payload").With(n("Attribute", s("a"), c("String"))), n("HTTP").With(n("POST", s("/")), n("Body").With()))), panicked("DupType")},
		{"C12-error-response-body-attr-missing-from-error-type", `Response("e", StatusNotFound, func(){ Body("a") }) where "a" is a result attribute but not an attribute of the error type`,
			prog(n("Type", s("Err")).With(n("ErrorName", s("name"), c("String")), n("Required", s("name"))).As("v1"),
				svc(n("Result").With(n("Attribute", s("a"), c("String"))), n("Error", s("e"), dt.Ref("v1")),
					n("HTTP").With(n("GET", s("/")), n("Response", s("e"), c("StatusNotFound")).With(n("Body", s("a")))))),
			func(o outcome) bool { return o.Panic != "" || o.Accepted }},
		{"C12-empty-grpc-message-dsl-panics", `GRPC(func(){ Message(func(){}) }) with an object payload`,
			prog(svc(n("Payload").With(n("Field", dt.I(1), s("a"), c("String"))), n("GRPC").With(n("Message").With()))), func(o outcome) bool { return o.Panic != "" }},
		{"C12-grpc-message-missing-attribute-after-valid-one-accepted", `GRPC(func(){ Message(func(){ Attribute("a"); Attribute("nope") }) })`,
			prog(svc(n("Payload").With(n("Field", dt.I(1), s("a"), c("String")), n("Field", dt.I(2), s("b"), c("String"))),
				n("GRPC").With(n("Message").With(n("Attribute", s("a")), n("Attribute", s("nope")))))), func(o outcome) bool { return o.Panic != "" || o.Accepted }},
		{"C12-type-level-view-then-other-view-panics", `ResultType Leaf{views default,tiny} with View("default") at type level; Result(Leaf, func(){ View("tiny") })`,
			prog(
				n("ResultType", s("application/vnd.leaf")).With(
					n("TypeName", s("Leaf")),
					n("Attributes").With(n("Attribute", s("a"), c("String")), n("Attribute", s("b"), c("String"))),
					n("View", s("default")).With(n("Attribute", s("a")), n("Attribute", s("b"))),
					n("View", s("tiny")).With(n("Attribute", s("a"))),
					n("View", s("default")),
				).As("v1"),
				svc(n("Result", dt.Ref("v1")).With(n("View", s("tiny"))), n("HTTP").With(n("GET", s("/")))),
			), panicked("useExplicitView")},
	}
}

// TestProbes re-creates the minimal input of every known finding of C12
// (open ones must still show, fixed ones must not).
func TestProbes(t *testing.T) {
	if os.Getenv("VERIF_REPLAY_DIR") != "" && os.Getenv("VERIF_PROBE_ONLY") == "" {
		t.Skip("replay of a search case")
	}
	for _, pr := range probes() {
		o := evaluate(pr.p)
		if o.InterpErr != "" {
			t.Fatalf("INCONCLUSIVE: probe %s is not expressible: %s", pr.id, o.InterpErr)
		}
		hit := pr.hit(o)
		what := pr.what
		switch {
		case o.Panic != "":
			what += ": panic " + o.Panic + " at " + panicSite(o.Stack)
		case o.Accepted:
			what += ": accepted"
		default:
			what += ": rejected with " + firstN(o.Errors, 1)[0]
		}
		stats.ProbeResult(pr.id, hit, what)
	}
}
