// Package c12 decides property C12: any sequence of DSL calls evaluates to
// either an accepted design or a non-empty list of errors; evaluation never
// panics or fails to terminate; a design is not accepted when its transport
// mappings, requirements, views or error responses refer to attributes,
// schemes, views or errors that do not exist.
package c12

import (
	"encoding/json"
	"errors"
	"fmt"
	"os"
	"path/filepath"
	"reflect"
	"runtime/debug"
	"sort"
	"strings"
	"sync"
	"testing"
	"time"

	"goa.design/goa/v3/eval"
	"goa.design/goa/v3/expr"
	"pgregory.net/rapid"

	dt "verif/internal/dsltree"
	"verif/internal/gen"
	"verif/internal/kf"
	m "verif/internal/model"
	"verif/internal/stats"
	"verif/internal/value"
)

func TestMain(m *testing.M) { stats.Main(m) }

// outcome of evaluating one program in this process.
type outcome struct {
	Accepted  bool
	Errors    []string
	Panic     string
	Stack     string
	InterpErr string // the program is not expressible as Go source (arity / static types)
	TimedOut  bool
	// Unlocated: a reported error that does not name its expression (see locate)
	Unlocated string
}

// reset puts goa's global evaluation state back to what a fresh design
// program starts with (expr/init.go).
func reset() {
	eval.Reset()
	expr.Root = new(expr.RootExpr)
	expr.GeneratedResultTypes = new(expr.ResultTypesRoot)
	_ = eval.Register(expr.Root)
	_ = eval.Register(expr.GeneratedResultTypes)
}

func evaluate(p *dt.Program) outcome {
	done := make(chan outcome, 1)
	go func() {
		var o outcome
		defer func() {
			if r := recover(); r != nil {
				if ie, ok := r.(*dt.InterpError); ok {
					o.InterpErr = ie.Error()
				} else {
					o.Panic = fmt.Sprint(r)
					o.Stack = string(debug.Stack())
				}
			}
			done <- o
		}()
		reset()
		env := dt.NewEnv()
		if err := p.Run(env); err != nil {
			o.InterpErr = err.Error()
			return
		}
		if eval.Context.Errors != nil {
			o.Errors = split(eval.Context.Errors)
			return
		}
		if err := eval.RunDSL(); err != nil {
			o.Unlocated = locate(err)
			o.Errors = split(err)
			return
		}
		o.Accepted = true
	}()
	select {
	case o := <-done:
		return o
	case <-time.After(20 * time.Second):
		return outcome{TimedOut: true}
	}
}

// locate checks the structured part of "errors that name the offending
// expression": validation-phase errors are an *eval.ValidationErrors whose
// Errors and Expressions run in parallel, and every entry must carry a non-nil
// error and an expression with a non-empty EvalName (that name is what
// ValidationErrors.Error prints in front of the message). Execution-phase
// errors are free text located by file and line of the user's design; there the
// only firm requirement is a non-empty message (checked by judge).
func locate(err error) string {
	var verr *eval.ValidationErrors
	if !errors.As(err, &verr) {
		return ""
	}
	if len(verr.Errors) != len(verr.Expressions) {
		return fmt.Sprintf("ValidationErrors has %d errors for %d expressions", len(verr.Errors), len(verr.Expressions))
	}
	for i, e := range verr.Errors {
		if e == nil {
			return fmt.Sprintf("validation error %d is nil", i)
		}
		x := verr.Expressions[i]
		if x == nil || reflect.ValueOf(x).Kind() == reflect.Ptr && reflect.ValueOf(x).IsNil() {
			return fmt.Sprintf("validation error %q names no expression", e.Error())
		}
		if strings.TrimSpace(x.EvalName()) == "" {
			return fmt.Sprintf("validation error %q names an expression (%T) with an empty name", e.Error(), x)
		}
	}
	return ""
}

func split(err error) []string {
	if me, ok := err.(eval.MultiError); ok {
		var out []string
		for _, e := range me {
			out = append(out, e.Error())
		}
		return out
	}
	return []string{err.Error()}
}

// panicSite returns the first goa frame of a stack (the signature of a panic).
func panicSite(stack string) string {
	lines := strings.Split(stack, "\n")
	for i, l := range lines {
		if strings.Contains(l, "goa.design/goa/v3/") && !strings.Contains(l, "/eval.") && i+1 < len(lines) {
			loc := strings.TrimSpace(lines[i+1])
			if j := strings.Index(loc, " +0x"); j > 0 {
				loc = loc[:j]
			}
			if j := strings.Index(loc, "/repo/"); j >= 0 {
				loc = loc[j+6:]
			}
			if j := strings.LastIndex(loc, "goa/v3/"); j >= 0 {
				loc = loc[j+7:]
			}
			fn := strings.TrimSpace(l)
			if j := strings.LastIndex(fn, "("); j > 0 {
				fn = fn[:j]
			}
			return fn[strings.LastIndex(fn, "/")+1:] + " " + loc
		}
	}
	return "unknown"
}

var (
	collectMu sync.Mutex
	collected = map[string]string{}
)

// known panics, keyed by finding: each is recognised by the panic site and
// message plus the shape of the program that is necessary to trigger it, so
// that another way to reach the same site is still reported.
var knownPanics = map[string]func(site, msg string, p *dt.Program) bool{
	// a result type that selects one of its own views at type level (View("x")
	// without DSL directly in ResultType/CollectionOf) is replaced by its
	// projection when finalized; a Result/Attribute that renders it with
	// another view passes validation and then panics in Finalize.
	"C12-type-level-view-then-other-view-panics": func(site, msg string, p *dt.Program) bool {
		return strings.Contains(site, "useExplicitView") && strings.Contains(msg, "unknown view") && hasTypeLevelView(p)
	},
}

func walkNodes(ns []*dt.Node, f func(n *dt.Node)) {
	for _, n := range ns {
		f(n)
		walkNodes(n.Body, f)
		for _, a := range n.Args {
			walkArg(a, f)
		}
	}
}

func walkArg(a dt.Arg, f func(n *dt.Node)) {
	if a.Call != nil {
		walkNodes([]*dt.Node{a.Call}, f)
	}
	walkNodes(a.Body, f)
	for _, e := range a.List {
		walkArg(e, f)
	}
}

func hasTypeLevelView(p *dt.Program) bool {
	found := false
	walkNodes(p.Nodes, func(n *dt.Node) {
		if n.Fn != "ResultType" && n.Fn != "CollectionOf" {
			return
		}
		bodies := [][]*dt.Node{n.Body}
		for _, a := range n.Args {
			if a.Kind == "fn" {
				bodies = append(bodies, a.Body)
			}
		}
		for _, b := range bodies {
			for _, c := range b {
				if c.Fn == "View" && !c.HasBody && len(c.Args) == 1 {
					found = true
				}
				// the same call inside Attributes(func(){ ... }) applies to the result type as well
				if c.Fn == "Attributes" {
					for _, cc := range c.Body {
						if cc.Fn == "View" && !cc.HasBody && len(cc.Args) == 1 {
							found = true
						}
					}
				}
			}
		}
	})
	return found
}

func classifyPanic(site, msg string, p *dt.Program) string {
	ids := make([]string, 0, len(knownPanics))
	for id := range knownPanics {
		ids = append(ids, id)
	}
	sort.Strings(ids)
	for _, id := range ids {
		if kf.Open(id) && knownPanics[id](site, msg, p) {
			return id
		}
	}
	return ""
}

func saveProgram(p *dt.Program, name string, extra map[string]string) string {
	dir := os.Getenv("VERIF_REPLAY_OUT")
	if dir == "" {
		dir = filepath.Join(os.TempDir(), "verif-replay")
	}
	dir = filepath.Join(dir, name)
	_ = os.MkdirAll(dir, 0o755)
	b, _ := json.MarshalIndent(p, "", " ")
	_ = os.WriteFile(filepath.Join(dir, "program.json"), b, 0o644)
	_ = os.WriteFile(filepath.Join(dir, "design.go"), []byte(p.Print("design")), 0o644)
	for k, v := range extra {
		_ = os.WriteFile(filepath.Join(dir, k), []byte(v), 0o644)
	}
	return dir
}

// judge applies the oracle to an outcome; it returns a violation message or "".
func judge(p *dt.Program, o outcome) string {
	switch {
	case o.TimedOut:
		return "evaluation did not terminate within 20s"
	case o.Panic != "":
		site := panicSite(o.Stack)
		if id := classifyPanic(site, o.Panic, p); id != "" {
			stats.Class("known-finding-hit:" + id)
			return ""
		}
		if os.Getenv("VERIF_C12_COLLECT") != "" {
			collectMu.Lock()
			if _, ok := collected[site]; !ok {
				collected[site] = o.Panic + "\n" + p.Print("design")
				fmt.Printf("COLLECTED %s: %s\n%s\n", site, o.Panic, p.Print("design"))
			}
			collectMu.Unlock()
			return ""
		}
		return fmt.Sprintf("evaluation panicked: %s at %s", o.Panic, site)
	case o.InterpErr != "":
		return ""
	case !o.Accepted && len(o.Errors) == 0:
		return "evaluation failed with an empty error list"
	case o.Unlocated != "":
		return "a reported error does not name the offending expression: " + o.Unlocated
	}
	for _, e := range o.Errors {
		if strings.TrimSpace(e) == "" {
			return "an error with an empty message was reported"
		}
	}
	return ""
}

// replayProgram re-evaluates the program saved in a replay directory.
func replayProgram(t *testing.T) {
	rd := os.Getenv("VERIF_REPLAY_DIR")
	b, err := os.ReadFile(filepath.Join(rd, "program.json"))
	if err != nil {
		t.Skip("not a program replay")
	}
	var p dt.Program
	if err := json.Unmarshal(b, &p); err != nil {
		t.Fatalf("INCONCLUSIVE: %v", err)
	}
	o := evaluate(&p)
	if msg := judge(&p, o); msg != "" {
		t.Fatalf("replayed program still fails: %s", msg)
	}
	if mustReject, _ := os.ReadFile(filepath.Join(rd, "must_reject.txt")); len(mustReject) > 0 && o.Accepted {
		t.Fatalf("replayed program is still accepted: %s", mustReject)
	}
}

// TestChaos: arbitrary call trees over the whole DSL.
func TestChaos(t *testing.T) {
	if os.Getenv("VERIF_REPLAY_DIR") != "" {
		replayProgram(t)
		return
	}
	var last *dt.Program
	var lastMsg string
	defer func() {
		if last != nil {
			dir := saveProgram(last, "chaos", map[string]string{"message.txt": lastMsg})
			fmt.Printf("C12 failing program saved: %s\n", dir)
		}
	}()
	rapid.Check(t, func(rt_ *rapid.T) {
		p := gen.Chaos().Draw(rt_, "program")
		o := evaluate(p)
		misplaced := 0
		for _, e := range o.Errors {
			if strings.Contains(e, "invalid use of") {
				misplaced++
			}
		}
		nt := misplaced >= 1 && len(p.Nodes) >= 2 && o.InterpErr == ""
		switch {
		case o.InterpErr != "":
			stats.Class("chaos:not-expressible")
		case o.Accepted:
			stats.Class("chaos:accepted")
		default:
			stats.Class("chaos:rejected")
		}
		pj, _ := json.Marshal(p)
		stats.CaseSample("chaos|"+string(pj), nt, map[string]any{"kind": "chaos", "source": firstLines(p.Print("design"), 14), "accepted": o.Accepted, "errors": len(o.Errors)})
		if msg := judge(p, o); msg != "" {
			last, lastMsg = p, msg
			rt_.Fatalf("%s\n%s", msg, p.Print("design"))
		}
	})
}

func validProgram(rt_ *rapid.T) (*m.Design, *dt.Program) {
	prof := rapid.SampledFrom([]gen.Profile{gen.Routes(), gen.Routes(), gen.Views(), gen.Security(), gen.Response(), gen.GRPCProfile(), gen.Streams()}).Draw(rt_, "profile")
	prof.Avoid = gen.OpenQuirks()
	var d *m.Design
	if prof.Name == "grpc" {
		d = gen.GRPCDesign(prof).Draw(rt_, "design")
	} else {
		d = gen.Design(prof).Draw(rt_, "design")
	}
	return d, d.Lower()
}

// TestNearValid: a valid generated design with 1-3 random edits.
func TestNearValid(t *testing.T) {
	if os.Getenv("VERIF_REPLAY_DIR") != "" {
		replayProgram(t)
		return
	}
	var last *dt.Program
	var lastMsg string
	defer func() {
		if last != nil {
			dir := saveProgram(last, "near-valid", map[string]string{"message.txt": lastMsg})
			fmt.Printf("C12 failing program saved: %s\n", dir)
		}
	}()
	rapid.Check(t, func(rt_ *rapid.T) {
		_, valid := validProgram(rt_)
		p, edits := gen.NearValid(rt_, valid)
		o := evaluate(p)
		switch {
		case o.InterpErr != "":
			stats.Class("near-valid:not-expressible")
		case o.Accepted:
			stats.Class("near-valid:accepted")
		default:
			stats.Class("near-valid:rejected")
		}
		pj, _ := json.Marshal(p)
		stats.CaseSample("near|"+string(pj), o.InterpErr == "" && len(edits) > 0, map[string]any{"kind": "near-valid", "edits": edits, "accepted": o.Accepted, "errors": firstN(o.Errors, 3)})
		if msg := judge(p, o); msg != "" {
			last, lastMsg = p, msg
			rt_.Fatalf("%s (edits %v)\n%s", msg, edits, firstLines(o.Stack, 30))
		}
	})
}

// dangle makes one reference of a valid design point to something that does
// not exist; it returns a description, or "" when the design offers no site.
func dangle(rt_ *rapid.T, d *m.Design) string {
	type site struct {
		desc  string
		apply func()
	}
	var sites []site
	for _, s := range d.Services {
		s := s
		for _, meth := range s.Methods {
			meth := meth
			if g := meth.GRPC; g != nil {
				if meth.Payload != nil && d.ObjectFields(meth.Payload) != nil {
					sites = append(sites, site{"gRPC metadata mapped to a missing payload attribute in " + meth.Name, func() {
						g.Metadata = append(append([]m.Mapping{}, g.Metadata...), m.Mapping{Attr: "no_such_attribute"})
					}})
				}
				if meth.Payload != nil && d.ObjectFields(meth.Payload) != nil {
					sites = append(sites, site{"gRPC request Message listing a missing payload attribute in " + meth.Name, func() {
						g.Message = append(append([]string{}, g.Message...), "no_such_attribute")
					}})
					sites = append(sites, site{"gRPC request Message listing only a missing payload attribute in " + meth.Name, func() {
						g.Message = []string{"no_such_attribute"}
					}})
				}
				if meth.Result != nil && d.ObjectFields(meth.Result) != nil {
					sites = append(sites, site{"gRPC response Message listing a missing result attribute in " + meth.Name, func() {
						g.RespMessage = append(append([]string{}, g.RespMessage...), "no_such_attribute")
					}})
				}
				if meth.Result != nil && d.ObjectFields(meth.Result) != nil {
					sites = append(sites, site{"gRPC response header mapped to a missing result attribute in " + meth.Name, func() {
						g.Headers = append(append([]m.Mapping{}, g.Headers...), m.Mapping{Attr: "no_such_attribute"})
					}})
					sites = append(sites, site{"gRPC response trailer mapped to a missing result attribute in " + meth.Name, func() {
						g.Trailers = append(append([]m.Mapping{}, g.Trailers...), m.Mapping{Attr: "no_such_attribute"})
					}})
				}
			}
			h := meth.HTTP
			if h == nil {
				continue
			}
			objPayload := meth.Payload != nil && d.ObjectFields(meth.Payload) != nil
			if objPayload {
				sites = append(sites, site{"query parameter mapped to a missing payload attribute in " + meth.Name, func() { h.Query = append(h.Query, m.Mapping{Attr: "no_such_attribute"}) }})
				sites = append(sites, site{"header mapped to a missing payload attribute in " + meth.Name, func() { h.Headers = append(h.Headers, m.Mapping{Attr: "no_such_attribute", Wire: "X-Nope"}) }})
				sites = append(sites, site{"cookie mapped to a missing payload attribute in " + meth.Name, func() { h.Cookies = append(h.Cookies, m.Mapping{Attr: "no_such_attribute", Wire: "nope"}) }})
				// the same with no other mapping of that family on the endpoint
				// (validation code paths that return early on an empty set)
				if !secured(d, s, meth) {
					sites = append(sites, site{"only-query parameter mapped to a missing payload attribute in " + meth.Name, func() {
						h.Query, h.Headers, h.Cookies = []m.Mapping{{Attr: "no_such_attribute"}}, nil, nil
					}})
					sites = append(sites, site{"only-header mapped to a missing payload attribute in " + meth.Name, func() {
						h.Query, h.Headers, h.Cookies = nil, []m.Mapping{{Attr: "no_such_attribute", Wire: "X-Nope"}}, nil
					}})
					sites = append(sites, site{"only-cookie mapped to a missing payload attribute in " + meth.Name, func() {
						h.Query, h.Headers, h.Cookies = nil, nil, []m.Mapping{{Attr: "no_such_attribute", Wire: "nope"}}
					}})
				}
				if h.Body == nil && (h.Routes[0].Verb == "POST" || h.Routes[0].Verb == "PUT" || h.Routes[0].Verb == "PATCH") {
					sites = append(sites, site{"Body naming a missing payload attribute in " + meth.Name, func() { h.Body = &m.Body{Mode: "attr", Attr: "no_such_attribute"} }})
				}
				sites = append(sites, site{"path parameter without payload attribute in " + meth.Name, func() {
					for i := range h.Routes {
						h.Routes[i].Path += "/{no_such_attribute}"
					}
				}})
			}
			if meth.Result != nil && d.ObjectFields(meth.Result) != nil {
				sites = append(sites, site{"response header mapped to a missing result attribute in " + meth.Name, func() {
					if len(h.Responses) == 0 {
						h.Responses = []*m.Response{{Status: 200}}
					}
					r := *h.Responses[0]
					r.Headers = append(append([]m.Mapping{}, r.Headers...), m.Mapping{Attr: "no_such_attribute", Wire: "X-Nope"})
					h.Responses[0] = &r
				}})
				sites = append(sites, site{"response cookie mapped to a missing result attribute in " + meth.Name, func() {
					if len(h.Responses) == 0 {
						h.Responses = []*m.Response{{Status: 200}}
					}
					r := *h.Responses[0]
					r.Cookies = append(append([]m.Mapping{}, r.Cookies...), m.Mapping{Attr: "no_such_attribute", Wire: "nope"})
					h.Responses[0] = &r
				}})
				sites = append(sites, site{"only-response cookie mapped to a missing result attribute in " + meth.Name, func() {
					h.Responses = []*m.Response{{Status: 200, Cookies: []m.Mapping{{Attr: "no_such_attribute", Wire: "nope"}}}}
				}})
				sites = append(sites, site{"only-response header mapped to a missing result attribute in " + meth.Name, func() {
					h.Responses = []*m.Response{{Status: 200, Headers: []m.Mapping{{Attr: "no_such_attribute", Wire: "X-Nope"}}}}
				}})
				sites = append(sites, site{"response Body naming a missing result attribute in " + meth.Name, func() {
					h.Responses = []*m.Response{{Status: 200, Body: &m.Body{Mode: "attr", Attr: "no_such_attribute"}}}
				}})
				sites = append(sites, site{"response Tag naming a missing result attribute in " + meth.Name, func() {
					tagged := &m.Response{Status: 299, TagName: "no_such_attribute", TagValue: "x"}
					if len(h.Responses) == 0 {
						h.Responses = []*m.Response{{Status: 200}}
					}
					h.Responses = append([]*m.Response{tagged}, h.Responses...)
				}})
			}
			// an error whose type is not an object, with a response body naming an
			// attribute: one the method result happens to have (the error type
			// has none), or one nobody has
			for _, et := range []m.Kind{m.String, m.Array} {
				et := et
				attr, whose := "no_such_attribute", "a missing attribute"
				if fs := d.ObjectFields(meth.Result); meth.Result != nil && len(fs) > 0 {
					attr, whose = fs[0].Name, "an attribute of the method result"
				}
				sites = append(sites, site{"error response Body naming " + whose + " for an error of type " + string(et) + " in " + meth.Name, func() {
					ta := m.Prim(m.String)
					if et == m.Array {
						ta = &m.Attr{Type: &m.Type{Kind: m.Array, Elem: m.Prim(m.String)}}
					}
					meth.Errors = append(append([]*m.ErrorDef{}, meth.Errors...), &m.ErrorDef{Name: "dangling_error", Type: ta})
					h.ErrorResp = append(append([]*m.ErrorResponse{}, h.ErrorResp...), &m.ErrorResponse{Name: "dangling_error", Status: 418, Level: "method", BodyAttr: attr})
				}})
			}
			sites = append(sites, site{"error response naming an undeclared error in " + meth.Name, func() {
				h.ErrorResp = append(h.ErrorResp, &m.ErrorResponse{Name: "no_such_error", Status: 418, Level: "method"})
			}})
			if meth.Result != nil && meth.Result.Type.Kind == m.User {
				if ut := d.TypeByName(meth.Result.Type.User); ut != nil && ut.Result && ut.CollectionOf == "" && meth.ResultView == "" {
					sites = append(sites, site{"Result fixing a view the result type does not define in " + meth.Name, func() { meth.ResultView = "no_such_view" }})
				}
			}
		}
	}
	reach := reachable(d)
	for _, ut := range d.Types {
		ut := ut
		if !reach[ut.Name] {
			// goa does not validate types no method uses
			continue
		}
		if ut.Result && ut.CollectionOf == "" && len(ut.Views) > 0 {
			sites = append(sites, site{"view listing a missing attribute in " + ut.Name, func() {
				v := *ut.Views[len(ut.Views)-1]
				v.Fields = append(append([]m.ViewField{}, v.Fields...), m.ViewField{Name: "no_such_attribute"})
				ut.Views[len(ut.Views)-1] = &v
			}})
		}
		if ut.Result && ut.CollectionOf == "" && len(ut.Views) > 0 && ut.Attr != nil && ut.Attr.Type.Kind == m.Object {
			// a new attribute that is an array of result types (inline, or through a
			// named array type), listed by the views with a view its elements do not define
			for _, named := range []bool{false, true} {
				named := named
				what := "inline array"
				if named {
					what = "named array type"
				}
				sites = append(sites, site{"view attribute (" + what + " of result types) rendered with a view the element type does not define in " + ut.Name, func() {
					elem := m.UserRef(ut.Name)
					arr := &m.Attr{Type: &m.Type{Kind: m.Array, Elem: elem}}
					a := arr
					if named {
						d.Types = append(d.Types, &m.UserType{Name: "DanglingList", Var: "vdangling", Attr: arr})
						a = m.UserRef("DanglingList")
					}
					obj := *ut.Attr.Type
					obj.Fields = append(append([]*m.Field{}, obj.Fields...), &m.Field{Name: "dangling_items", Attr: a, Tag: 9000})
					na := *ut.Attr
					na.Type = &obj
					ut.Attr = &na
					for i, v := range ut.Views {
						nv := *v
						nv.Fields = append(append([]m.ViewField{}, v.Fields...), m.ViewField{Name: "dangling_items", View: "no_such_view"})
						ut.Views[i] = &nv
					}
				}})
			}
		}
		if ut.Attr != nil && ut.Attr.Type.Kind == m.Object && ut.CollectionOf == "" {
			for _, f := range ut.Attr.Type.Fields {
				f := f
				if f.Attr == nil || f.Attr.Type.Kind != m.User || f.Attr.View != "" {
					continue
				}
				if ft := d.TypeByName(f.Attr.Type.User); ft != nil && ft.Result && ft.CollectionOf == "" {
					sites = append(sites, site{"attribute rendered with a view its result type does not define in " + ut.Name, func() {
						a := *f.Attr
						a.View = "no_such_view"
						f.Attr = &a
					}})
				}
			}
		}
	}
	// security requirements
	addReq := func(where string, reqs *[]m.Requirement) {
		if len(*reqs) == 0 {
			return
		}
		sites = append(sites, site{"security requirement naming an undefined scheme at " + where, func() {
			r := (*reqs)[0]
			r.Schemes = append(append([]string{}, r.Schemes...), "no_such_scheme")
			(*reqs)[0] = r
		}})
	}
	addReq("the API", &d.API.Security)
	for _, s := range d.Services {
		addReq("service "+s.Name, &s.Security)
		for _, meth := range s.Methods {
			meth := meth
			addReq("method "+meth.Name, &meth.Security)
			if len(meth.Security) > 0 && !meth.NoSecurity {
				sites = append(sites, site{"security requirement with a scope no scheme defines at method " + meth.Name, func() {
					r := meth.Security[0]
					r.Scopes = append(append([]string{}, r.Scopes...), "no:such:scope")
					meth.Security[0] = r
				}})
				if len(meth.Creds) > 0 {
					sites = append(sites, site{"security requirement whose credential attribute the payload does not declare in method " + meth.Name, func() {
						meth.Creds = meth.Creds[1:]
					}})
				}
			}
		}
		s := s
		sites = append(sites, site{"service-level error response naming an undeclared error in service " + s.Name, func() {
			s.ErrorResp = append(s.ErrorResp, &m.ErrorResponse{Name: "no_such_error", Status: 418, Level: "service"})
		}})
	}
	if len(sites) == 0 {
		return ""
	}
	s := sites[rapid.IntRange(0, len(sites)-1).Draw(rt_, "site")]
	s.apply()
	return s.desc
}

// TestDangling: a valid design in which one mapping, view or error response
// names something that does not exist must be rejected.
func TestDangling(t *testing.T) {
	if os.Getenv("VERIF_REPLAY_DIR") != "" {
		replayProgram(t)
		return
	}
	var last *dt.Program
	var lastMsg string
	defer func() {
		if last != nil {
			dir := saveProgram(last, "dangling", map[string]string{"message.txt": lastMsg, "must_reject.txt": lastMsg})
			fmt.Printf("C12 failing program saved: %s\n", dir)
		}
	}()
	rapid.Check(t, func(rt_ *rapid.T) {
		d, _ := validProgram(rt_)
		desc := dangle(rt_, d)
		if desc == "" {
			rt_.Skip("no site")
		}
		p := d.Lower()
		o := evaluate(p)
		pj, _ := json.Marshal(p)
		stats.CaseSample("dangling|"+desc+"|"+string(pj), true, map[string]any{"kind": "dangling", "what": desc, "accepted": o.Accepted, "errors": firstN(o.Errors, 2)})
		stats.Class("dangling:" + strings.SplitN(desc, " in ", 2)[0])
		msg := judge(p, o)
		if msg == "" && o.Accepted {
			if id := knownAccepted(desc); id != "" {
				stats.Class("known-finding-hit:" + id)
				return
			}
			msg = "the design was accepted although it contains a " + desc
		}
		if msg != "" {
			last, lastMsg = p, msg
			rt_.Fatalf("%s\n%s", msg, p.Print("design"))
		}
	})
}

// secured reports whether the method carries credentials (their attributes
// must stay mapped, so the "only-" variants leave such methods alone).
func secured(d *m.Design, s *m.Service, meth *m.Method) bool {
	return len(meth.Creds) > 0 || len(meth.Security) > 0 || len(s.Security) > 0 || len(d.API.Security) > 0
}

// knownAccepted maps a dangling-reference class to an open finding.
func knownAccepted(desc string) string {
	for prefix, id := range map[string]string{} {
		if strings.HasPrefix(desc, prefix) && kf.Open(id) {
			return id
		}
	}
	return ""
}

// reachable returns the user types reachable from a method payload, result or error.
func reachable(d *m.Design) map[string]bool {
	seen := map[string]bool{}
	var walk func(a *m.Attr)
	walk = func(a *m.Attr) {
		if a == nil || a.Type == nil {
			return
		}
		t := a.Type
		switch t.Kind {
		case m.User:
			if seen[t.User] {
				return
			}
			seen[t.User] = true
			if ut := d.TypeByName(t.User); ut != nil {
				walk(ut.Attr)
				if ut.CollectionOf != "" {
					walk(m.UserRef(ut.CollectionOf))
				}
				if ut.Extend != "" {
					walk(m.UserRef(ut.Extend))
				}
			}
		case m.Array:
			walk(t.Elem)
		case m.Map:
			walk(t.Key)
			walk(t.Val)
		default:
			for _, f := range t.Fields {
				walk(f.Attr)
			}
		}
	}
	for _, s := range d.Services {
		for _, meth := range s.Methods {
			walk(meth.Payload)
			walk(meth.Result)
		}
	}
	return seen
}

func firstN(s []string, n int) []string {
	if len(s) > n {
		return s[:n]
	}
	return s
}

func firstLines(s string, n int) string {
	ls := strings.Split(s, "\n")
	if len(ls) > n {
		ls = ls[:n]
	}
	return strings.Join(ls, "\n")
}

var _ = value.Nil
