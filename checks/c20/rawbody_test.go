package c20

import (
	"bytes"
	"fmt"
	"sort"
	"testing"

	"pgregory.net/rapid"

	"verif/harness"
	"verif/internal/gen"
	"verif/internal/pipeline"
	"verif/internal/rt"
	"verif/internal/stats"
	"verif/internal/value"
)

// TestConcurrentRawBodies: methods that stream the HTTP request / response body
// themselves (SkipRequestBodyEncodeDecode / SkipResponseBodyEncodeDecode) under
// concurrent requests, through the generated client and server built with the
// race detector: every request carries a payload and a body that name the
// request, every service method invocation and every caller must see exactly
// its own payload, its own request body and its own response body.
func TestConcurrentRawBodies(t *testing.T) {
	if rt.ReplayDir() != "" {
		t.Skip("replay of another test's case")
	}
	rounds := rt.EnvInt("VERIF_CHECKS", 6)
	seed := rt.EnvInt("VERIF_SEED", 1)
	sess, err := pipeline.NewSession("c20raw")
	if err != nil {
		t.Fatalf("INCONCLUSIVE: %v", err)
	}
	defer sess.Close()
	out := sess.GenerateAndCompile(gen.RawBodyMatrix(), false)
	if !out.Accepted || out.Failure != "" {
		t.Fatalf("INCONCLUSIVE: raw body design: %s", out.Describe())
	}
	bin, diag, err := sess.BuildHarness(out.Run, true)
	if err != nil {
		t.Fatalf("INCONCLUSIVE: harness: %v %s", err, diag)
	}
	for r := 0; r < rounds; r++ {
		// a fresh server process per round: state that is shared by mistake
		// is initialised by the first requests
		h, err := pipeline.StartHarness(bin)
		if err != nil {
			t.Fatalf("INCONCLUSIVE: %v", err)
		}
		cases := rapid.Custom(func(rt_ *rapid.T) []harness.Case {
			n := rapid.SampledFrom([]int{8, 24, 48}).Draw(rt_, "requests")
			var out []harness.Case
			for i := 0; i < n; i++ {
				method := rapid.SampledFrom([]string{"upload", "upload", "pipe", "pipe", "download", "plain"}).Draw(rt_, "method")
				id := fmt.Sprintf("r%d-%d-%s", r, i, rapid.StringMatching(`[a-z]{1,6}`).Draw(rt_, "id"))
				size := rapid.SampledFrom([]int{0, 1, 100, 5000, 70000}).Draw(rt_, "size")
				body := bytes.Repeat([]byte(id+"|"), size/(len(id)+1)+1)[:size]
				p := value.Object(value.Field{N: "id", V: value.Str(id)})
				c := harness.Case{Op: "call", Svc: "rawbodies", Method: method, HasPayload: true, Payload: p}
				switch method {
				case "upload":
					p = p.Set("tag", value.Str("tag-"+id))
					c.Payload, c.ReqBody = p, body
					c.Stub = harness.StubSpec{HasResult: true, Result: value.Object(value.Field{N: "size", V: value.Int(int64(size))}, value.Field{N: "echo", V: value.Str(id)})}
				case "pipe":
					c.ReqBody = body
					c.Stub = harness.StubSpec{HasResult: true, Result: value.Object(value.Field{N: "length", V: value.Int(int64(size))}), RespBody: []byte("resp-" + id)}
				case "download":
					c.Stub = harness.StubSpec{HasResult: true, Result: value.Object(value.Field{N: "length", V: value.Int(int64(size))}, value.Field{N: "kind", V: value.Str(id)}), RespBody: body}
				default:
					c.Stub = harness.StubSpec{HasResult: true, Result: value.Object(value.Field{N: "ok", V: value.Bool(true)})}
				}
				out = append(out, c)
			}
			return out
		}).Example(seed*7919 + r)
		for _, mode := range []struct {
			workers int
			mem     bool
		}{{64, true}, {8, true}, {16, false}} {
			o, err := h.Do(&harness.Case{Op: "burst", Workers: mode.workers, InMemory: mode.mem, Burst: cases})
			if err != nil || o.Err != "" || len(o.Sub) != len(cases) {
				h.Close()
				t.Fatalf("INCONCLUSIVE: burst: %v %s", err, o.Err)
			}
			for i, so := range o.Sub {
				if msg := checkRaw(&cases[i], so); msg != "" {
					h.Close()
					t.Fatalf("request %d of %d (%s %s) served with %d workers: %s", i, len(cases), cases[i].Method, cases[i].Payload.Canon(), mode.workers, msg)
				}
			}
			stats.Class(fmt.Sprintf("rawburst:workers=%d,in-memory=%v", mode.workers, mode.mem))
		}
		races := raceReports(h.Stderr())
		h.Close()
		if len(races) > 0 {
			var ks []string
			for k := range races {
				ks = append(ks, k)
			}
			sort.Strings(ks)
			t.Fatalf("the race detector reported %d distinct data race(s) while streamed-body requests were in flight; first:\n%s", len(races), firstLines(races[ks[0]], 40))
		}
		stats.Case(fmt.Sprintf("rawburst|%d|%d", r, len(cases)), true)
	}
}

func checkRaw(c *harness.Case, o *harness.Obs) string {
	if o.Err != "" || o.Panic != "" || o.ServerPanic != "" {
		return "harness/panic: " + o.Err + firstLines(o.Panic, 6) + firstLines(o.ServerPanic, 6)
	}
	if o.StubCalls != 1 {
		ce := ""
		if o.ClientErr != nil {
			ce = o.ClientErr.Text
		}
		return fmt.Sprintf("the method ran %d times (client error %q)", o.StubCalls, ce)
	}
	if gen.Norm(o.Received.Canon()) != gen.Norm(c.Payload.Canon()) {
		return fmt.Sprintf("the method received payload %s, the caller sent %s", o.Received.Canon(), c.Payload.Canon())
	}
	if c.Method == "upload" || c.Method == "pipe" {
		if !o.HadReqBody || o.ReceivedBodyErr != "" || !bytes.Equal(o.ReceivedBody, c.ReqBody) {
			return fmt.Sprintf("the method read %d request body bytes (err %q) starting %q, the caller streamed %d starting %q", len(o.ReceivedBody), o.ReceivedBodyErr, head(o.ReceivedBody), len(c.ReqBody), head(c.ReqBody))
		}
	}
	if c.Method == "download" || c.Method == "pipe" {
		if !o.HadRespBody || o.ResultBodyErr != "" || !bytes.Equal(o.ResultBody, c.Stub.RespBody) {
			return fmt.Sprintf("the caller read %d response body bytes (err %q) starting %q, the method streamed %d starting %q", len(o.ResultBody), o.ResultBodyErr, head(o.ResultBody), len(c.Stub.RespBody), head(c.Stub.RespBody))
		}
	}
	if o.ClientErr != nil {
		return "the client returned an error: " + o.ClientErr.Text
	}
	if gen.Norm(o.Result.Canon()) != gen.Norm(c.Stub.Result.Canon()) {
		return fmt.Sprintf("the caller received result %s, the method returned %s", o.Result.Canon(), c.Stub.Result.Canon())
	}
	return ""
}

func head(b []byte) string {
	if len(b) > 24 {
		b = b[:24]
	}
	return string(b)
}
