package c20

import (
	"encoding/json"
	"fmt"
	"os"
	"regexp"
	"sort"
	"strings"
	"sync"
	"testing"

	"pgregory.net/rapid"

	"verif/harness"
	"verif/internal/gen"
	m "verif/internal/model"
	"verif/internal/oracle"
	"verif/internal/pipeline"
	"verif/internal/rt"
	"verif/internal/stats"
	"verif/internal/value"
)

// burstCase is one request of a burst, with the kind it was generated as.
type burstCase struct {
	Kind string       `json:"kind"` // ok, invalid, error-plain, error-declared, error-undeclared, denied
	Case harness.Case `json:"case"`
}

type replayRec struct {
	Cases   []burstCase `json:"cases"`
	Workers int         `json:"workers"`
	Message string      `json:"message"`
}

func methodsOf(d *m.Design) (out []struct {
	S *m.Service
	M *m.Method
}) {
	for _, s := range d.Services {
		for _, meth := range s.Methods {
			if meth.HTTP != nil {
				out = append(out, struct {
					S *m.Service
					M *m.Method
				}{s, meth})
			}
		}
	}
	return
}

// genCases draws the cases of one burst.
func genCases(t *rapid.T, d *m.Design, n int) []burstCase {
	ms := methodsOf(d)
	out := make([]burstCase, 0, n)
	for i := 0; i < n; i++ {
		sm := ms[rapid.IntRange(0, len(ms)-1).Draw(t, "method")]
		s, meth := sm.S, sm.M
		c := harness.Case{Op: "call", Svc: s.Name, Method: meth.Name}
		if meth.Payload != nil {
			c.HasPayload = true
			c.Payload = gen.PayloadGen(d, meth).Draw(t, "payload")
		}
		// every scheme accepts unless the case is a denial
		accept := map[string]bool{}
		for _, sch := range d.Schemes {
			accept[sch.Name] = true
		}
		c.Auth = &harness.AuthSpec{Accept: accept}
		kinds := []string{"ok", "ok", "ok", "error-plain", "error-undeclared"}
		if meth.Payload != nil {
			kinds = append(kinds, "invalid", "invalid")
		}
		var declared []*m.ErrorDef
		for _, e := range append(append([]*m.ErrorDef{}, meth.Errors...), s.Errors...) {
			if e.Type == nil {
				declared = append(declared, e)
			}
		}
		if len(declared) > 0 {
			kinds = append(kinds, "error-declared", "error-declared")
		}
		if len(gen.EffectiveSecurity(d, s, meth)) > 0 {
			kinds = append(kinds, "denied")
		}
		kind := rapid.SampledFrom(kinds).Draw(t, "kind")
		msg := fmt.Sprintf("m%d-%s", i, rapid.StringMatching(`[a-z]{0,6}`).Draw(t, "msg"))
		setResult := func() {
			if meth.Result != nil {
				c.Stub.HasResult = true
				c.Stub.Result = gen.ResultGen(d, meth).Draw(t, "result")
				if views := oracle.ResultViews(d, meth.Result); len(views) > 0 {
					c.Stub.View = "default"
					if meth.ResultView != "" {
						c.Stub.View = meth.ResultView
					} else {
						c.Stub.View = rapid.SampledFrom(views).Draw(t, "view")
					}
				}
			}
		}
		switch kind {
		case "ok":
			setResult()
		case "invalid":
			where := gen.WhereOf(d, meth)
			mut, _, ok := gen.Mutate(t, d, meth.Payload, c.Payload, func(name string) gen.Loc { return gen.LocFor(where[name]) })
			if ok {
				c.Payload = mut
			} else {
				kind = "ok"
			}
			setResult()
		case "error-plain":
			c.Stub.Error = &harness.ErrorSpec{Kind: "plain", Message: msg}
		case "error-undeclared":
			c.Stub.Error = &harness.ErrorSpec{Kind: "service", Name: "undeclared", ID: "fixedid1", Message: msg, Fault: rapid.Bool().Draw(t, "fault")}
		case "error-declared":
			e := declared[rapid.IntRange(0, len(declared)-1).Draw(t, "which")]
			c.Stub.Error = &harness.ErrorSpec{Kind: "service", Name: e.Name, ID: "fixedid2", Message: msg, Temporary: e.Temporary, Timeout: e.Timeout, Fault: e.Fault}
		case "denied":
			for k := range accept {
				accept[k] = false
			}
			setResult()
		}
		out = append(out, burstCase{Kind: kind, Case: c})
	}
	return out
}

// reID matches the random identifier goa gives to errors, at any level of JSON string escaping.
var reID = regexp.MustCompile(`(\\*"id\\*":\\*")[A-Za-z0-9_-]*(\\*")`)

// digest reduces an observation to what is a function of the case alone.
func digest(o *harness.Obs) string {
	if o == nil {
		return "<nil>"
	}
	type d struct {
		Err        string
		Panic      bool
		Stub       int
		Recv       string
		HadPayload bool
		Status     int
		Body       string
		Header     []string
		WH         int
		ErrHandler []string
		HasResult  bool
		Result     string
		ClientErr  string
		Auth       string
		SrvPanic   bool
	}
	x := d{Err: o.Err, Panic: o.Panic != "", Stub: o.StubCalls, Recv: o.Received.Canon(), HadPayload: o.HadPayload, WH: o.WriteHeaders, HasResult: o.HasResult, Result: o.Result.Canon(), SrvPanic: o.ServerPanic != ""}
	if o.Response != nil {
		x.Status = o.Response.Status
		x.Body = string(o.Response.Body)
		for k, vs := range o.Response.Header {
			if k == "Date" || k == "Content-Length" {
				continue
			}
			x.Header = append(x.Header, k+"="+strings.Join(vs, ","))
		}
		sort.Strings(x.Header)
	}
	for _, e := range o.ErrHandler {
		x.ErrHandler = append(x.ErrHandler, e)
	}
	if o.ClientErr != nil {
		ce := *o.ClientErr
		b, _ := json.Marshal(ce)
		x.ClientErr = string(b)
	}
	if len(o.AuthCalls) > 0 {
		b, _ := json.Marshal(o.AuthCalls)
		x.Auth = string(b)
	}
	b, _ := json.Marshal(x)
	return reID.ReplaceAllString(string(b), "${1}X${2}")
}

func burst(h *pipeline.Harness, cases []burstCase, workers int, inMemory bool) ([]*harness.Obs, error) {
	c := &harness.Case{Op: "burst", Workers: workers, InMemory: inMemory}
	for _, bc := range cases {
		c.Burst = append(c.Burst, bc.Case)
	}
	o, err := h.Do(c)
	if err != nil {
		return nil, err
	}
	if o.Err != "" {
		return nil, fmt.Errorf("%s", o.Err)
	}
	if len(o.Sub) != len(cases) {
		return nil, fmt.Errorf("burst returned %d observations for %d cases", len(o.Sub), len(cases))
	}
	return o.Sub, nil
}

// raceReports extracts the data race reports from the harness stderr, keyed
// by the first two goa/generated frames.
func raceReports(stderr string) map[string]string {
	out := map[string]string{}
	for _, blk := range strings.Split(stderr, "==================") {
		if !strings.Contains(blk, "WARNING: DATA RACE") {
			continue
		}
		var frames []string
		for _, l := range strings.Split(blk, "\n") {
			l = strings.TrimSpace(l)
			if strings.HasSuffix(l, "()") && !strings.HasPrefix(l, "runtime.") && !strings.HasPrefix(l, "net/http.") && !strings.HasPrefix(l, "testing.") {
				frames = append(frames, l)
				if len(frames) == 2 {
					break
				}
			}
		}
		key := strings.Join(frames, " <- ")
		if _, ok := out[key]; !ok {
			out[key] = strings.TrimSpace(blk)
		}
	}
	return out
}

func concurrentCampaign(t *testing.T, prof gen.Profile) {
	n := rt.EnvInt("VERIF_CHECKS", 4)
	seed := rt.EnvInt("VERIF_SEED", 1)
	sess, built := rt.Prepare(t, "c20", rt.Options{Profile: prof, N: n, Seed: seed, Race: true})
	defer sess.Close()
	defer rt.CloseAll(built)
	if len(built) == 0 {
		t.Fatalf("INCONCLUSIVE: no design could be built")
	}
	rounds, size := 3, 48
	if rt.Tier() == "thorough" {
		rounds, size = 10, 96
	}
	var replay replayRec
	isReplay := rt.LoadReplayCase(&replay)
	var wg sync.WaitGroup
	var mu sync.Mutex
	failures := 0
	fail := func(b *rt.Built, rec *replayRec) {
		mu.Lock()
		defer mu.Unlock()
		failures++
		dir := rt.SaveReplay(b, b.Run.Name, rec)
		fmt.Printf("C20 failing burst saved: %s\n  %s\n", dir, rec.Message)
	}
	for bi, b := range built {
		wg.Add(1)
		go func(bi int, b *rt.Built) {
			defer wg.Done()
			d := b.Design
			if len(methodsOf(d)) == 0 {
				return
			}
			for r := 0; r < rounds; r++ {
				var cases []burstCase
				if isReplay {
					cases = replay.Cases
				} else {
					cases = rapid.Custom(func(t *rapid.T) []burstCase { return genCases(t, d, size) }).Example(seed*7919 + bi*131 + r)
				}
				// a fresh server process per round: the very first requests a handler ever
				// serves arrive together (lazily initialised per-handler state is only
				// written then)
				h, err := pipeline.StartHarness(b.Run.Dir + "/harness.bin")
				if err != nil {
					t.Errorf("INCONCLUSIVE: %s: harness start: %v", b.Run.Name, err)
					return
				}
				first, err := burst(h, cases, 64, true)
				if err != nil {
					h.Close()
					t.Errorf("INCONCLUSIVE: %s: first concurrent run: %v", b.Run.Name, err)
					return
				}
				seq1, err := burst(h, cases, 1, false)
				if err != nil {
					h.Close()
					t.Errorf("INCONCLUSIVE: %s: sequential run: %v", b.Run.Name, err)
					return
				}
				seq2, err := burst(h, cases, 1, true)
				if err != nil {
					h.Close()
					t.Errorf("INCONCLUSIVE: %s: sequential run: %v", b.Run.Name, err)
					return
				}
				stable := make([]bool, len(cases))
				want := make([]string, len(cases))
				kinds := map[string]bool{}
				for i := range cases {
					want[i] = digest(seq1[i])
					stable[i] = want[i] == digest(seq2[i])
					if !stable[i] {
						stats.Class("unstable-sequential-baseline")
						if os.Getenv("VERIF_C20_DEBUG") != "" {
							fmt.Printf("UNSTABLE %s\n   1: %s\n   2: %s\n", cases[i].Kind, want[i], digest(seq2[i]))
						}
					}
					kinds[cases[i].Kind] = true
				}
				type mode struct {
					workers int
					mem     bool
				}
				// over the loopback listener (the whole net/http server path) and handed to the
				// handler in memory, where the race detector sees unsynchronised accesses of
				// different requests (see harness.Case.InMemory)
				ws := []mode{{0, true}, {2, false}, {8, true}, {64, true}, {32, false}} // {0,true}: the burst that hit the fresh server
				if isReplay && replay.Workers > 0 {
					ws = []mode{{replay.Workers, true}, {replay.Workers, false}}
				}
				for _, wm := range ws {
					w := wm.workers
					var con []*harness.Obs
					if wm.workers == 0 {
						con, w = first, 64
					} else {
						con, err = burst(h, cases, w, wm.mem)
					}
					if err != nil {
						h.Close()
						t.Errorf("INCONCLUSIVE: %s: concurrent run: %v", b.Run.Name, err)
						return
					}
					for i := range cases {
						if !stable[i] {
							continue
						}
						if got := digest(con[i]); got != want[i] {
							h.Close()
							fail(b, &replayRec{Cases: cases, Workers: w, Message: fmt.Sprintf("case %d (%s %s.%s) run with %d workers among %d requests differs from its sequential run:\n  concurrent: %s\n  sequential: %s", i, cases[i].Kind, cases[i].Case.Svc, cases[i].Case.Method, w, len(cases), got, want[i])})
							return
						}
					}
					stats.Class(fmt.Sprintf("burst:workers=%d,in-memory=%v", w, wm.mem))
				}
				for _, bc := range cases {
					stats.Class("case:" + bc.Kind)
				}
				cj, _ := json.Marshal(cases)
				stats.CaseSample(b.Run.Name+"|"+string(cj), len(kinds) >= 3, map[string]any{"design": b.Run.Name, "requests": len(cases), "kinds": keys(kinds), "workers": []int{2, 8, 64, 32}})
				if os.Getenv("VERIF_C20_DEBUG") != "" {
					fmt.Printf("STDERR %s round %d: %d bytes\n%s\n", b.Run.Name, r, len(h.Stderr()), firstLines(h.Stderr(), 12))
				}
				if races := raceReports(h.Stderr()); len(races) > 0 {
					var ks []string
					for k := range races {
						ks = append(ks, k)
					}
					sort.Strings(ks)
					h.Close()
					fail(b, &replayRec{Cases: cases, Workers: 64, Message: fmt.Sprintf("the race detector reported %d distinct data race(s) while %d requests were in flight; first:\n%s", len(races), len(cases), firstLines(races[ks[0]], 40))})
					return
				}
				h.Close()
				if isReplay {
					break
				}
			}
		}(bi, b)
	}
	wg.Wait()
	if failures > 0 {
		t.Fatalf("%d design(s) violate C20", failures)
	}
}

func keys(mp map[string]bool) []string {
	var out []string
	for k := range mp {
		out = append(out, k)
	}
	sort.Strings(out)
	return out
}

func firstLines(s string, n int) string {
	ls := strings.Split(s, "\n")
	if len(ls) > n {
		ls = ls[:n]
	}
	return strings.Join(ls, "\n")
}

// One campaign per profile.
func TestConcurrentErrors(t *testing.T)   { concurrentCampaign(t, gen.Errors()) }
func TestConcurrentRoutes(t *testing.T)   { concurrentCampaign(t, gen.Routes()) }
func TestConcurrentViews(t *testing.T)    { concurrentCampaign(t, gen.Views()) }
func TestConcurrentSecurity(t *testing.T) { concurrentCampaign(t, gen.Security()) }

var _ = value.Nil
var _ = os.Getenv
