package c20

import (
	"context"
	"fmt"
	"sync/atomic"
	"testing"
	"time"

	grpcmw "goa.design/goa/v3/grpc/middleware"
	"google.golang.org/grpc"
	"google.golang.org/grpc/codes"
	"google.golang.org/grpc/metadata"
	"google.golang.org/grpc/status"
	"pgregory.net/rapid"

	"verif/internal/stats"
)

type fakeStream struct{ ctx context.Context }

func (f fakeStream) SetHeader(metadata.MD) error  { return nil }
func (f fakeStream) SendHeader(metadata.MD) error { return nil }
func (f fakeStream) SetTrailer(metadata.MD)       {}
func (f fakeStream) Context() context.Context     { return f.ctx }
func (f fakeStream) SendMsg(any) error            { return nil }
func (f fakeStream) RecvMsg(any) error            { return nil }

// TestStreamCancelerConcurrent: the gRPC StreamCanceler interceptor with many
// streams in flight (some finishing on their own, some waiting for their
// context) while the server context is cancelled: no data race, each handler
// receives its own stream's context values, and once cancellation has been
// observed new streams are refused with Unavailable. Whether a stream that
// arrives at the very moment of the cancellation is refused, cancelled or
// neither depends on the schedule (the interceptor checks its flag before it
// registers the stream); that is outside this property and only counted.
func TestStreamCancelerConcurrent(t *testing.T) {
	rapid.Check(t, func(rt *rapid.T) {
		n := rapid.SampledFrom([]int{2, 8, 32, 64}).Draw(rt, "streams")
		waits := make([]bool, n)
		for i := range waits {
			waits[i] = rapid.Bool().Draw(rt, "waits")
		}
		cancelAfter := rapid.IntRange(0, n).Draw(rt, "cancelAfterStarted")
		ctx, cancel := context.WithCancel(context.Background())
		defer cancel()
		ic := grpcmw.StreamCanceler(ctx)
		type key struct{}
		var started int32
		problems := make([]string, n)
		refused := make([]bool, n)
		release := make(chan struct{})
		var sawCancel, released int32
		go func() {
			// waiting streams are let go shortly after the cancellation at the latest
			<-ctx.Done()
			time.Sleep(20 * time.Millisecond)
			close(release)
		}()
		if cancelAfter == 0 {
			cancel()
		}
		parallel(n, func(i int) {
			ss := fakeStream{ctx: context.WithValue(context.Background(), key{}, i)}
			err := ic(nil, ss, &grpc.StreamServerInfo{FullMethod: "/svc/m"}, func(srv any, s grpc.ServerStream) error {
				if got, _ := s.Context().Value(key{}).(int); got != i {
					problems[i] = fmt.Sprintf("handler of stream %d received the context of stream %d", i, got)
				}
				if int(atomic.AddInt32(&started, 1)) == cancelAfter {
					cancel()
				}
				if !waits[i] {
					return nil
				}
				select {
				case <-s.Context().Done():
					atomic.AddInt32(&sawCancel, 1)
					return status.Error(codes.Canceled, "canceled")
				case <-release:
					atomic.AddInt32(&released, 1)
					return nil
				}
			})
			if status.Code(err) == codes.Unavailable {
				refused[i] = true
			}
		})
		cancel()
		for _, p := range problems {
			if p != "" {
				rt.Fatalf("%s", p)
			}
		}
		if atomic.LoadInt32(&released) > 0 {
			stats.Class("canceler:stream-neither-refused-nor-cancelled")
		}
		// after cancellation new streams are refused (the interceptor learns about
		// the cancellation asynchronously: poll, bounded)
		deadline := time.Now().Add(20 * time.Second)
		for {
			err := ic(nil, fakeStream{ctx: context.Background()}, &grpc.StreamServerInfo{}, func(any, grpc.ServerStream) error { return nil })
			if status.Code(err) == codes.Unavailable {
				break
			}
			if time.Now().After(deadline) {
				rt.Fatalf("INCONCLUSIVE: streams are still accepted 20s after the server context was cancelled")
			}
			time.Sleep(time.Millisecond)
		}
		stats.Case(fmt.Sprintf("canceler|%d|%v|%d", n, waits, cancelAfter), n >= 8)
		stats.Class(fmt.Sprintf("canceler:streams=%d", n))
	})
}
