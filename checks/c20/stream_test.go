package c20

import (
	"fmt"
	"sort"
	"strings"
	"testing"

	"pgregory.net/rapid"

	"verif/harness"
	"verif/internal/gen"
	m "verif/internal/model"
	"verif/internal/pipeline"
	"verif/internal/rt"
	"verif/internal/stats"
	"verif/internal/streamcase"
)

// TestConcurrentStreams: streaming endpoints (websocket) under concurrent
// calls, generated client and server built with the race detector. Every
// call follows its own generated script; each end of each stream must see
// exactly the messages of its own call, in order, and its own initial payload,
// whatever the other streams in flight carry.
func TestConcurrentStreams(t *testing.T) {
	if rt.ReplayDir() != "" {
		t.Skip("replay of another test's case")
	}
	rounds := rt.EnvInt("VERIF_CHECKS", 6)
	seed := rt.EnvInt("VERIF_SEED", 1)
	sess, err := pipeline.NewSession("c20stream")
	if err != nil {
		t.Fatalf("INCONCLUSIVE: %v", err)
	}
	defer sess.Close()
	d := gen.StreamMatrix()
	out := sess.GenerateAndCompile(d, false)
	if !out.Accepted || out.Failure != "" {
		t.Fatalf("INCONCLUSIVE: stream design: %s", out.Describe())
	}
	bin, diag, err := sess.BuildHarness(out.Run, true)
	if err != nil {
		t.Fatalf("INCONCLUSIVE: harness: %v %s", err, diag)
	}
	s := d.Services[0]
	var streaming []*m.Method
	for _, meth := range s.Methods {
		if meth.Streaming != "" {
			streaming = append(streaming, meth)
		}
	}
	for r := 0; r < rounds; r++ {
		h, err := pipeline.StartHarness(bin)
		if err != nil {
			t.Fatalf("INCONCLUSIVE: %v", err)
		}
		type planned struct {
			meth *m.Method
			c    *streamcase.Case
		}
		plan := rapid.Custom(func(rt_ *rapid.T) []planned {
			n := rapid.SampledFrom([]int{8, 24, 48}).Draw(rt_, "calls")
			var out []planned
			for i := 0; i < n; i++ {
				meth := rapid.SampledFrom(streaming).Draw(rt_, "method")
				out = append(out, planned{meth, streamcase.Gen(d, s, meth, "", 8).Draw(rt_, "case")})
			}
			return out
		}).Example(seed*104729 + r)
		cases := make([]harness.Case, len(plan))
		for i, p := range plan {
			cases[i] = *p.c.Harness()
		}
		for _, workers := range []int{48, 8, 2} {
			o, err := h.Do(&harness.Case{Op: "burst", Workers: workers, Burst: cases})
			if err != nil || o.Err != "" || len(o.Sub) != len(cases) {
				h.Close()
				t.Fatalf("INCONCLUSIVE: burst: %v %s", err, o.Err)
			}
			for i, so := range o.Sub {
				p := plan[i]
				for _, msg := range []string{streamcase.ClientToServer(d, s, p.meth, p.c, so), streamcase.ServerToClient(d, s, p.meth, p.c, so)} {
					if msg == "" || streamcase.Skipped(msg) {
						continue
					}
					h.Close()
					if strings.HasPrefix(msg, "INCONCLUSIVE") {
						t.Fatalf("%s", msg)
					}
					t.Fatalf("call %d of %d (%s %s, script %q) with %d workers: %s", i, len(cases), p.meth.Streaming, p.meth.Name, p.c.Spec.Script, workers, msg)
				}
			}
			stats.Class(fmt.Sprintf("streamburst:workers=%d", workers))
		}
		races := raceReports(h.Stderr())
		h.Close()
		if len(races) > 0 {
			var ks []string
			for k := range races {
				ks = append(ks, k)
			}
			sort.Strings(ks)
			t.Fatalf("the race detector reported %d distinct data race(s) while streams were in flight; first:\n%s", len(races), firstLines(races[ks[0]], 40))
		}
		stats.Case(fmt.Sprintf("streamburst|%d|%d", r, len(cases)), true)
	}
}
