// Package c20 decides property C20: generated servers and clients and the
// runtime helpers they share process concurrent requests without data races,
// and every response is computed only from its own request.
package c20

import (
	"bytes"
	"context"
	"encoding/json"
	"fmt"
	"net/http"
	"net/http/httptest"
	"net/url"
	"strings"
	"sync"
	"testing"

	goahttp "goa.design/goa/v3/http"
	"goa.design/goa/v3/middleware"
	goa "goa.design/goa/v3/pkg"
	"pgregory.net/rapid"

	"verif/internal/stats"
)

func TestMain(m *testing.M) { stats.Main(m) }

// parallel runs f(i) for i in [0,n) on n goroutines released together.
func parallel(n int, f func(i int)) {
	var wg sync.WaitGroup
	start := make(chan struct{})
	for i := 0; i < n; i++ {
		wg.Add(1)
		go func(i int) {
			defer wg.Done()
			<-start
			f(i)
		}(i)
	}
	close(start)
	wg.Wait()
}

type errSpec struct {
	Kind                      int // 0 service error, 1 plain
	Name, Msg                 string
	Timeout, Temporary, Fault bool
	Accept                    string
}

func genErr(t *rapid.T, i int) errSpec {
	return errSpec{
		Kind:      rapid.IntRange(0, 2).Draw(t, "kind") % 2,
		Name:      rapid.SampledFrom([]string{"not_found", "conflict", "too_busy", "bad"}).Draw(t, "name") + fmt.Sprint(i),
		Msg:       rapid.StringMatching(`[a-z ]{0,12}`).Draw(t, "msg") + fmt.Sprintf("#%d", i),
		Timeout:   rapid.Bool().Draw(t, "timeout"),
		Temporary: rapid.Bool().Draw(t, "temporary"),
		Fault:     rapid.Bool().Draw(t, "fault"),
		Accept:    rapid.SampledFrom([]string{"", "application/json", "application/xml", "application/gob"}).Draw(t, "accept"),
	}
}

func (e errSpec) build() error {
	if e.Kind == 1 {
		return fmt.Errorf("%s", e.Msg)
	}
	return &goa.ServiceError{Name: e.Name, ID: "fixed-id", Message: e.Msg, Timeout: e.Timeout, Temporary: e.Temporary, Fault: e.Fault}
}

// encodeErr encodes one error the way a generated handler does.
func encodeErr(encode func(context.Context, http.ResponseWriter, error) error, e errSpec) (int, string, string) {
	w := httptest.NewRecorder()
	ctx := context.WithValue(context.Background(), goahttp.AcceptTypeKey, e.Accept)
	_ = encode(ctx, w, e.build())
	body := w.Body.String()
	if strings.Contains(w.Header().Get("Content-Type"), "gob") {
		body = fmt.Sprintf("%x", w.Body.Bytes())
	}
	return w.Code, w.Header().Get("Content-Type"), body
}

// TestErrorEncoderConcurrent: the error encoder built once per handler
// (goahttp.ErrorEncoder(encoder, nil), exactly what generated servers create)
// is used by 2-64 goroutines at once; each response must equal the one the
// same error gets from a private encoder.
func TestErrorEncoderConcurrent(t *testing.T) {
	rapid.Check(t, func(rt *rapid.T) {
		n := rapid.SampledFrom([]int{2, 3, 8, 16, 64}).Draw(rt, "goroutines")
		specs := make([]errSpec, n)
		for i := range specs {
			specs[i] = genErr(rt, i)
		}
		shared := goahttp.ErrorEncoder(goahttp.ResponseEncoder, nil)
		type out struct {
			code     int
			ct, body string
		}
		want := make([]out, n)
		for i, e := range specs {
			c, ct, b := encodeErr(goahttp.ErrorEncoder(goahttp.ResponseEncoder, nil), e)
			want[i] = out{c, ct, maskID(b)}
		}
		got := make([]out, n)
		parallel(n, func(i int) {
			c, ct, b := encodeErr(shared, specs[i])
			got[i] = out{c, ct, maskID(b)}
		})
		kinds := map[int]bool{}
		for i := range specs {
			kinds[specs[i].Kind] = true
			if specs[i].Kind == 1 {
				// a plain error gets a random ID: compare what is determined by the request
				g, w := got[i], want[i]
				if strings.Contains(g.ct, "gob") {
					g.body, w.body = "", ""
				} else if !strings.Contains(g.body, specs[i].Msg) {
					rt.Fatalf("goroutine %d of %d: response %q does not carry the message of its own error %q", i, n, g.body, specs[i].Msg)
				} else {
					g.body, w.body = "", ""
				}
				got[i], want[i] = g, w
			}
			if got[i] != want[i] {
				rt.Fatalf("goroutine %d of %d: error %+v encoded concurrently as %+v, alone as %+v", i, n, specs[i], got[i], want[i])
			}
		}
		stats.Case(fmt.Sprintf("errenc|%+v", specs), n >= 3 && len(kinds) == 2)
		stats.Class(fmt.Sprintf("error-encoder:goroutines=%d", n))
	})
}

// maskID blanks the random ID NewErrorResponse gives to plain errors.
func maskID(body string) string {
	var m map[string]any
	if json.Unmarshal([]byte(body), &m) == nil {
		if _, ok := m["id"]; ok {
			m["id"] = "X"
			b, _ := json.Marshal(m)
			return string(b)
		}
	}
	if i := strings.Index(body, "<id>"); i >= 0 {
		if j := strings.Index(body, "</id>"); j > i {
			return body[:i+4] + "X" + body[j:]
		}
	}
	return body
}

// TestMuxerConcurrent: a muxer with mounted handlers serves 2-64 concurrent
// requests; each handler must see the path values of its own request.
func TestMuxerConcurrent(t *testing.T) {
	rapid.Check(t, func(rt *rapid.T) {
		mux := goahttp.NewMuxer()
		type obs struct {
			pattern string
			vars    map[string]string
		}
		patterns := []string{"/a/{id}", "/a/{id}/b/{name}", "/files/{*path}", "/x/{one}/{two}/{three}", "/plain"}
		// a middleware mounted with Use runs before routing; like goa's own
		// Debug and Log middlewares it may ask the muxer for the pattern and
		// the variables of the request it is about to pass on
		mwResolves := rapid.Bool().Draw(rt, "middleware-resolves")
		mux.Use(func(h http.Handler) http.Handler {
			if !mwResolves {
				return h
			}
			return http.HandlerFunc(func(w http.ResponseWriter, r *http.Request) {
				b, _ := json.Marshal(obs2{Vars: mux.Vars(r), Resolved: mux.ResolvePattern(r)})
				w.Header().Set("X-Mw", string(b))
				h.ServeHTTP(w, r)
			})
		})
		for _, p := range patterns {
			p := p
			mux.Handle("GET", p, func(w http.ResponseWriter, r *http.Request) {
				b, _ := json.Marshal(obs2{Pattern: p, Vars: mux.Vars(r), Resolved: mux.ResolvePattern(r)})
				_, _ = w.Write(b)
			})
		}
		n := rapid.SampledFrom([]int{2, 4, 16, 64}).Draw(rt, "goroutines")
		type req struct {
			path string
			want obs2
		}
		seg := rapid.StringMatching(`[a-zA-Z0-9._~-]{1,8}`)
		reqs := make([]req, n)
		distinct := map[string]bool{}
		for i := range reqs {
			switch rapid.IntRange(0, 4).Draw(rt, "which") {
			case 0:
				id := seg.Draw(rt, "id") + fmt.Sprint(i)
				reqs[i] = req{"/a/" + id, obs2{Pattern: patterns[0], Vars: map[string]string{"id": id}, Resolved: patterns[0]}}
			case 1:
				id, name := seg.Draw(rt, "id")+fmt.Sprint(i), seg.Draw(rt, "name")
				reqs[i] = req{"/a/" + id + "/b/" + name, obs2{Pattern: patterns[1], Vars: map[string]string{"id": id, "name": name}, Resolved: patterns[1]}}
			case 2:
				p := seg.Draw(rt, "p1") + "/" + seg.Draw(rt, "p2") + fmt.Sprint(i)
				reqs[i] = req{"/files/" + p, obs2{Pattern: patterns[2], Vars: map[string]string{"path": p}, Resolved: patterns[2]}}
			case 3:
				a, b, c := seg.Draw(rt, "a"), seg.Draw(rt, "b")+fmt.Sprint(i), seg.Draw(rt, "c")
				reqs[i] = req{"/x/" + a + "/" + b + "/" + c, obs2{Pattern: patterns[3], Vars: map[string]string{"one": a, "two": b, "three": c}, Resolved: patterns[3]}}
			default:
				reqs[i] = req{"/plain", obs2{Pattern: patterns[4], Resolved: patterns[4]}}
			}
			distinct[reqs[i].want.Pattern] = true
		}
		got := make([]string, n)
		gotMw := make([]string, n)
		parallel(n, func(i int) {
			w := httptest.NewRecorder()
			r := httptest.NewRequest("GET", "http://example.com"+reqs[i].path, nil)
			mux.ServeHTTP(w, r)
			got[i] = w.Body.String()
			gotMw[i] = w.Header().Get("X-Mw")
		})
		for i := range reqs {
			if mwResolves {
				var o obs2
				if err := json.Unmarshal([]byte(gotMw[i]), &o); err != nil {
					rt.Fatalf("request %s: middleware observation missing: %q", reqs[i].path, gotMw[i])
				}
				want := obs2{Vars: reqs[i].want.Vars, Resolved: reqs[i].want.Resolved}
				wb, _ := json.Marshal(want)
				gb, _ := json.Marshal(o)
				if !bytes.Equal(wb, gb) {
					rt.Fatalf("request %d %s served concurrently with %d others: the Use-middleware saw %s, want %s", i, reqs[i].path, n-1, gb, wb)
				}
			}
			var o obs2
			if err := json.Unmarshal([]byte(got[i]), &o); err != nil {
				rt.Fatalf("request %s: unexpected response %q", reqs[i].path, got[i])
			}
			wb, _ := json.Marshal(reqs[i].want)
			gb, _ := json.Marshal(o)
			if !bytes.Equal(wb, gb) {
				rt.Fatalf("request %d %s served concurrently with %d others: handler saw %s, want %s", i, reqs[i].path, n-1, gb, wb)
			}
		}
		stats.Case(fmt.Sprintf("mux|%v", reqs), n >= 4 && len(distinct) >= 2)
		stats.Class(fmt.Sprintf("muxer:goroutines=%d", n))
		if mwResolves {
			stats.Class("muxer:use-middleware-resolves-before-routing")
		}
	})
}

type obs2 struct {
	Pattern  string            `json:"pattern"`
	Vars     map[string]string `json:"vars,omitempty"`
	Resolved string            `json:"resolved"`
}

// TestPatternAndFormatConcurrent: ValidatePattern (shared pattern cache) and
// ValidateFormat from many goroutines agree with the sequential verdicts.
func TestPatternAndFormatConcurrent(t *testing.T) {
	rapid.Check(t, func(rt *rapid.T) {
		n := rapid.SampledFrom([]int{2, 8, 32, 64}).Draw(rt, "goroutines")
		pats := []string{`^[a-z]+$`, `^\d{1,3}$`, `[A-Z]`, `^(a|b)*c$`, `^.{2,4}$`, `\s`}
		type job struct{ pat, val string }
		jobs := make([]job, n)
		fresh := fmt.Sprintf(`^x%d[0-9]*$`, rapid.IntRange(0, 1<<30).Draw(rt, "freshpat")) // a pattern the cache has not seen: concurrent first compile
		for i := range jobs {
			p := rapid.SampledFrom(append(pats, fresh, fresh)).Draw(rt, "pat")
			jobs[i] = job{p, rapid.StringMatching(`[a-zA-Z0-9 ]{0,6}`).Draw(rt, "val")}
		}
		verdict := func(j job) string {
			if err := goa.ValidatePattern("v", j.val, j.pat); err != nil {
				return err.Error()
			}
			return ""
		}
		got := make([]string, n)
		parallel(n, func(i int) { got[i] = verdict(jobs[i]) })
		for i, j := range jobs {
			if w := verdict(j); w != got[i] {
				rt.Fatalf("ValidatePattern(%q, %q): concurrently %q, alone %q", j.val, j.pat, got[i], w)
			}
		}
		stats.Case(fmt.Sprintf("pattern|%v", jobs), n >= 8)
		stats.Class(fmt.Sprintf("pattern:goroutines=%d", n))
	})
}

// TestSamplersConcurrent: the fixed and adaptive samplers are shared by all
// requests of a server; the fixed 100% and 0% samplers must stay exact and the
// adaptive one must not race (its verdicts are schedule dependent by design).
func TestSamplersConcurrent(t *testing.T) {
	rapid.Check(t, func(rt *rapid.T) {
		n := rapid.SampledFrom([]int{2, 8, 64}).Draw(rt, "goroutines")
		per := rapid.IntRange(1, 200).Draw(rt, "calls")
		size := rapid.IntRange(1, 50).Draw(rt, "samplesize")
		all, none, ad := middleware.NewFixedSampler(100), middleware.NewFixedSampler(0), middleware.NewAdaptiveSampler(rapid.IntRange(1, 100).Draw(rt, "rate"), size)
		var mu sync.Mutex
		yes := 0
		parallel(n, func(i int) {
			local := 0
			for k := 0; k < per; k++ {
				if !all.Sample() {
					panic("fixed 100% sampler said no")
				}
				if none.Sample() {
					panic("fixed 0% sampler said yes")
				}
				if ad.Sample() {
					local++
				}
			}
			mu.Lock()
			yes += local
			mu.Unlock()
		})
		total := n * per
		// (which of the first calls still see the initial "sample everything" rate is
		// schedule dependent once another goroutine has adjusted it: only the bounds are fixed)
		if yes < 0 || yes > total {
			rt.Fatalf("adaptive sampler (sample size %d): %d of %d concurrent calls sampled", size, yes, total)
		}
		stats.Case(fmt.Sprintf("sampler|%d|%d|%d", n, per, size), n >= 8 && total > size)
		stats.Class(fmt.Sprintf("sampler:goroutines=%d", n))
	})
}

// TestEncodersConcurrent: request/response encoders and decoders built from
// the shared constructor functions, one pair per in-flight exchange.
func TestEncodersConcurrent(t *testing.T) {
	rapid.Check(t, func(rt *rapid.T) {
		n := rapid.SampledFrom([]int{2, 8, 32}).Draw(rt, "goroutines")
		type payload struct {
			A string         `json:"a" xml:"a"`
			N int            `json:"n" xml:"n"`
			M map[string]int `json:"m,omitempty" xml:"-"`
		}
		in := make([]payload, n)
		accept := make([]string, n)
		for i := range in {
			in[i] = payload{A: rapid.StringMatching(`[a-z]{0,8}`).Draw(rt, "a") + fmt.Sprint(i), N: i}
			accept[i] = rapid.SampledFrom([]string{"application/json", "application/xml", "application/gob", ""}).Draw(rt, "accept")
		}
		out := make([]payload, n)
		errs := make([]error, n)
		parallel(n, func(i int) {
			w := httptest.NewRecorder()
			ctx := context.WithValue(context.Background(), goahttp.AcceptTypeKey, accept[i])
			if err := goahttp.ResponseEncoder(ctx, w).Encode(&in[i]); err != nil {
				errs[i] = err
				return
			}
			resp := w.Result()
			errs[i] = goahttp.ResponseDecoder(resp).Decode(&out[i])
			if errs[i] != nil {
				return
			}
			// and the request direction
			u, _ := url.Parse("http://example.com/")
			req := &http.Request{Method: "POST", URL: u, Header: http.Header{}}
			if err := goahttp.RequestEncoder(req).Encode(&in[i]); err != nil {
				errs[i] = err
				return
			}
			var back payload
			if err := goahttp.RequestDecoder(req).Decode(&back); err != nil {
				errs[i] = err
				return
			}
			if back.A != in[i].A || back.N != in[i].N {
				errs[i] = fmt.Errorf("request round trip: sent %+v, decoded %+v", in[i], back)
			}
		})
		for i := range in {
			if errs[i] != nil {
				rt.Fatalf("exchange %d (%s): %v", i, accept[i], errs[i])
			}
			if out[i].A != in[i].A || out[i].N != in[i].N {
				rt.Fatalf("exchange %d (%s) of %d concurrent ones: encoded %+v, decoded %+v", i, accept[i], n, in[i], out[i])
			}
		}
		stats.Case(fmt.Sprintf("encoders|%v|%v", in, accept), n >= 8)
		stats.Class(fmt.Sprintf("encoders:goroutines=%d", n))
	})
}

// TestTextResponsesConcurrent: text/plain and text/html responses written
// through goahttp.ResponseEncoder by handlers of one goa muxer, mixed with
// requests for routes that are not mounted (the muxer answers those itself,
// with the encoder the Accept header selects). Every response must be the
// one computed from its own request, whatever ran before or runs next to it.
func TestTextResponsesConcurrent(t *testing.T) {
	rapid.Check(t, func(rt *rapid.T) {
		mux := goahttp.NewMuxer()
		mux.Handle("GET", "/echo/{word}", func(w http.ResponseWriter, r *http.Request) {
			ctx := context.WithValue(r.Context(), goahttp.AcceptTypeKey, r.Header.Get("Accept"))
			word := mux.Vars(r)["word"]
			if err := goahttp.ResponseEncoder(ctx, w).Encode("echo:" + word); err != nil {
				http.Error(w, "encode: "+err.Error(), 599)
			}
		})
		type req struct {
			path, accept string
			missing      bool
			word         string
		}
		n := rapid.SampledFrom([]int{4, 16, 64}).Draw(rt, "goroutines")
		warm := rapid.IntRange(0, 3).Draw(rt, "not-found-before-the-burst")
		mk := func(i int, label string) req {
			acc := rapid.SampledFrom([]string{"text/plain", "text/html", "text/plain; charset=utf-8", "application/json", ""}).Draw(rt, label+"accept")
			if rapid.IntRange(0, 3).Draw(rt, label+"missing") == 0 {
				return req{path: fmt.Sprintf("/nowhere/%d", i), accept: acc, missing: true}
			}
			w := rapid.StringMatching(`[a-z]{1,8}`).Draw(rt, label+"word") + fmt.Sprint(i)
			return req{path: "/echo/" + w, accept: acc, word: w}
		}
		do := func(q req) (int, string, string) {
			w := httptest.NewRecorder()
			r := httptest.NewRequest("GET", "http://example.com"+q.path, nil)
			if q.accept != "" {
				r.Header.Set("Accept", q.accept)
			}
			mux.ServeHTTP(w, r)
			return w.Code, w.Header().Get("Content-Type"), w.Body.String()
		}
		judge := func(q req, code int, ct, body string) string {
			text := strings.HasPrefix(q.accept, "text/")
			if q.missing {
				if code != http.StatusNotFound {
					return fmt.Sprintf("status %d for a route that is not mounted", code)
				}
				if !strings.Contains(body, "404 page not found") || strings.Contains(body, "echo:") {
					return fmt.Sprintf("body %q", body)
				}
				return ""
			}
			if code != http.StatusOK {
				return fmt.Sprintf("status %d, body %q", code, body)
			}
			want := "echo:" + q.word
			if text {
				if body != want {
					return fmt.Sprintf("body %q, want %q", body, want)
				}
				if !strings.HasPrefix(ct, "text/") {
					return fmt.Sprintf("Content-Type %q for Accept %q", ct, q.accept)
				}
				return ""
			}
			var got string
			if err := json.Unmarshal([]byte(body), &got); err != nil || got != want {
				return fmt.Sprintf("body %q, want the JSON string %q", body, want)
			}
			return ""
		}
		for i := 0; i < warm; i++ {
			q := req{path: fmt.Sprintf("/nowhere/warm%d", i), accept: rapid.SampledFrom([]string{"text/plain", "text/html"}).Draw(rt, "warmaccept"), missing: true}
			code, ct, body := do(q)
			if msg := judge(q, code, ct, body); msg != "" {
				rt.Fatalf("sequential request %s (Accept %q): %s", q.path, q.accept, msg)
			}
		}
		reqs := make([]req, n)
		texts, missing := 0, warm
		for i := range reqs {
			reqs[i] = mk(i, fmt.Sprintf("r%d-", i))
			if strings.HasPrefix(reqs[i].accept, "text/") {
				texts++
			}
			if reqs[i].missing {
				missing++
			}
		}
		codes, cts, bodies := make([]int, n), make([]string, n), make([]string, n)
		parallel(n, func(i int) { codes[i], cts[i], bodies[i] = do(reqs[i]) })
		for i, q := range reqs {
			if msg := judge(q, codes[i], cts[i], bodies[i]); msg != "" {
				rt.Fatalf("request %d %s (Accept %q) served concurrently with %d others after %d sequential not-found requests: %s", i, q.path, q.accept, n-1, warm, msg)
			}
		}
		stats.Case(fmt.Sprintf("textresponses|%v|%d", reqs, warm), texts >= 2 && missing >= 1)
		stats.Class(fmt.Sprintf("text-responses:goroutines=%d", n))
		if warm > 0 {
			stats.Class("text-responses:not-found-before-the-burst")
		}
	})
}
