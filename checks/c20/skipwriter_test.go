package c20

import (
	"bytes"
	"fmt"
	"io"
	"testing"

	goa "goa.design/goa/v3/pkg"
	"pgregory.net/rapid"

	"verif/internal/stats"
)

// TestSkipResponseWriterConcurrent: goa.SkipResponseWriter / goa.WriterToFunc
// (the helpers behind SkipResponseBodyEncodeDecode handlers) used by many
// requests at once: each adapter must hand back exactly the bytes its own
// writer function produced, whether the handler drains it through Read+Close
// (the pipe) or through WriteTo, and the byte count WriteTo reports must be
// the number written by that writer.
func TestSkipResponseWriterConcurrent(t *testing.T) {
	rapid.Check(t, func(rt *rapid.T) {
		n := rapid.SampledFrom([]int{2, 4, 16, 64}).Draw(rt, "goroutines")
		type job struct {
			chunks [][]byte
			mode   int // 0 Read to EOF + Close, 1 WriteTo, 2 read a prefix then Close
			prefix int
		}
		jobs := make([]job, n)
		for i := range jobs {
			k := rapid.IntRange(0, 4).Draw(rt, "chunks")
			for c := 0; c < k; c++ {
				size := rapid.SampledFrom([]int{0, 1, 7, 512, 4096, 70000}).Draw(rt, "size")
				b := bytes.Repeat([]byte{byte('a' + (i+c)%26)}, size)
				if size > 0 {
					copy(b, fmt.Sprintf("%d.%d|", i, c))
				}
				jobs[i].chunks = append(jobs[i].chunks, b)
			}
			jobs[i].mode = rapid.IntRange(0, 2).Draw(rt, "mode")
			jobs[i].prefix = rapid.IntRange(0, 16).Draw(rt, "prefix")
		}
		problems := make([]string, n)
		parallel(n, func(i int) {
			j := jobs[i]
			want := bytes.Join(j.chunks, nil)
			rc := goa.SkipResponseWriter(goa.WriterToFunc(func(w io.Writer) error {
				for _, c := range j.chunks {
					if _, err := w.Write(c); err != nil {
						return err
					}
				}
				return nil
			}))
			switch j.mode {
			case 0:
				got, err := io.ReadAll(rc)
				cerr := rc.Close()
				if err != nil || !bytes.Equal(got, want) {
					problems[i] = fmt.Sprintf("Read path: got %d bytes (err %v, close %v), the writer wrote %d; first difference at %d", len(got), err, cerr, len(want), firstDiff(got, want))
				}
			case 1:
				wt, ok := rc.(io.WriterTo)
				if !ok {
					problems[i] = "the adapter does not implement io.WriterTo"
					return
				}
				var buf bytes.Buffer
				cnt, err := wt.WriteTo(&buf)
				if err != nil || !bytes.Equal(buf.Bytes(), want) || cnt != int64(len(want)) {
					problems[i] = fmt.Sprintf("WriteTo path: got %d bytes, reported %d (err %v), the writer wrote %d", buf.Len(), cnt, err, len(want))
				}
			default:
				p := make([]byte, j.prefix)
				k, err := io.ReadFull(rc, p)
				_ = rc.Close()
				if k > len(want) || !bytes.Equal(p[:k], want[:k]) {
					problems[i] = fmt.Sprintf("prefix read: got %q (err %v), want a prefix of the %d bytes written", p[:k], err, len(want))
				}
			}
		})
		for i, p := range problems {
			if p != "" {
				rt.Fatalf("adapter %d of %d used concurrently: %s", i, n, p)
			}
		}
		stats.Case(fmt.Sprintf("skipwriter|%d|%v", n, jobs[0].mode), n >= 4)
		stats.Class(fmt.Sprintf("skipwriter:goroutines=%d", n))
	})
}

func firstDiff(a, b []byte) int {
	for i := 0; i < len(a) && i < len(b); i++ {
		if a[i] != b[i] {
			return i
		}
	}
	if len(a) < len(b) {
		return len(a)
	}
	return len(b)
}
