// Package c10 decides property C10: the generated protocol buffer file is
// well-formed proto3 with the designed field numbers and rpcs, payloads and
// results round-trip through the generated gRPC client and server code, and
// messages violating the design's constraints are rejected before user code.
package c10

import (
	"fmt"
	"os"
	"path/filepath"
	"sort"
	"strings"
	"sync"
	"testing"

	"pgregory.net/rapid"

	"verif/harness"
	"verif/internal/gen"
	"verif/internal/kf"
	m "verif/internal/model"
	"verif/internal/oracle"
	"verif/internal/pipeline"
	"verif/internal/protoparse"
	"verif/internal/rt"
	"verif/internal/stats"
	"verif/internal/value"
)

func TestMain(m *testing.M) { stats.Main(m) }

func generate(seed int) *m.Design {
	p := gen.GRPCProfile()
	p.Avoid = gen.OpenQuirks()
	return gen.GRPCDesign(p).Example(seed)
}

var scalarOf = map[m.Kind]string{m.Boolean: "bool", m.Int: "sint32", m.Int32: "sint32", m.Int64: "sint64", m.UInt: "uint32", m.UInt32: "uint32", m.UInt64: "uint64",
	m.Float32: "float", m.Float64: "double", m.String: "string", m.Bytes: "bytes"}

func normName(s string) string {
	var b strings.Builder
	for _, r := range strings.ToLower(s) {
		if r >= 'a' && r <= 'z' || r >= '0' && r <= '9' {
			b.WriteRune(r)
		}
	}
	return b.String()
}

// checkMessage compares one message of the proto file with the design attribute it stands for.
func checkMessage(d *m.Design, pf *protoparse.File, msg *protoparse.Message, a *m.Attr, exclude map[string]bool, what string) []string {
	var out []string
	fields := d.ObjectFields(a)
	if a == nil {
		if len(msg.Fields) != 0 {
			out = append(out, fmt.Sprintf("%s: message %s has %d fields, the design defines none", what, msg.Name, len(msg.Fields)))
		}
		return out
	}
	if fields == nil {
		// primitive, array or map: a single field (named "field" by goa)
		if len(msg.Fields) != 1 {
			out = append(out, fmt.Sprintf("%s: message %s wraps a non-object type and must have exactly 1 field, has %d", what, msg.Name, len(msg.Fields)))
		}
		return out
	}
	byNum := map[int]*protoparse.Field{}
	for _, f := range msg.Fields {
		byNum[f.Number] = f
	}
	want := 0
	for _, f := range fields {
		if exclude[f.Name] {
			continue
		}
		res, _ := d.Resolve(f.Attr)
		if res.Type.Kind == m.Union {
			// every alternative is a member of a oneof with its own number
			for _, alt := range res.Type.Fields {
				want++
				pfld := byNum[alt.Tag]
				if pfld == nil {
					out = append(out, fmt.Sprintf("%s: message %s has no field numbered %d (alternative %s of union %s)", what, msg.Name, alt.Tag, alt.Name, f.Name))
				} else if pfld.Oneof == "" {
					out = append(out, fmt.Sprintf("%s: message %s: field %d (%s) should be a member of a oneof", what, msg.Name, alt.Tag, pfld.Name))
				}
			}
			continue
		}
		want++
		pfld := byNum[f.Tag]
		if pfld == nil {
			out = append(out, fmt.Sprintf("%s: message %s has no field numbered %d (attribute %q)", what, msg.Name, f.Tag, f.Name))
			continue
		}
		if normName(pfld.Name) != normName(f.Name) && !strings.HasPrefix(normName(pfld.Name), normName(f.Name)) {
			out = append(out, fmt.Sprintf("%s: message %s: number %d belongs to attribute %q in the design but to field %q in the file", what, msg.Name, f.Tag, f.Name, pfld.Name))
		}
		k := d.Underlying(f.Attr)
		switch {
		case k == m.Array:
			if pfld.Label != "repeated" {
				// arrays of arrays are wrapped in messages; the outer field is still repeated
				out = append(out, fmt.Sprintf("%s: message %s: array attribute %q is not a repeated field (%s %s)", what, msg.Name, f.Name, pfld.Label, pfld.Type))
			}
		case k == m.Map:
			if pfld.Type != "map" {
				out = append(out, fmt.Sprintf("%s: message %s: map attribute %q is declared as %s", what, msg.Name, f.Name, pfld.Type))
			}
		case k == m.Object:
			if protoparse.Scalars[pfld.Type] || pfld.Type == "map" || pfld.Label == "repeated" {
				out = append(out, fmt.Sprintf("%s: message %s: object attribute %q is declared as %s %s", what, msg.Name, f.Name, pfld.Label, pfld.Type))
			}
		default:
			if s, ok := scalarOf[k]; ok && pfld.Type != s {
				out = append(out, fmt.Sprintf("%s: message %s: %s attribute %q is declared as %s, want %s", what, msg.Name, k, f.Name, pfld.Type, s))
			}
			if pfld.Label == "repeated" || pfld.Type == "map" {
				out = append(out, fmt.Sprintf("%s: message %s: primitive attribute %q is declared %s %s", what, msg.Name, f.Name, pfld.Label, pfld.Type))
			}
		}
	}
	if len(msg.Fields) != want {
		out = append(out, fmt.Sprintf("%s: message %s has %d fields, the design gives it %d", what, msg.Name, len(msg.Fields), want))
	}
	return out
}

func goify(s string) string {
	var b strings.Builder
	up := true
	for _, r := range s {
		if r == '_' || r == '-' || r == ' ' {
			up = true
			continue
		}
		if up && r >= 'a' && r <= 'z' {
			r -= 'a' - 'A'
		}
		up = false
		b.WriteRune(r)
	}
	return b.String()
}

// checkProto checks the protocol buffer file of one service.
func checkProto(b *rt.Built, s *m.Service) []string {
	d := b.Design
	files, _ := filepath.Glob(filepath.Join(b.Run.Dir, "gen", "grpc", "*", "pb", "*.proto"))
	var src string
	var name string
	for _, f := range files {
		if normName(filepath.Base(filepath.Dir(filepath.Dir(f)))) == normName(s.Name) {
			bs, _ := os.ReadFile(f)
			src, name = string(bs), f
		}
	}
	if src == "" {
		return []string{fmt.Sprintf("service %s: no .proto file was generated (%v)", s.Name, files)}
	}
	pf, err := protoparse.Parse(src)
	if err != nil {
		return []string{fmt.Sprintf("%s is not well-formed proto3: %v", filepath.Base(name), err)}
	}
	var out []string
	for _, e := range pf.Check() {
		out = append(out, filepath.Base(name)+": "+e)
	}
	if fd, err := pf.Descriptor(filepath.Base(name)); err != nil {
		out = append(out, filepath.Base(name)+": "+err.Error())
	} else if _, err := protoparse.Validate(fd); err != nil {
		out = append(out, filepath.Base(name)+": rejected by the protobuf runtime: "+err.Error())
	}
	if len(pf.Services) != 1 {
		out = append(out, fmt.Sprintf("%s declares %d services, want 1", filepath.Base(name), len(pf.Services)))
		return out
	}
	rpcs := map[string]*protoparse.RPC{}
	for _, r := range pf.Services[0].RPCs {
		rpcs[normName(r.Name)] = r
	}
	n := 0
	for _, meth := range s.Methods {
		if meth.GRPC == nil {
			continue
		}
		n++
		r := rpcs[normName(meth.Name)]
		if r == nil {
			out = append(out, fmt.Sprintf("method %s.%s has no rpc in the file", s.Name, meth.Name))
			continue
		}
		wantIn := meth.Streaming == "payload" || meth.Streaming == "bidirectional"
		wantOut := meth.Streaming == "result" || meth.Streaming == "bidirectional"
		if r.InStream != wantIn || r.OutStream != wantOut {
			out = append(out, fmt.Sprintf("rpc %s: streaming direction in=%v out=%v, the design says in=%v out=%v", r.Name, r.InStream, r.OutStream, wantIn, wantOut))
		}
		excl := map[string]bool{}
		for _, mp := range meth.GRPC.Metadata {
			excl[mp.Attr] = true
		}
		if in := pf.Message(r.In); in != nil {
			reqAttr := meth.Payload
			if wantIn {
				// the request stream carries the streaming payload; the payload itself travels in metadata only
				reqAttr, excl = meth.StreamingPayload, nil
			}
			out = append(out, checkMessage(d, pf, in, reqAttr, excl, "request of "+meth.Name)...)
		}
		excl = map[string]bool{}
		for _, mp := range append(append([]m.Mapping{}, meth.GRPC.Headers...), meth.GRPC.Trailers...) {
			excl[mp.Attr] = true
		}
		if o := pf.Message(r.Out); o != nil {
			out = append(out, checkMessage(d, pf, o, meth.Result, excl, "response of "+meth.Name)...)
		}
	}
	if len(pf.Services[0].RPCs) != n {
		out = append(out, fmt.Sprintf("service %s declares %d rpcs for %d methods", s.Name, len(pf.Services[0].RPCs), n))
	}
	// user types used by the service appear as messages with the designed numbers
	for _, ut := range d.Types {
		if ut.Attr == nil || ut.Attr.Type.Kind != m.Object {
			continue
		}
		if msg := pf.Message(goify(ut.Name)); msg != nil {
			out = append(out, checkMessage(d, pf, msg, ut.Attr, nil, "type "+ut.Name)...)
		}
	}
	return out
}

type caseRec struct {
	Service string    `json:"service"`
	Method  string    `json:"method"`
	Kind    string    `json:"kind"` // valid, mutant, result-mutant
	Payload value.V   `json:"payload"`
	Result  value.V   `json:"result"`
	Fault   gen.Fault `json:"fault"`
	Message string    `json:"message"`
	// CallerMD: the context handed to the generated client already carries
	// outgoing metadata of the caller's own (a request ID, a trace header)
	CallerMD bool `json:"caller_md,omitempty"`
}

func TestGRPC(t *testing.T) {
	n := rt.EnvInt("VERIF_CHECKS", 8)
	seed := rt.EnvInt("VERIF_SEED", 1)
	// A design whose generation stops because protoc (here: the stand-in, which
	// parses the file as proto3 and validates it with the protobuf runtime)
	// refuses the generated protocol buffer file is this property's subject.
	var skipMu sync.Mutex
	protoFailures := 0
	onSkip := func(d *m.Design, out *pipeline.Outcome) {
		if out.Failure != "gen-error" || !strings.Contains(out.Detail, "protoc") {
			return
		}
		if len(gen.MatchQuirks(d, out.Sig)) > 0 {
			return
		}
		skipMu.Lock()
		defer skipMu.Unlock()
		protoFailures++
		dir := os.Getenv("VERIF_REPLAY_OUT")
		if dir == "" {
			dir = filepath.Join(os.TempDir(), "verif-replay")
		}
		dir = filepath.Join(dir, out.Run.Name+"_protoc")
		_ = out.Run.SaveReplay(dir, map[string][]byte{"diagnostics.txt": []byte(out.Detail)})
		stats.CaseSample("protoc-refused|"+out.Run.Name, true, map[string]any{"design": out.Run.Name, "kind": "proto-file-refused", "detail": firstLines(out.Detail, 6)})
		fmt.Printf("C10 generated protocol buffer file refused by protoc (design saved: %s):\n%s\n", dir, firstLines(out.Detail, 12))
	}
	sess, built := rt.Prepare(t, "c10", rt.Options{Profile: gen.GRPCProfile(), N: n, Seed: seed, Generate: generate, Extra: []*m.Design{gen.GRPCMatrix(), gen.GRPCStreamMatrix(), gen.NestMatrix()}, OnSkip: onSkip})
	defer sess.Close()
	defer rt.CloseAll(built)
	if protoFailures > 0 {
		t.Errorf("%d generated protocol buffer file(s) refused by protoc", protoFailures)
	}
	if len(built) == 0 && protoFailures == 0 {
		t.Fatalf("INCONCLUSIVE: no design could be built")
	}
	if len(built)*2 < n && rt.ReplayDir() == "" && protoFailures == 0 {
		t.Fatalf("INCONCLUSIVE: only %d of %d designs could be built (generator health)", len(built), n)
	}
	var wg sync.WaitGroup
	var mu sync.Mutex
	failures := 0
	for _, b := range built {
		wg.Add(1)
		go func(b *rt.Built) {
			defer wg.Done()
			for _, s := range b.Design.Services {
				if !s.HasGRPC {
					continue
				}
				if rt.ReplayDir() == "" || !rt.LoadReplayCase(&caseRec{}) {
					msgs := checkProto(b, s)
					stats.CaseSample("proto|"+b.Run.Name+"|"+s.Name+"|"+fmt.Sprint(b.Design.Features), len(s.Methods) > 0, map[string]any{"design": b.Run.Name, "service": s.Name, "kind": "proto-file", "problems": len(msgs)})
					if len(msgs) > 0 {
						mu.Lock()
						failures++
						dir := rt.SaveReplay(b, b.Run.Name+"_proto_"+s.Name, map[string]any{"messages": msgs})
						fmt.Printf("C10 failing proto file saved: %s\n", dir)
						for _, x := range msgs {
							fmt.Printf("  %s: %s\n", b.Run.Name, x)
						}
						mu.Unlock()
					}
				}
				for _, meth := range s.Methods {
					if meth.GRPC == nil {
						continue
					}
					if meth.Streaming != "" {
						if !checkStreamMethod(t, b, s, meth) {
							mu.Lock()
							failures++
							mu.Unlock()
						}
						continue
					}
					if !checkMethod(t, b, s, meth) {
						mu.Lock()
						failures++
						mu.Unlock()
					}
				}
			}
		}(b)
	}
	wg.Wait()
	if failures > 0 {
		t.Fatalf("%d proto file(s)/method(s) violate C10", failures)
	}
}

func checkMethod(t *testing.T, b *rt.Built, s *m.Service, meth *m.Method) bool {
	d := b.Design
	label := rt.MethodLabel(b, s, meth)
	var last *caseRec
	var replay caseRec
	if rt.LoadReplayCase(&replay) {
		if replay.Service != s.Name || replay.Method != meth.Name {
			return true
		}
		if msg := runCase(b, s, meth, &replay); msg != "" {
			t.Errorf("replayed case still fails: %s", msg)
			return false
		}
		fmt.Printf("replayed case passes: %s %s\n", s.Name, meth.Name)
		return true
	}
	ok := t.Run(label, func(t *testing.T) {
		rapid.Check(t, func(rt_ *rapid.T) {
			c := &caseRec{Service: s.Name, Method: meth.Name, Kind: "valid"}
			c.Payload = gen.GRPCPayloadGen(d, meth).Draw(rt_, "payload")
			c.Result = gen.GRPCResultGen(d, meth).Draw(rt_, "result")
			kinds := []string{"valid", "valid"}
			primOpen := kf.Open("C10-primitive-payload-or-result-validation-not-enforced")
			if meth.Payload != nil {
				if d.ObjectFields(meth.Payload) == nil && primOpen {
					stats.Excluded("C10-primitive-payload-or-result-validation-not-enforced")
				} else {
					kinds = append(kinds, "mutant")
				}
			}
			if meth.Result != nil {
				if d.ObjectFields(meth.Result) == nil && primOpen {
					stats.Excluded("C10-primitive-payload-or-result-validation-not-enforced")
				} else {
					kinds = append(kinds, "result-mutant")
				}
			}
			switch rapid.SampledFrom(kinds).Draw(rt_, "kind") {
			case "mutant":
				if mut, f, ok := gen.Mutate(rt_, d, meth.Payload, c.Payload, func(string) gen.Loc { return gen.Loc{Where: "body"} }); ok {
					c.Kind, c.Payload, c.Fault = "mutant", mut, f
				}
			case "result-mutant":
				if mut, f, ok := gen.Mutate(rt_, d, meth.Result, c.Result, func(string) gen.Loc { return gen.Loc{Where: "body"} }); ok {
					c.Kind, c.Result, c.Fault = "result-mutant", mut, f
				}
			}
			c.CallerMD = rapid.IntRange(0, 3).Draw(rt_, "caller-metadata") == 0
			res := runCase(b, s, meth, c)
			record(d, meth, c)
			if res != "" {
				c.Message = res
				last = c
				rt_.Fatalf("%s [%s]: %s\n  payload: %s\n  result: %s\n  fault: %+v", label, c.Kind, res, c.Payload.Canon(), c.Result.Canon(), c.Fault)
			}
		})
	})
	if !ok && last != nil {
		dir := rt.SaveReplay(b, label, last)
		fmt.Printf("C10 failing case saved: %s\n  design: %s\n  [%s] %s\n", dir, b.Run.Name, last.Kind, last.Message)
	}
	return ok
}

func record(d *m.Design, meth *m.Method, c *caseRec) {
	kinds := map[string]bool{}
	var walk func(a *m.Attr)
	seen := map[string]bool{}
	walk = func(a *m.Attr) {
		if a == nil || a.Type == nil {
			return
		}
		switch a.Type.Kind {
		case m.User:
			if seen[a.Type.User] {
				kinds["recursive"] = true
				return
			}
			seen[a.Type.User] = true
			if ut := d.TypeByName(a.Type.User); ut != nil {
				if ut.Attr.Type.Kind == m.Object {
					kinds["nested-message"] = true
				} else {
					kinds["alias"] = true
				}
				walk(ut.Attr)
			}
		case m.Array:
			kinds["array"] = true
			walk(a.Type.Elem)
		case m.Map:
			kinds["map"] = true
			walk(a.Type.Val)
		case m.Object, m.Union:
			if a.Type.Kind == m.Union {
				kinds["oneof"] = true
			}
			for _, f := range a.Type.Fields {
				walk(f.Attr)
			}
		}
	}
	walk(meth.Payload)
	walk(meth.Result)
	md := len(meth.GRPC.Metadata)+len(meth.GRPC.Headers)+len(meth.GRPC.Trailers) > 0
	if md {
		kinds["metadata"] = true
	}
	var ks []string
	for k := range kinds {
		ks = append(ks, k)
		stats.Class("shape:" + k)
	}
	sort.Strings(ks)
	stats.Class("kind:" + c.Kind)
	nt := c.Kind != "valid" || len(ks) > 0
	stats.CaseSample(c.Service+"|"+c.Method+"|"+c.Kind+"|"+c.Payload.Canon()+"|"+c.Result.Canon(), nt, map[string]any{"method": c.Service + "." + c.Method, "kind": c.Kind, "shapes": ks, "payload": trunc(c.Payload.Canon()), "result": trunc(c.Result.Canon()), "fault": c.Fault.Desc})
}

func trunc(s string) string {
	if len(s) > 300 {
		return s[:300] + "…"
	}
	return s
}

func firstLines(s string, n int) string {
	ls := strings.Split(s, "\n")
	if len(ls) > n {
		ls = ls[:n]
	}
	return strings.Join(ls, "\n")
}

func runCase(b *rt.Built, s *m.Service, meth *m.Method, c *caseRec) string {
	d := b.Design
	hc := &harness.Case{Op: "call", Transport: "grpc", Svc: s.Name, Method: meth.Name, HasPayload: meth.Payload != nil, Payload: c.Payload}
	hc.Stub = harness.StubSpec{HasResult: meth.Result != nil, Result: c.Result, View: "default"}
	hc.CallerMD = c.CallerMD
	if c.CallerMD {
		stats.Class("caller-context-carries-outgoing-metadata")
	}
	obs, err := b.H.Do(hc)
	if err != nil {
		return "INCONCLUSIVE: harness: " + err.Error()
	}
	if obs.Err != "" {
		if strings.Contains(obs.Err, "conversion") && c.Kind != "valid" {
			stats.Class("skipped:mutant-not-expressible-in-go")
			return ""
		}
		return "INCONCLUSIVE: harness: " + obs.Err
	}
	if obs.Panic != "" {
		return "panic in generated client code: " + firstLines(obs.Panic, 24)
	}
	if obs.ServerPanic != "" {
		return "panic in generated server code: " + firstLines(obs.ServerPanic, 24)
	}
	switch c.Kind {
	case "mutant":
		// a message violating the design's constraints is rejected before user code runs
		if obs.StubCalls != 0 {
			return fmt.Sprintf("the service method ran on a payload that violates the design (%s): received %s", c.Fault.Desc, obs.Received.Canon())
		}
		if obs.ClientErr == nil {
			return fmt.Sprintf("no error reported for a payload that violates the design (%s)", c.Fault.Desc)
		}
		return ""
	case "result-mutant":
		// the server (or the client) must not hand an invalid result to the caller as a success
		if obs.HasResult && obs.ClientErr == nil {
			return fmt.Sprintf("the client returned a result that violates the design (%s) without error: %s", c.Fault.Desc, obs.Result.Canon())
		}
		return ""
	}
	if obs.StubCalls != 1 {
		e := ""
		if obs.ClientErr != nil {
			e = obs.ClientErr.Text
		}
		return fmt.Sprintf("service method invoked %d times for a valid payload (client error %q, code %s)", obs.StubCalls, e, obs.GRPCCode)
	}
	if meth.Payload != nil {
		want := oracle.Canonicalize(d, meth.Payload, c.Payload)
		got := oracle.Canonicalize(d, meth.Payload, obs.Received)
		if !obs.HadPayload {
			got = value.Nil()
		}
		if msg := oracle.Match(d, meth.Payload, want, got, false, ""); msg != "" {
			return fmt.Sprintf("payload seen by the method differs: %s\n  sent:     %s\n  received: %s\n  metadata: %v", msg, c.Payload.Canon(), got.Canon(), obs.GRPCMetadata)
		}
		// metadata attributes travel in the request metadata, not in the message
		for _, mp := range meth.GRPC.Metadata {
			if _, set := c.Payload.Get(mp.Attr); set {
				if _, ok := obs.GRPCMetadata[strings.ToLower(mp.WireName())]; !ok {
					return fmt.Sprintf("attribute %q is mapped to request metadata but the server received no %q entry (metadata %v)", mp.Attr, mp.WireName(), obs.GRPCMetadata)
				}
			}
		}
	}
	if obs.ClientErr != nil {
		return fmt.Sprintf("valid call failed at the client: %s (code %s)", obs.ClientErr.Text, obs.GRPCCode)
	}
	if meth.Result != nil {
		if !obs.HasResult {
			return "the client returned no result"
		}
		want := oracle.Canonicalize(d, meth.Result, c.Result)
		got := oracle.Canonicalize(d, meth.Result, obs.Result)
		if msg := oracle.Match(d, meth.Result, want, got, false, ""); msg != "" {
			return fmt.Sprintf("result seen by the caller differs: %s\n  returned: %s\n  received: %s\n  header: %v trailer: %v", msg, c.Result.Canon(), got.Canon(), obs.GRPCHeader, obs.GRPCTrailer)
		}
		for _, mp := range meth.GRPC.Headers {
			if _, set := c.Result.Get(mp.Attr); set {
				if _, ok := obs.GRPCHeader[strings.ToLower(mp.WireName())]; !ok {
					return fmt.Sprintf("attribute %q is mapped to response header metadata but the client received no %q entry (header %v)", mp.Attr, mp.WireName(), obs.GRPCHeader)
				}
			}
		}
		for _, mp := range meth.GRPC.Trailers {
			if _, set := c.Result.Get(mp.Attr); set {
				if _, ok := obs.GRPCTrailer[strings.ToLower(mp.WireName())]; !ok {
					return fmt.Sprintf("attribute %q is mapped to response trailer metadata but the client received no %q entry (trailer %v)", mp.Attr, mp.WireName(), obs.GRPCTrailer)
				}
			}
		}
	}
	return ""
}
