package c10

import (
	"strings"
	"testing"

	"pgregory.net/rapid"

	"fmt"

	"verif/harness"
	"verif/internal/gen"
	"verif/internal/kf"
	m "verif/internal/model"
	"verif/internal/rt"
	"verif/internal/stats"
	"verif/internal/streamcase"
)

// TestGRPCStreams: the three streaming kinds over real gRPC (in-memory
// connection, generated client and server, real protoc-gen-go messages). Both
// ends follow a generated script; every message must arrive equal and in
// order in its direction, the end of each direction must be seen as io.EOF by
// the other end, the final result of a client-streaming call is what
// CloseAndRecv returns, and a streamed message that violates the design is
// refused by the generated server code instead of being handed to the service.
// (The rpc declarations - one per method, with the designed streaming
// direction - are checked on the generated proto file by TestGRPC.)
func TestGRPCStreams(t *testing.T) {
	if rt.ReplayDir() != "" {
		t.Skip("replay of another test's case")
	}
	d := gen.GRPCStreamMatrix()
	sess, h := rt.BuildOne(t, "c10stream", d)
	defer sess.Close()
	defer h.Close()
	s := d.Services[0]
	var streaming []*m.Method
	for _, meth := range s.Methods {
		if meth.Streaming != "" {
			streaming = append(streaming, meth)
		}
	}
	rapid.Check(t, func(rt_ *rapid.T) {
		meth := rapid.SampledFrom(streaming).Draw(rt_, "method")
		c := streamcase.GenFaulty(d, s, meth, "grpc", 10, true).Draw(rt_, "case")
		obs, err := h.Do(c.Harness())
		if err != nil {
			rt_.Fatalf("INCONCLUSIVE: %v", err)
		}
		stats.CaseSample(c.Key(), len(c.Spec.Script) > 0, c.Describe())
		stats.Class("stream:" + meth.Streaming)
		stats.Class("stream-method:" + meth.Name)
		if strings.Contains(c.Spec.Script, "cs") && strings.Contains(c.Spec.Script, "sc") {
			stats.Class("stream:interleaved")
		}
		fail := func(msg string) {
			if strings.HasPrefix(msg, "INCONCLUSIVE") {
				rt_.Fatalf("%s", msg)
			}
			rt_.Fatalf("%s %s script %q: %s", meth.Streaming, meth.Name, c.Spec.Script, msg)
		}
		if c.FaultAt >= 0 {
			stats.Class("stream:invalid-client-message")
			msg, skipped := streamcase.Rejected(d, meth, c, obs)
			if skipped {
				stats.Class("skipped:mutant-not-expressible-in-go")
				return
			}
			if msg != "" {
				fail("invalid streamed message: " + msg + "\n  fault: " + c.Fault.Desc)
			}
			return
		}
		if msg := streamcase.ClientToServer(d, s, meth, c, obs); msg != "" && !streamcase.Skipped(msg) {
			fail(msg)
		}
		if msg := streamcase.ServerToClient(d, s, meth, c, obs); msg != "" && !streamcase.Skipped(msg) {
			fail(msg)
		}
	})
}

// streamReplay is what a replay of a failing streaming case needs.
type streamReplay struct {
	Service string           `json:"service"`
	Method  string           `json:"method"`
	Stream  *streamcase.Case `json:"stream"`
	Message string           `json:"message"`
}

// judgeStream applies the three stream clauses to one observation.
func judgeStream(d *m.Design, s *m.Service, meth *m.Method, c *streamcase.Case, obs *harness.Obs) string {
	if c.FaultAt >= 0 {
		stats.Class("stream:invalid-client-message")
		msg, skipped := streamcase.Rejected(d, meth, c, obs)
		if skipped {
			stats.Class("skipped:mutant-not-expressible-in-go")
			return ""
		}
		if msg != "" {
			return "invalid streamed message: " + msg + "\n  fault: " + c.Fault.Desc
		}
		return ""
	}
	if msg := streamcase.ClientToServer(d, s, meth, c, obs); msg != "" && !streamcase.Skipped(msg) {
		return msg
	}
	if msg := streamcase.ServerToClient(d, s, meth, c, obs); !streamcase.Skipped(msg) {
		return msg
	}
	return ""
}

// checkStreamMethod runs scripted calls of a streaming method of a generated design.
func checkStreamMethod(t *testing.T, b *rt.Built, s *m.Service, meth *m.Method) bool {
	d := b.Design
	label := rt.MethodLabel(b, s, meth)
	run := func(c *streamcase.Case) string {
		obs, err := b.H.Do(c.Harness())
		if err != nil {
			return "INCONCLUSIVE: harness: " + err.Error()
		}
		return judgeStream(d, s, meth, c, obs)
	}
	var replay streamReplay
	if rt.LoadReplayCase(&replay) {
		if replay.Service != s.Name || replay.Method != meth.Name || replay.Stream == nil {
			return true
		}
		if msg := run(replay.Stream); msg != "" {
			t.Errorf("replayed case still fails: %s", msg)
			return false
		}
		fmt.Printf("replayed case passes: %s %s\n", s.Name, meth.Name)
		return true
	}
	faults := true
	if d.ObjectFields(meth.StreamingPayload) == nil && kf.Open("C10-primitive-payload-or-result-validation-not-enforced") {
		faults = false
	}
	var last *streamReplay
	ok := t.Run(label, func(t *testing.T) {
		rapid.Check(t, func(rt_ *rapid.T) {
			c := streamcase.GenFaulty(d, s, meth, "grpc", 8, faults).Draw(rt_, "case")
			msg := run(c)
			stats.CaseSample(b.Run.Name+"|"+c.Key(), len(c.Spec.Script) > 0, c.Describe())
			stats.Class("stream:" + meth.Streaming)
			stats.Class("kind:stream")
			if msg != "" {
				if strings.HasPrefix(msg, "INCONCLUSIVE") {
					rt_.Fatalf("%s", msg)
				}
				last = &streamReplay{Service: s.Name, Method: meth.Name, Stream: c, Message: msg}
				rt_.Fatalf("%s (%s, script %q): %s", label, meth.Streaming, c.Spec.Script, msg)
			}
		})
	})
	if !ok && last != nil {
		dir := rt.SaveReplay(b, label, last)
		fmt.Printf("C10 failing case saved: %s\n  design: %s\n  %s\n", dir, b.Run.Name, last.Message)
	}
	return ok
}
