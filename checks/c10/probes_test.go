package c10

import (
	"os"
	"strconv"
	"strings"
	"testing"
	"time"

	"verif/harness"
	m "verif/internal/model"
	"verif/internal/rt"
	"verif/internal/value"
)

func fp(f float64) *float64 { return &f }
func ip(i int) *int           { return &i }

func probeDesign() *m.Design {
	mk := func(v *m.Validation, k m.Kind) *m.Attr { a := m.Prim(k); a.V = v; return a }
	arr := func(e *m.Attr) *m.Attr { return &m.Attr{Type: &m.Type{Kind: m.Array, Elem: e}} }
	pair := &m.UserType{Name: "Pair", Var: "v1", Result: true, Identifier: "application/vnd.pair",
		Attr:  rt.Obj(&m.Field{Name: "id", Attr: m.Prim(m.Int64), Required: true, Tag: 1}, &m.Field{Name: "title", Attr: m.Prim(m.String), Required: true, Tag: 2}),
		Views: []*m.View{{Name: "default", Fields: []m.ViewField{{Name: "id"}, {Name: "title"}}}, {Name: "tiny", Fields: []m.ViewField{{Name: "id"}}}}}
	return &m.Design{API: m.API{Name: "probe", Server: true}, Types: []*m.UserType{pair}, Services: []*m.Service{
		{Name: "probe", HasGRPC: true, Methods: []*m.Method{
			{Name: "min", Payload: mk(&m.Validation{Min: fp(5)}, m.Int), GRPC: &m.GRPCEndpoint{}},
			{Name: "big", Payload: rt.Obj(&m.Field{Name: "n", Attr: m.Prim(m.Int), Tag: 1}, &m.Field{Name: "u", Attr: m.Prim(m.UInt), Tag: 2}), GRPC: &m.GRPCEndpoint{}},
			{Name: "viewed", Result: m.UserRef("Pair"), GRPC: &m.GRPCEndpoint{}},
			// two arrays of maps of the same protocol buffer shape, only the second restricts its keys
			{Name: "wrapa", Payload: rt.Obj(&m.Field{Name: "count", Attr: arr(&m.Attr{Type: &m.Type{Kind: m.Map, Key: m.Prim(m.String), Val: m.Prim(m.Int32)}}), Tag: 1}), GRPC: &m.GRPCEndpoint{}},
			{Name: "wrapb", Payload: rt.Obj(&m.Field{Name: "zone", Attr: arr(&m.Attr{Type: &m.Type{Kind: m.Map, Key: mk(&m.Validation{MaxLen: ip(1)}, m.String), Val: m.Prim(m.Int32)}}), Tag: 1}), GRPC: &m.GRPCEndpoint{}},
			{Name: "coll", Payload: rt.Obj(&m.Field{Name: "tags", Attr: arr(m.Prim(m.String)), Required: true, Tag: 1}, &m.Field{Name: "x", Attr: m.Prim(m.String), Tag: 2}), GRPC: &m.GRPCEndpoint{}},
		}},
		{Name: "health", HasHTTP: true, Methods: []*m.Method{{Name: "ping", HTTP: &m.HTTPEndpoint{Routes: []m.Route{{Verb: "GET", Path: "/ping"}}}}}}}}
}

// TestProbes re-creates the minimal input of every known finding of C10.
func TestProbes(t *testing.T) {
	if rt.ReplayDir() != "" && os.Getenv("VERIF_PROBE_ONLY") == "" {
		t.Skip("replay of a search case")
	}
	sess, h := rt.BuildOne(t, "c10p", probeDesign())
	defer sess.Close()
	defer h.Close()
	do := func(meth string, p value.V) *harness.Obs {
		o, err := h.Do(&harness.Case{Op: "call", Transport: "grpc", Svc: "probe", Method: meth, HasPayload: true, Payload: p})
		if err != nil {
			t.Fatalf("INCONCLUSIVE: %v", err)
		}
		if o.Err != "" {
			t.Fatalf("INCONCLUSIVE: %s", o.Err)
		}
		return o
	}
	f := func(n string, v value.V) value.Field { return value.Field{N: n, V: v} }
	rt.Probe("C10-primitive-payload-or-result-validation-not-enforced", func() (bool, string) {
		o := do("min", value.Int(4))
		return o.StubCalls == 1, "Payload(Int, Minimum(5)) called with 4: the service method ran and received " + o.Received.Canon()
	})
	rt.Probe("C10-nested-collection-wrappers-share-one-validator", func() (bool, string) {
		long := value.Object(f("count", value.Array(value.MapOf(value.Str("long key"), value.Int(1)))))
		o := do("wrapa", long)
		o2 := do("wrapb", value.Object(f("zone", value.Array(value.MapOf(value.Str("long key"), value.Int(1))))))
		e := ""
		if o.ClientErr != nil {
			e = o.ClientErr.Text
		}
		return o.StubCalls != 1 || o2.StubCalls != 0, "count: ArrayOf(MapOf(String, Int32)) sent with the key \"long key\" next to zone: ArrayOf(MapOf(String(MaxLength 1), Int32)): method ran " + itoa(o.StubCalls) + " time(s) " + e + "; the same key in zone: method ran " + itoa(o2.StubCalls) + " time(s)"
	})
	rt.Probe("C10-int-and-uint-carried-as-32-bit", func() (bool, string) {
		o := do("big", value.Object(f("n", value.Int(1<<40)), f("u", value.Uint(1<<40))))
		n, _ := o.Received.Get("N")
		if n.IsNil() {
			n, _ = o.Received.Get("n")
		}
		return o.StubCalls == 1 && n.Canon() != value.Int(1<<40).Canon(), "payload {n: 1099511627776 (Int), u: 1099511627776 (UInt)}: the service method received " + o.Received.Canon()
	})
	rt.Probe("C10-oneof-alternative-collides-with-message-field", func() (bool, string) {
		// a message with two OneOf attributes whose alternatives share a name (and a number with a plain field)
		un := func(tag int) *m.Attr {
			return &m.Attr{Type: &m.Type{Kind: m.Union, Fields: []*m.Field{{Name: "alt_a", Attr: m.Prim(m.String), Tag: tag}, {Name: "alt_b", Attr: m.Prim(m.Int64), Tag: tag + 1}}}}
		}
		d := &m.Design{API: m.API{Name: "probe", Server: true}, Services: []*m.Service{
			{Name: "probe", HasGRPC: true, Methods: []*m.Method{{Name: "m", GRPC: &m.GRPCEndpoint{},
				Payload: rt.Obj(&m.Field{Name: "u1", Attr: un(2)}, &m.Field{Name: "u2", Attr: un(4)}, &m.Field{Name: "x", Attr: m.Prim(m.String), Tag: 1})}}},
			{Name: "health", HasHTTP: true, Methods: []*m.Method{{Name: "ping", HTTP: &m.HTTPEndpoint{Routes: []m.Route{{Verb: "GET", Path: "/ping"}}}}}}}}
		out := sess.GenerateAndCompile(d, false)
		if !out.Accepted && out.Failure == "" {
			return false, "design rejected by goa: " + strings.Join(out.Rejected, "; ")
		}
		return out.Failure == "gen-error" && strings.Contains(out.Detail, "used twice"), "two OneOf attributes with alternatives of the same name in one message: " + firstLines(out.Describe(), 2)
	})
	rt.Probe("C10-empty-required-collection-reported-missing", func() (bool, string) {
		o := do("coll", value.Object(f("tags", value.Array()), f("x", value.Str("a"))))
		e := ""
		if o.ClientErr != nil {
			e = o.ClientErr.Text
		}
		return o.StubCalls == 0 && e != "", "payload {tags: [] (required, empty), x: \"a\"}: rejected with " + e
	})
	// last: this probe kills the harness process while the finding is open
	rt.Probe("C10-viewed-result-required-attribute-outside-the-view-panics", func() (bool, string) {
		o, err := h.Do(&harness.Case{Op: "call", Transport: "grpc", Svc: "probe", Method: "viewed",
			Stub: harness.StubSpec{HasResult: true, View: "tiny", Result: value.Object(f("id", value.Int(1)), f("title", value.Str("t")))}})
		if err != nil {
			// the gRPC server does not recover panics: the harness process dies
			st := h.Stderr()
			for i := 0; i < 50 && !strings.Contains(st, "goroutine"); i++ {
				time.Sleep(20 * time.Millisecond) // stderr is copied by another goroutine
				st = h.Stderr()
			}
			if strings.Contains(st, "nil pointer dereference") && strings.Contains(st, "NewProtoViewedResponse") {
				return true, "result type rendered with the view \"tiny\" (required attribute title is outside the view): the generated server conversion NewProtoViewedResponse dereferences the nil attribute and the server process crashes"
			}
			t.Fatalf("INCONCLUSIVE: %v", err)
		}
		ce := ""
		if o.ClientErr != nil {
			ce = o.ClientErr.Text
		}
		ok := o.ClientErr == nil && o.HasResult && strings.Contains(strings.ToLower(o.Result.Canon()), "id:1")
		return !ok, "result type rendered with the view \"tiny\" (required attribute title is outside the view): client got " + o.Result.Canon() + " error " + ce + " grpc code " + o.GRPCCode
	})
}

func itoa(i int) string { return strconv.Itoa(i) }
