// Package c09 decides property C09: code generation is a function of the
// design and the command line alone (same files, byte-identical, in fresh
// processes with different runtime hash seeds); gen over its own previous
// output reproduces that output; example never modifies an existing file.
package c09

import (
	"crypto/sha256"
	"encoding/hex"
	"fmt"
	"os"
	"os/exec"
	"path/filepath"
	"sort"
	"strings"
	"sync"
	"testing"
	"time"

	"pgregory.net/rapid"

	"verif/internal/gen"
	m "verif/internal/model"
	"verif/internal/pipeline"
	"verif/internal/rt"
	"verif/internal/stats"
)

func TestMain(m *testing.M) { stats.Main(m) }

func profile() gen.Profile {
	p := gen.Wide()
	p.Name = "determinism"
	p.HostileNames = false // compile failures of hostile identifiers are C01's subject; they do not stop generation but add nothing here
	p.Avoid = gen.OpenQuirks()
	return p
}

// snapshot hashes every regular file below dir (relative path -> sha256, mtime).
type fileInfo struct {
	Sum   string
	Mtime time.Time
}

func snapshot(dir string, skip func(rel string) bool) map[string]fileInfo {
	out := map[string]fileInfo{}
	_ = filepath.Walk(dir, func(path string, info os.FileInfo, err error) error {
		if err != nil || info.IsDir() {
			return nil
		}
		rel, _ := filepath.Rel(dir, path)
		if skip != nil && skip(rel) {
			return nil
		}
		b, err := os.ReadFile(path)
		if err != nil {
			return nil
		}
		h := sha256.Sum256(b)
		out[rel] = fileInfo{hex.EncodeToString(h[:]), info.ModTime()}
		return nil
	})
	return out
}

func isInput(rel string) bool {
	return rel == "program.json" || rel == "design.json" || strings.HasPrefix(rel, "design"+string(filepath.Separator)) || strings.HasPrefix(rel, "harness")
}

func diffSnap(a, b map[string]fileInfo, mtime bool) string {
	var names []string
	for n := range a {
		names = append(names, n)
	}
	for n := range b {
		if _, ok := a[n]; !ok {
			names = append(names, n)
		}
	}
	sort.Strings(names)
	for _, n := range names {
		x, okA := a[n]
		y, okB := b[n]
		switch {
		case !okA:
			return "file " + n + " only in the second tree"
		case !okB:
			return "file " + n + " only in the first tree"
		case x.Sum != y.Sum:
			return "file " + n + " differs in content"
		case mtime && !x.Mtime.Equal(y.Mtime):
			return "file " + n + " was rewritten (modification time changed)"
		}
	}
	return ""
}

// TestDeterminism: k fresh processes per design must write the same files with the same bytes.
// fixedDesigns take the place of the first generated designs of TestDeterminism.
var fixedDesigns = []func() *m.Design{gen.MapKeyMatrix, gen.KindMatrix, gen.StreamMatrix, gen.GRPCStreamMatrix, gen.RespCookieMatrix}

func TestDeterminism(t *testing.T) {
	n := rt.EnvInt("VERIF_CHECKS", 16)
	seed := rt.EnvInt("VERIF_SEED", 1)
	k := 4
	if rt.Tier() == "thorough" {
		k = 10
	}
	sess, err := pipeline.NewSession("c09")
	if err != nil {
		t.Fatalf("INCONCLUSIVE: %v", err)
	}
	defer sess.Close()
	prof := profile()
	var wg sync.WaitGroup
	sem := make(chan struct{}, 16)
	var mu sync.Mutex
	failures := 0
	accepted := 0
	for i := 0; i < n; i++ {
		wg.Add(1)
		go func(i int) {
			defer wg.Done()
			sem <- struct{}{}
			defer func() { <-sem }()
			d := gen.Design(prof).Example(seed*1000003 + i)
			if i < len(fixedDesigns) {
				d = fixedDesigns[i]()
			}
			run, err := sess.Place(d, nil)
			if err != nil {
				return
			}
			var ref map[string]fileInfo
			var refFiles []string
			msg := ""
			for r := 0; r < k && msg == ""; r++ {
				for _, cmd := range []string{"gen", "example"} {
					v := sess.Eval(run, cmd, 120*time.Second)
					if !v.Accepted || v.Stage != "done" {
						if r == 0 {
							stats.Class("design-not-generated")
							return // rejected or crashing designs are other properties' subject
						}
						msg = fmt.Sprintf("run %d: %s succeeded in the first process and failed in this one: %v %s %s", r, cmd, v.Errors, v.Panic, v.GenError)
						break
					}
					if cmd == "gen" {
						sort.Strings(v.Files)
						if r == 0 {
							refFiles = v.Files
						} else if strings.Join(refFiles, "\n") != strings.Join(v.Files, "\n") {
							msg = fmt.Sprintf("run %d: the list of generated files differs from run 0", r)
						}
					}
				}
				if msg != "" {
					break
				}
				snap := snapshot(run.Dir, isInput)
				if r == 0 {
					ref = snap
				} else if dmsg := diffSnap(ref, snap, false); dmsg != "" {
					msg = fmt.Sprintf("fresh process %d generated a different tree than process 0: %s", r, dmsg)
				}
				// remove every output so that the next process starts from scratch
				for rel := range snap {
					_ = os.Remove(filepath.Join(run.Dir, rel))
				}
			}
			mu.Lock()
			defer mu.Unlock()
			accepted++
			metaTypes := 0
			for _, f := range d.Features {
				if f == "attr-meta>=2" {
					metaTypes++
				}
			}
			nt := len(d.Types) >= 3 || metaTypes > 0
			stats.CaseSample("det|"+run.Name+"|"+strings.Join(d.Features, ","), nt, map[string]any{"design": run.Name, "processes": k, "files": len(ref), "features": d.Features})
			stats.ClassN("files-compared", int64(len(ref)*(k-1)))
			if msg != "" {
				failures++
				dir := saveReplay(run, map[string][]byte{"message.txt": []byte(msg)})
				fmt.Printf("C09 failing design saved: %s\n  %s\n", dir, msg)
			}
		}(i)
	}
	wg.Wait()
	if accepted == 0 {
		t.Fatalf("INCONCLUSIVE: no design was generated")
	}
	if failures > 0 {
		t.Fatalf("%d design(s) are not generated deterministically", failures)
	}
}

func saveReplay(run *pipeline.Run, extra map[string][]byte) string {
	dir := os.Getenv("VERIF_REPLAY_OUT")
	if dir == "" {
		dir = filepath.Join(os.TempDir(), "verif-replay")
	}
	dir = filepath.Join(dir, run.Name)
	_ = run.SaveReplay(dir, extra)
	return dir
}

// TestHistories: a state machine over one output directory with actions gen,
// example, edit/delete an example file, drop a stray file into a gen/ sub-directory.
func TestHistories(t *testing.T) {
	n := rt.EnvInt("VERIF_CHECKS", 12)
	seed := rt.EnvInt("VERIF_SEED", 1)
	steps := 8
	if rt.Tier() == "thorough" {
		steps = 20
	}
	sess, err := pipeline.NewSession("c09h")
	if err != nil {
		t.Fatalf("INCONCLUSIVE: %v", err)
	}
	defer sess.Close()
	prof := profile()
	var wg sync.WaitGroup
	sem := make(chan struct{}, 16)
	var mu sync.Mutex
	failures := 0
	ran := 0
	for i := 0; i < n; i++ {
		wg.Add(1)
		go func(i int) {
			defer wg.Done()
			sem <- struct{}{}
			defer func() { <-sem }()
			d := gen.Design(prof).Example(seed*1000003 + 500 + i)
			run, err := sess.Place(d, nil)
			if err != nil {
				return
			}
			// the working directory of the generator is part of the command
			// line, not of the design: half of the histories run the
			// generators from another directory than the output directory
			if i%2 == 1 {
				run.Cwd = sess.Root
				stats.Class("history:cwd-differs-from-output")
			} else {
				stats.Class("history:cwd-is-output")
			}
			// reference trees from a first clean gen + example
			if v := sess.Eval(run, "gen", 120*time.Second); !v.Accepted || v.Stage != "done" {
				stats.Class("design-not-generated")
				return
			}
			refGen := snapshot(filepath.Join(run.Dir, "gen"), nil)
			if v := sess.Eval(run, "example", 120*time.Second); !v.Accepted || v.Stage != "done" {
				stats.Class("design-not-generated")
				return
			}
			notGen := func(rel string) bool { return isInput(rel) || strings.HasPrefix(rel, "gen"+string(filepath.Separator)) }
			refExample := snapshot(run.Dir, notGen)
			exampleContent := map[string][]byte{}
			var exampleFiles []string
			for rel := range refExample {
				b, _ := os.ReadFile(filepath.Join(run.Dir, rel))
				exampleContent[rel] = b
				exampleFiles = append(exampleFiles, rel)
			}
			sort.Strings(exampleFiles)
			if len(exampleFiles) == 0 {
				return
			}
			var genDirs []string
			for rel := range refGen {
				if d := filepath.Dir(rel); d != "." {
					genDirs = append(genDirs, d)
				}
			}
			sort.Strings(genDirs)
			// the history is drawn by rapid from a seed derived from the run seed (Example keeps it reproducible)
			type step struct {
				Op   string
				File string
			}
			hist := rapid.Custom(func(rt_ *rapid.T) []step {
				var hs []step
				k := rapid.IntRange(3, steps).Draw(rt_, "len")
				for j := 0; j < k; j++ {
					op := rapid.SampledFrom([]string{"gen", "gen", "example", "example", "edit", "delete", "stray"}).Draw(rt_, "op")
					s := step{Op: op}
					switch op {
					case "edit", "delete":
						s.File = rapid.SampledFrom(exampleFiles).Draw(rt_, "file")
					case "stray":
						if len(genDirs) == 0 {
							s.Op = "gen"
						} else {
							s.File = filepath.Join("gen", rapid.SampledFrom(genDirs).Draw(rt_, "dir"), "stray_leftover.go")
						}
					}
					hs = append(hs, s)
				}
				return hs
			}).Example(seed*7919 + i)
			msg := ""
			var trace []string
			edited := map[string]bool{}
			nontrivial := false
			lastOp := ""
			for _, s := range hist {
				trace = append(trace, s.Op+" "+s.File)
				switch s.Op {
				case "edit":
					_ = os.WriteFile(filepath.Join(run.Dir, s.File), []byte("// edited by the user\npackage edited\n"), 0o644)
					edited[s.File] = true
				case "delete":
					_ = os.Remove(filepath.Join(run.Dir, s.File))
					delete(edited, s.File)
				case "stray":
					_ = os.MkdirAll(filepath.Dir(filepath.Join(run.Dir, s.File)), 0o755)
					_ = os.WriteFile(filepath.Join(run.Dir, s.File), []byte("package stray\n"), 0o644)
				case "gen":
					if lastOp == "gen" {
						nontrivial = true
					}
					before := snapshot(run.Dir, notGen)
					if v := sess.Eval(run, "gen", 120*time.Second); !v.Accepted || v.Stage != "done" {
						msg = fmt.Sprintf("gen failed in the middle of a history: %v %s %s", v.Errors, v.Panic, v.GenError)
						break
					}
					after := snapshot(filepath.Join(run.Dir, "gen"), nil)
					if dm := diffSnap(refGen, after, false); dm != "" {
						msg = "gen over a previous output does not reproduce the reference gen/ tree: " + dm
						break
					}
					if dm := diffSnap(before, snapshot(run.Dir, notGen), true); dm != "" {
						msg = "gen touched files outside gen/: " + dm
					}
				case "example":
					if len(edited) > 0 {
						nontrivial = true
					}
					before := snapshot(run.Dir, func(rel string) bool { return isInput(rel) })
					if v := sess.Eval(run, "example", 120*time.Second); !v.Accepted || v.Stage != "done" {
						msg = fmt.Sprintf("example failed in the middle of a history: %v %s %s", v.Errors, v.Panic, v.GenError)
						break
					}
					after := snapshot(run.Dir, func(rel string) bool { return isInput(rel) })
					for rel, b := range before {
						a, ok := after[rel]
						if !ok {
							msg = "example removed the existing file " + rel
						} else if a.Sum != b.Sum || !a.Mtime.Equal(b.Mtime) {
							msg = "example modified the existing file " + rel
						}
					}
					for _, rel := range exampleFiles {
						if _, was := before[rel]; was {
							continue
						}
						got, err := os.ReadFile(filepath.Join(run.Dir, rel))
						if err != nil {
							msg = "example did not re-create the missing file " + rel
						} else if string(got) != string(exampleContent[rel]) {
							msg = "example re-created " + rel + " with a different content than the first time"
						}
					}
				}
				lastOp = s.Op
				if msg != "" {
					break
				}
			}
			mu.Lock()
			defer mu.Unlock()
			ran++
			stats.CaseSample("hist|"+run.Name+"|"+strings.Join(trace, ";"), nontrivial, map[string]any{"design": run.Name, "history": trace})
			stats.ClassN("history-steps", int64(len(trace)))
			if msg != "" {
				failures++
				dir := saveReplay(run, map[string][]byte{"message.txt": []byte(msg + "\nhistory: " + strings.Join(trace, "; "))})
				fmt.Printf("C09 failing history saved: %s\n  %s\n  history: %s\n", dir, msg, strings.Join(trace, "; "))
			}
		}(i)
	}
	wg.Wait()
	if ran == 0 {
		t.Fatalf("INCONCLUSIVE: no history could be run")
	}
	if failures > 0 {
		t.Fatalf("%d histor(ies) violate C09", failures)
	}
}

// TestRealCLI runs gen twice and example twice through the real goa command
// (cmd/goa built from the tree under test) on a couple of designs: the
// clean-up logic of the command itself is part of the property.
func TestRealCLI(t *testing.T) {
	seed := rt.EnvInt("VERIF_SEED", 1)
	n := 3
	if rt.Tier() == "thorough" {
		n = 12
	}
	sess, err := pipeline.NewSession("c09c")
	if err != nil {
		t.Fatalf("INCONCLUSIVE: %v", err)
	}
	defer sess.Close()
	goa := filepath.Join(sess.Root, "goa")
	bc := exec.Command("go", "build", "-o", goa, "goa.design/goa/v3/cmd/goa")
	bc.Dir = sess.Root
	bc.Env = pipeline.GoEnv()
	if out, err := bc.CombinedOutput(); err != nil {
		t.Fatalf("INCONCLUSIVE: cannot build cmd/goa: %v\n%s", err, out)
	}
	prof := profile()
	prof.GRPC = false
	var wg sync.WaitGroup
	var mu sync.Mutex
	failures, ran := 0, 0
	for i := 0; i < n*3 && ran < n; i++ {
		d := gen.Design(prof).Example(seed*1000003 + 900 + i)
		run, err := sess.Place(d, nil)
		if err != nil {
			continue
		}
		if v := sess.Eval(run, "eval", 60*time.Second); !v.Accepted {
			continue
		}
		ran++
		wg.Add(1)
		go func(run *pipeline.Run, d *m.Design, variant int) {
			defer wg.Done()
			// command-line variants: run from the output directory, or from
			// the module root with an absolute or a relative -o
			cwd, outArg := run.Dir, run.Dir
			switch variant % 3 {
			case 1:
				cwd = sess.Root
			case 2:
				cwd, outArg = sess.Root, run.Name
			}
			stats.Class(fmt.Sprintf("cli-variant:%d", variant%3))
			cli := func(cmd string) (string, error) {
				c := exec.Command(goa, cmd, run.Pkg+"/design", "-o", outArg)
				c.Dir = cwd
				c.Env = append(pipeline.GoEnv(), "PATH="+filepath.Join(sess.VerifRoot, "stubs", "bin")+":"+os.Getenv("PATH"))
				out, err := c.CombinedOutput()
				return string(out), err
			}
			msg := ""
			if out, err := cli("gen"); err != nil {
				stats.Class("cli-gen-failed")
				stats.Note("goa gen failed for %s: %s", run.Name, firstLines(out, 4))
				return
			}
			ref := snapshot(filepath.Join(run.Dir, "gen"), nil)
			// a stray file in a sub-directory of gen/, then gen again
			var sub string
			for rel := range ref {
				if dd := filepath.Dir(rel); dd != "." {
					sub = dd
					break
				}
			}
			if sub != "" {
				_ = os.WriteFile(filepath.Join(run.Dir, "gen", sub, "stray_leftover.go"), []byte("package stray\n"), 0o644)
			}
			if out, err := cli("gen"); err != nil {
				msg = "the second goa gen failed: " + firstLines(out, 6)
			} else if dm := diffSnap(ref, snapshot(filepath.Join(run.Dir, "gen"), nil), false); dm != "" {
				msg = "goa gen over its previous output does not reproduce it: " + dm
			}
			if msg == "" {
				if out, err := cli("example"); err != nil {
					stats.Class("cli-example-failed")
					stats.Note("goa example failed for %s: %s", run.Name, firstLines(out, 4))
				} else {
					keep := func(rel string) bool {
						return isInput(rel) || strings.HasPrefix(rel, "gen"+string(filepath.Separator)) || rel == "go.mod" || rel == "go.sum"
					}
					// the user edits one example file before running example again
					var exFiles []string
					for rel := range snapshot(run.Dir, keep) {
						if strings.HasSuffix(rel, ".go") {
							exFiles = append(exFiles, rel)
						}
					}
					sort.Strings(exFiles)
					if len(exFiles) > 0 {
						_ = os.WriteFile(filepath.Join(run.Dir, exFiles[variant%len(exFiles)]), []byte("// edited by the user\npackage edited\n"), 0o644)
					}
					before := snapshot(run.Dir, keep)
					if out, err := cli("example"); err != nil {
						msg = "the second goa example failed: " + firstLines(out, 6)
					} else if dm := diffSnap(before, snapshot(run.Dir, keep), true); dm != "" {
						msg = "the second goa example changed existing files: " + dm
					}
				}
			}
			mu.Lock()
			defer mu.Unlock()
			stats.CaseSample("cli|"+run.Name, true, map[string]any{"design": run.Name, "history": "goa gen; stray; goa gen; goa example; edit; goa example", "variant": []string{"cwd=output", "cwd=module root, absolute -o", "cwd=module root, relative -o"}[variant%3]})
			if msg != "" {
				failures++
				dir := saveReplay(run, map[string][]byte{"message.txt": []byte(msg)})
				fmt.Printf("C09 failing CLI history saved: %s\n  %s\n", dir, msg)
			}
		}(run, d, ran)
	}
	wg.Wait()
	if failures > 0 {
		t.Fatalf("%d CLI histor(ies) violate C09", failures)
	}
}

func firstLines(s string, n int) string {
	ls := strings.Split(s, "\n")
	if len(ls) > n {
		ls = ls[:n]
	}
	return strings.Join(ls, "\n")
}
