package harness

import (
	"fmt"
	"reflect"
	"sort"

	"verif/internal/value"
)

// FromV builds a Go value of type t from a value tree. Object fields are
// matched with struct fields by normalised name (case and separators ignored).
func FromV(v value.V, t reflect.Type, def *ServiceDef) (reflect.Value, error) {
	if v.IsNil() {
		return reflect.Zero(t), nil
	}
	switch t.Kind() {
	case reflect.Pointer:
		inner, err := FromV(v, t.Elem(), def)
		if err != nil {
			return reflect.Value{}, err
		}
		p := reflect.New(t.Elem())
		p.Elem().Set(inner)
		return p, nil
	case reflect.Interface:
		if t.NumMethod() > 0 && v.K == "union" && def != nil {
			return unionFromV(v, t, def)
		}
		return reflect.ValueOf(natural(v)), nil
	case reflect.Bool:
		if v.K != "bool" {
			return reflect.Value{}, fmt.Errorf("cannot use %s as bool", v.K)
		}
		return reflect.ValueOf(v.B).Convert(t), nil
	case reflect.Int, reflect.Int8, reflect.Int16, reflect.Int32, reflect.Int64:
		r := reflect.New(t).Elem()
		switch v.K {
		case "int":
			r.SetInt(v.I)
		case "uint":
			r.SetInt(int64(v.U))
		case "float":
			r.SetInt(int64(v.F))
		default:
			return reflect.Value{}, fmt.Errorf("cannot use %s as %s", v.K, t)
		}
		return r, nil
	case reflect.Uint, reflect.Uint8, reflect.Uint16, reflect.Uint32, reflect.Uint64:
		r := reflect.New(t).Elem()
		switch v.K {
		case "uint":
			r.SetUint(v.U)
		case "int":
			r.SetUint(uint64(v.I))
		case "float":
			r.SetUint(uint64(v.F))
		default:
			return reflect.Value{}, fmt.Errorf("cannot use %s as %s", v.K, t)
		}
		return r, nil
	case reflect.Float32, reflect.Float64:
		r := reflect.New(t).Elem()
		switch v.K {
		case "float":
			r.SetFloat(v.F)
		case "int":
			r.SetFloat(float64(v.I))
		case "uint":
			r.SetFloat(float64(v.U))
		default:
			return reflect.Value{}, fmt.Errorf("cannot use %s as %s", v.K, t)
		}
		return r, nil
	case reflect.String:
		switch v.K {
		case "string":
			return reflect.ValueOf(v.S).Convert(t), nil
		case "bytes":
			return reflect.ValueOf(string(v.X)).Convert(t), nil
		}
		return reflect.Value{}, fmt.Errorf("cannot use %s as string", v.K)
	case reflect.Slice:
		if t.Elem().Kind() == reflect.Uint8 && (v.K == "bytes" || v.K == "string") {
			b := v.X
			if v.K == "string" {
				b = []byte(v.S)
			}
			if b == nil {
				b = []byte{}
			}
			return reflect.ValueOf(b).Convert(t), nil
		}
		if v.K != "array" {
			return reflect.Value{}, fmt.Errorf("cannot use %s as %s", v.K, t)
		}
		s := reflect.MakeSlice(t, 0, len(v.A))
		for _, e := range v.A {
			ev, err := FromV(e, t.Elem(), def)
			if err != nil {
				return reflect.Value{}, err
			}
			s = reflect.Append(s, ev)
		}
		return s, nil
	case reflect.Map:
		if v.K != "map" {
			return reflect.Value{}, fmt.Errorf("cannot use %s as %s", v.K, t)
		}
		m := reflect.MakeMapWithSize(t, len(v.A)/2)
		for i := 0; i+1 < len(v.A); i += 2 {
			kv, err := FromV(v.A[i], t.Key(), def)
			if err != nil {
				return reflect.Value{}, err
			}
			ev, err := FromV(v.A[i+1], t.Elem(), def)
			if err != nil {
				return reflect.Value{}, err
			}
			m.SetMapIndex(kv, ev)
		}
		return m, nil
	case reflect.Struct:
		if v.K != "object" {
			return reflect.Value{}, fmt.Errorf("cannot use %s as struct %s", v.K, t)
		}
		r := reflect.New(t).Elem()
		for _, f := range v.O {
			idx := -1
			for i := 0; i < t.NumField(); i++ {
				if norm(t.Field(i).Name) == norm(f.N) && t.Field(i).IsExported() {
					if idx >= 0 {
						return reflect.Value{}, fmt.Errorf("attribute %q matches several fields of %s", f.N, t)
					}
					idx = i
				}
			}
			if idx < 0 {
				return reflect.Value{}, fmt.Errorf("no field for attribute %q in %s", f.N, t)
			}
			fv, err := FromV(f.V, t.Field(idx).Type, def)
			if err != nil {
				return reflect.Value{}, fmt.Errorf("%s.%s: %w", t, t.Field(idx).Name, err)
			}
			r.Field(idx).Set(fv)
		}
		return r, nil
	}
	return reflect.Value{}, fmt.Errorf("unsupported Go type %s", t)
}

// natural converts a value tree into the Go value encoding/json would produce.
func natural(v value.V) any {
	switch v.K {
	case "bool":
		return v.B
	case "int":
		return float64(v.I)
	case "uint":
		return float64(v.U)
	case "float":
		return v.F
	case "string":
		return v.S
	case "bytes":
		return v.X
	case "array":
		out := make([]any, len(v.A))
		for i, e := range v.A {
			out[i] = natural(e)
		}
		return out
	case "map":
		out := map[string]any{}
		for i := 0; i+1 < len(v.A); i += 2 {
			out[v.A[i].S] = natural(v.A[i+1])
		}
		return out
	case "object":
		out := map[string]any{}
		for _, f := range v.O {
			out[f.N] = natural(f.V)
		}
		return out
	}
	return nil
}

// unionFromV builds a union value: the generated code represents a union as
// an interface implemented by named wrapper types (one per alternative).
func unionFromV(v value.V, t reflect.Type, def *ServiceDef) (reflect.Value, error) {
	if len(v.A) != 1 {
		return reflect.Value{}, fmt.Errorf("bad union value")
	}
	// find a registered type implementing t whose name ends with the alternative's name
	var names []string
	for n := range def.Types {
		names = append(names, n)
	}
	sort.Strings(names)
	for _, n := range names {
		ct := def.Types[n]
		if !ct.Implements(t) && !reflect.PointerTo(ct).Implements(t) {
			continue
		}
		nn := norm(n)
		if len(nn) >= len(norm(v.S)) && nn[len(nn)-len(norm(v.S)):] == norm(v.S) {
			cv, err := FromV(v.A[0], ct, def)
			if err != nil {
				return reflect.Value{}, err
			}
			if ct.Implements(t) {
				return cv, nil
			}
			p := reflect.New(ct)
			p.Elem().Set(cv)
			return p, nil
		}
	}
	return reflect.Value{}, fmt.Errorf("no wrapper type for union alternative %q of %s", v.S, t)
}

// ToV converts a Go value into a value tree. Struct fields keep their Go names.
func ToV(rv reflect.Value) value.V {
	if !rv.IsValid() {
		return value.Nil()
	}
	switch rv.Kind() {
	case reflect.Interface:
		if rv.IsNil() {
			return value.Nil()
		}
		// a union: the interface holds one of the named wrapper types the
		// generated service package declares (<Union><Alternative>); keep
		// the wrapper's name so that the alternative can be told
		et := rv.Elem().Type()
		for et.Kind() == reflect.Pointer {
			et = et.Elem()
		}
		if rv.Type().NumMethod() > 0 && et.PkgPath() != "" && et.Name() != "" {
			return value.V{K: "union", S: et.Name(), A: []value.V{ToV(rv.Elem())}}
		}
		return ToV(rv.Elem())
	case reflect.Pointer:
		if rv.IsNil() {
			return value.Nil()
		}
		return ToV(rv.Elem())
	case reflect.Bool:
		return value.Bool(rv.Bool())
	case reflect.Int, reflect.Int8, reflect.Int16, reflect.Int32, reflect.Int64:
		return value.Int(rv.Int())
	case reflect.Uint, reflect.Uint8, reflect.Uint16, reflect.Uint32, reflect.Uint64:
		return value.Uint(rv.Uint())
	case reflect.Float32, reflect.Float64:
		return value.Float(rv.Float())
	case reflect.String:
		return value.Str(rv.String())
	case reflect.Slice:
		if rv.IsNil() {
			return value.Nil()
		}
		if rv.Type().Elem().Kind() == reflect.Uint8 {
			b := make([]byte, rv.Len())
			reflect.Copy(reflect.ValueOf(b), rv)
			return value.V{K: "bytes", X: b}
		}
		out := value.V{K: "array", A: make([]value.V, 0, rv.Len())}
		for i := 0; i < rv.Len(); i++ {
			out.A = append(out.A, ToV(rv.Index(i)))
		}
		return out
	case reflect.Map:
		if rv.IsNil() {
			return value.Nil()
		}
		out := value.V{K: "map"}
		keys := rv.MapKeys()
		sort.Slice(keys, func(i, j int) bool { return fmt.Sprint(keys[i].Interface()) < fmt.Sprint(keys[j].Interface()) })
		for _, k := range keys {
			out.A = append(out.A, ToV(k), ToV(rv.MapIndex(k)))
		}
		return out
	case reflect.Struct:
		out := value.V{K: "object"}
		t := rv.Type()
		for i := 0; i < t.NumField(); i++ {
			if !t.Field(i).IsExported() {
				continue
			}
			fv := ToV(rv.Field(i))
			if fv.IsNil() {
				continue
			}
			out.O = append(out.O, value.Field{N: t.Field(i).Name, V: fv})
		}
		// named struct types carry their type name (unions, custom errors)
		return out
	}
	return value.V{K: "string", S: fmt.Sprintf("<%s>", rv.Type())}
}
