// Package harness is linked with the code goa generates for one design. It
// mounts the generated HTTP server behind a real net/http server, builds the
// generated client with a tapping Doer, provides a stub implementation of the
// service (through per-design glue) and executes the cases the driver sends on
// stdin, one JSON document per line, answering with one observation per line.
//
// Everything here is generic: the generated API is discovered by reflection.
package harness

import (
	"bufio"
	"bytes"
	"context"
	"encoding/json"
	"errors"
	"fmt"
	"google.golang.org/grpc/metadata"
	"io"
	"io/fs"
	"net"
	"net/http"
	"net/http/httptest"
	"net/url"
	"os"
	"reflect"
	"runtime/debug"
	"strings"
	"sync"

	"github.com/gorilla/websocket"
	goahttp "goa.design/goa/v3/http"
	goa "goa.design/goa/v3/pkg"

	"verif/internal/value"
)

// ServiceDef is registered by the glue for each service of the design.
type ServiceDef struct {
	Name         string         // design name (ServiceName constant)
	ServiceType  reflect.Type   // the generated Service interface
	NewStub      func(h *H) any // returns a value implementing Service (and Auther)
	NewEndpoints any            // gen/<svc>.NewEndpoints
	NewServer    any            // gen/http/<svc>/server.New
	Mount        any            // gen/http/<svc>/server.Mount
	NewClient    any            // gen/http/<svc>/client.NewClient
	// gRPC (nil when the service has no gRPC transport)
	GRPCNewServer any                     // gen/grpc/<svc>/server.New
	GRPCRegister  any                     // gen/grpc/<svc>/pb.Register<Svc>Server
	GRPCNewClient any                     // gen/grpc/<svc>/client.NewClient
	Types         map[string]reflect.Type // named types of the service package
	// Makers: the generated Make<Error>(err error) *goa.ServiceError constructors
	Makers map[string]any
}

// H is the harness state.
type H struct {
	defs    map[string]*ServiceDef
	mu      sync.Mutex
	cur     *caseState // the case being executed (single-threaded protocol)
	server  *httptest.Server
	handler http.Handler
	mux     goahttp.Muxer
	svcs    map[string]*mounted
	// handled lists the (verb, pattern) pairs passed to Muxer.Handle while mounting
	handled [][]string
	// concurrent mode: the state of every case in flight, keyed by the token
	// that travels in the context (client side) and in the X-Verif-Case
	// request header (server side)
	cases    map[string]*caseState
	burstSeq int
}

type ctxKeyT struct{}

var ctxKey = ctxKeyT{}

// caseHeader carries the case token from the tap to the server-side wrapper.
const caseHeader = "X-Verif-Case"

// state returns the case a context belongs to (concurrent mode) or the
// single case in flight (sequential protocol).
func (h *H) state(ctx context.Context) *caseState {
	if ctx != nil {
		if cs, ok := ctx.Value(ctxKey).(*caseState); ok && cs != nil {
			return cs
		}
	}
	h.mu.Lock()
	defer h.mu.Unlock()
	return h.cur
}

type mounted struct {
	def       *ServiceDef
	stub      any
	endpoints reflect.Value
	server    reflect.Value
	client    reflect.Value
	gclient   reflect.Value // gRPC client
}

// New returns an empty harness.
func New() *H { return &H{defs: map[string]*ServiceDef{}, svcs: map[string]*mounted{}} }

// Register adds a service.
func (h *H) Register(d ServiceDef) { dd := d; h.defs[d.Name] = &dd }

// ---------------------------------------------------------------- protocol

// Case is one command from the driver.
type Case struct {
	Op         string    `json:"op"` // "call", "raw", "mounts", "quit"
	Svc        string    `json:"svc"`
	Method     string    `json:"method"`
	HasPayload bool      `json:"has_payload"`
	Payload    value.V   `json:"payload"`
	Stub       StubSpec  `json:"stub"`
	Edits      []Edit    `json:"edits,omitempty"`
	Canned     *RawResp  `json:"canned,omitempty"` // client decodes this instead of contacting the server
	Raw        *RawReq   `json:"raw,omitempty"`    // op "raw": send this request with a plain http.Client
	Auth       *AuthSpec `json:"auth,omitempty"`
	Accept     string    `json:"accept,omitempty"`
	// Transport: "" or "http" = generated HTTP client/server, "grpc" = generated gRPC client/server over an in-memory connection
	Transport string `json:"transport,omitempty"`
	// op "burst": run these "call" cases with Workers goroutines (1 = sequentially)
	Burst   []Case `json:"burst,omitempty"`
	Workers int    `json:"workers,omitempty"`
	// ReqBody: bytes streamed as the HTTP request body of a method declared with
	// SkipRequestBodyEncodeDecode (the generated client takes them from
	// <Method>RequestData.Body).
	ReqBody []byte `json:"req_body,omitempty"`
	// InMemory: the tap hands the request to the mounted handler directly
	// (httptest recorder) instead of sending it over the loopback listener.
	// Socket I/O makes the race detector order every write before every later
	// read in the process, which hides races between in-process requests.
	InMemory bool `json:"in_memory,omitempty"`
	// Stream scripts a call of a streaming method (websocket over HTTP, gRPC streams).
	Stream *StreamSpec `json:"stream,omitempty"`
	// CallerMD: (gRPC) the context given to the generated client already carries
	// outgoing metadata, as it does behind request-ID or tracing interceptors.
	CallerMD bool `json:"caller_md,omitempty"`
}

// StubSpec tells the stub service what to do.
type StubSpec struct {
	HasResult bool       `json:"has_result"`
	Result    value.V    `json:"result"`
	View      string     `json:"view,omitempty"`
	Error     *ErrorSpec `json:"error,omitempty"`
	// RespBody: bytes the stub streams as the HTTP response body of a method
	// declared with SkipResponseBodyEncodeDecode.
	RespBody []byte `json:"resp_body,omitempty"`
}

// ErrorSpec describes the error the stub returns.
type ErrorSpec struct {
	// Kind: "service" (goa.ServiceError), "plain", "wrapped-plain",
	// "wrapped-service", "custom" (a generated error type), "namer" (unknown GoaErrorNamer)
	Kind      string  `json:"kind"`
	Name      string  `json:"name,omitempty"`
	ID        string  `json:"id,omitempty"`
	Message   string  `json:"message,omitempty"`
	Timeout   bool    `json:"timeout,omitempty"`
	Temporary bool    `json:"temporary,omitempty"`
	Fault     bool    `json:"fault,omitempty"`
	Type      string  `json:"type,omitempty"`  // custom: Go type name in the service package
	Value     value.V `json:"value,omitempty"` // custom: field values
	// Sentinel: (plain, wrapped-plain) the error is this well-known error
	// value of the standard library instead of errors.New(Message)
	Sentinel string `json:"sentinel,omitempty"`
	// Maker: kind "made": the error is built by this generated constructor
	// (Make<Error>) from errors.New(Message), as service code is documented to do
	Maker string `json:"maker,omitempty"`
}

// Sentinels are well-known error values a service method may return (directly
// or wrapped) like any other Go error.
var Sentinels = map[string]error{
	"canceled":       context.Canceled,
	"deadline":       context.DeadlineExceeded,
	"eof":            io.EOF,
	"unexpected-eof": io.ErrUnexpectedEOF,
	"closed-pipe":    io.ErrClosedPipe,
	"not-exist":      fs.ErrNotExist,
	"abort-handler":  http.ErrAbortHandler,
	"net-closed":     net.ErrClosed,
}

// AuthSpec configures the recording Auther.
type AuthSpec struct {
	// Outcome per scheme name: true = accept
	Accept map[string]bool `json:"accept"`
	// UseGranted: the callbacks also enforce scopes the way goa documents it,
	// with scheme.Validate(Granted); a callback accepts when Accept says so and
	// Validate returns nil.
	UseGranted bool     `json:"use_granted,omitempty"`
	Granted    []string `json:"granted,omitempty"`
}

// Edit modifies the request produced by the generated client before it is sent.
type Edit struct {
	// Op: "del_query", "set_query", "add_query", "del_header", "set_header",
	// "del_cookie", "set_cookie", "set_body", "del_body", "set_method",
	// "set_path", "json_del", "json_set"
	Op    string `json:"op"`
	Name  string `json:"name,omitempty"`
	Value string `json:"value,omitempty"`
}

// RawReq is a request sent without the generated client.
type RawReq struct {
	Method string              `json:"method"`
	URL    string              `json:"url"` // path and query, escaped
	Header map[string][]string `json:"header,omitempty"`
	Body   []byte              `json:"body,omitempty"`
}

// RawResp is a response (observed, or canned for the client to decode).
type RawResp struct {
	Status int                 `json:"status"`
	Header map[string][]string `json:"header,omitempty"`
	Body   []byte              `json:"body,omitempty"`
}

// ReqObs is the request observed by the tap.
type ReqObs struct {
	Method   string              `json:"method"`
	URL      string              `json:"url"`
	Path     string              `json:"path"`     // decoded
	RawPath  string              `json:"raw_path"` // escaped
	RawQuery string              `json:"raw_query"`
	Header   map[string][]string `json:"header"`
	Body     []byte              `json:"body,omitempty"`
}

// ErrObs describes an error returned by the generated client.
type ErrObs struct {
	GoType    string  `json:"go_type"`
	Text      string  `json:"text"`
	Name      string  `json:"name,omitempty"` // GoaErrorName
	IsService bool    `json:"is_service,omitempty"`
	ID        string  `json:"id,omitempty"`
	Message   string  `json:"message,omitempty"`
	Timeout   bool    `json:"timeout,omitempty"`
	Temporary bool    `json:"temporary,omitempty"`
	Fault     bool    `json:"fault,omitempty"`
	Field     string  `json:"field,omitempty"`
	Value     value.V `json:"value"` // fields of a custom error type
}

// AuthCall records one invocation of an Auth*Func.
type AuthCall struct {
	Func   string   `json:"func"` // BasicAuth, APIKeyAuth, JWTAuth, OAuth2Auth
	Scheme string   `json:"scheme"`
	User   string   `json:"user,omitempty"`
	Pass   string   `json:"pass,omitempty"`
	Key    string   `json:"key,omitempty"` // api key or token
	Scopes []string `json:"scopes,omitempty"`
	Req    []string `json:"required_scopes,omitempty"`
	Accept bool     `json:"accept"`
	// Validated: scheme.Validate was consulted; ValidateErr is its error text ("" = nil)
	Validated   bool   `json:"validated,omitempty"`
	ValidateErr string `json:"validate_err,omitempty"`
}

// Obs is the observation of one case.
type Obs struct {
	Err          string     `json:"err,omitempty"` // harness-level problem (conversion, unknown method …)
	Panic        string     `json:"panic,omitempty"`
	StubCalls    int        `json:"stub_calls"`
	Received     value.V    `json:"received"`
	HadPayload   bool       `json:"had_payload"`
	Requests     []ReqObs   `json:"requests,omitempty"`
	Response     *RawResp   `json:"response,omitempty"`
	WriteHeaders int        `json:"write_headers"`
	ErrHandler   []string   `json:"errhandler,omitempty"`
	HasResult    bool       `json:"has_result"`
	Result       value.V    `json:"result"`
	ClientErr    *ErrObs    `json:"client_err,omitempty"`
	AuthCalls    []AuthCall `json:"auth_calls,omitempty"`
	Mounts       [][]string `json:"mounts,omitempty"`
	Handled      [][]string `json:"handled,omitempty"`
	ServerPanic  string     `json:"server_panic,omitempty"`
	Sub          []*Obs     `json:"sub,omitempty"` // op "burst": one observation per case
	// gRPC: request metadata seen by the server, response header and trailer metadata seen by the client, status code
	GRPCMetadata map[string][]string `json:"grpc_metadata,omitempty"`
	GRPCHeader   map[string][]string `json:"grpc_header,omitempty"`
	GRPCTrailer  map[string][]string `json:"grpc_trailer,omitempty"`
	GRPCCode     string              `json:"grpc_code,omitempty"`
	// streamed bodies (SkipRequestBodyEncodeDecode / SkipResponseBodyEncodeDecode)
	HadReqBody      bool   `json:"had_req_body,omitempty"`
	ReceivedBody    []byte `json:"received_body,omitempty"`
	ReceivedBodyErr string `json:"received_body_err,omitempty"`
	HadRespBody     bool   `json:"had_resp_body,omitempty"`
	ResultBody      []byte `json:"result_body,omitempty"`
	ResultBodyErr   string `json:"result_body_err,omitempty"`
	// streaming methods: what each end of the stream saw
	ServerStream *StreamObs `json:"server_stream,omitempty"`
	ClientStream *StreamObs `json:"client_stream,omitempty"`
}

type caseState struct {
	c     *Case
	obs   *Obs
	token string
	inmem bool
	// mu orders the accesses of the client-side and server-side goroutines of one case
	mu sync.Mutex
	// smu guards the stream observations: both ends of a stream run at the
	// same time, the server end inside the stub while the client end drives
	// the generated client stream
	smu          sync.Mutex
	serverStream StreamObs
	clientStream StreamObs
	// server-side handlers (HTTP requests, gRPC streams) of this case that started / returned
	started, finished int
	// dialResp: the ordinary HTTP response that refused a websocket upgrade
	dialResp *RawResp
}

// Main runs the protocol loop.
func (h *H) Main() {
	if err := h.start(); err != nil {
		fmt.Fprintln(os.Stderr, "harness start:", err)
		os.Exit(3)
	}
	defer h.server.Close()
	in := bufio.NewReaderSize(os.Stdin, 1<<20)
	out := bufio.NewWriter(os.Stdout)
	enc := json.NewEncoder(out)
	enc.SetEscapeHTML(false)
	fmt.Fprintln(out, `{"ready":true}`)
	out.Flush()
	for {
		line, err := in.ReadBytes('\n')
		if len(bytes.TrimSpace(line)) > 0 {
			var c Case
			if jerr := json.Unmarshal(line, &c); jerr != nil {
				_ = enc.Encode(&Obs{Err: "bad case: " + jerr.Error()})
			} else if c.Op == "quit" {
				out.Flush()
				return
			} else {
				obs := h.run(&c)
				_ = enc.Encode(obs)
			}
			out.Flush()
		}
		if err != nil {
			return
		}
	}
}

// recMux records every Handle call made by the generated Mount functions.
type recMux struct {
	goahttp.Muxer
	h *H
}

func (r recMux) Handle(method, pattern string, handler http.HandlerFunc) {
	r.h.handled = append(r.h.handled, []string{method, pattern})
	r.Muxer.Handle(method, pattern, handler)
}

func (h *H) start() error {
	h.mux = recMux{goahttp.NewMuxer(), h}
	for name, def := range h.defs {
		m := &mounted{def: def}
		m.stub = def.NewStub(h)
		// NewEndpoints(svc)
		ne := reflect.ValueOf(def.NewEndpoints)
		args, err := h.buildArgs(ne.Type(), m, nil)
		if err != nil {
			return fmt.Errorf("%s NewEndpoints: %w", name, err)
		}
		m.endpoints = ne.Call(args)[0]
		if def.NewServer != nil {
			ns := reflect.ValueOf(def.NewServer)
			args, err = h.buildArgs(ns.Type(), m, nil)
			if err != nil {
				return fmt.Errorf("%s server.New: %w", name, err)
			}
			m.server = ns.Call(args)[0]
			mt := reflect.ValueOf(def.Mount)
			mt.Call([]reflect.Value{reflect.ValueOf(h.mux), m.server})
		}
		h.svcs[name] = m
	}
	if err := h.startGRPC(); err != nil {
		return err
	}
	h.handler = h.countingHandler(h.mux)
	h.server = httptest.NewServer(h.handler)
	u, _ := url.Parse(h.server.URL)
	for name, m := range h.svcs {
		if m.def.NewClient == nil {
			continue
		}
		nc := reflect.ValueOf(m.def.NewClient)
		args, err := h.buildArgs(nc.Type(), m, u)
		if err != nil {
			return fmt.Errorf("%s client.NewClient: %w", name, err)
		}
		m.client = nc.Call(args)[0]
	}
	return nil
}

type countingWriter struct {
	http.ResponseWriter
	n *int
}

func (w countingWriter) WriteHeader(code int) { *w.n++; w.ResponseWriter.WriteHeader(code) }
func (w countingWriter) Flush() {
	if f, ok := w.ResponseWriter.(http.Flusher); ok {
		f.Flush()
	}
}
func (w countingWriter) Unwrap() http.ResponseWriter { return w.ResponseWriter }

func (h *H) countingHandler(next http.Handler) http.Handler {
	return http.HandlerFunc(func(w http.ResponseWriter, r *http.Request) {
		n := 0
		var cs *caseState
		if tok := r.Header.Get(caseHeader); tok != "" {
			h.mu.Lock()
			cs = h.cases[tok]
			h.mu.Unlock()
			r.Header.Del(caseHeader)
			if cs != nil {
				r = r.WithContext(context.WithValue(r.Context(), ctxKey, cs))
			}
		}
		if cs == nil {
			cs = h.state(nil)
		}
		if cs != nil {
			cs.smu.Lock()
			cs.started++
			cs.smu.Unlock()
			defer func() {
				cs.smu.Lock()
				cs.finished++
				cs.smu.Unlock()
			}()
		}
		defer func() {
			if rec := recover(); rec != nil {
				if cs != nil {
					cs.mu.Lock()
					cs.obs.ServerPanic = fmt.Sprint(rec) + "\n" + string(debug.Stack())
					cs.mu.Unlock()
				}
				panic(http.ErrAbortHandler)
			}
			if cs != nil {
				cs.mu.Lock()
				cs.obs.WriteHeaders += n
				cs.mu.Unlock()
			}
		}()
		next.ServeHTTP(countingWriter{w, &n}, r)
	})
}

var (
	tMuxer      = reflect.TypeOf((*goahttp.Muxer)(nil)).Elem()
	tDoer       = reflect.TypeOf((*goahttp.Doer)(nil)).Elem()
	tReqDecoder = reflect.TypeOf((func(*http.Request) goahttp.Decoder)(nil))
	tRespEnc    = reflect.TypeOf((func(context.Context, http.ResponseWriter) goahttp.Encoder)(nil))
	tReqEnc     = reflect.TypeOf((func(*http.Request) goahttp.Encoder)(nil))
	tRespDec    = reflect.TypeOf((func(*http.Response) goahttp.Decoder)(nil))
	tErrHandler = reflect.TypeOf((func(context.Context, http.ResponseWriter, error))(nil))
	tFormatter  = reflect.TypeOf((func(context.Context, error) goahttp.Statuser)(nil))
	tFileSystem = reflect.TypeOf((*http.FileSystem)(nil)).Elem()
	tError      = reflect.TypeOf((*error)(nil)).Elem()
	tContext    = reflect.TypeOf((*context.Context)(nil)).Elem()
	tEndpoint   = reflect.TypeOf((goa.Endpoint)(nil))
)

// buildArgs fills the parameters of NewEndpoints / server.New / client.NewClient by type.
func (h *H) buildArgs(ft reflect.Type, m *mounted, base *url.URL) ([]reflect.Value, error) {
	var args []reflect.Value
	strs := 0
	n := ft.NumIn()
	for i := 0; i < n; i++ {
		pt := ft.In(i)
		if ft.IsVariadic() && i == n-1 {
			// variadic http.FileSystem etc.: pass none
			break
		}
		switch {
		case m.def.ServiceType != nil && pt == m.def.ServiceType:
			args = append(args, reflect.ValueOf(m.stub))
		case m.endpoints.IsValid() && pt == m.endpoints.Type():
			args = append(args, m.endpoints)
		case pt == tMuxer:
			args = append(args, reflect.ValueOf(h.mux))
		case pt == tReqDecoder:
			args = append(args, reflect.ValueOf(goahttp.RequestDecoder))
		case pt == tRespEnc:
			args = append(args, reflect.ValueOf(goahttp.ResponseEncoder))
		case pt == tReqEnc:
			args = append(args, reflect.ValueOf(goahttp.RequestEncoder))
		case pt == tRespDec:
			args = append(args, reflect.ValueOf(goahttp.ResponseDecoder))
		case pt == tErrHandler:
			args = append(args, reflect.ValueOf(h.errHandler))
		case pt == tFormatter:
			args = append(args, reflect.Zero(pt))
		case pt == tDoer:
			args = append(args, reflect.ValueOf(goahttp.Doer(&tap{h: h})).Convert(pt))
		case pt == tUpgrader:
			args = append(args, reflect.ValueOf(goahttp.Upgrader(&websocket.Upgrader{})).Convert(pt))
		case pt == tDialer:
			args = append(args, reflect.ValueOf(goahttp.Dialer(&tapDialer{h: h})).Convert(pt))
		case pt.Kind() == reflect.String:
			if strs == 0 {
				args = append(args, reflect.ValueOf(base.Scheme))
			} else {
				args = append(args, reflect.ValueOf(base.Host))
			}
			strs++
		case pt.Kind() == reflect.Bool:
			args = append(args, reflect.ValueOf(false))
		case pt == tFileSystem:
			args = append(args, reflect.ValueOf(http.FileSystem(http.Dir(os.TempDir()))))
		case pt.Kind() == reflect.Interface && reflect.TypeOf(m.stub).Implements(pt):
			args = append(args, reflect.ValueOf(m.stub))
		default:
			// upgraders, dialers, configurers, multipart funcs: zero value
			args = append(args, reflect.Zero(pt))
		}
	}
	return args, nil
}

func (h *H) errHandler(ctx context.Context, w http.ResponseWriter, err error) {
	if cs := h.state(ctx); cs != nil {
		cs.mu.Lock()
		cs.obs.ErrHandler = append(cs.obs.ErrHandler, err.Error())
		cs.mu.Unlock()
	}
}

// tap is the Doer handed to the generated client.
type tap struct{ h *H }

func (t *tap) Do(req *http.Request) (*http.Response, error) {
	h := t.h
	cs := h.state(req.Context())
	if cs != nil {
		cs.mu.Lock()
		defer cs.mu.Unlock()
	}
	var body []byte
	if req.Body != nil {
		body, _ = io.ReadAll(req.Body)
		req.Body.Close()
	}
	if cs != nil {
		if cs.c.Accept != "" {
			req.Header.Set("Accept", cs.c.Accept)
		}
		var err error
		body, err = applyEdits(req, body, cs.c.Edits)
		if err != nil {
			return nil, err
		}
	}
	req.Body = io.NopCloser(bytes.NewReader(body))
	req.ContentLength = int64(len(body))
	if len(body) == 0 {
		req.Body = http.NoBody
	}
	if cs != nil {
		cs.obs.Requests = append(cs.obs.Requests, observeReq(req, body))
		if cs.c.Canned != nil {
			resp := &http.Response{StatusCode: cs.c.Canned.Status, Header: http.Header{}, Body: io.NopCloser(bytes.NewReader(cs.c.Canned.Body)), Request: req, ProtoMajor: 1, ProtoMinor: 1}
			resp.Status = fmt.Sprintf("%d %s", resp.StatusCode, http.StatusText(resp.StatusCode))
			for k, vs := range cs.c.Canned.Header {
				for _, v := range vs {
					resp.Header.Add(k, v)
				}
			}
			resp.ContentLength = int64(len(cs.c.Canned.Body))
			return resp, nil
		}
	}
	if cs != nil && cs.token != "" {
		req.Header.Set(caseHeader, cs.token)
	}
	if cs != nil {
		// the server-side goroutines of this case take the lock while the request is in flight
		cs.mu.Unlock()
	}
	var resp *http.Response
	var err error
	if cs != nil && (cs.inmem || cs.c.InMemory) {
		resp = h.serveInMemory(req, body)
	} else {
		resp, err = noRedirectClient.Do(req)
	}
	// the response body is read before the lock is taken again: a handler that
	// streams a long body is still running while the client reads it, and its
	// bookkeeping (WriteHeader count, recovered panics) needs the lock
	var rb []byte
	if err == nil {
		rb, _ = io.ReadAll(resp.Body)
		resp.Body.Close()
		resp.Body = io.NopCloser(bytes.NewReader(rb))
	}
	if cs != nil {
		cs.mu.Lock()
	}
	if err != nil {
		return nil, err
	}
	if cs != nil {
		cs.obs.Response = &RawResp{Status: resp.StatusCode, Header: map[string][]string(resp.Header.Clone()), Body: rb}
	}
	return resp, nil
}

// serveInMemory runs the mounted handler on the calling goroutine.
func (h *H) serveInMemory(req *http.Request, body []byte) *http.Response {
	sr := httptest.NewRequest(req.Method, req.URL.String(), bytes.NewReader(body))
	sr.Header = req.Header.Clone()
	if len(body) == 0 {
		sr.Body = http.NoBody
	}
	sr.ContentLength = int64(len(body))
	sr.Host = req.URL.Host
	rec := httptest.NewRecorder()
	func() {
		defer func() {
			if r := recover(); r != nil && r != http.ErrAbortHandler {
				panic(r)
			}
		}()
		h.handler.ServeHTTP(rec, sr)
	}()
	resp := rec.Result()
	resp.Request = req
	return resp
}

var noRedirectClient = &http.Client{CheckRedirect: func(req *http.Request, via []*http.Request) error { return http.ErrUseLastResponse }}

func observeReq(req *http.Request, body []byte) ReqObs {
	return ReqObs{Method: req.Method, URL: req.URL.String(), Path: req.URL.Path, RawPath: req.URL.EscapedPath(), RawQuery: req.URL.RawQuery, Header: map[string][]string(req.Header.Clone()), Body: body}
}

func applyEdits(req *http.Request, body []byte, edits []Edit) ([]byte, error) {
	for _, e := range edits {
		switch e.Op {
		case "del_query", "set_query", "add_query":
			q := req.URL.Query()
			switch e.Op {
			case "del_query":
				q.Del(e.Name)
			case "set_query":
				q.Set(e.Name, e.Value)
			default:
				q.Add(e.Name, e.Value)
			}
			req.URL.RawQuery = q.Encode()
		case "del_header":
			req.Header.Del(e.Name)
		case "set_header":
			req.Header.Set(e.Name, e.Value)
		case "add_header":
			req.Header.Add(e.Name, e.Value)
		case "del_cookie", "set_cookie":
			cookies := req.Cookies()
			req.Header.Del("Cookie")
			for _, c := range cookies {
				if c.Name == e.Name {
					continue
				}
				req.AddCookie(c)
			}
			if e.Op == "set_cookie" {
				req.AddCookie(&http.Cookie{Name: e.Name, Value: e.Value})
			}
		case "set_body":
			body = []byte(e.Value)
		case "del_body":
			body = nil
			req.Header.Del("Content-Type")
		case "set_method":
			req.Method = e.Value
		case "set_path":
			// e.Value is an escaped path
			u, err := url.Parse(e.Value)
			if err != nil {
				return nil, fmt.Errorf("edit set_path: %w", err)
			}
			req.URL.Path, req.URL.RawPath = u.Path, u.RawPath
		case "json_del", "json_set":
			var m map[string]json.RawMessage
			if err := json.Unmarshal(body, &m); err != nil {
				return nil, fmt.Errorf("edit %s: body is not a JSON object: %w", e.Op, err)
			}
			if e.Op == "json_del" {
				delete(m, e.Name)
			} else {
				m[e.Name] = json.RawMessage(e.Value)
			}
			body, _ = json.Marshal(m)
		default:
			return nil, fmt.Errorf("unknown edit %q", e.Op)
		}
	}
	return body, nil
}

// run executes one case.
func (h *H) run(c *Case) (obs *Obs) {
	obs = &Obs{}
	cs := &caseState{c: c, obs: obs}
	h.mu.Lock()
	h.cur = cs
	h.mu.Unlock()
	defer func() {
		if r := recover(); r != nil {
			obs.Panic = fmt.Sprint(r) + "\n" + string(debug.Stack())
		}
		h.mu.Lock()
		h.cur = nil
		h.mu.Unlock()
	}()
	switch c.Op {
	case "burst":
		obs.Sub = h.burst(c)
		return obs
	case "mounts":
		for _, m := range h.svcs {
			if !m.server.IsValid() {
				continue
			}
			mounts := m.server.Elem().FieldByName("Mounts")
			for i := 0; i < mounts.Len(); i++ {
				mp := mounts.Index(i).Elem()
				obs.Mounts = append(obs.Mounts, []string{m.def.Name, mp.FieldByName("Method").String(), mp.FieldByName("Verb").String(), mp.FieldByName("Pattern").String()})
			}
		}
		obs.Handled = h.handled
		return obs
	case "raw":
		req, err := http.NewRequest(c.Raw.Method, h.server.URL+c.Raw.URL, bytes.NewReader(c.Raw.Body))
		if err != nil {
			obs.Err = "raw request: " + err.Error()
			return obs
		}
		for k, vs := range c.Raw.Header {
			for _, v := range vs {
				req.Header.Add(k, v)
			}
		}
		if len(c.Raw.Body) == 0 {
			req.Body = http.NoBody
		}
		obs.Requests = append(obs.Requests, observeReq(req, c.Raw.Body))
		resp, err := noRedirectClient.Do(req)
		if err != nil {
			obs.Err = "raw do: " + err.Error()
			return obs
		}
		rb, _ := io.ReadAll(resp.Body)
		resp.Body.Close()
		obs.Response = &RawResp{Status: resp.StatusCode, Header: map[string][]string(resp.Header.Clone()), Body: rb}
		return obs
	case "call":
	default:
		obs.Err = "unknown op " + c.Op
		return obs
	}
	h.call(cs)
	return obs
}

// call runs one "call" case through the generated client; the case travels in the context.
func (h *H) call(cs *caseState) {
	c := cs.c
	fail := func(msg string) {
		cs.mu.Lock()
		cs.obs.Err = msg
		cs.mu.Unlock()
	}
	m := h.svcs[c.Svc]
	if m == nil {
		fail("unknown service " + c.Svc)
		return
	}
	client := m.client
	if c.Transport == "grpc" {
		client = m.gclient
	}
	if !client.IsValid() {
		fail("service has no " + c.Transport + " client")
		return
	}
	// client endpoint: method of the client returning goa.Endpoint
	ep, err := clientEndpoint(client, c.Method)
	if err != nil {
		fail(err.Error())
		return
	}
	// payload
	var payload any
	if c.HasPayload {
		pt, ok := payloadType(m.def.ServiceType, c.Method)
		if !ok {
			fail("method takes no payload: " + c.Method)
			return
		}
		pv, err := FromV(c.Payload, pt, m.def)
		if err != nil {
			fail("payload conversion: " + err.Error())
			return
		}
		payload = pv.Interface()
	}
	// methods that stream the request body take <Method>RequestData{Payload, Body}
	if rdt, ok := dataType(m.def, c.Method, "RequestData"); ok {
		rd := reflect.New(rdt)
		if payload != nil {
			pf := rd.Elem().FieldByName("Payload")
			pv := reflect.ValueOf(payload)
			if pf.IsValid() && pv.Type().AssignableTo(pf.Type()) {
				pf.Set(pv)
			} else if pf.IsValid() && pf.Kind() == reflect.Pointer && pv.Type().AssignableTo(pf.Type().Elem()) {
				np := reflect.New(pf.Type().Elem())
				np.Elem().Set(pv)
				pf.Set(np)
			}
		}
		if bf := rd.Elem().FieldByName("Body"); bf.IsValid() {
			bf.Set(reflect.ValueOf(io.NopCloser(bytes.NewReader(c.ReqBody))))
		}
		payload = rd.Interface()
	}
	cctx, cancel := context.WithCancel(context.WithValue(context.Background(), ctxKey, cs))
	defer cancel()
	if c.CallerMD && c.Transport == "grpc" {
		cctx = metadata.AppendToOutgoingContext(cctx, "x-verif-caller", "present")
	}
	res, cerr := ep(cctx, payload)
	if sm, ok := streamOf(res); ok && cerr == nil {
		if c.Stream == nil {
			c.Stream = &StreamSpec{}
		}
		res, cerr = h.driveClientStream(cs, m.def, sm)
		// a hijacked connection or a half-closed gRPC stream does not order the
		// end of the server-side handler before the end of the client call
		cs.waitHandlers(c.Stream.timeout())
	}
	// methods that stream the response body return <Method>ResponseData{Result, Body}
	var respBody []byte
	hadRespBody, respBodyErr := false, ""
	if res != nil {
		if rdt, ok := dataType(m.def, c.Method, "ResponseData"); ok {
			rv := reflect.ValueOf(res)
			if rv.Kind() == reflect.Pointer && !rv.IsNil() && rv.Elem().Type() == rdt {
				if bf := rv.Elem().FieldByName("Body"); bf.IsValid() && !bf.IsNil() {
					if rc, ok := bf.Interface().(io.ReadCloser); ok {
						b, err := io.ReadAll(rc)
						_ = rc.Close()
						respBody, hadRespBody = b, true
						if err != nil {
							respBodyErr = err.Error()
						}
					}
				}
				if rf := rv.Elem().FieldByName("Result"); rf.IsValid() {
					res = rf.Interface()
					if rf.Kind() == reflect.Pointer && rf.IsNil() {
						res = nil
					}
				} else {
					res = nil
				}
			}
		}
	}
	cs.mu.Lock()
	defer cs.mu.Unlock()
	cs.obs.HadRespBody, cs.obs.ResultBody, cs.obs.ResultBodyErr = hadRespBody, respBody, respBodyErr
	cs.smu.Lock()
	if cs.serverStream.Ran {
		so := cs.serverStream
		cs.obs.ServerStream = &so
	}
	if cs.clientStream.Ran || cs.clientStream.Dial != nil {
		co := cs.clientStream
		cs.obs.ClientStream = &co
	}
	if cs.dialResp != nil && cs.obs.Response == nil {
		cs.obs.Response = cs.dialResp
	}
	if cs.clientStream.Dial != nil && len(cs.obs.Requests) == 0 {
		cs.obs.Requests = append(cs.obs.Requests, *cs.clientStream.Dial)
	}
	cs.smu.Unlock()
	if cerr != nil {
		cs.obs.ClientErr = observeErr(cerr)
	} else if res != nil {
		cs.obs.HasResult = true
		cs.obs.Result = ToV(reflect.ValueOf(res))
	}
}

var tReadCloser = reflect.TypeOf((*io.ReadCloser)(nil)).Elem()

// dataType finds the <Method>RequestData / <Method>ResponseData struct of a method.
func dataType(def *ServiceDef, method, suffix string) (reflect.Type, bool) {
	want := norm(method) + norm(suffix)
	for n, t := range def.Types {
		if norm(n) == want && t.Kind() == reflect.Struct {
			return t, true
		}
	}
	return nil, false
}

// burst runs the "call" cases of c.Burst with c.Workers goroutines.
func (h *H) burst(c *Case) []*Obs {
	h.mu.Lock()
	h.cur = nil
	h.burstSeq++
	seq := h.burstSeq
	if h.cases == nil {
		h.cases = map[string]*caseState{}
	}
	states := make([]*caseState, len(c.Burst))
	for i := range c.Burst {
		cs := &caseState{c: &c.Burst[i], obs: &Obs{}, token: fmt.Sprintf("b%d-%d", seq, i), inmem: c.InMemory || c.Burst[i].InMemory}
		states[i] = cs
		h.cases[cs.token] = cs
	}
	h.mu.Unlock()
	workers := c.Workers
	if workers < 1 {
		workers = 1
	}
	idx := make(chan int)
	var wg sync.WaitGroup
	for w := 0; w < workers; w++ {
		wg.Add(1)
		go func() {
			defer wg.Done()
			for i := range idx {
				cs := states[i]
				func() {
					defer func() {
						if r := recover(); r != nil {
							cs.mu.Lock()
							cs.obs.Panic = fmt.Sprint(r) + "\n" + string(debug.Stack())
							cs.mu.Unlock()
						}
					}()
					if cs.c.Op != "" && cs.c.Op != "call" {
						cs.obs.Err = "burst supports call cases only"
						return
					}
					h.call(cs)
				}()
			}
		}()
	}
	for i := range states {
		idx <- i
	}
	close(idx)
	wg.Wait()
	out := make([]*Obs, len(states))
	h.mu.Lock()
	for i, cs := range states {
		cs.mu.Lock()
		out[i] = cs.obs
		cs.mu.Unlock()
		delete(h.cases, cs.token)
	}
	h.mu.Unlock()
	return out
}

func norm(s string) string {
	var b strings.Builder
	for _, r := range strings.ToLower(s) {
		if (r >= 'a' && r <= 'z') || (r >= '0' && r <= '9') {
			b.WriteRune(r)
		}
	}
	return b.String()
}

func clientEndpoint(client reflect.Value, method string) (goa.Endpoint, error) {
	t := client.Type()
	for i := 0; i < t.NumMethod(); i++ {
		mt := t.Method(i)
		if norm(mt.Name) != norm(method) {
			continue
		}
		if mt.Type.NumOut() == 1 && mt.Type.Out(0) == tEndpoint && mt.Type.NumIn() == 1 {
			out := client.Method(i).Call(nil)
			return out[0].Interface().(goa.Endpoint), nil
		}
	}
	return nil, fmt.Errorf("client has no endpoint method for %q", method)
}

// serviceMethod finds the method of the Service interface for a design method name.
func serviceMethod(st reflect.Type, method string) (reflect.Method, bool) {
	for i := 0; i < st.NumMethod(); i++ {
		if norm(st.Method(i).Name) == norm(method) {
			return st.Method(i), true
		}
	}
	return reflect.Method{}, false
}

// payloadType returns the Go type of the payload parameter.
func payloadType(st reflect.Type, method string) (reflect.Type, bool) {
	mt, ok := serviceMethod(st, method)
	if !ok {
		return nil, false
	}
	// interface method: In(0) is context
	if mt.Type.NumIn() >= 2 && mt.Type.In(0) == tContext {
		pt := mt.Type.In(1)
		if pt.Kind() == reflect.Interface && pt.NumMethod() > 0 {
			return nil, false // a stream, not a payload
		}
		return pt, true
	}
	return nil, false
}

// Invoke is called by the glue stubs: it records the payload and produces the
// results the case asks for. args are the method arguments after the context;
// results describes the result types.
func (h *H) Invoke(svc, method string, ctx context.Context, args []any, results []reflect.Type) []any {
	cs := h.state(ctx)
	out := make([]any, len(results))
	if cs == nil {
		out[len(out)-1] = errors.New("harness: no case in flight")
		return out
	}
	cs.mu.Lock()
	defer cs.mu.Unlock()
	cs.obs.StubCalls++
	for _, a := range args {
		// a streamed request body (SkipRequestBodyEncodeDecode): drain it
		if rc, ok := a.(io.ReadCloser); ok && rc != nil {
			b, err := io.ReadAll(rc)
			_ = rc.Close()
			cs.obs.HadReqBody = true
			cs.obs.ReceivedBody = b
			if err != nil {
				cs.obs.ReceivedBodyErr = err.Error()
			}
		}
	}
	if len(args) > 0 && args[0] != nil {
		rv := reflect.ValueOf(args[0])
		_, isStream := streamOf(args[0])
		if _, isBody := args[0].(io.ReadCloser); !isBody && !isStream && !(rv.Kind() == reflect.Interface) {
			cs.obs.HadPayload = true
			cs.obs.Received = ToV(rv)
		}
	}
	spec := cs.c.Stub
	if spec.Error != nil {
		out[len(out)-1] = buildError(spec.Error, h.defs[svc])
		return out
	}
	for _, a := range args {
		if sm, ok := streamOf(a); ok {
			// the client end runs concurrently and finishes under cs.mu: give it up while streaming
			cs.mu.Unlock()
			err := h.serveStream(cs, h.defs[svc], sm, func(rt reflect.Type) (reflect.Value, error) {
				if !spec.HasResult {
					return reflect.Zero(rt), nil
				}
				return FromV(spec.Result, rt, h.defs[svc])
			})
			cs.mu.Lock()
			if err != nil {
				out[len(out)-1] = err
			}
			return out
		}
	}
	for i, rt := range results {
		switch {
		case rt == tError:
		case rt == tReadCloser:
			// the streamed response body (SkipResponseBodyEncodeDecode)
			out[i] = io.NopCloser(bytes.NewReader(spec.RespBody))
		case rt.Kind() == reflect.String && i > 0 && len(results) == 3:
			out[i] = spec.View
		case i == 0 && spec.HasResult:
			rv, err := FromV(spec.Result, rt, h.defs[svc])
			if err != nil {
				cs.obs.Err = "result conversion: " + err.Error()
				out[len(out)-1] = errors.New("harness: " + err.Error())
				return out
			}
			out[i] = rv.Interface()
		}
	}
	return out
}

type namer struct{ name, msg string }

func (n namer) Error() string        { return n.msg }
func (n namer) GoaErrorName() string { return n.name }

func buildError(e *ErrorSpec, def *ServiceDef) error {
	svcErr := func() *goa.ServiceError {
		s := &goa.ServiceError{Name: e.Name, ID: e.ID, Message: e.Message, Timeout: e.Timeout, Temporary: e.Temporary, Fault: e.Fault}
		return s
	}
	switch e.Kind {
	case "made":
		mk, ok := def.Makers[e.Maker]
		if !ok {
			return fmt.Errorf("harness: unknown error constructor %q", e.Maker)
		}
		out := reflect.ValueOf(mk).Call([]reflect.Value{reflect.ValueOf(errors.New(e.Message))})
		if err, ok := out[0].Interface().(error); ok {
			return err
		}
		return fmt.Errorf("harness: %s did not return an error", e.Maker)
	case "service":
		return svcErr()
	case "wrapped-service":
		return fmt.Errorf("wrapped: %w", svcErr())
	case "plain":
		if se := Sentinels[e.Sentinel]; se != nil {
			return se
		}
		return errors.New(e.Message)
	case "wrapped-plain":
		if se := Sentinels[e.Sentinel]; se != nil {
			return fmt.Errorf("wrapped: %w", se)
		}
		return fmt.Errorf("wrapped: %w", errors.New(e.Message))
	case "namer":
		return namer{e.Name, e.Message}
	case "custom":
		t, ok := def.Types[e.Type]
		if !ok {
			return fmt.Errorf("harness: unknown error type %q", e.Type)
		}
		// error types are used through pointers when they are structs
		target := t
		if t.Kind() == reflect.Struct {
			target = reflect.PointerTo(t)
		}
		rv, err := FromV(e.Value, target, def)
		if err != nil {
			return fmt.Errorf("harness: error value conversion: %v", err)
		}
		if er, ok := rv.Interface().(error); ok {
			return er
		}
		return fmt.Errorf("harness: %s is not an error", e.Type)
	}
	return errors.New("harness: unknown error kind " + e.Kind)
}

func observeErr(err error) *ErrObs {
	o := &ErrObs{GoType: fmt.Sprintf("%T", err), Text: err.Error(), Value: value.Nil()}
	var n interface{ GoaErrorName() string }
	if errors.As(err, &n) {
		o.Name = n.GoaErrorName()
	}
	var se *goa.ServiceError
	if errors.As(err, &se) {
		o.IsService = true
		o.ID, o.Message, o.Timeout, o.Temporary, o.Fault = se.ID, se.Message, se.Timeout, se.Temporary, se.Fault
		if se.Field != nil {
			o.Field = *se.Field
		}
		return o
	}
	rv := reflect.ValueOf(err)
	if rv.Kind() == reflect.Pointer && !rv.IsNil() && rv.Elem().Kind() == reflect.Struct {
		o.Value = ToV(rv)
	} else if rv.Kind() != reflect.Pointer && rv.Kind() != reflect.Struct && rv.Kind() != reflect.Interface {
		o.Value = ToV(rv)
	}
	return o
}

// Auth is called by the glue for every Auther method: it records the
// credential and scheme it received and accepts or rejects as the case says.
func (h *H) Auth(svc, fn string, ctx context.Context, args []any, results []reflect.Type) []any {
	cs := h.state(ctx)
	if cs != nil {
		cs.mu.Lock()
		defer cs.mu.Unlock()
	}
	out := make([]any, len(results))
	out[0] = ctx
	call := AuthCall{Func: fn}
	var strs []string
	for _, a := range args {
		switch v := a.(type) {
		case string:
			strs = append(strs, v)
		default:
			rv := reflect.ValueOf(a)
			if rv.Kind() == reflect.Pointer && !rv.IsNil() && rv.Elem().Kind() == reflect.Struct {
				e := rv.Elem()
				if f := e.FieldByName("Name"); f.IsValid() {
					call.Scheme = f.String()
				}
				if f := e.FieldByName("Scopes"); f.IsValid() {
					for i := 0; i < f.Len(); i++ {
						call.Scopes = append(call.Scopes, f.Index(i).String())
					}
				}
				if f := e.FieldByName("RequiredScopes"); f.IsValid() {
					for i := 0; i < f.Len(); i++ {
						call.Req = append(call.Req, f.Index(i).String())
					}
				}
			}
		}
	}
	if len(strs) == 2 {
		call.User, call.Pass = strs[0], strs[1]
	} else if len(strs) == 1 {
		call.Key = strs[0]
	}
	if cs != nil && cs.c.Auth != nil {
		call.Accept = cs.c.Auth.Accept[call.Scheme]
		if cs.c.Auth.UseGranted {
			for _, a := range args {
				rv := reflect.ValueOf(a)
				if rv.Kind() != reflect.Pointer || rv.IsNil() || rv.Elem().Kind() != reflect.Struct {
					continue
				}
				if mv := rv.MethodByName("Validate"); mv.IsValid() && mv.Type().NumIn() == 1 && mv.Type().In(0) == reflect.TypeOf([]string(nil)) {
					granted := cs.c.Auth.Granted
					if granted == nil {
						granted = []string{}
					}
					res := mv.Call([]reflect.Value{reflect.ValueOf(granted)})
					call.Validated = true
					if len(res) == 1 && !res[0].IsNil() {
						call.ValidateErr = fmt.Sprint(res[0].Interface())
						if call.ValidateErr == "" {
							call.ValidateErr = "error"
						}
						call.Accept = false
					}
				}
			}
		}
	}
	if cs != nil {
		cs.obs.AuthCalls = append(cs.obs.AuthCalls, call)
	}
	if !call.Accept {
		out[len(out)-1] = fmt.Errorf("denied:%s", call.Scheme)
	}
	return out
}
