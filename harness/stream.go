package harness

import (
	"bufio"
	"bytes"
	"context"
	"errors"
	"fmt"
	"io"
	"net"
	"net/http"
	"reflect"
	"runtime/debug"
	"strings"
	"sync"
	"time"

	"github.com/gorilla/websocket"
	goahttp "goa.design/goa/v3/http"

	"verif/internal/value"
)

// StreamSpec scripts one streaming call. Both ends follow the same script so
// that every Send is matched by a Recv on the other side and the order of the
// messages on each direction is fixed by the case, not by the scheduler.
type StreamSpec struct {
	// Script: 'c' = the client sends its next message and the server receives
	// it, 's' = the server sends its next result and the client receives it.
	Script string `json:"script"`
	// Send: messages streamed by the client (streaming payload), in order.
	Send []value.V `json:"send,omitempty"`
	// Results: results streamed by the server (streaming result), in order.
	Results []value.V `json:"results,omitempty"`
	// View: the stub calls SetView(View) before its first Send when the
	// server stream has that method and View is not empty.
	View string `json:"view,omitempty"`
	// ClientCloses: bidirectional streams only. true = the client calls Close
	// after the script and the server must then read the end of the stream;
	// false = the server closes and the client must read the end.
	ClientCloses bool `json:"client_closes,omitempty"`
	// OpTimeoutMs bounds every blocking stream operation (default 20000).
	OpTimeoutMs int `json:"op_timeout_ms,omitempty"`
}

// StreamObs is what one end of a streaming call saw.
type StreamObs struct {
	Ran bool `json:"ran"`
	// Received: messages returned by Recv, in order.
	Received []value.V `json:"received,omitempty"`
	// Log has one entry per stream operation: "send:<i>:ok", "recv:<i>:ok",
	// "recv:<i>:err:<text>", "send:<i>:timeout", "end:eof", "end:msg", "close:ok" …
	Log []string `json:"log,omitempty"`
	// Done: the script and the closing step ran to the end on this side.
	Done bool `json:"done"`
	// End: how the stream ended for this side: "eof" (Recv returned io.EOF),
	// "closed" (this side closed), "result" (CloseAndRecv returned the result),
	// "msg" (an unexpected extra message), "err:<text>", "timeout".
	End string `json:"end,omitempty"`
	// Dial: the upgrade request the generated client produced (client side).
	Dial *ReqObs `json:"dial,omitempty"`
	// DialStatus: status of the handshake response (101 on success).
	DialStatus int `json:"dial_status,omitempty"`
	DialHeader map[string][]string `json:"dial_header,omitempty"`
}

func (s *StreamSpec) timeout() time.Duration {
	if s != nil && s.OpTimeoutMs > 0 {
		return time.Duration(s.OpTimeoutMs) * time.Millisecond
	}
	return 20 * time.Second
}

// hijackable response writers for the websocket upgrade
func (w countingWriter) Hijack() (net.Conn, *bufio.ReadWriter, error) {
	if hj, ok := w.ResponseWriter.(http.Hijacker); ok {
		return hj.Hijack()
	}
	return nil, nil, errors.New("harness: response writer cannot be hijacked")
}

var (
	tUpgrader = reflect.TypeOf((*goahttp.Upgrader)(nil)).Elem()
	tDialer   = reflect.TypeOf((*goahttp.Dialer)(nil)).Elem()
)

// tapDialer is the websocket dialer handed to the generated client: it
// records the upgrade request and tells the server side which case it serves.
type tapDialer struct{ h *H }

func (t *tapDialer) DialContext(ctx context.Context, u string, hdr http.Header) (*websocket.Conn, *http.Response, error) {
	cs := t.h.state(ctx)
	hh := hdr.Clone()
	if hh == nil {
		hh = http.Header{}
	}
	if cs != nil {
		ro := ReqObs{Method: "GET", URL: u, Header: map[string][]string(hdr.Clone())}
		if i := strings.Index(u, "://"); i >= 0 {
			rest := u[i+3:]
			if j := strings.IndexAny(rest, "/?"); j >= 0 {
				pq := rest[j:]
				ro.RawPath = pq
				if k := strings.Index(pq, "?"); k >= 0 {
					ro.RawPath, ro.RawQuery = pq[:k], pq[k+1:]
				}
				ro.Path = ro.RawPath
			}
		}
		cs.smu.Lock()
		cs.clientStream.Dial = &ro
		cs.smu.Unlock()
		if cs.token != "" {
			hh.Set(caseHeader, cs.token)
		}
	}
	d := websocket.Dialer{HandshakeTimeout: 30 * time.Second}
	conn, resp, err := d.DialContext(ctx, u, hh)
	if cs != nil && resp != nil {
		cs.smu.Lock()
		cs.clientStream.DialStatus = resp.StatusCode
		cs.clientStream.DialHeader = map[string][]string(resp.Header.Clone())
		if err != nil && resp.Body != nil {
			// the upgrade was refused with an ordinary response: keep it like the tap does
			rb, _ := io.ReadAll(resp.Body)
			resp.Body.Close()
			resp.Body = io.NopCloser(bytes.NewReader(rb))
			cs.dialResp = &RawResp{Status: resp.StatusCode, Header: map[string][]string(resp.Header.Clone()), Body: rb}
		}
		cs.smu.Unlock()
	}
	return conn, resp, err
}

// streamMethods describes the methods of a generated stream value.
type streamMethods struct {
	v                                                  reflect.Value
	send, recv, close_, sendAndClose, closeAndRecv, sv reflect.Value
}

func streamOf(x any) (streamMethods, bool) {
	sm := streamMethods{}
	if x == nil {
		return sm, false
	}
	if _, isBody := x.(io.ReadCloser); isBody {
		return sm, false
	}
	v := reflect.ValueOf(x)
	if v.Kind() != reflect.Pointer && v.Kind() != reflect.Interface {
		return sm, false
	}
	sm.v = v
	sm.send = v.MethodByName("Send")
	sm.recv = v.MethodByName("Recv")
	sm.close_ = v.MethodByName("Close")
	sm.sendAndClose = v.MethodByName("SendAndClose")
	sm.closeAndRecv = v.MethodByName("CloseAndRecv")
	sm.sv = v.MethodByName("SetView")
	ok := sm.send.IsValid() || sm.recv.IsValid() || sm.sendAndClose.IsValid() || sm.closeAndRecv.IsValid()
	return sm, ok
}

// timed runs f and reports whether it returned in time.
func timed(d time.Duration, f func()) bool {
	done := make(chan struct{})
	go func() {
		defer func() {
			_ = recover()
			close(done)
		}()
		f()
	}()
	select {
	case <-done:
		return true
	case <-time.After(d):
		return false
	}
}

// firstStack keeps the frames of generated code from a stack trace.
func firstStack(st string) string {
	var out []string
	for _, l := range strings.Split(st, "\n") {
		if strings.Contains(l, "/gen/") || strings.Contains(l, "goa.design/goa") {
			out = append(out, strings.TrimSpace(l))
		}
		if len(out) >= 8 {
			break
		}
	}
	return strings.Join(out, " | ")
}

func errText(err error) string {
	if err == nil {
		return ""
	}
	return err.Error()
}

// streamEnd drives one end of a scripted stream. mine is the letter of the
// ops on which this end sends; msgs are the messages this end sends.
type streamEnd struct {
	sm   streamMethods
	spec *StreamSpec
	obs  *StreamObs
	mu   *sync.Mutex
	def  *ServiceDef
	mine byte
	msgs []value.V
}

func (e *streamEnd) log(format string, a ...any) {
	e.mu.Lock()
	e.obs.Log = append(e.obs.Log, fmt.Sprintf(format, a...))
	e.mu.Unlock()
}

// doSend sends message i; false = stop the script.
func (e *streamEnd) doSend(i int, fn reflect.Value, what string) bool {
	if !fn.IsValid() {
		e.log("%s:%d:err:stream has no such method", what, i)
		return false
	}
	if i >= len(e.msgs) {
		e.log("%s:%d:err:script asks for more messages than the case holds", what, i)
		return false
	}
	mv, err := FromV(e.msgs[i], fn.Type().In(0), e.def)
	if err != nil {
		e.log("%s:%d:err:harness conversion: %v", what, i, err)
		return false
	}
	var out []reflect.Value
	var pan any
	if !timed(e.spec.timeout(), func() {
		defer func() {
			if r := recover(); r != nil {
				pan = fmt.Sprintf("%v\n%s", r, firstStack(string(debug.Stack())))
				panic(r)
			}
		}()
		out = fn.Call([]reflect.Value{mv})
	}) {
		e.log("%s:%d:timeout", what, i)
		return false
	}
	if out == nil {
		e.log("%s:%d:panic:%v", what, i, pan)
		return false
	}
	if len(out) > 0 && !out[len(out)-1].IsNil() {
		e.log("%s:%d:err:%v", what, i, out[len(out)-1].Interface())
		return false
	}
	e.log("%s:%d:ok", what, i)
	return true
}

// doRecv receives one message. It returns the outcome: "ok", "eof", "err:…", "timeout", "panic:…".
func (e *streamEnd) doRecv(fn reflect.Value) (string, reflect.Value) {
	var out []reflect.Value
	var pan any
	if !timed(e.spec.timeout(), func() {
		defer func() {
			if r := recover(); r != nil {
				pan = fmt.Sprintf("%v\n%s", r, firstStack(string(debug.Stack())))
				panic(r)
			}
		}()
		out = fn.Call(nil)
	}) {
		return "timeout", reflect.Value{}
	}
	if out == nil {
		return fmt.Sprintf("panic:%v", pan), reflect.Value{}
	}
	if ev := out[len(out)-1]; !ev.IsNil() {
		err := ev.Interface().(error)
		if errors.Is(err, io.EOF) {
			return "eof", reflect.Value{}
		}
		return "err:" + err.Error(), reflect.Value{}
	}
	return "ok", out[0]
}

// script runs the ops; it returns false when the script had to stop early.
func (e *streamEnd) script() bool {
	ns, nr := 0, 0
	for k := 0; k < len(e.spec.Script); k++ {
		if e.spec.Script[k] == e.mine {
			if !e.doSend(ns, e.sm.send, "send") {
				return false
			}
			ns++
			continue
		}
		if !e.sm.recv.IsValid() {
			e.log("recv:%d:err:stream has no Recv method", nr)
			return false
		}
		res, v := e.doRecv(e.sm.recv)
		if res != "ok" {
			e.log("recv:%d:%s", nr, res)
			e.mu.Lock()
			e.obs.End = res
			e.mu.Unlock()
			return false
		}
		e.mu.Lock()
		e.obs.Received = append(e.obs.Received, ToV(v))
		e.mu.Unlock()
		e.log("recv:%d:ok", nr)
		nr++
	}
	return true
}

// expectEnd reads once more: the stream must be over.
func (e *streamEnd) expectEnd() {
	res, v := e.doRecv(e.sm.recv)
	switch res {
	case "ok":
		e.mu.Lock()
		e.obs.Received = append(e.obs.Received, ToV(v))
		e.obs.End = "msg"
		e.mu.Unlock()
		e.log("end:msg")
	default:
		e.mu.Lock()
		e.obs.End = res
		e.mu.Unlock()
		e.log("end:%s", res)
	}
}

func (e *streamEnd) setEnd(s string) {
	e.mu.Lock()
	e.obs.End = s
	e.mu.Unlock()
}

func (e *streamEnd) doClose() {
	if !e.sm.close_.IsValid() {
		return
	}
	var out []reflect.Value
	if !timed(e.spec.timeout(), func() { out = e.sm.close_.Call(nil) }) {
		e.log("close:timeout")
		return
	}
	if len(out) > 0 && !out[0].IsNil() {
		e.log("close:err:%v", out[0].Interface())
		return
	}
	e.log("close:ok")
}

// serveStream is the server end: called by Invoke (cs.mu is NOT held).
func (h *H) serveStream(cs *caseState, def *ServiceDef, sm streamMethods, resultT func(reflect.Type) (reflect.Value, error)) error {
	spec := cs.c.Stream
	if spec == nil {
		spec = &StreamSpec{}
	}
	e := &streamEnd{sm: sm, spec: spec, obs: &cs.serverStream, mu: &cs.smu, def: def, mine: 's', msgs: spec.Results}
	cs.smu.Lock()
	cs.serverStream.Ran = true
	cs.smu.Unlock()
	if sm.sv.IsValid() && spec.View != "" {
		sm.sv.Call([]reflect.Value{reflect.ValueOf(spec.View)})
	}
	if !e.script() {
		e.doClose()
		return nil
	}
	switch {
	case sm.sendAndClose.IsValid():
		// payload streaming: the client ends the stream, then the result goes out
		e.expectEnd()
		rv, err := resultT(sm.sendAndClose.Type().In(0))
		if err != nil {
			e.log("sendandclose:err:harness conversion: %v", err)
			return nil
		}
		var out []reflect.Value
		if !timed(spec.timeout(), func() { out = sm.sendAndClose.Call([]reflect.Value{rv}) }) {
			e.log("sendandclose:timeout")
			return nil
		}
		if len(out) > 0 && !out[0].IsNil() {
			e.log("sendandclose:err:%v", out[0].Interface())
			return nil
		}
		e.log("sendandclose:ok")
	case sm.recv.IsValid() && spec.ClientCloses:
		e.expectEnd()
		e.doClose()
	default:
		e.doClose()
		cs.smu.Lock()
		if cs.serverStream.End == "" {
			cs.serverStream.End = "closed"
		}
		cs.smu.Unlock()
	}
	cs.smu.Lock()
	cs.serverStream.Done = true
	cs.smu.Unlock()
	return nil
}

// driveClientStream is the client end. It returns the final result of a
// payload-streaming call (CloseAndRecv) when there is one.
func (h *H) driveClientStream(cs *caseState, def *ServiceDef, sm streamMethods) (res any, cerr error) {
	spec := cs.c.Stream
	e := &streamEnd{sm: sm, spec: spec, obs: &cs.clientStream, mu: &cs.smu, def: def, mine: 'c', msgs: spec.Send}
	cs.smu.Lock()
	cs.clientStream.Ran = true
	cs.smu.Unlock()
	if !e.script() {
		return nil, nil
	}
	switch {
	case sm.closeAndRecv.IsValid():
		r, v := e.doRecv(sm.closeAndRecv)
		e.log("closeandrecv:%s", r)
		switch {
		case r == "ok":
			e.setEnd("result")
			if v.IsValid() && !(v.Kind() == reflect.Pointer && v.IsNil()) {
				res = v.Interface()
			}
		case strings.HasPrefix(r, "err:"):
			e.setEnd(r)
			cerr = errors.New(strings.TrimPrefix(r, "err:"))
		default:
			e.setEnd(r)
			return nil, nil
		}
	case sm.send.IsValid() && sm.recv.IsValid() && spec.ClientCloses:
		e.doClose()
		e.setEnd("closed")
	case sm.recv.IsValid():
		e.expectEnd()
	default:
		e.doClose()
		e.setEnd("closed")
	}
	cs.smu.Lock()
	cs.clientStream.Done = true
	cs.smu.Unlock()
	return res, cerr
}

// waitHandlers waits until every server-side handler of the case has returned.
func (cs *caseState) waitHandlers(d time.Duration) {
	deadline := time.Now().Add(d)
	for time.Now().Before(deadline) {
		cs.smu.Lock()
		ok := cs.started > 0 && cs.finished == cs.started
		cs.smu.Unlock()
		if ok {
			return
		}
		time.Sleep(200 * time.Microsecond)
	}
	cs.smu.Lock()
	cs.clientStream.Log = append(cs.clientStream.Log, fmt.Sprintf("wait:timeout:%d handlers started, %d returned", cs.started, cs.finished))
	cs.smu.Unlock()
}
