package harness

import (
	"context"
	"fmt"
	"net"
	"reflect"

	"google.golang.org/grpc"
	"google.golang.org/grpc/credentials/insecure"
	"google.golang.org/grpc/metadata"
	"google.golang.org/grpc/status"
	"google.golang.org/grpc/test/bufconn"
)

var tCallOption = reflect.TypeOf((*grpc.CallOption)(nil)).Elem()

// startGRPC serves the gRPC transports of the registered services on an
// in-memory listener and builds the generated gRPC clients.
func (h *H) startGRPC() error {
	any := false
	for _, def := range h.defs {
		if def.GRPCNewServer != nil {
			any = true
		}
	}
	if !any {
		return nil
	}
	lis := bufconn.Listen(1 << 20)
	gs := grpc.NewServer(grpc.UnaryInterceptor(h.serverInterceptor), grpc.StreamInterceptor(h.serverStreamInterceptor))
	for name, m := range h.svcs {
		def := m.def
		if def.GRPCNewServer == nil {
			continue
		}
		ns := reflect.ValueOf(def.GRPCNewServer)
		args, err := h.buildArgs(ns.Type(), m, nil)
		if err != nil {
			return fmt.Errorf("%s grpc server.New: %w", name, err)
		}
		srv := ns.Call(args)[0]
		reg := reflect.ValueOf(def.GRPCRegister)
		reg.Call([]reflect.Value{reflect.ValueOf(gs), srv})
	}
	go func() { _ = gs.Serve(lis) }()
	conn, err := grpc.NewClient("passthrough:///bufnet",
		grpc.WithContextDialer(func(ctx context.Context, _ string) (net.Conn, error) { return lis.DialContext(ctx) }),
		grpc.WithTransportCredentials(insecure.NewCredentials()),
		grpc.WithUnaryInterceptor(h.clientInterceptor))
	if err != nil {
		return fmt.Errorf("grpc dial: %w", err)
	}
	for name, m := range h.svcs {
		if m.def.GRPCNewClient == nil {
			continue
		}
		nc := reflect.ValueOf(m.def.GRPCNewClient)
		nt := nc.Type()
		var args []reflect.Value
		for i := 0; i < nt.NumIn(); i++ {
			pt := nt.In(i)
			switch {
			case nt.IsVariadic() && i == nt.NumIn()-1:
			case reflect.TypeOf(conn).AssignableTo(pt):
				args = append(args, reflect.ValueOf(conn))
			default:
				return fmt.Errorf("%s grpc client.NewClient: unexpected parameter %s", name, pt)
			}
		}
		m.gclient = nc.Call(args)[0]
	}
	return nil
}

// serverInterceptor records the request metadata the server received.
func (h *H) serverInterceptor(ctx context.Context, req any, info *grpc.UnaryServerInfo, handler grpc.UnaryHandler) (any, error) {
	if cs := h.state(nil); cs != nil {
		if md, ok := metadata.FromIncomingContext(ctx); ok {
			cs.mu.Lock()
			cs.obs.GRPCMetadata = map[string][]string{}
			for k, v := range md {
				switch k {
				case ":authority", "content-type", "user-agent", "grpc-accept-encoding":
					continue
				}
				cs.obs.GRPCMetadata[k] = v
			}
			cs.mu.Unlock()
		}
	}
	return handler(ctx, req)
}

// serverStreamInterceptor records the request metadata of a streaming call and
// brackets the handler so that the client end can wait for it.
func (h *H) serverStreamInterceptor(srv any, ss grpc.ServerStream, info *grpc.StreamServerInfo, handler grpc.StreamHandler) error {
	cs := h.state(nil)
	if cs != nil {
		cs.smu.Lock()
		cs.started++
		cs.smu.Unlock()
		defer func() {
			cs.smu.Lock()
			cs.finished++
			cs.smu.Unlock()
		}()
		if md, ok := metadata.FromIncomingContext(ss.Context()); ok {
			cs.mu.Lock()
			cs.obs.GRPCMetadata = map[string][]string{}
			for k, v := range md {
				switch k {
				case ":authority", "content-type", "user-agent", "grpc-accept-encoding":
					continue
				}
				cs.obs.GRPCMetadata[k] = v
			}
			cs.mu.Unlock()
		}
	}
	return handler(srv, ss)
}

// clientInterceptor records the response header and trailer metadata and the status code.
func (h *H) clientInterceptor(ctx context.Context, method string, req, reply any, cc *grpc.ClientConn, invoker grpc.UnaryInvoker, opts ...grpc.CallOption) error {
	var hdr, trl metadata.MD
	opts = append(opts, grpc.Header(&hdr), grpc.Trailer(&trl))
	err := invoker(ctx, method, req, reply, cc, opts...)
	if cs := h.state(ctx); cs != nil {
		cs.mu.Lock()
		cs.obs.GRPCHeader = map[string][]string{}
		for k, v := range hdr {
			if k == "content-type" {
				continue
			}
			cs.obs.GRPCHeader[k] = v
		}
		cs.obs.GRPCTrailer = map[string][]string(trl)
		cs.obs.GRPCCode = status.Code(err).String()
		cs.mu.Unlock()
	}
	return err
}

var _ = tCallOption
