// Command protocshim stands in for protoc, which is not installed in the
// sandbox. goa's gRPC generator runs
//
//	protoc <file> --proto_path <dir> --go_out <dir> --go-grpc_out <dir> --go_opt=paths=source_relative --go-grpc_opt=paths=source_relative [-I inc]
//
// The shim parses the file with the verifier's proto3 parser, refuses it the
// way protoc would when it is not well formed (its own checks plus
// protodesc.NewFile of the protobuf runtime), hands the descriptor to the
// REAL protoc-gen-go plugin (built from the module cache) to obtain the
// message code, and writes the service stubs protoc-gen-go-grpc would write
// (that plugin is not in the module cache) from a template.
package main

import (
	"bytes"
	"fmt"
	"os"
	"os/exec"
	"path/filepath"
	"strings"
	"text/template"

	"google.golang.org/protobuf/proto"
	"google.golang.org/protobuf/types/descriptorpb"
	"google.golang.org/protobuf/types/pluginpb"

	"verif/internal/protoparse"
)

func die(format string, a ...any) {
	fmt.Fprintf(os.Stderr, format+"\n", a...)
	os.Exit(1)
}

func main() {
	var file, goOut, grpcOut string
	args := os.Args[1:]
	for i := 0; i < len(args); i++ {
		a := args[i]
		switch {
		case a == "--proto_path" || a == "-I":
			i++
		case a == "--go_out":
			i++
			goOut = args[i]
		case strings.HasPrefix(a, "--go_out="):
			goOut = strings.TrimPrefix(a, "--go_out=")
		case a == "--go-grpc_out":
			i++
			grpcOut = args[i]
		case strings.HasPrefix(a, "--go-grpc_out="):
			grpcOut = strings.TrimPrefix(a, "--go-grpc_out=")
		case strings.HasPrefix(a, "-"):
		default:
			file = a
		}
	}
	if file == "" || goOut == "" {
		die("protocshim: usage: protoc <file.proto> --go_out <dir> --go-grpc_out <dir>")
	}
	if grpcOut == "" {
		grpcOut = goOut
	}
	src, err := os.ReadFile(file)
	if err != nil {
		die("%v", err)
	}
	base := filepath.Base(file)
	pf, err := protoparse.Parse(string(src))
	if err != nil {
		die("%s: %v", base, err)
	}
	if errs := pf.Check(); len(errs) > 0 {
		die("%s: %s", base, strings.Join(errs, "\n"+base+": "))
	}
	fd, err := pf.Descriptor(base)
	if err != nil {
		die("%s: %v", base, err)
	}
	if _, err := protoparse.Validate(fd); err != nil {
		die("%s: %v", base, err)
	}
	if pf.GoPackage == "" {
		die("%s: no go_package option", base)
	}
	// real protoc-gen-go
	plugin := os.Getenv("VERIF_PROTOC_GEN_GO")
	if plugin == "" {
		plugin = "protoc-gen-go"
	}
	req := &pluginpb.CodeGeneratorRequest{
		FileToGenerate:  []string{base},
		Parameter:       proto.String("paths=source_relative"),
		ProtoFile:       []*descriptorpb.FileDescriptorProto{fd},
		CompilerVersion: &pluginpb.Version{Major: proto.Int32(5), Minor: proto.Int32(28), Patch: proto.Int32(0)},
	}
	in, err := proto.Marshal(req)
	if err != nil {
		die("%v", err)
	}
	cmd := exec.Command(plugin)
	cmd.Stdin = bytes.NewReader(in)
	var out, stderr bytes.Buffer
	cmd.Stdout, cmd.Stderr = &out, &stderr
	if err := cmd.Run(); err != nil {
		die("protoc-gen-go: %v: %s", err, stderr.String())
	}
	var resp pluginpb.CodeGeneratorResponse
	if err := proto.Unmarshal(out.Bytes(), &resp); err != nil {
		die("protoc-gen-go response: %v", err)
	}
	if resp.Error != nil {
		die("--go_out: %s", resp.GetError())
	}
	for _, f := range resp.File {
		p := filepath.Join(goOut, f.GetName())
		_ = os.MkdirAll(filepath.Dir(p), 0o755)
		if err := os.WriteFile(p, []byte(f.GetContent()), 0o644); err != nil {
			die("%v", err)
		}
	}
	// service stubs
	if len(pf.Services) > 0 {
		pkg := pf.GoPackage
		if i := strings.LastIndex(pkg, ";"); i >= 0 {
			pkg = pkg[i+1:]
		} else {
			pkg = filepath.Base(pkg)
		}
		pkg = strings.Map(func(r rune) rune {
			if r == '_' || r >= '0' && r <= '9' || r >= 'a' && r <= 'z' || r >= 'A' && r <= 'Z' {
				return r
			}
			return '_'
		}, pkg)
		var b bytes.Buffer
		if err := grpcTmpl.Execute(&b, map[string]any{"Pkg": pkg, "File": base, "ProtoPkg": pf.Package, "Services": pf.Services}); err != nil {
			die("grpc stubs: %v", err)
		}
		p := filepath.Join(grpcOut, strings.TrimSuffix(base, ".proto")+"_grpc.pb.go")
		if err := os.WriteFile(p, b.Bytes(), 0o644); err != nil {
			die("%v", err)
		}
	}
}

func lowerFirst(s string) string {
	if s == "" {
		return s
	}
	return strings.ToLower(s[:1]) + s[1:]
}

func fullName(pkg, svc string) string {
	if pkg == "" {
		return svc
	}
	return pkg + "." + svc
}

// goName is protoc-gen-go's GoCamelCase for message type names (goa emits
// names that are already Go identifiers; underscores followed by a lower
// case letter are folded).
func goName(s string) string {
	var b []byte
	for i := 0; i < len(s); i++ {
		c := s[i]
		switch {
		case c == '.' && i+1 < len(s) && s[i+1] >= 'a' && s[i+1] <= 'z':
		case c == '.':
			b = append(b, '_')
		case c == '_' && (i == 0 || s[i-1] == '.'):
			b = append(b, 'X')
		case c == '_' && i+1 < len(s) && s[i+1] >= 'a' && s[i+1] <= 'z':
		case c >= '0' && c <= '9':
			b = append(b, c)
		default:
			if c >= 'a' && c <= 'z' {
				c -= 'a' - 'A'
			}
			b = append(b, c)
			for ; i+1 < len(s) && s[i+1] >= 'a' && s[i+1] <= 'z'; i++ {
				b = append(b, s[i+1])
			}
		}
	}
	return string(b)
}

func streamIndex(s *protoparse.Service, name string) int {
	n := 0
	for _, r := range s.RPCs {
		if r.InStream || r.OutStream {
			if r.Name == name {
				return n
			}
			n++
		}
	}
	return -1
}

var grpcTmpl = template.Must(template.New("grpc").Funcs(template.FuncMap{
	"lower": lowerFirst, "full": fullName, "go": goName, "sidx": streamIndex,
	"msg": func(t string) string {
		if i := strings.LastIndex(t, "."); i >= 0 {
			t = t[i+1:]
		}
		return goName(t)
	},
}).Parse(`// Code generated by the verifier's protoc stand-in (protoc-gen-go-grpc is not available offline). DO NOT EDIT.
// source: {{ .File }}

package {{ .Pkg }}

import (
	context "context"

	grpc "google.golang.org/grpc"
	codes "google.golang.org/grpc/codes"
	status "google.golang.org/grpc/status"
)

const _ = grpc.SupportPackageIsVersion7
{{ $pp := .ProtoPkg }}{{ $file := .File }}
{{- range $svc := .Services }}
{{- $S := go $svc.Name }}

// {{ $S }}Client is the client API for {{ $S }} service.
type {{ $S }}Client interface {
{{- range .RPCs }}
{{- if and (not .InStream) (not .OutStream) }}
	{{ go .Name }}(ctx context.Context, in *{{ msg .In }}, opts ...grpc.CallOption) (*{{ msg .Out }}, error)
{{- else if .InStream }}
	{{ go .Name }}(ctx context.Context, opts ...grpc.CallOption) ({{ $S }}_{{ go .Name }}Client, error)
{{- else }}
	{{ go .Name }}(ctx context.Context, in *{{ msg .In }}, opts ...grpc.CallOption) ({{ $S }}_{{ go .Name }}Client, error)
{{- end }}
{{- end }}
}

type {{ lower $S }}Client struct {
	cc grpc.ClientConnInterface
}

func New{{ $S }}Client(cc grpc.ClientConnInterface) {{ $S }}Client {
	return &{{ lower $S }}Client{cc}
}
{{ range .RPCs }}
{{- $M := go .Name }}
{{- if and (not .InStream) (not .OutStream) }}
func (c *{{ lower $S }}Client) {{ $M }}(ctx context.Context, in *{{ msg .In }}, opts ...grpc.CallOption) (*{{ msg .Out }}, error) {
	out := new({{ msg .Out }})
	err := c.cc.Invoke(ctx, "/{{ full $pp $svc.Name }}/{{ .Name }}", in, out, opts...)
	if err != nil {
		return nil, err
	}
	return out, nil
}
{{ else }}
{{- if .InStream }}
func (c *{{ lower $S }}Client) {{ $M }}(ctx context.Context, opts ...grpc.CallOption) ({{ $S }}_{{ $M }}Client, error) {
	stream, err := c.cc.NewStream(ctx, &{{ $S }}_ServiceDesc.Streams[{{ sidx $svc .Name }}], "/{{ full $pp $svc.Name }}/{{ .Name }}", opts...)
	if err != nil {
		return nil, err
	}
	x := &{{ lower $S }}{{ $M }}Client{stream}
	return x, nil
}
{{ else }}
func (c *{{ lower $S }}Client) {{ $M }}(ctx context.Context, in *{{ msg .In }}, opts ...grpc.CallOption) ({{ $S }}_{{ $M }}Client, error) {
	stream, err := c.cc.NewStream(ctx, &{{ $S }}_ServiceDesc.Streams[{{ sidx $svc .Name }}], "/{{ full $pp $svc.Name }}/{{ .Name }}", opts...)
	if err != nil {
		return nil, err
	}
	x := &{{ lower $S }}{{ $M }}Client{stream}
	if err := x.ClientStream.SendMsg(in); err != nil {
		return nil, err
	}
	if err := x.ClientStream.CloseSend(); err != nil {
		return nil, err
	}
	return x, nil
}
{{ end }}
type {{ $S }}_{{ $M }}Client interface {
{{- if .InStream }}
	Send(*{{ msg .In }}) error
{{- end }}
{{- if .OutStream }}
	Recv() (*{{ msg .Out }}, error)
{{- else }}
	CloseAndRecv() (*{{ msg .Out }}, error)
{{- end }}
	grpc.ClientStream
}

type {{ lower $S }}{{ $M }}Client struct {
	grpc.ClientStream
}
{{ if .InStream }}
func (x *{{ lower $S }}{{ $M }}Client) Send(m *{{ msg .In }}) error {
	return x.ClientStream.SendMsg(m)
}
{{ end }}
{{- if .OutStream }}
func (x *{{ lower $S }}{{ $M }}Client) Recv() (*{{ msg .Out }}, error) {
	m := new({{ msg .Out }})
	if err := x.ClientStream.RecvMsg(m); err != nil {
		return nil, err
	}
	return m, nil
}
{{ else }}
func (x *{{ lower $S }}{{ $M }}Client) CloseAndRecv() (*{{ msg .Out }}, error) {
	if err := x.ClientStream.CloseSend(); err != nil {
		return nil, err
	}
	m := new({{ msg .Out }})
	if err := x.ClientStream.RecvMsg(m); err != nil {
		return nil, err
	}
	return m, nil
}
{{ end }}
{{- end }}
{{- end }}
// {{ $S }}Server is the server API for {{ $S }} service.
type {{ $S }}Server interface {
{{- range .RPCs }}
{{- if and (not .InStream) (not .OutStream) }}
	{{ go .Name }}(context.Context, *{{ msg .In }}) (*{{ msg .Out }}, error)
{{- else if .InStream }}
	{{ go .Name }}({{ $S }}_{{ go .Name }}Server) error
{{- else }}
	{{ go .Name }}(*{{ msg .In }}, {{ $S }}_{{ go .Name }}Server) error
{{- end }}
{{- end }}
	mustEmbedUnimplemented{{ $S }}Server()
}

// Unimplemented{{ $S }}Server must be embedded to have forward compatible implementations.
type Unimplemented{{ $S }}Server struct {
}
{{ range .RPCs }}
{{- if and (not .InStream) (not .OutStream) }}
func (Unimplemented{{ $S }}Server) {{ go .Name }}(context.Context, *{{ msg .In }}) (*{{ msg .Out }}, error) {
	return nil, status.Errorf(codes.Unimplemented, "method {{ .Name }} not implemented")
}
{{- else if .InStream }}
func (Unimplemented{{ $S }}Server) {{ go .Name }}({{ $S }}_{{ go .Name }}Server) error {
	return status.Errorf(codes.Unimplemented, "method {{ .Name }} not implemented")
}
{{- else }}
func (Unimplemented{{ $S }}Server) {{ go .Name }}(*{{ msg .In }}, {{ $S }}_{{ go .Name }}Server) error {
	return status.Errorf(codes.Unimplemented, "method {{ .Name }} not implemented")
}
{{- end }}
{{ end }}
func (Unimplemented{{ $S }}Server) mustEmbedUnimplemented{{ $S }}Server() {}

// Unsafe{{ $S }}Server may be embedded to opt out of forward compatibility for this service.
type Unsafe{{ $S }}Server interface {
	mustEmbedUnimplemented{{ $S }}Server()
}

func Register{{ $S }}Server(s grpc.ServiceRegistrar, srv {{ $S }}Server) {
	s.RegisterService(&{{ $S }}_ServiceDesc, srv)
}
{{ range .RPCs }}
{{- $M := go .Name }}
{{- if and (not .InStream) (not .OutStream) }}
func _{{ $S }}_{{ $M }}_Handler(srv interface{}, ctx context.Context, dec func(interface{}) error, interceptor grpc.UnaryServerInterceptor) (interface{}, error) {
	in := new({{ msg .In }})
	if err := dec(in); err != nil {
		return nil, err
	}
	if interceptor == nil {
		return srv.({{ $S }}Server).{{ $M }}(ctx, in)
	}
	info := &grpc.UnaryServerInfo{
		Server:     srv,
		FullMethod: "/{{ full $pp $svc.Name }}/{{ .Name }}",
	}
	handler := func(ctx context.Context, req interface{}) (interface{}, error) {
		return srv.({{ $S }}Server).{{ $M }}(ctx, req.(*{{ msg .In }}))
	}
	return interceptor(ctx, in, info, handler)
}
{{ else }}
func _{{ $S }}_{{ $M }}_Handler(srv interface{}, stream grpc.ServerStream) error {
{{- if .InStream }}
	return srv.({{ $S }}Server).{{ $M }}(&{{ lower $S }}{{ $M }}Server{stream})
{{- else }}
	m := new({{ msg .In }})
	if err := stream.RecvMsg(m); err != nil {
		return err
	}
	return srv.({{ $S }}Server).{{ $M }}(m, &{{ lower $S }}{{ $M }}Server{stream})
{{- end }}
}

type {{ $S }}_{{ $M }}Server interface {
{{- if .OutStream }}
	Send(*{{ msg .Out }}) error
{{- else }}
	SendAndClose(*{{ msg .Out }}) error
{{- end }}
{{- if .InStream }}
	Recv() (*{{ msg .In }}, error)
{{- end }}
	grpc.ServerStream
}

type {{ lower $S }}{{ $M }}Server struct {
	grpc.ServerStream
}
{{ if .OutStream }}
func (x *{{ lower $S }}{{ $M }}Server) Send(m *{{ msg .Out }}) error {
	return x.ServerStream.SendMsg(m)
}
{{ else }}
func (x *{{ lower $S }}{{ $M }}Server) SendAndClose(m *{{ msg .Out }}) error {
	return x.ServerStream.SendMsg(m)
}
{{ end }}
{{- if .InStream }}
func (x *{{ lower $S }}{{ $M }}Server) Recv() (*{{ msg .In }}, error) {
	m := new({{ msg .In }})
	if err := x.ServerStream.RecvMsg(m); err != nil {
		return nil, err
	}
	return m, nil
}
{{ end }}
{{- end }}
{{- end }}
// {{ $S }}_ServiceDesc is the grpc.ServiceDesc for {{ $S }} service.
var {{ $S }}_ServiceDesc = grpc.ServiceDesc{
	ServiceName: "{{ full $pp $svc.Name }}",
	HandlerType: (*{{ $S }}Server)(nil),
	Methods: []grpc.MethodDesc{
{{- range .RPCs }}{{ if and (not .InStream) (not .OutStream) }}
		{
			MethodName: "{{ .Name }}",
			Handler:    _{{ $S }}_{{ go .Name }}_Handler,
		},
{{- end }}{{ end }}
	},
	Streams: []grpc.StreamDesc{
{{- range .RPCs }}{{ if or .InStream .OutStream }}
		{
			StreamName:    "{{ .Name }}",
			Handler:       _{{ $S }}_{{ go .Name }}_Handler,
{{- if .OutStream }}
			ServerStreams: true,
{{- end }}
{{- if .InStream }}
			ClientStreams: true,
{{- end }}
		},
{{- end }}{{ end }}
	},
	Metadata: "{{ $file }}",
}
{{ end }}
`))
