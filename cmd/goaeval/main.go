// Command goaeval mirrors the main program that the goa CLI generates for a
// design: it executes the DSL (here: a call tree interpreted against the real
// DSL functions), runs eval.RunDSL and then the requested generator from the
// goa working tree it was built against. It prints a JSON verdict.
//
//	goaeval -design prog.json -out dir -cmd gen|example|eval
package main

import (
	"encoding/json"
	"flag"
	"fmt"
	"os"
	"path/filepath"
	"runtime/debug"
	"strings"

	"goa.design/goa/v3/codegen"
	"goa.design/goa/v3/codegen/generator"
	"goa.design/goa/v3/eval"

	"verif/internal/dsltree"
)

type verdict struct {
	Stage    string   `json:"stage"` // where it stopped: "dsl", "rundsl", "generate", "done"
	Accepted bool     `json:"accepted"`
	Errors   []string `json:"errors,omitempty"`
	Panic    string   `json:"panic,omitempty"`
	Stack    string   `json:"stack,omitempty"`
	GenError string   `json:"gen_error,omitempty"`
	Files    []string `json:"files,omitempty"`
	Calls    int      `json:"calls"`
}

func main() {
	design := flag.String("design", "", "")
	out := flag.String("out", "", "")
	cmd := flag.String("cmd", "gen", "")
	flag.Parse()
	v := &verdict{Stage: "dsl"}
	defer func() {
		if r := recover(); r != nil {
			v.Panic = fmt.Sprint(r)
			v.Stack = string(debug.Stack())
		}
		b, _ := json.Marshal(v)
		fmt.Println(string(b))
	}()
	b, err := os.ReadFile(*design)
	if err != nil {
		v.Errors = []string{err.Error()}
		return
	}
	var prog dsltree.Program
	if err := json.Unmarshal(b, &prog); err != nil {
		v.Errors = []string{"bad program: " + err.Error()}
		return
	}
	env := dsltree.NewEnv()
	if err := prog.Run(env); err != nil {
		v.Errors = []string{"interp: " + err.Error()}
		v.Calls = env.Calls
		return
	}
	v.Calls = env.Calls
	v.Stage = "rundsl"
	if eval.Context.Errors != nil {
		v.Errors = splitErrs(eval.Context.Errors)
		return
	}
	if err := eval.RunDSL(); err != nil {
		v.Errors = splitErrs(err)
		return
	}
	v.Accepted = true
	if *cmd == "eval" {
		v.Stage = "done"
		return
	}
	v.Stage = "generate"
	if *cmd == "gen" {
		// what cmd/goa's generated main does before generating: remove the
		// sub-directories of gen/
		gendir := filepath.Join(*out, codegen.Gendir)
		if fis, err := os.ReadDir(gendir); err == nil {
			for _, fi := range fis {
				if fi.IsDir() {
					_ = os.RemoveAll(filepath.Join(gendir, fi.Name()))
				}
			}
		}
	}
	files, err := generator.Generate(*out, *cmd)
	if err != nil {
		v.GenError = err.Error()
		return
	}
	v.Files = files
	v.Stage = "done"
}

func splitErrs(err error) []string {
	if me, ok := err.(eval.MultiError); ok {
		var out []string
		for _, e := range me {
			out = append(out, e.Error())
		}
		return out
	}
	return strings.Split(err.Error(), "\n")
}
