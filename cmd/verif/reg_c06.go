package main

func init() {
	registry["C06"] = Spec{
		Title:  "Secured methods run only after a security requirement is satisfied",
		Engine: "A",
		Pkg:    "./checks/c06",
		Tests: []TestSpec{
			{Name: "TestProbes"},
			{Name: "TestSecurity", Rapid: true, Quick: 150, Thorough: 600, QuickShards: 1, ThoroughShards: 6, DesignsQuick: 32, DesignsThorough: 120},
		},
		Rule:      "a case = (generated design with Basic/API key/JWT/OAuth2 schemes in 1-3 alternative requirements of 1-2 schemes declared at API, service or method level, NoSecurity overrides, credentials mapped to headers/query or left implicit; method; payload with generated credential strings; accept/reject outcome for every scheme; in half of the cases also the set of scopes the caller holds, which the recording callbacks enforce the documented way, with scheme.Validate(granted): a callback then accepts when its outcome says so and Validate returns nil, and Validate must fail exactly when a required scope is not granted). Non-trivial = the first requirement fails and a later one succeeds, or a two-scheme requirement fails on its second scheme, or the requirements are inherited from the service/API level, or some but not all scopes of a requirement with >= 2 required scopes are granted. Distinct = SHA-256 of method, outcome vector and payload.",
		LevelText: "Generated-input search with a recording Auther: the method must run iff some requirement has all its schemes accepted (reference evaluation of the outcome vector); every callback invocation must concern a scheme of the effective requirements and receive the credential the client sent in the designed place (bearer prefix removed for header-carried tokens) with the scheme's declared scopes and a requirement's required scopes; NoSecurity and unsecured methods see no callback; a denied caller receives a rejecting callback's error.",
		LevelNote: "Trusts the Go tool chain, net/http, rapid and the verifier's model/oracle and harness (the recording Auther is generated glue). Outcome vectors are sampled by rapid (at most 4 schemes per design, so every vector is drawn many times) rather than enumerated. The security profile includes websocket streaming endpoints (the requirement is decided before the upgrade; when it is satisfied a short scripted stream runs) and dual-transport services.",
		Technique: "property-based testing (rapid): reference evaluation of requirement sets against a recording authorization callback behind generated endpoints, server and client",
		Assumptions: []string{
			"credential strings are single tokens of printable ASCII (no blanks) as the HTTP Authorization syntax requires; user names contain no ':'; a 'Bearer ' prefix is only expected to be removed from tokens carried in a header",
			"at most one credential per method uses the Authorization header",
		},
	}
}
