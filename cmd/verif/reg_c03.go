package main

func init() {
	registry["C03"] = Spec{
		Title:  "HTTP responses deliver the result intact to the client caller",
		Engine: "A",
		Pkg:    "./checks/c03",
		Tests: []TestSpec{
			{Name: "TestProbes"},
			{Name: "TestRawResponseBodies", Rapid: true, Quick: 300, Thorough: 3000, QuickShards: 1, ThoroughShards: 2},
			{Name: "TestStreamDesigns", Rapid: true, Quick: 100, Thorough: 300, QuickShards: 1, ThoroughShards: 4, DesignsQuick: 8, DesignsThorough: 40},
			{Name: "TestStreamedResults", Rapid: true, Quick: 400, Thorough: 6000, QuickShards: 1, ThoroughShards: 2},
			{Name: "TestResponseRoundTrip", Rapid: true, Quick: 100, Thorough: 400, QuickShards: 1, ThoroughShards: 6, DesignsQuick: 32, DesignsThorough: 120},
		},
		Rule:      "a case = (generated design, method, valid result drawn per response location, view chosen by the stub) returned by the stub service behind the generated server and decoded by the generated client. Non-trivial = the result selects a tagged response, or has attributes both in the body and in headers/cookies, or leaves a defaulted attribute unset, or is rendered under a non-default view. Distinct = SHA-256 of method, view and canonical result.",
		LevelText: "Generated-input search over designs and result values: real goa generators, compiled and executed; the value returned by the generated client is compared with the value returned by the stub under the reference semantics (view projection, declared defaults), the wire status with the response the design selects (tags), and every attribute with its designed location on the tapped response; exactly one WriteHeader. Exploration with rapid shrinking of the failing result.",
		LevelNote: "Trusts the Go tool chain, net/http, rapid and the verifier's model/oracle and reflection harness. Designs stay in the gen.Response profile; open findings are excluded by construction and probed. OneOf unions in result bodies are exercised. Response bodies streamed by the method itself (SkipResponseBodyEncodeDecode) are exercised on a fixed design (result in response headers, opaque body bytes up to 200 kB). Streaming endpoints (websocket) are exercised on a fixed design and on generated designs of the streams profile (payload mapped to path / query / headers, streamed messages over the generator's whole type grammar: primitives, arrays, maps, inline objects, user types with nesting, recursion, validations and defaults, result types with views). Fixed design (stream matrix: result-streaming and bidirectional methods with primitive, array, user-type and viewed result-type messages; final result of payload-streaming methods): scripted calls of up to 10 (quick) interleaved messages, every streamed result compared in order at the client, end of stream seen as io.EOF. A service that closes a stream it never used is an open finding (excluded, probed). Extend / Reference inheritance is exercised on a fixed design (InheritMatrix: results and result types whose attributes are inherited).",
		Technique: "property-based testing (rapid): round trip of generated results through generated server and client, reference response selection and view projection, location oracle on the tapped response; scripted streaming calls (both ends follow a generated script) with per-message equality in order",
		Assumptions: []string{
			"an empty collection and an unset one are the same Go value; a required primitive outside the rendered view is its zero value (non-pointer field)",
			"an attribute with a default is a non-pointer Go field: an explicit zero may arrive as zero or as the default",
			"values a header or cookie cannot carry are outside the domain (leading/trailing blanks, CR/LF, non cookie-octets)",
		},
	}
}
