package main

func init() {
	registry["C15"] = Spec{
		Title:  "Response and request bodies are encoded as the Content-Type announces",
		Engine: "A",
		Pkg:    "./checks/c15",
		Tests: []TestSpec{
			{Name: "TestProbes"},
			{Name: "TestResponseGrid"},
			{Name: "TestRequestGrid"},
			{Name: "TestResponseRoundTrip", Rapid: true, Quick: 40000, Thorough: 250000, QuickShards: 4, ThoroughShards: 8},
			{Name: "TestErrorEncoder", Rapid: true, Quick: 30000, Thorough: 150000, QuickShards: 2, ThoroughShards: 4},
			{Name: "TestRequestDecoder", Rapid: true, Quick: 40000, Thorough: 200000, QuickShards: 2, ThoroughShards: 4},
			{Name: "TestRequestRoundTrip", Rapid: true, Quick: 8000, Thorough: 100000, QuickShards: 1, ThoroughShards: 2},
			{Name: "TestMuxNotFound", Rapid: true, Quick: 8000, Thorough: 100000, QuickShards: 1, ThoroughShards: 2},
		},
		Fuzz:      []FuzzSpec{{Name: "FuzzHeaders", Seconds: 120}},
		Rule:      "response case = (value under AcceptTypeKey or absent, value under ContentTypeKey or absent, pre-set Content-Type header or absent, body value); error case = the same three strings + an error (service / wrapped / plain / custom formatter); request case = (Content-Type header or absent, body value). Non-trivial = the Accept value needs normalisation (present, non-empty and not literally one of the five supported types: parameters, q-values, case, list, wildcard, vendor type, garbage), or a '+' structured-syntax suffix occurs in one of the strings, or a header is pre-set; for requests: a Content-Type that is present and not literally one of the five supported types. Distinct = SHA-256 of the printed case.",
		LevelText: "Generated-input search: header strings from a grammar (absent, exact, parameters, q-values, case, comma lists, wildcards, +json/+xml/+gob/+html/+txt vendor types, unknown types, malformed strings and raw bytes) x designed content types x pre-set headers x values (struct, string, *string, []byte, int). Each response is written with the real ResponseEncoder into a recorder, the body is parsed with encoding/json, encoding/xml, encoding/gob directly under the format the Content-Type actually set announces, and read back with the real ResponseDecoder; the default ErrorEncoder and the muxer's 404 answer go through the same oracle; requests go RequestEncoder -> RequestDecoder and, for arbitrary Content-Types, stdlib-encoded body -> RequestDecoder (decode correctly, or unsupported_media_type/415). A curated product grid is enumerated completely; the rest is sampled; a native fuzz target mutates the three strings at byte level in the thorough tier. Exploration, not proof.",
		LevelNote: "Trusts the Go standard library (mime.ParseMediaType as the definition of a well-formed media type, encoding/json, encoding/xml, encoding/gob, net/http/httptest) and rapid. What a media type 'announces' is the check's own table: the five documented types plus the +json/+xml/+gob/+html/+txt suffixes goa's tests pin; anything else means JSON.",
		Technique: "property-based testing (rapid) with an independent stdlib parser as reference plus the round trip the property names; exhaustive enumeration of a curated grid; native Go fuzzing of header strings",
		Assumptions: []string{
			"values stay inside what each FORMAT can represent: XML gets XML-1.0 characters only and no top-level []byte (encoding/xml has no element name for it); JSON gets valid UTF-8; gob cannot distinguish a pointer to \"\" from nil, nor nil from empty slices (no format here can); text/plain and text/html carry string, *string and []byte verbatim and must reject anything else with an error",
			"a header that is not a well-formed media type announces nothing definite: for such a final Content-Type only the library round trip (ResponseEncoder -> ResponseDecoder) is required, not the independent parse",
			"with a pre-set response Content-Type only consistency (header announces the format of the body) is required, not which of the two formats wins",
			"an Accept value counts as recognised when, after mime.ParseMediaType normalisation, it is exactly one of the five documented types; lists, wildcards, vendor types and q-value semantics are not interpreted by goa and must fall back to JSON",
			"request Content-Types with a structured-syntax suffix or malformed strings may either be rejected with 415 or decoded correctly; only well-formed types naming no format must be rejected",
			"RequestEncoder documents that it always writes JSON and leaves a pre-set request Content-Type alone (goa's TestRequestEncoder pins this), so RequestEncoder round trips use absent or JSON-announcing pre-set request headers",
		},
	}
}
