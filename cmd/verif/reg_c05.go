package main

func init() {
	registry["C05"] = Spec{
		Title:  "Declared errors reach the client as the same error; others become faults",
		Engine: "A",
		Pkg:    "./checks/c05",
		Tests: []TestSpec{
			{Name: "TestErrors", Rapid: true, Quick: 150, Thorough: 600, QuickShards: 1, ThoroughShards: 6, DesignsQuick: 32, DesignsThorough: 120},
		},
		Rule:      "a case = (generated design, method, valid payload, error returned by the stub): a declared error (ErrorResult with any flags/id/message, custom object type with generated attribute values, primitive type; declared at method or service level or reusing an API-level definition), the same wrapped with fmt.Errorf(%w), an undeclared goa.ServiceError with all flag combinations and special names (also wrapped with fmt.Errorf(%w)), a plain or wrapped Go error. Non-trivial = the error shares its status code with another declared error, or is wrapped, or is inherited from the service/API level. Distinct = SHA-256 of method, class and error.",
		LevelText: "Generated-input search: the stub service returns generated errors through the generated server; the status, goa-error header and body on the wire and the error returned by the generated client (GoaErrorName, id, message, flags, custom attribute values) are compared with what the design assigns; undeclared errors are compared with the documented default table; exactly one WriteHeader and a well-formed body are required in every case.",
		LevelNote: "Trusts the Go tool chain, net/http, rapid and the verifier's model/oracle and harness. Error types are built by reflection from the generated service package. Request-decoding failures are exercised in C04. The errors profile includes websocket streaming endpoints (an error returned before the stream starts is an ordinary HTTP error response) and services mounted on HTTP and gRPC at once. Default (undeclared) error responses are asked for and read as JSON, XML and gob; a third of the plain errors are well-known error values of the standard library (context.Canceled, io.EOF ...).",
		Technique: "property-based testing (rapid): round trip of generated error values through generated server and client against the design's error mapping and the documented default status table",
		Assumptions: []string{
			"an API-level Error is a reusable definition: only services/methods that declare Error(name) again may return it; its HTTP mapping is inherited",
			"the client-side error for an undeclared error is not specified beyond being an error; only the wire is judged there",
			"an error that wraps a *goa.ServiceError (errors.As finds it) is a goa service error: the generated encoders and http.NewErrorResponse document errors.As as the way they recognise one",
		},
	}
}
