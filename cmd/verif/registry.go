package main

// registry maps property IDs to their check specification. Each property
// registers itself from its own file (reg_cNN.go).
var registry = map[string]Spec{}
