package main

func init() {
	registry["C18"] = Spec{
		Title:  "Error merging and status mapping follow fixed algebraic rules",
		Engine: "A",
		Pkg:    "./checks/c18",
		Tests: []TestSpec{
			{Name: "TestStatusTables"},
			{Name: "TestRegressions"},
			{Name: "TestMergeGroupings", Rapid: true, Quick: 4000, Thorough: 100000, QuickShards: 2, ThoroughShards: 8},
			{Name: "TestMergeAllGroupings", Rapid: true, Quick: 600, Thorough: 20000, QuickShards: 2, ThoroughShards: 8},
			{Name: "TestMergeNilNeutral", Rapid: true, Quick: 1000, Thorough: 20000, QuickShards: 1, ThoroughShards: 2},
			{Name: "TestGRPCRoundTrip", Rapid: true, Quick: 3000, Thorough: 100000, QuickShards: 1, ThoroughShards: 4},
		},
		Rule:      "cases = (error sequence of 0-8 parts over {service error with any flags/name/field, NewServiceError(cause), plain, fmt.Errorf-wrapped plain, wrapped service error, nil}, parenthesisation) compared with a reference fold; plus the exhaustive 8 flag combinations x special names x {direct,wrapped} status table and random gRPC status round trips. Non-trivial = >=3 non-nil parts of >=2 kinds, or a grouping that is not left-nested (merge cases); any flag set or wrapped (status cases). Distinct = SHA-256 of the printed case.",
		LevelText: "Generated-input search: random error sequences under every/random parenthesisation are merged with the real MergeErrors and compared with a reference fold; the status tables are enumerated exhaustively (8 flag combinations x special names) against the documented table; gRPC status encoding is round-tripped for random service errors. Exploration, not proof: the table sub-space is complete, the merge space is sampled.",
		LevelNote: "Trusts the Go standard errors package, grpc status/codes and rapid. The reference fold is written from the MergeErrors documentation and the property text.",
		Technique: "property-based testing (rapid): reference-model comparison over generated error sequences and groupings; exhaustive table enumeration; round trip",
		Assumptions: []string{
			"the message of a fmt.Errorf-wrapped ServiceError is the inner ServiceError's message (MergeErrors documents that it converts through errors.As)",
			"'cause' = the Go error a ServiceError was built from (NewServiceError(err,..) or a plain error converted by the merge)",
			"for gRPC errors with several flags set the table is the one grpc/error.go EncodeError implements at this commit (Temporary, else Timeout, else Fault, else Unknown): callers key retries on the code, so the precedence is taken as part of the documented mapping, as the HTTP one is",
		},
	}
}
