package main

func init() {
	registry["C12"] = Spec{
		Title:  "Any DSL program yields a design or located errors, never a crash",
		Engine: "A",
		Pkg:    "./checks/c12",
		Tests: []TestSpec{
			{Name: "TestProbes"},
			{Name: "TestChaos", Rapid: true, Quick: 10000, Thorough: 60000, QuickShards: 2, ThoroughShards: 8},
			{Name: "TestNearValid", Rapid: true, Quick: 4000, Thorough: 40000, QuickShards: 3, ThoroughShards: 8},
			{Name: "TestDangling", Rapid: true, Quick: 3000, Thorough: 30000, QuickShards: 3, ThoroughShards: 8},
			{Name: "TestRecursiveTypes", Rapid: true, Quick: 2000, Thorough: 40000, QuickShards: 1, ThoroughShards: 4},
		},
		Rule:      "a case = one DSL program (a tree of calls of the exported goa.design/goa/v3/dsl functions, interpreted by reflection against the real functions, then eval.RunDSL). Four generators: 'chaos' (1-6 top-level calls, every function of the DSL in any context with arguments drawn per Go parameter type: hostile strings, ints, typed constants, nil, nested type-returning calls, references to earlier results, nested func bodies to depth 5), 'near-valid' (a generated valid design with 1-3 edits: delete / duplicate / move a call to another body / swap arguments / replace a string / empty a body / insert an arbitrary call / arbitrary argument / drop or add a variadic argument), 'dangling' (a generated valid HTTP or gRPC design in which exactly one mapping - query, header, cookie, path, body, response header/cookie/body/tag, gRPC metadata/header/trailer, alone on its endpoint or next to valid ones -, requirement, view or error response names something that does not exist), 'recursive' (a graph of 1-3 user types closed into a cycle, every edge one of: attribute, array element, map element, map key, array of maps, map with a user-type key and array element, map with user-type key and element, union alternative; plain or result types; used as payload, result, both or error type of an HTTP endpoint, a gRPC endpoint or both; all 384 single-kind cycles of length 1-2 first, then random graphs). Programs a Go compiler would refuse (arity, static types, undefined variables) are counted 'not-expressible' and are trivial. Non-trivial = chaos program with >=2 top-level calls of which >=1 is reported misplaced, any expressible near-valid mutant with >=1 applied edit, any dangling mutant, any recursive type graph. Distinct = SHA-256 of the program.",
		LevelText: "Generated-input search over DSL programs evaluated in-process with the real DSL and evaluation engine: every evaluation must end, within 20 s, either accepted or with a non-empty list of errors whose messages are non-empty; a recovered panic or a timeout is a violation; a dangling-reference mutant of an accepted design must be rejected. Failing programs are shrunk by rapid and saved as program.json + design.go.",
		LevelNote: "Trusts the Go runtime, reflect and rapid; the interpreter calls the DSL functions exactly as compiled Go would (nil variadic slice when no variadic argument is given). Global evaluation state is reset before every case the way expr/init.go sets it up. 'errors name the offending expression' is checked structurally for validation-phase errors (every entry of eval.ValidationErrors carries a non-nil error and an expression with a non-empty EvalName) and as 'non-empty message' for execution-phase errors, whose text format is free.",
		Technique: "property-based testing (rapid): grammar-based and mutation-based generation of DSL programs against a crash/termination/non-empty-error oracle, plus a metamorphic oracle (valid design + one dangling name => rejected)",
		Assumptions: []string{
			"types no method reaches are not part of the accepted design: dangling names are only planted in types reachable from a payload or result",
			"Randomizer, ConvertTo and CreateFrom are not generated (they take Go values a design builds by hand)",
			"a program that would not compile as Go (wrong arity, static type mismatch, use of an undefined variable) is outside the property's domain",
		},
	}
}
