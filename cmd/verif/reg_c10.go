package main

func init() {
	registry["C10"] = Spec{
		Title:  "gRPC definitions are well formed and messages round-trip payloads",
		Engine: "A",
		Pkg:    "./checks/c10",
		Tests: []TestSpec{
			{Name: "TestProbes"},
			{Name: "TestGRPCStreams", Rapid: true, Quick: 500, Thorough: 8000, QuickShards: 1, ThoroughShards: 2},
			{Name: "TestGRPC", Rapid: true, Quick: 120, Thorough: 600, QuickShards: 1, ThoroughShards: 6, DesignsQuick: 12, DesignsThorough: 40},
		},
		Rule:      "a case is either (1) the protocol buffer file of one service of a generated design (gRPC profile: 1-2 services x 1-3 unary methods; payloads and results that are absent, primitive, arrays, maps, inline objects or object user types over all primitives, nested messages, arrays, maps and primitive aliases with validations and defaults; request metadata mappings; shuffled and sparse field numbers), or (2) one call of a method through the generated gRPC client and server (real protobuf messages from protoc-gen-go, real grpc-go over an in-memory connection) with a valid payload and result, a single-fault invalid payload, or a single-fault invalid result, or (3) one scripted call of a streaming method of the fixed gRPC stream matrix design (server-streaming, client-streaming, bidirectional; up to 10 interleaved messages, one of them possibly a single-fault invalid message). Non-trivial = a .proto file of a service with methods; a call whose types involve a nested message, array, map, alias, recursion or metadata, or any mutant. Distinct = SHA-256 of the case.",
		LevelText: "Generated-input search. Proto files: parsed by the verifier's own proto3 parser (anything outside proto3 is a violation), checked for duplicate field names/numbers, illegal numbers, unresolvable types, duplicate rpcs, validated again by the protobuf runtime (protodesc.NewFile), and compared with the design: one rpc per method with the designed streaming direction, every attribute present under its designed field number with the scalar type/repeated/map shape of its design type, metadata attributes absent from the message. Calls: the payload the service method receives and the result the caller receives must match what was sent (model-aware comparison), metadata attributes must travel in the request metadata, a payload violating a constraint must be rejected before the service method runs, and a violating result must not be returned as a success. Streams: both ends follow the generated script; every message arrives equal and in order in its direction, the end of a direction is seen as io.EOF by the other end, CloseAndRecv returns the final result, and an invalid streamed message is refused by the generated server's Recv instead of being handed to the service.",
		LevelNote: "Trusts the Go tool chain, grpc-go, the protobuf runtime and protoc-gen-go (real message code), the verifier's protoc stand-in for parsing and for the service stubs (template following protoc-gen-go-grpc's classic output), the harness and rapid. Streaming methods are exercised on a fixed design only (gRPC stream matrix); random designs are unary. OneOf unions are exercised. Response header/trailer metadata are not exercised at run time (they do not compile at this commit: finding C01-grpc-response-metadata): for them only the proto-file rules apply when generated. A quarter of the unary calls hand the generated client a context that already carries outgoing metadata of the caller.",
		Technique: "property-based testing (rapid): generated designs and values; round trip through generated client and server over real gRPC; independent proto3 parser + protobuf runtime as validity oracle; single-fault mutation for the rejection clause; scripted streaming calls with per-message equality in order",
		Assumptions: []string{
			"unset is not expressible through the generated Go structs for attributes with defaults (non-pointer fields): such attributes always get an explicit value",
			"Int and UInt values are kept within 32 bits and required collections non-empty while the corresponding findings are open (counted as excluded)",
			"gRPC metadata values are printable ASCII (HTTP/2 header values)",
		},
	}
}
