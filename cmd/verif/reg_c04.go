package main

func init() {
	registry["C04"] = Spec{
		Title:  "User code runs only on requests that satisfy the design's validations",
		Engine: "A",
		Pkg:    "./checks/c04",
		Tests: []TestSpec{
			{Name: "TestProbes"},
			{Name: "TestValidation", Rapid: true, Quick: 150, Thorough: 600, QuickShards: 1, ThoroughShards: 6, DesignsQuick: 32, DesignsThorough: 120},
		},
		Rule:      "a case = (generated design, method, payload/result, kind): 'valid' (stub must run), 'mutant' (a valid payload corrupted at one point: enum/format/pattern miss, one step outside an inclusive bound, exactly on an exclusive bound, length +-1 counted in runes with multi-byte strings, required object removed, at any depth), 'wire' (the request produced by the generated client edited on the wire: required query/header/cookie/JSON member deleted, non-number in a numeric parameter, JSON member of the wrong type, truncated JSON, unknown media type, body removed), 'result-mutant' (the stub returns a result violating one constraint). Non-trivial = mutant exactly one step outside a bound, or a fault at depth >= 1, or any wire-level mutant. Distinct = SHA-256 of the case.",
		LevelText: "Generated-input search: the verifier's own evaluator of the ten validation keywords decides validity; for invalid requests the stub must not run, the status must be 400 (415 for media-type faults) and the error name must be one of the violated rules; for invalid results the generated client must return an error instead of a value. Exploration over sampled designs, values and single-fault mutants with rapid shrinking.",
		LevelNote: "Trusts the Go tool chain, net/http, rapid, and the verifier's validity evaluator (internal/oracle.Validate), mutator (internal/gen/mutate.go) and harness. Format validity is judged only on the generator's own pools of well-formed / malformed instances. Validations may be written in the attribute or in its Param mapping (also on alias-typed attributes); the ones written in Header/Cookie mappings are an open finding (excluded, probed). Extend / Reference inheritance (validations, defaults and requiredness that come with inherited attributes) is exercised on a fixed design (InheritMatrix), not in random designs.",
		Technique: "property-based testing (rapid): single-fault mutation of valid payloads/results and wire-level edits against a reference validity evaluator",
		Assumptions: []string{
			"a nil slice or map is an empty one in Go: removing a required collection is not a fault; an explicit zero of a defaulted attribute may be replaced by the default, such mutants are not generated",
			"mutated values that a location cannot carry (empty strings in query/header/cookie, non cookie-octets, '/' in path values while that finding is open) are not generated",
			"when Body(\"attr\") names the attribute, its absence is not expressible apart from an empty body and is not asserted",
		},
	}
}
