package main

import "fmt"

// BSpec configures an Engine-B (design pipeline) check.
type BSpec struct{}

func runEngineB(id string, spec Spec, tier string, seed int64) int {
	fmt.Println("INCONCLUSIVE engine B not built yet")
	return 2
}

func replayEngineB(id string, spec Spec, path string) int { return 2 }
