package main

func init() {
	registry["C02"] = Spec{
		Title:  "HTTP requests deliver the payload intact to the service method",
		Engine: "A",
		Pkg:    "./checks/c02",
		Tests: []TestSpec{
			{Name: "TestProbes"},
			{Name: "TestRawBodies", Rapid: true, Quick: 300, Thorough: 3000, QuickShards: 1, ThoroughShards: 2},
			{Name: "TestStreamDesigns", Rapid: true, Quick: 100, Thorough: 300, QuickShards: 1, ThoroughShards: 4, DesignsQuick: 8, DesignsThorough: 40},
			{Name: "TestStreams", Rapid: true, Quick: 400, Thorough: 6000, QuickShards: 1, ThoroughShards: 2},
			{Name: "TestRequestRoundTrip", Rapid: true, Quick: 100, Thorough: 400, QuickShards: 1, ThoroughShards: 6, DesignsQuick: 32, DesignsThorough: 120},
		},
		Rule:      "a case = (generated design, method, valid payload drawn per transport location) sent through the generated client to the generated server behind a real net/http server; variants: 'client' (first route), 'route' (captured request re-targeted to another designed route), 'default' (a defaulted attribute deleted from the captured wire request). Non-trivial = >=2 attributes set in >=2 locations, or a boundary-class value (URL-reserved, percent, space, non-ASCII, 64-bit extreme, empty or nested collection), or a route/default variant. Distinct = SHA-256 of method, variant and canonical payload.",
		LevelText: "Generated-input search over designs and values: each design is translated by the real goa generators of the working tree, compiled, and executed; the payload received by the stub service is compared with the payload sent under a reference semantics written from the DSL docs (equality, declared defaults, per-location wire check on the tapped request). Exploration: designs and values are sampled, failing payloads shrink with rapid and are saved with the design.",
		LevelNote: "Trusts the Go tool chain, net/http, rapid, and the verifier's own model/oracle (internal/model, internal/oracle) and reflection harness. Designs stay inside the oracle-complete subset (gen.Request profile); open known findings are excluded by construction and probed separately. OneOf unions travel in bodies (alternatives without validations while finding C04-union-alternative-validations-not-enforced is open). Request bodies streamed by the method itself (SkipRequestBodyEncodeDecode) are exercised on a fixed design (payload in path/query/headers, opaque body bytes up to 200 kB). Streaming endpoints (websocket) are exercised on a fixed design and on generated designs of the streams profile (payload mapped to path / query / headers, streamed messages over the generator's whole type grammar: primitives, arrays, maps, inline objects, user types with nesting, recursion, validations and defaults, result types with views). Fixed design (stream matrix: payload-streaming and bidirectional methods with primitive, array and user-type messages, initial payload in path / query / headers of the upgrade request): scripted calls of up to 10 (quick) interleaved messages, the initial payload and every streamed message compared in order at the service, end of the client's stream seen as io.EOF. Multipart is not exercised. Extend / Reference inheritance is exercised on a fixed design (InheritMatrix: inherited attributes in path, query, header and body), request bodies on GET / DELETE endpoints on another (GetBodyMatrix).",
		Technique: "property-based testing (rapid): round trip through generated client and server for generated designs and payloads, location oracle on the tapped request, wire-level metamorphic variants; scripted streaming calls (both ends follow a generated script) with per-message equality in order",
		Assumptions: []string{
			"an empty collection and an unset one are the same Go value (nil slice/map): not told apart",
			"an attribute with a default is a non-pointer Go field: an explicit zero value may arrive as zero or as the default",
			"values a transport location cannot carry are outside the domain: header values with leading/trailing blanks or CR/LF, cookie bytes outside cookie-octet, empty path segments, zero-length repeated query/header arrays",
			"routes are unique across services (goa does not detect collisions; the generator never emits them)",
		},
	}
}
