package main

func init() {
	registry["C01"] = Spec{
		Title:  "Every accepted design generates code that compiles",
		Engine: "A",
		Pkg:    "./checks/c01",
		Tests: []TestSpec{
			{Name: "TestProbes"},
			{Name: "TestCompileFixed"},
			{Name: "TestCompileRoutes", Rapid: true, QuickShards: 1, ThoroughShards: 2, DesignsQuick: 16, DesignsThorough: 60},
			{Name: "TestCompileViews", Rapid: true, QuickShards: 1, ThoroughShards: 2, DesignsQuick: 12, DesignsThorough: 40},
			{Name: "TestCompileRequest", Rapid: true, QuickShards: 1, ThoroughShards: 2, DesignsQuick: 12, DesignsThorough: 40},
			{Name: "TestCompileResponse", Rapid: true, QuickShards: 1, ThoroughShards: 2, DesignsQuick: 12, DesignsThorough: 40},
			{Name: "TestCompileErrors", Rapid: true, QuickShards: 1, ThoroughShards: 2, DesignsQuick: 8, DesignsThorough: 30},
			{Name: "TestCompileSecurity", Rapid: true, QuickShards: 1, ThoroughShards: 2, DesignsQuick: 8, DesignsThorough: 30},
			{Name: "TestCompileNames", Rapid: true, QuickShards: 1, ThoroughShards: 2, DesignsQuick: 16, DesignsThorough: 60},
			{Name: "TestCompileStreams", Rapid: true, QuickShards: 1, ThoroughShards: 2, DesignsQuick: 10, DesignsThorough: 60},
			{Name: "TestCompileGRPC", Rapid: true, QuickShards: 1, ThoroughShards: 2, DesignsQuick: 12, DesignsThorough: 60},
		},
		Rule:      "a case = one generated design (model -> DSL call tree -> evaluated by a fresh goaeval process against the real DSL) that goa accepts; the real gen and example generators are run on it (fresh process, 120 s budget) and every Go package written is built with go build -gcflags=-e against the goa runtime packages of the tree under test. Five fixed matrix designs are always included (one single-parameter method per primitive kind x location x required/optional/defaulted and arrays of every kind; the parameter, view, defaults and gRPC matrices). Designs are drawn from eight generator profiles (names: the routes envelope outside the runtime subset with OneOf unions, Any, raw bytes in parameters and attribute names that are Go keywords, predeclared identifiers, acronyms, contain separators or non-ASCII letters, or equal identifiers the generated code declares; grpc: services served over gRPC with request metadata, nested messages, arrays, maps and aliases, built against the message code of the real protoc-gen-go run by the verifier's protoc stand-in; routes, views, request, response, errors, security: 1-3 services x 1-4 methods; all primitives, arrays, maps, inline objects, named/recursive user types, aliases, result types with views and collections, required/default/validations; path/query/header/cookie/body mappings, multiple routes, responses, tags, errors, security schemes, file servers). Designs goa rejects are counted but trivial (more than 25% rejected = inconclusive). Non-trivial = accepted design with >= 6 generator features whose feature vector was not seen before in the run. Distinct = profile + feature vector.",
		LevelText: "Generated-input search: every accepted generated design is pushed through the real generators and the Go compiler; generator error, panic, timeout or any compiler diagnostic is a violation. Failures are clustered by normalised signature, the representative of every unexplained cluster is reduced (delta debugging over the design model) and saved with its diagnostics. Shapes covered by open known findings are excluded by construction (counted per finding) and re-created by TestProbes.",
		LevelNote: "Trusts the Go tool chain (go build type-checks every generated package, including the example server and CLI), the DSL interpreter (goaeval calls the DSL functions through reflection exactly as compiled Go would) and the verifier's generator. Multipart, hostile type/service/method names and attribute names that collide after Goify are generated only by the 'wide' profile, which is not part of the registered tiers (see DESIGN.md section 9.4); streaming and Extend / Reference inheritance are compiled through fixed designs (stream matrices, InheritMatrix: chains of Extend, inline payloads and results that extend a type, user types, result types and inline payloads filled in by Reference), not through random designs. protoc is not installed: a stand-in (cmd/protocshim) parses the generated .proto file, validates it with the protobuf runtime, runs the real protoc-gen-go on the descriptor and writes the service stubs protoc-gen-go-grpc would write from a template.",
		Technique: "property-based testing: grammar-based random generation of whole designs (rapid generators, fixed seeds), real generators + Go compiler as the oracle, failure clustering and delta-debugging reduction",
		Assumptions: []string{
			"a design is 'accepted' when eval.RunDSL returns nil in a fresh process",
			"type-checks = go build -gcflags=-e of every generated package succeeds",
		},
	}
}
