package main

func init() {
	registry["C19"] = Spec{
		Title:  "Request-ID and trace middlewares propagate identifiers end to end",
		Engine: "A",
		Pkg:    "./checks/c19",
		Tests: []TestSpec{
			{Name: "TestProbes"},
			{Name: "TestSamplingExact"},
			{Name: "TestFreshIDsDistinct"},
			{Name: "TestRequestID", Rapid: true, Quick: 12000, Thorough: 120000, QuickShards: 2, ThoroughShards: 4},
			{Name: "TestTraceServer", Rapid: true, Quick: 6000, Thorough: 60000, QuickShards: 2, ThoroughShards: 4},
			{Name: "TestChain", Rapid: true, Quick: 4000, Thorough: 25000, QuickShards: 4, ThoroughShards: 8},
			{Name: "TestCapture", Rapid: true, Quick: 4000, Thorough: 25000, QuickShards: 2, ThoroughShards: 4},
		},
		Rule:      "cases = (request-ID option list in a documented form, inbound header/metadata value, variant HTTP | gRPC unary | gRPC stream | GenerateRequestID) ; (trace option list, request with/without inbound trace and parent IDs, path/method, variant) ; (call chain of 1-4 hops, each a traced server of any variant, optionally behind a request-ID middleware, calling the next hop through WrapDoer / UnaryClientTrace / StreamClientTrace, in memory or over a real connection) ; (write history, underlying writer, ResponseCapture used directly or through the Log middleware) ; plus 10^4 (quick) / 2x10^5 (thorough) sampler draws per percentage {0,100,default} and variant. Non-trivial = request-ID limit boundary (trusted, non-empty inbound value whose byte length equals the limit, is limit+1, or is cut inside a multi-byte rune), or trusted-and-truncated (byte length > limit > 0), or a chain of depth >= 2. Distinct = SHA-256 of the printed case.",
		LevelText: "Generated-input search: option lists in their documented forms, inbound values placed around the configured limit (absent, empty, shorter/equal/longer, multi-byte), and call chains of depth 1-4 across HTTP and gRPC (interceptors called directly with fake handlers/streams, and over real httptest / in-memory gRPC connections) are run through the real middlewares; what each handler finds in its context and what each next hop finds on the wire is compared with a reference model written from the doc comments. Sampling at 0, 100 and the default is exercised 10^4-10^5 times per variant; the adaptive sampler is held only to its documented initial bound. ResponseCapture is compared with what a recorder, a breaking writer and a real HTTP client actually received. Exploration, not proof: the spaces are sampled; fresh identifiers are random, so freshness is checked as non-empty and non-repeating inside windows of 1000 identifiers.",
		LevelNote: "Trusts the Go standard library (net/http, httptest, regexp), grpc-go (metadata, bufconn transport) and rapid. The reference model is written from the doc comments of the anchored files and the property text; in-between sampling percentages and the adaptive sampler after its first adjustment are statistical/time dependent and only observed, never asserted.",
		Technique: "property-based testing (rapid): reference-model comparison over generated option lists, inbound values, call chains and write histories; exhaustive enumeration of the sampling end points per variant",
		Assumptions: []string{
			"'truncated to the configured limit' admits the first limit bytes (what goa does), the first limit runes, or the longest whole-rune prefix within limit bytes; for ASCII values these coincide so off-by-one truncation is still detected",
			"a limit <= 0 means no limit (RequestIDOptions: 'if positive truncates ... Defaults to no limit')",
			"the inbound value is the first value under the header/metadata key (http.Header.Get, MetadataValue); an empty first value counts as absent",
			"a limit option alone, or UseXRequestID*Option(false), does not make the middleware trust the inbound value ('the default behavior is to always generate a new ID')",
			"the gRPC request-ID interceptors document only UseXRequestIDMetadataOption and XRequestMetadataLimitOption; custom header names are exercised for HTTP only",
			"a request without an inbound trace ID and no options is traced (NewTraceOptions defaults to 100 percent)",
			"a parent-span header without a trace ID is never sent by a traced client: only the trace/span clauses are asserted for it",
			"ResponseCapture histories are well-formed uses of http.ResponseWriter (at most one WriteHeader, before the first Write); a handler that writes nothing at all has written no status through the capture, so no status is asserted for it",
		},
	}
}
