package main

func init() {
	registry["C14"] = Spec{
		Title:  "OpenAPI schemas accept exactly what the generated server accepts",
		Engine: "A",
		Pkg:    "./checks/c14",
		Tests: []TestSpec{
			{Name: "TestProbes"},
			{Name: "TestContract", Rapid: true, Quick: 150, Thorough: 600, QuickShards: 1, ThoroughShards: 6, DesignsQuick: 32, DesignsThorough: 120},
		},
		Rule:      "a case = (generated design, method, request): a valid payload, a single-fault mutant of a valid payload (C04's mutator) or a wire-level edit (required member deleted, wrong JSON/parameter type), sent through the generated client; the exact tapped http.Request and the response are judged by kin-openapi's openapi3filter against openapi3.json and compared with the server's own accept/reject decision. Non-trivial = wire-level edit, or a mutant one step outside a bound or at depth >= 1. Distinct = SHA-256 of the case.",
		LevelText: "Differential generated-input search: server verdict (stub invoked vs 4xx) against an independent OpenAPI 3 request validator on the very same request bytes, in both directions, plus response validation of every success response against the documented schema for its status. Exploration; disagreement classes that stem from the validator's own limits are counted as not-compared, never as violations.",
		LevelNote: "Trusts kin-openapi v0.128 (openapi3filter, routers/legacy) as the reading of the OpenAPI 3 text; format and pattern faults, repeated header lines (arrays in headers) and unsupported content types are not compared. JSON bodies only. Designs avoid the classes of the open C07/C14 findings (counted) so that documents load. Fixed designs next to the generated ones: parameter, view (result types with pinned views, a required attribute outside two views) and MapParams matrices. Requests without any body are compared as well (requestBody.required). Extend / Reference inheritance is exercised on a fixed design (InheritMatrix).",
		Technique: "differential property-based testing (rapid): generated server vs independent OpenAPI 3 validator on identical generated requests and responses",
		Assumptions: []string{
			"only JSON request and response bodies are compared",
			"keywords the validator implements differently from the OpenAPI text (string formats, RE2 patterns) are compared only where both sides define them: such mutants are counted as not-compared",
		},
	}
}
