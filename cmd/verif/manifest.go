package main

import (
	"bufio"
	"encoding/json"
	"fmt"
	"os"
	"path/filepath"
	"sort"
)

// pipelineChecks are the checks whose cases are whole designs pushed through
// the real generators, the compiler and the runtime harness (internal/rt,
// internal/pipeline); they are test packages run by the same driver.
var pipelineChecks = map[string]bool{"C01": true, "C02": true, "C03": true, "C04": true, "C05": true, "C06": true, "C07": true, "C08": true, "C09": true, "C10": true, "C14": true, "C20": true}

// notApplicable holds reasons for properties deliberately not claimed.
var notApplicable = map[string]string{}

func writeManifest() {
	root := verifRoot()
	var ids []string
	titles := map[string]string{}
	f, err := os.Open(filepath.Join(root, "properties.jsonl"))
	if err == nil {
		sc := bufio.NewScanner(f)
		sc.Buffer(make([]byte, 1<<20), 1<<24)
		for sc.Scan() {
			var p struct{ ID, Title string }
			if json.Unmarshal(sc.Bytes(), &p) == nil && p.ID != "" {
				ids = append(ids, p.ID)
				titles[p.ID] = p.Title
			}
		}
		f.Close()
	}
	sort.Strings(ids)
	var checks []map[string]any
	var na []map[string]any
	enginesA, enginesB := []string{}, []string{}
	for _, id := range ids {
		spec, ok := registry[id]
		if !ok {
			reason := notApplicable[id]
			if reason == "" {
				reason = "check not built yet in this revision of /verif (planned: DESIGN.md section 5); nothing is claimed for it"
			}
			na = append(na, map[string]any{"property_id": id, "reason": reason})
			continue
		}
		engine := "engine-A-library"
		if spec.Engine == "B" || pipelineChecks[id] {
			engine = "engine-B-design-pipeline"
			enginesB = append(enginesB, id)
		} else {
			enginesA = append(enginesA, id)
		}
		checks = append(checks, map[string]any{
			"property_id":         id,
			"quick_cmd":           "./vcheck run " + id + " --tier quick",
			"thorough_cmd":        "./vcheck run " + id + " --tier thorough",
			"evidence_file":       "/verif/evidence/" + id + ".json",
			"replay_cmd_template": "./vcheck replay " + id + " {path}",
			"engine":              engine,
			"level_claimed": map[string]any{
				"category":   "exploration",
				"text":       spec.LevelText,
				"design_ref": "DESIGN.md section 5, " + id,
			},
			"level_note": spec.LevelNote,
			"technique":  spec.Technique,
		})
	}
	if na == nil {
		na = []map[string]any{}
	}
	m := map[string]any{
		"version":   1,
		"setup_cmd": "./setup.sh",
		"hooks": map[string]any{
			"guard":            "verif",
			"enable":           "no source hooks are needed: every check drives goa through its public API, the real goa CLI and the code it generates; nothing in /repo is guarded by the tag",
			"baseline_off_cmd": "/verif/tools/baseline.sh",
			"source_commits":   []string{},
			"add_only":         true,
		},
		"engines": []map[string]any{
			{"name": "engine-A-library", "path": "/verif/checks", "serves_properties": enginesA, "kind_free_text": "in-process property-based tests (pgregory.net/rapid v1.3.0: generators, stateful t.Repeat, shrinking) and native go fuzz targets against goa's runtime/library packages, compared with reference models written from the documentation"},
			{"name": "engine-B-design-pipeline", "path": "/verif/internal/pipeline", "serves_properties": enginesB, "kind_free_text": "test packages under /verif/checks driven by the same driver: generated goa designs -> real goa generators from the working tree -> Go compiler -> generated server/client executed against generated values; round-trip, differential and reference-model oracles"},
		},
		"checks":         checks,
		"not_applicable": na,
		"notes":          "All checks are generated-input search with explicit oracles (property-based testing / fuzzing). Exit 0 held, 1 violation (VIOLATION line), 2 inconclusive (infrastructure). Known findings: /verif/known_findings.d/*.json (one file per property).",
	}
	b, _ := json.MarshalIndent(m, "", " ")
	if err := os.WriteFile(filepath.Join(root, "MANIFEST.json"), append(b, '\n'), 0o644); err != nil {
		fmt.Fprintln(os.Stderr, err)
		os.Exit(2)
	}
	fmt.Printf("MANIFEST.json: %d checks, %d not_applicable\n", len(checks), len(na))
}
