package main

func init() {
	registry["C13"] = Spec{
		Title:  "Type copies are independent and structural hashes match equality",
		Engine: "A",
		Pkg:    "./checks/c13",
		Tests: []TestSpec{
			{Name: "TestProbes"},
			{Name: "TestRegressions"},
			{Name: "TestPermutationsExhaustive"},
			{Name: "TestDupIndependent", Rapid: true, Quick: 10000, Thorough: 60000, QuickShards: 2, ThoroughShards: 8},
			{Name: "TestHashMatchesEquality", Rapid: true, Quick: 8000, Thorough: 40000, QuickShards: 2, ThoroughShards: 8},
			{Name: "TestPermutationInvariance", Rapid: true, Quick: 4000, Thorough: 20000, QuickShards: 2, ThoroughShards: 8},
			{Name: "TestRepeatStable", Rapid: true, Quick: 5000, Thorough: 25000, QuickShards: 2, ThoroughShards: 4},
		},
		Rule:      "case = one generated type graph (model: primitives, arrays, maps, objects, unions, user types, result types with views, references by index so that graphs may be self- and mutually recursive; nesting up to 5; validations, default values, examples, docs, references/bases and metadata incl. several struct:field:* and struct:tag:* keys) together with the derived copies / permuted rebuilds / edited variants / independent graphs it is compared with. Non-trivial = the graph has a cycle, or an object with >= 2 attributes, or a union, or an attribute with >= 2 tag metas. Distinct = SHA-256 of the JSON of the model.",
		LevelText: "Generated-input search over type graphs built the way the DSL builds them. Copies (Dup, DupAtt) are compared with the original by an own deep serialiser, an own bisimulation-style structural equality and expr.Equal; independence is checked by pointer disjointness of all mutable structure and by mutating the copy through the ordinary mutators (Object.Set/Delete/Rename, AddMeta, AddRequired/RemoveRequired/Merge, Rename, SetAttribute, field assignment) and re-serialising the original. Hash is compared, for all 8 flag combinations and in both directions, with a reference equality written from Hash's documentation, on permuted rebuilds, edited variants, mutated copies and independent graphs; every declaration order of <= 4 attributes/alternatives is enumerated (exhaustive sub-space); repeated Hash/Dup calls (up to 200 when several metadata keys are present) must agree. Exploration, not proof.",
		LevelNote: "Trusts the Go toolchain and rapid. The reference equality, the deep serialiser and the collision classifier are the check's own code (checks/c13/ref_test.go) and the part most likely to be wrong. Open known findings exclude their input class from the main search (counted in excluded_known) and are re-probed every run.",
		Technique: "property-based testing (rapid): reference-model comparison of Hash/Equal in both directions, metamorphic permutation invariance (exhaustive <= 4), copy-then-mutate independence with deep snapshots and pointer-disjointness, repetition for map-order nondeterminism",
		Assumptions: []string{
			"attribute, alternative, type and metadata names are plain identifiers: goa's hash text is not meant to be injective for names containing its own delimiters (- / + ! : _x_) and such names are outside the generated domain",
			"every cycle of a type graph passes through an object attribute (the only recursion the DSL can express); user type names and IDs are unique within a graph",
			"where Hash's documentation is silent the check does not assert: user type vs result type of the same name and shape, the type name of a union, struct:field tags on union alternatives or on a user type's own attribute, and bisimilar but non-isomorphic recursive graphs (a recursive type against its unrolling) are 'unspecified' pairs (counted as pair:unspecified)",
			"fields that Dup shares with the original by design are never mutated in place: Views, References, Bases of nested attributes, DefaultValue, UserExamples, enum value lists and the numbers behind validation pointers (ValidationExpr.Dup is documented as shallow); Docs and ContentType, which Dup does not carry over, are not part of the copy comparison (see checks/c13/NOTES.md)",
			"'terminates' is observed as the test process finishing within the driver's deadline; a stack overflow or hang in Hash/Dup fails the run",
		},
	}
}
