package main

func init() {
	registry["C20"] = Spec{
		Title:  "Generated servers and runtime helpers are safe under concurrent requests",
		Engine: "A",
		Pkg:    "./checks/c20",
		Tests: []TestSpec{
			{Name: "TestErrorEncoderConcurrent", Rapid: true, Race: true, Quick: 150, Thorough: 2000, QuickShards: 1, ThoroughShards: 2},
			{Name: "TestMuxerConcurrent", Rapid: true, Race: true, Quick: 150, Thorough: 2000, QuickShards: 1, ThoroughShards: 2},
			{Name: "TestPatternAndFormatConcurrent", Rapid: true, Race: true, Quick: 150, Thorough: 2000, QuickShards: 1, ThoroughShards: 2},
			{Name: "TestSamplersConcurrent", Rapid: true, Race: true, Quick: 100, Thorough: 1000, QuickShards: 1, ThoroughShards: 1},
			{Name: "TestEncodersConcurrent", Rapid: true, Race: true, Quick: 150, Thorough: 2000, QuickShards: 1, ThoroughShards: 2},
			{Name: "TestTextResponsesConcurrent", Rapid: true, Race: true, Quick: 150, Thorough: 2000, QuickShards: 1, ThoroughShards: 2},
			{Name: "TestConcurrentRawBodies", Race: true, QuickShards: 1, ThoroughShards: 2, DesignsQuick: 3, DesignsThorough: 12},
			{Name: "TestConcurrentStreams", Race: true, QuickShards: 1, ThoroughShards: 2, DesignsQuick: 3, DesignsThorough: 12},
			{Name: "TestStreamCancelerConcurrent", Rapid: true, Race: true, Quick: 100, Thorough: 1000, QuickShards: 1, ThoroughShards: 2},
			{Name: "TestSkipResponseWriterConcurrent", Rapid: true, Race: true, Quick: 100, Thorough: 1000, QuickShards: 1, ThoroughShards: 2},
			{Name: "TestConcurrentErrors", Rapid: true, Race: true, QuickShards: 1, ThoroughShards: 2, DesignsQuick: 3, DesignsThorough: 10},
			{Name: "TestConcurrentRoutes", Rapid: true, Race: true, QuickShards: 1, ThoroughShards: 2, DesignsQuick: 3, DesignsThorough: 10},
			{Name: "TestConcurrentViews", Rapid: true, Race: true, QuickShards: 1, ThoroughShards: 2, DesignsQuick: 2, DesignsThorough: 8},
			{Name: "TestConcurrentSecurity", Rapid: true, Race: true, QuickShards: 1, ThoroughShards: 2, DesignsQuick: 2, DesignsThorough: 8},
		},
		Rule:      "two kinds of cases. (1) design bursts: a generated design (errors, routes, views, security profiles) is generated, built with the race detector and mounted once; a burst = 48 (quick) or 96 (thorough) requests over its methods mixing valid payloads, single-fault invalid payloads, plain errors, declared and undeclared service errors and denied credentials, with per-request stub results; the burst is run twice sequentially (baseline; cases whose two sequential observations differ are excluded and counted) and then with 2, 8 and 64 client goroutines through the generated client against the generated server (real HTTP listener); 3 (quick) / 10 (thorough) bursts per design. Non-trivial = burst with >= 3 request kinds. (1b) streamed bodies: a fixed design whose methods stream the HTTP request and/or response body themselves (SkipRequestBodyEncodeDecode / SkipResponseBodyEncodeDecode), bursts of 8-48 requests with 8, 16 and 64 workers, every method invocation and every caller must see its own payload, request body and response body. (1c) streams: the fixed stream matrix design (websocket endpoints: result-, payload- and bidirectional streaming), bursts of 8-48 scripted streaming calls with 48, 8 and 2 workers; each end of each stream must see exactly the messages of its own call, in order, and its own initial payload. (2) helper schedules: 2-64 goroutines released together use one shared ErrorEncoder closure, one mounted Muxer (Vars/ResolvePattern), ValidatePattern with cached and never-seen patterns, the fixed/adaptive samplers, the response/request encoders/decoders, text/plain and text/html responses of handlers of one muxer mixed with requests for routes that are not mounted (before and during the burst), the SkipResponseWriter / WriterToFunc adapters (Read+Close, WriteTo and early Close), and the gRPC StreamCanceler interceptor with streams in flight while the server context is cancelled. Non-trivial = >= 3 goroutines with >= 2 kinds of inputs (per test). Distinct = SHA-256 of the burst / goroutine inputs.",
		LevelText: "Generated-input search under the Go race detector: every observation of a request run concurrently (status, headers, body, payload received by the service, result or error rebuilt by the client, auth calls, error-handler calls; random error IDs masked) must equal the observation of the same request run alone (metamorphic sequential/concurrent relation, i.e. each response is a function of its own request), and the race detector must stay silent in the harness process (any report is a violation). The helper tests check the same relation against a private instance of the helper. Schedules are those the Go scheduler produces on 16 cores with all goroutines released together; not an exhaustive interleaving search.",
		LevelNote: "Trusts the Go race detector (happens-before, no false positives), net/http, the verifier's harness (per-case state is carried in the request context and an X-Verif-Case header and guarded by a per-case mutex, so that the harness itself is race-free) and rapid. A schedule-dependent defect that did not occur in the explored schedules and is not a data race by Go's memory model is missed.",
		Technique: "property-based testing (rapid generators for designs and bursts) + Go race detector; metamorphic oracle: concurrent observation == sequential observation per request",
		Assumptions: []string{
			"handlers and middlewares are mounted before the first request (the property's precondition): Handle/Use are not called concurrently with ServeHTTP",
			"the adaptive sampler's verdicts are schedule dependent by design: only absence of races and panics is required of it",
			"random error IDs (goa.NewErrorID) are masked before comparing",
		},
	}
}
