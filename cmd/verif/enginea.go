package main

import (
	"bytes"
	"context"
	"encoding/json"
	"fmt"
	"io"
	"os"
	"os/exec"
	"path/filepath"
	"regexp"
	"sort"
	"strconv"
	"strings"
	"sync"
	"syscall"
	"time"

	"verif/internal/kf"
	"verif/internal/stats"
)

// TestSpec describes one Go test function of an Engine-A check.
type TestSpec struct {
	Name string
	// Rapid tests get -rapid.checks / -rapid.seed; others are plain tests
	// (exhaustive enumerations, probes) that read VERIF_SEED / VERIF_TIER.
	Rapid bool
	// checks per shard and number of shards, per tier
	Quick, Thorough             int
	QuickShards, ThoroughShards int
	// ThoroughOnly tests are skipped in the quick tier.
	ThoroughOnly bool
	// Race: run this test from the -race build (others use the plain build).
	Race bool
	// Engine-B style tests: number of designs per shard (VERIF_CHECKS); the
	// rapid checks then count value cases per method.
	DesignsQuick, DesignsThorough int
}

// FuzzSpec is a native fuzz target, thorough tier only, time-boxed.
type FuzzSpec struct {
	Name    string
	Seconds int
}

// Spec is the registry entry of one property.
type Spec struct {
	Title       string
	Engine      string // "A" (in-process library checks) or "B" (design pipeline)
	Pkg         string // Engine A: package path relative to /verif
	Tests       []TestSpec
	Fuzz        []FuzzSpec
	Rule        string
	Assumptions []string
	LevelText   string
	LevelNote   string
	Technique   string
	// Engine B
	B *BSpec
}

func verifRoot() string {
	if r := os.Getenv("VERIF_ROOT"); r != "" {
		return r
	}
	wd, _ := os.Getwd()
	// walk up to the directory holding go.mod with module verif
	for d := wd; d != "/"; d = filepath.Dir(d) {
		if b, err := os.ReadFile(filepath.Join(d, "go.mod")); err == nil && bytes.HasPrefix(b, []byte("module verif")) {
			return d
		}
	}
	return "/verif"
}

func repoRoot() string {
	if r := os.Getenv("VERIF_REPO"); r != "" {
		return r
	}
	return "/repo"
}

func goEnv() []string {
	env := os.Environ()
	env = append(env,
		"GOFLAGS=-mod=mod", "GOPROXY=off", "GOSUMDB=off", "GOTOOLCHAIN=local",
		"VERIF_ROOT="+verifRoot(),
	)
	return env
}

func scratchBase() string {
	if s := os.Getenv("VERIF_SCRATCH"); s != "" {
		return s
	}
	return "/var/tmp"
}

func newScratch(id string) (string, error) {
	return os.MkdirTemp(scratchBase(), "verif-"+strings.ToLower(id)+"-")
}

type procResult struct {
	test     TestSpec
	shard    int
	seed     int64
	checks   int
	dir      string
	out      string
	exit     int
	timedOut bool
	passedN  int // rapid "passed N tests"
	dur      time.Duration
}

var rePassed = regexp.MustCompile(`\[rapid\] OK, passed (\d+) tests`)

func buildTestBinary(root, pkg, out string, race bool) (string, error) {
	args := []string{"test", "-c", "-vet=off", "-o", out}
	if race {
		args = append(args, "-race")
	}
	args = append(args, pkg)
	cmd := exec.Command("go", args...)
	cmd.Dir = root
	cmd.Env = goEnv()
	b, err := cmd.CombinedOutput()
	return string(b), err
}

// isolateReplays makes replays/ a module of its own: replay directories hold
// printed designs (design.go) that must not become packages of module verif.
func isolateReplays(root string) {
	dir := filepath.Join(root, "replays")
	if err := os.MkdirAll(dir, 0o755); err == nil {
		if _, err := os.Stat(filepath.Join(dir, "go.mod")); err != nil {
			_ = os.WriteFile(filepath.Join(dir, "go.mod"), []byte("module replays\n\ngo 1.22\n"), 0o644)
		}
	}
}

// guardDisk keeps the Go build cache from filling the disk: every generated
// design is a set of packages nobody has compiled before, so the cache grows
// by gigabytes per campaign and Go only trims entries after days. When less
// than VERIF_MIN_FREE_GB (default 12) is free on the cache's file system the
// cache is emptied before the run (the run is then slower, not wrong).
//
// Emptying the cache under another build makes that build fail ("link: cannot
// open file …"), so the checks coordinate through a lock file next to the
// cache: every run holds it shared for its whole duration, the cleaner needs
// it exclusively and gives up after a while unless the disk is nearly full.
// The returned function releases the run's shared lock.
func guardDisk() func() {
	release := func() {}
	out, err := exec.Command("go", "env", "GOCACHE").Output()
	if err != nil {
		return release
	}
	dir := strings.TrimSpace(string(out))
	var st syscall.Statfs_t
	if dir == "" || syscall.Statfs(dir, &st) != nil {
		return release
	}
	lockPath := filepath.Join(filepath.Dir(dir), "verif-go-build.lock")
	lf, lerr := os.OpenFile(lockPath, os.O_CREATE|os.O_RDWR, 0o644)
	shared := func() {
		if lerr == nil {
			_ = syscall.Flock(int(lf.Fd()), syscall.LOCK_SH)
			release = func() { _ = syscall.Flock(int(lf.Fd()), syscall.LOCK_UN); _ = lf.Close() }
		}
	}
	minGB := 12
	if v, err := strconv.Atoi(os.Getenv("VERIF_MIN_FREE_GB")); err == nil && v > 0 {
		minGB = v
	}
	free := st.Bavail * uint64(st.Bsize) >> 30
	if free >= uint64(minGB) {
		shared()
		return release
	}
	// wait for the other runs to finish (up to 10 min; 40 min when the disk is nearly full)
	if lerr == nil {
		wait := 10 * time.Minute
		if free < 3 {
			wait = 40 * time.Minute
		}
		deadline := time.Now().Add(wait)
		got := false
		for time.Now().Before(deadline) {
			if syscall.Flock(int(lf.Fd()), syscall.LOCK_EX|syscall.LOCK_NB) == nil {
				got = true
				break
			}
			time.Sleep(2 * time.Second)
		}
		if !got {
			fmt.Printf("note: %d GiB free on the Go build cache's file system (< %d) but other checks are building: the cache is left alone\n", free, minGB)
			shared()
			return release
		}
	}
	fmt.Printf("note: %d GiB free on the Go build cache's file system (< %d): emptying the cache (go clean -cache)\n", free, minGB)
	c := exec.Command("go", "clean", "-cache")
	c.Env = goEnv()
	_ = c.Run()
	shared() // converts the exclusive lock into a shared one
	return release
}

func runCheck(id string, spec Spec, tier string, seed int64) int {
	isolateReplays(verifRoot())
	defer guardDisk()()
	if spec.Engine == "B" {
		return runEngineB(id, spec, tier, seed)
	}
	return runEngineA(id, spec, tier, seed)
}

func runEngineA(id string, spec Spec, tier string, seed int64) int {
	start := time.Now()
	root := verifRoot()
	scratch, err := newScratch(id)
	if err != nil {
		fmt.Println("INCONCLUSIVE cannot create scratch:", err)
		return 2
	}
	defer os.RemoveAll(scratch)

	needRace, needPlain := false, false
	for _, t := range spec.Tests {
		if t.ThoroughOnly && tier != "thorough" {
			continue
		}
		if t.Race {
			needRace = true
		} else {
			needPlain = true
		}
	}
	if len(spec.Fuzz) > 0 && tier == "thorough" {
		needPlain = true
	}
	bin := filepath.Join(scratch, "check.test")
	binRace := filepath.Join(scratch, "check.race.test")
	var wgb sync.WaitGroup
	var berr1, berr2 error
	var bout1, bout2 string
	if needPlain {
		wgb.Add(1)
		go func() { defer wgb.Done(); bout1, berr1 = buildTestBinary(root, spec.Pkg, bin, false) }()
	}
	if needRace {
		wgb.Add(1)
		go func() { defer wgb.Done(); bout2, berr2 = buildTestBinary(root, spec.Pkg, binRace, true) }()
	}
	wgb.Wait()
	if berr1 != nil || berr2 != nil {
		// The check package uses only goa's public API; if it no longer
		// builds the tree under test changed that API. That is not a
		// verdict about the property.
		fmt.Printf("INCONCLUSIVE property=%s check package does not build against the tree under test\n%s%s", id, bout1, bout2)
		return 2
	}

	// plan processes
	var plan []procResult
	for _, t := range spec.Tests {
		if t.ThoroughOnly && tier != "thorough" {
			continue
		}
		shards, checks := t.QuickShards, t.Quick
		if tier == "thorough" {
			shards, checks = t.ThoroughShards, t.Thorough
		}
		if shards <= 0 {
			shards = 1
		}
		for k := 0; k < shards; k++ {
			plan = append(plan, procResult{test: t, shard: k, seed: mixSeed(seed, t.Name, k), checks: checks})
		}
	}

	timeout := 15 * time.Minute
	if tier == "thorough" {
		timeout = 90 * time.Minute
	}
	sem := make(chan struct{}, workers())
	var wg sync.WaitGroup
	for i := range plan {
		wg.Add(1)
		go func(p *procResult) {
			defer wg.Done()
			sem <- struct{}{}
			defer func() { <-sem }()
			p.dir = filepath.Join(scratch, fmt.Sprintf("%s-%d", p.test.Name, p.shard))
			_ = os.MkdirAll(p.dir, 0o755)
			b := bin
			if p.test.Race {
				b = binRace
			}
			args := []string{"-test.run", "^" + p.test.Name + "$", "-test.v", "-test.count=1",
				"-test.timeout", (timeout + time.Minute).String()}
			if p.test.Rapid {
				args = append(args, "-rapid.seed="+strconv.FormatInt(p.seed, 10))
				if p.checks > 0 {
					args = append(args, "-rapid.checks="+strconv.Itoa(p.checks))
				}
			}
			ctx, cancel := context.WithTimeout(context.Background(), timeout)
			defer cancel()
			cmd := exec.CommandContext(ctx, b, args...)
			cmd.Dir = p.dir
			cmd.Env = append(goEnv(),
				"VERIF_STATS="+filepath.Join(p.dir, "stats.json"),
				"VERIF_SEED="+strconv.FormatInt(p.seed, 10),
				"VERIF_TIER="+tier,
				"VERIF_CHECKS="+strconv.Itoa(designsOr(p.test, tier, p.checks)),
				"VERIF_SHARD="+strconv.Itoa(p.shard),
				"VERIF_REPO="+repoRoot(),
				"VERIF_REPLAY_OUT="+filepath.Join(p.dir, "replayout"),
				"GORACE=halt_on_error=0",
			)
			t0 := time.Now()
			out, err := cmd.CombinedOutput()
			p.dur = time.Since(t0)
			p.out = string(out)
			if ctx.Err() == context.DeadlineExceeded {
				p.timedOut = true
			}
			if err != nil {
				p.exit = 1
				if ee, ok := err.(*exec.ExitError); ok {
					p.exit = ee.ExitCode()
					if p.exit == 0 {
						p.exit = 1
					}
				}
			}
			if m := rePassed.FindStringSubmatch(p.out); m != nil {
				p.passedN, _ = strconv.Atoi(m[1])
			}
		}(&plan[i])
	}
	wg.Wait()

	// native fuzzing (thorough only)
	var fuzzNotes []string
	var fuzzFailures []string
	if tier == "thorough" {
		for _, f := range spec.Fuzz {
			note, crasher := runFuzz(root, spec.Pkg, f, scratch)
			fuzzNotes = append(fuzzNotes, note)
			if crasher != "" {
				fuzzFailures = append(fuzzFailures, crasher)
			}
		}
	}

	// collect
	merged := stats.File{}
	seen := map[uint64]struct{}{}
	violations := 0
	inconclusive := 0
	var perTest []map[string]any
	var lines []string
	for i := range plan {
		p := &plan[i]
		if b, err := os.ReadFile(filepath.Join(p.dir, "stats.json")); err == nil {
			var f stats.File
			if json.Unmarshal(b, &f) == nil {
				stats.Merge(&merged, &f, seen)
			}
		}
		entry := map[string]any{"test": p.test.Name, "shard": p.shard, "seed": p.seed, "requested": p.checks, "passed": p.passedN, "wall_s": round1(p.dur.Seconds()), "race": p.test.Race}
		status := "ok"
		switch {
		case p.timedOut || strings.Contains(p.out, "panic: test timed out"):
			status = "timeout"
			inconclusive++
			lines = append(lines, fmt.Sprintf("INCONCLUSIVE property=%s test=%s shard=%d deadline hit (no verdict)", id, p.test.Name, p.shard))
		case strings.Contains(p.out, "INCONCLUSIVE:") && p.exit != 0 && onlyInconclusiveFailures(p.out):
			status = "inconclusive"
			inconclusive++
			lines = append(lines, fmt.Sprintf("INCONCLUSIVE property=%s test=%s shard=%d %s", id, p.test.Name, p.shard, firstLineWith(p.out, "INCONCLUSIVE:")))
		case p.exit != 0:
			status = "FAIL"
			violations++
			rp := saveReplayA(root, id, p)
			lines = append(lines, fmt.Sprintf("VIOLATION property=%s replay=%s", id, rp))
			fmt.Println(tail(p.out, 60))
		case p.test.Rapid && p.checks > 0 && p.passedN < p.checks && p.test.DesignsQuick == 0:
			status = "short"
			inconclusive++
			lines = append(lines, fmt.Sprintf("INCONCLUSIVE property=%s test=%s shard=%d ran %d of %d cases", id, p.test.Name, p.shard, p.passedN, p.checks))
		}
		entry["status"] = status
		perTest = append(perTest, entry)
	}
	for _, c := range fuzzFailures {
		violations++
		lines = append(lines, fmt.Sprintf("VIOLATION property=%s replay=%s", id, c))
	}

	// known-finding probes
	known := 0
	probeSeen := map[string]bool{}
	for _, pr := range merged.Probes {
		if probeSeen[pr.Finding] {
			continue
		}
		probeSeen[pr.Finding] = true
		f, ok := kf.Get(pr.Finding)
		if !pr.Hit {
			continue
		}
		if ok && f.Status == "open" {
			known++
			lines = append(lines, fmt.Sprintf("KNOWN-FINDING: property=%s %s [%s]", id, f.What, f.ID))
		} else {
			// a probe that fires without an open entry: the defect is
			// back (fixed entry) or was never listed
			violations++
			rp := saveProbeReplay(root, id, pr)
			lines = append(lines, fmt.Sprintf("probe %s fired although the finding is not listed as open: %s", pr.Finding, pr.What))
			lines = append(lines, fmt.Sprintf("VIOLATION property=%s replay=%s", id, rp))
		}
	}

	cov := map[string]any{
		"evaluations":         merged.Evaluations,
		"distinct_nontrivial": len(seen),
		"rule":                spec.Rule,
		"samples":             append(append([]any{}, merged.NTSamples...), merged.Samples...),
		"classes":             merged.Classes,
		"excluded_known":      merged.Excluded,
		"probes":              merged.Probes,
		"processes":           perTest,
		"notes":               merged.Notes,
	}
	if len(merged.Exhaustive) > 0 {
		var ex []string
		for k := range merged.Exhaustive {
			ex = append(ex, k)
		}
		sort.Strings(ex)
		cov["exhaustive_subspaces"] = ex
	}
	if len(fuzzNotes) > 0 {
		cov["native_fuzz"] = fuzzNotes
	}
	writeEvidence(root, id, tier, seed, cov, spec.Assumptions, time.Since(start).Seconds(), violations)

	for _, l := range lines {
		fmt.Println(l)
	}
	fmt.Printf("property=%s tier=%s seed=%d evaluations=%d distinct_nontrivial=%d violations=%d known_findings=%d inconclusive=%d wall=%.1fs\n",
		id, tier, seed, merged.Evaluations, len(seen), violations, known, inconclusive, time.Since(start).Seconds())
	if violations > 0 {
		return 1
	}
	if inconclusive > 0 {
		return 2
	}
	return 0
}

// onlyInconclusiveFailures: every rapid failure / panic line of the output is
// itself an INCONCLUSIVE report (an infrastructure problem met inside a
// property function), or there is no rapid failure line at all.
func onlyInconclusiveFailures(out string) bool {
	for _, l := range strings.Split(out, "\n") {
		if (strings.Contains(l, "[rapid] failed") || strings.Contains(l, "[rapid] panic")) && !strings.Contains(l, "INCONCLUSIVE:") {
			return false
		}
	}
	return true
}

func designsOr(t TestSpec, tier string, checks int) int {
	if tier == "thorough" && t.DesignsThorough > 0 {
		return t.DesignsThorough
	}
	if tier != "thorough" && t.DesignsQuick > 0 {
		return t.DesignsQuick
	}
	return checks
}

func workers() int {
	if v := os.Getenv("VERIF_WORKERS"); v != "" {
		if n, err := strconv.Atoi(v); err == nil && n > 0 {
			return n
		}
	}
	return 16
}

func mixSeed(seed int64, name string, k int) int64 {
	// splitmix-style mixing: deterministic function of (seed, name, shard)
	x := uint64(seed)*0x9E3779B97F4A7C15 + uint64(k+1)*0xBF58476D1CE4E5B9
	for _, c := range name {
		x = (x ^ uint64(c)) * 0x94D049BB133111EB
	}
	x ^= x >> 31
	v := int64(x & 0x7fffffffffffffff)
	if v == 0 {
		v = 1
	}
	return v
}

func round1(f float64) float64 { return float64(int(f*10)) / 10 }

func tail(s string, n int) string {
	ls := strings.Split(strings.TrimRight(s, "\n"), "\n")
	if len(ls) > n {
		ls = ls[len(ls)-n:]
	}
	return strings.Join(ls, "\n")
}

func firstLineWith(s, sub string) string {
	for _, l := range strings.Split(s, "\n") {
		if strings.Contains(l, sub) {
			return strings.TrimSpace(l)
		}
	}
	return ""
}

func saveReplayA(root, id string, p *procResult) string {
	dir := filepath.Join(root, "replays", id, fmt.Sprintf("%s-seed%d", p.test.Name, p.seed))
	_ = os.RemoveAll(dir)
	_ = os.MkdirAll(dir, 0o755)
	_ = os.WriteFile(filepath.Join(dir, "output.log"), []byte(p.out), 0o644)
	meta := map[string]any{"property": id, "test": p.test.Name, "rapid": p.test.Rapid, "seed": p.seed, "checks": p.checks, "race": p.test.Race}
	// rapid fail file
	_ = filepath.Walk(filepath.Join(p.dir, "testdata"), func(path string, info os.FileInfo, err error) error {
		if err == nil && !info.IsDir() && strings.HasSuffix(path, ".fail") {
			if b, e := os.ReadFile(path); e == nil {
				_ = os.WriteFile(filepath.Join(dir, "case.fail"), b, 0o644)
				meta["failfile"] = "case.fail"
			}
		}
		return nil
	})
	// any case file the test wrote itself
	if b, err := os.ReadFile(filepath.Join(p.dir, "case.json")); err == nil {
		_ = os.WriteFile(filepath.Join(dir, "case.json"), b, 0o644)
	}
	mb, _ := json.MarshalIndent(meta, "", " ")
	_ = os.WriteFile(filepath.Join(dir, "meta.json"), mb, 0o644)
	// design-level replays written by the test itself (design.json, design.go, case.json …)
	first := ""
	if entries, err := os.ReadDir(filepath.Join(p.dir, "replayout")); err == nil {
		for _, e := range entries {
			if !e.IsDir() {
				continue
			}
			sub := filepath.Join(dir, e.Name())
			_ = os.MkdirAll(sub, 0o755)
			files, _ := os.ReadDir(filepath.Join(p.dir, "replayout", e.Name()))
			for _, f := range files {
				if b, err := os.ReadFile(filepath.Join(p.dir, "replayout", e.Name(), f.Name())); err == nil {
					_ = os.WriteFile(filepath.Join(sub, f.Name()), b, 0o644)
				}
			}
			dm := map[string]any{}
			for k, v := range meta {
				dm[k] = v
			}
			delete(dm, "failfile")
			dm["design_replay"] = true
			dmb, _ := json.MarshalIndent(dm, "", " ")
			_ = os.WriteFile(filepath.Join(sub, "meta.json"), dmb, 0o644)
			if first == "" {
				first = sub
			}
		}
	}
	if first != "" {
		return first
	}
	return dir
}

func saveProbeReplay(root, id string, pr stats.Probe) string {
	dir := filepath.Join(root, "replays", id, "probe-"+pr.Finding)
	_ = os.RemoveAll(dir)
	_ = os.MkdirAll(dir, 0o755)
	meta := map[string]any{"property": id, "test": "TestProbes", "probe": pr.Finding, "what": pr.What}
	mb, _ := json.MarshalIndent(meta, "", " ")
	_ = os.WriteFile(filepath.Join(dir, "meta.json"), mb, 0o644)
	return dir
}

func writeEvidence(root, id, tier string, seed int64, cov map[string]any, assumptions []string, wall float64, violations int) {
	if s, ok := cov["samples"].([]any); !ok || len(s) == 0 {
		cov["samples"] = []any{"(no sample recorded)"}
	}
	ev := map[string]any{
		"property_id": id,
		"tier":        tier,
		"seed":        seed,
		"level":       "exploration",
		"coverage":    cov,
		"assumptions": assumptions,
		"wall_s":      round1(wall),
		"violations":  violations,
	}
	b, _ := json.MarshalIndent(ev, "", " ")
	_ = os.MkdirAll(filepath.Join(root, "evidence"), 0o755)
	_ = os.WriteFile(filepath.Join(root, "evidence", id+".json"), append(b, '\n'), 0o644)
}

func runFuzz(root, pkg string, f FuzzSpec, scratch string) (note, crasher string) {
	// native fuzzing: cannot be pinned to a seed; a time-out is never a violation
	cacheDir := filepath.Join(scratch, "fuzzcache-"+f.Name)
	pkgDir := filepath.Join(root, pkg)
	args := []string{"test", "-vet=off", "-run", "^$", "-fuzz", "^" + f.Name + "$", "-fuzztime", fmt.Sprintf("%ds", f.Seconds), pkg, "-test.fuzzcachedir", cacheDir}
	cmd := exec.Command("go", args...)
	cmd.Dir = root
	cmd.Env = goEnv()
	var buf bytes.Buffer
	cmd.Stdout, cmd.Stderr = &buf, &buf
	err := cmd.Run()
	out := buf.String()
	execs := ""
	if m := regexp.MustCompile(`execs: (\d+)`).FindAllStringSubmatch(out, -1); len(m) > 0 {
		execs = m[len(m)-1][1]
	}
	note = fmt.Sprintf("%s: %ds, execs=%s", f.Name, f.Seconds, execs)
	if execs == "" {
		note += " DID-NOT-RUN: " + firstLineWith(out, "")
		fmt.Printf("INCONCLUSIVE fuzz target %s did not run:\n%s\n", f.Name, tail(out, 10))
	}
	if err != nil && strings.Contains(out, "Failing input written to") {
		// move the crasher out of the package tree into replays
		m := regexp.MustCompile(`Failing input written to (\S+)`).FindStringSubmatch(out)
		if m != nil {
			src := filepath.Join(pkgDir, m[1])
			dstDir := filepath.Join(root, "replays", strings.ToUpper(filepath.Base(pkg)), "fuzz-"+f.Name)
			_ = os.MkdirAll(dstDir, 0o755)
			dst := filepath.Join(dstDir, filepath.Base(src))
			if in, e := os.Open(src); e == nil {
				if o, e2 := os.Create(dst); e2 == nil {
					_, _ = io.Copy(o, in)
					o.Close()
				}
				in.Close()
				_ = os.Remove(src)
			}
			_ = os.WriteFile(filepath.Join(dstDir, "output.log"), []byte(out), 0o644)
			mb, _ := json.Marshal(map[string]any{"fuzz": f.Name, "input": filepath.Base(dst)})
			_ = os.WriteFile(filepath.Join(dstDir, "meta.json"), mb, 0o644)
			fmt.Println(tail(out, 40))
			return note + " CRASH", dstDir
		}
	}
	return note, ""
}

func replay(id string, spec Spec, path string) int {
	if spec.Engine == "B" {
		return replayEngineB(id, spec, path)
	}
	root := verifRoot()
	mb, err := os.ReadFile(filepath.Join(path, "meta.json"))
	if err != nil {
		fmt.Println("cannot read meta.json:", err)
		return 2
	}
	var meta map[string]any
	_ = json.Unmarshal(mb, &meta)
	scratch, err := newScratch(id)
	if err != nil {
		return 2
	}
	defer os.RemoveAll(scratch)
	if fz, ok := meta["fuzz"].(string); ok {
		// re-run the saved fuzz input as a plain test
		corpus := filepath.Join(root, spec.Pkg, "testdata", "fuzz", fz)
		_ = os.MkdirAll(corpus, 0o755)
		in := meta["input"].(string)
		b, _ := os.ReadFile(filepath.Join(path, in))
		tmp := filepath.Join(corpus, "replay-"+in)
		_ = os.WriteFile(tmp, b, 0o644)
		defer os.Remove(tmp)
		cmd := exec.Command("go", "test", "-vet=off", "-run", "^"+fz+"$/replay-"+in, spec.Pkg)
		cmd.Dir = root
		cmd.Env = goEnv()
		out, err := cmd.CombinedOutput()
		fmt.Println(string(out))
		if err != nil {
			fmt.Printf("VIOLATION property=%s replay=%s\n", id, path)
			return 1
		}
		return 0
	}
	race, _ := meta["race"].(bool)
	bin := filepath.Join(scratch, "check.test")
	if out, err := buildTestBinary(root, spec.Pkg, bin, race); err != nil {
		fmt.Println("INCONCLUSIVE build failed:", out)
		return 2
	}
	test, _ := meta["test"].(string)
	args := []string{"-test.run", "^" + test + "$", "-test.v", "-test.count=1"}
	if ff, ok := meta["failfile"].(string); ok {
		abs, _ := filepath.Abs(filepath.Join(path, ff))
		args = append(args, "-rapid.failfile="+abs)
	} else if s, ok := meta["seed"].(float64); ok && meta["rapid"] == true {
		args = append(args, "-rapid.seed="+strconv.FormatInt(int64(s), 10))
		if c, ok := meta["checks"].(float64); ok && c > 0 {
			args = append(args, "-rapid.checks="+strconv.Itoa(int(c)))
		}
	}
	cmd := exec.Command(bin, args...)
	cmd.Dir = scratch
	env := goEnv()
	if pr, ok := meta["probe"].(string); ok {
		env = append(env, "VERIF_PROBE_ONLY="+pr)
	}
	if s, ok := meta["seed"].(float64); ok {
		env = append(env, "VERIF_SEED="+strconv.FormatInt(int64(s), 10))
	}
	abs, _ := filepath.Abs(path)
	env = append(env, "VERIF_REPLAY_DIR="+abs)
	cmd.Env = env
	out, err := cmd.CombinedOutput()
	fmt.Println(string(out))
	if err != nil || strings.Contains(string(out), "PROBE-HIT") {
		fmt.Printf("VIOLATION property=%s replay=%s\n", id, path)
		return 1
	}
	fmt.Println("replay passed: the property holds on this case with the current tree")
	return 0
}
