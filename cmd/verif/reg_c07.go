package main

func init() {
	registry["C07"] = Spec{
		Title:  "OpenAPI documents are valid and list exactly the server's operations",
		Engine: "A",
		Pkg:    "./checks/c07",
		Tests: []TestSpec{
			{Name: "TestProbes"},
			{Name: "TestOpenAPI", Quick: 40, Thorough: 400, QuickShards: 1, ThoroughShards: 4, DesignsQuick: 40, DesignsThorough: 400},
		},
		Rule:      "a case = one generated design (routes profile: 1-3 routes per endpoint over all verbs, API/service base paths, parameters in every location, file servers, security schemes, errors, openapi meta). Non-trivial = the design has an endpoint with >= 2 routes, or a file server, or two verbs on one path. Distinct = SHA-256 of the design's feature vector and name.",
		LevelText: "Generated-input search over designs: openapi.json/openapi3.json are loaded and validated with kin-openapi (OpenAPI 2 through openapi2conv, plus the verifier's own checks of path parameters and operationIds), JSON and YAML renderings are parsed and compared as trees, the set of (verb, path) pairs the generated Mount really passes to Muxer.Handle (recording muxer in the harness) is compared in both directions with the documented operations, and for every operation the parameters (name, location, required), the presence of a request body, the response codes and the security requirements are compared with the design model.",
		LevelNote: "Trusts kin-openapi v0.128 as the OpenAPI validator (examples are not validated: the specification only says they SHOULD match), yaml.v3, the verifier's design model, and the recording muxer. Documents that the converter cannot translate for OpenAPI 2 validation are counted, not judged. Fixed designs next to the generated ones: parameter, verb, stream (101 for the success code, no request body) and MapParams (one object query parameter) matrices; services may declare several base paths.",
		Technique: "property-based testing over generated designs: independent OpenAPI validator, JSON/YAML tree comparison, and differential comparison of the recorded mounts with the documented operations and the design model",
		Assumptions: []string{
			"a catch-all {*x} is documented as {x}; a file server on /dir/{*x} also answering on /dir/ is covered by the documented /dir/{x}",
			"OpenAPI 2 cannot express TRACE/CONNECT operations; header parameters named Authorization are described by the security scheme",
		},
	}
}
