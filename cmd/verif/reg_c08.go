package main

func init() {
	registry["C08"] = Spec{
		Title:  "Result views expose exactly the attributes of the selected view",
		Engine: "A",
		Pkg:    "./checks/c08",
		Tests: []TestSpec{
			{Name: "TestProbes"},
			{Name: "TestViews", Rapid: true, Quick: 150, Thorough: 600, QuickShards: 1, ThoroughShards: 6, DesignsQuick: 32, DesignsThorough: 120},
		},
		Rule:      "a case = (generated design whose results are result types with 1-3 views, nested result types with per-attribute view overrides, collections, recursion; method; result value; view chosen by the stub among the defined ones and \"\", or fixed in the design; kind): 'view' (normal call), 'undefined-view' (the real response re-labelled with an undefined view name and handed to the generated client), 'missing-required' (the real response without a required attribute of the rendered view). Non-trivial = non-default view, or a nested result type rendered with another view than its parent's, or a collection, or a relabelled/edited response. Distinct = SHA-256 of the case.",
		LevelText: "Generated-input search: a reference projection (view fields, per-attribute view override, attribute view meta, default) is applied to the value the stub returns; the JSON keys on the wire at every depth must be exactly the projected attributes, the goa-view header must name the chosen view, the client result must equal the projection with attributes outside the view unset, an undefined view label must be refused, and a response lacking a required attribute of the view must be refused.",
		LevelNote: "Trusts the Go tool chain, net/http, rapid, and the verifier's projection (internal/oracle.Project) and harness. Unset is observed as nil or, for non-pointer Go fields, as the zero value. A failure of the search is attributed to an open finding only when the design matches the finding's model predicate and the observation shows its mark (see known_findings.d/c08.json); everything else is reported.",
		Technique: "property-based testing (rapid): reference view projection against generated server/client, plus metamorphic edits of real responses (relabelled view, removed required attribute)",
		Assumptions: []string{
			"attributes outside the view that are non-pointer Go fields (required primitives, primitives with defaults) show as their zero value at the client",
			"the view label is only carried (goa-view) when the method picks the view among several",
		},
	}
}
