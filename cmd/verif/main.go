// Command verif is the driver of the verification framework.
//
//	verif run <Cnn> [--tier quick|thorough]
//	verif replay <Cnn> <path>
//	verif list
//
// Exit codes: 0 property held on everything explored; 1 violation (a line
// "VIOLATION property=<id> replay=<path>" is printed); 2 inconclusive
// (infrastructure problem: build failure of the harness itself, deadline,
// worker death).
package main

import (
	"fmt"
	"os"
	"sort"
	"strconv"
	"strings"
)

func usage() {
	fmt.Fprintln(os.Stderr, "usage: verif run <Cnn> [--tier quick|thorough] | verif replay <Cnn> <path> | verif list")
	os.Exit(2)
}

func main() {
	if len(os.Args) < 2 {
		usage()
	}
	switch os.Args[1] {
	case "list":
		ids := make([]string, 0, len(registry))
		for id := range registry {
			ids = append(ids, id)
		}
		sort.Strings(ids)
		for _, id := range ids {
			fmt.Println(id, registry[id].Title)
		}
	case "manifest":
		writeManifest()
	case "run":
		if len(os.Args) < 3 {
			usage()
		}
		id := strings.ToUpper(os.Args[2])
		tier := os.Getenv("VERIF_TIER")
		for i := 3; i < len(os.Args); i++ {
			if os.Args[i] == "--tier" && i+1 < len(os.Args) {
				tier = os.Args[i+1]
				i++
			} else if strings.HasPrefix(os.Args[i], "--tier=") {
				tier = strings.TrimPrefix(os.Args[i], "--tier=")
			}
		}
		if tier != "thorough" {
			tier = "quick"
		}
		spec, ok := registry[id]
		if !ok {
			fmt.Fprintln(os.Stderr, "unknown property", id)
			os.Exit(2)
		}
		os.Exit(runCheck(id, spec, tier, seed()))
	case "replay":
		if len(os.Args) < 4 {
			usage()
		}
		id := strings.ToUpper(os.Args[2])
		spec, ok := registry[id]
		if !ok {
			fmt.Fprintln(os.Stderr, "unknown property", id)
			os.Exit(2)
		}
		os.Exit(replay(id, spec, os.Args[3]))
	default:
		usage()
	}
}

// seed returns VERIF_SEED remapped so that it is never 0 (rapid's "random").
func seed() int64 {
	s := int64(1)
	if v := os.Getenv("VERIF_SEED"); v != "" {
		if n, err := strconv.ParseInt(v, 10, 64); err == nil {
			s = n
		}
	}
	if s == 0 {
		s = 0x5eed5eed
	}
	if s < 0 {
		s = -s
	}
	return s
}
