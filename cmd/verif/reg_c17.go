package main

func init() {
	registry["C17"] = Spec{
		Title:  "Format and pattern validators accept exactly the named formats",
		Engine: "A",
		Pkg:    "./checks/c17",
		Tests: []TestSpec{
			{Name: "TestProbes"},
			{Name: "TestRegressions"},
			{Name: "TestFormatTables"},
			{Name: "TestFormats", Rapid: true, Quick: 3000, Thorough: 15000, QuickShards: 2, ThoroughShards: 16},
			{Name: "TestIPRelations", Rapid: true, Quick: 6000, Thorough: 60000, QuickShards: 1, ThoroughShards: 8},
			{Name: "TestPatternAgreement", Rapid: true, Quick: 3000, Thorough: 20000, QuickShards: 1, ThoroughShards: 8},
			{Name: "TestPatternHistory", Rapid: true, Quick: 1000, Thorough: 4000, QuickShards: 2, ThoroughShards: 16},
			{Name: "TestPatternConcurrent", Rapid: true, Quick: 1500, Thorough: 10000, QuickShards: 2, ThoroughShards: 16, Race: true},
		},
		Fuzz: []FuzzSpec{
			{Name: "FuzzDateTime", Seconds: 60},
			{Name: "FuzzIPRelation", Seconds: 60},
			{Name: "FuzzPattern", Seconds: 60},
			{Name: "FuzzJSONAndRegexp", Seconds: 60},
			{Name: "FuzzHostname", Seconds: 60},
			{Name: "FuzzUUID", Seconds: 60},
		},
		Rule:      "cases = (format, string) pairs: a well-formed instance built from the format's grammar, or a single-point corruption of one (field out of range, separator removed, illegal byte inserted, truncated, ...); (pattern, value) pairs with the pattern drawn from an RE2-subset grammar and the value a member / non-member by construction or arbitrary; steps of sequential histories over >= 12 textually close patterns; concurrent histories of 1-16 goroutines on never-used patterns. Non-trivial = a corrupted instance, or an IPv4-mapped IPv6 address, or a pattern (re-)used after >= 10 other distinct patterns, or a concurrent history. Distinct = SHA-256 of (format|kind|value) resp. (pattern without uniqueness token|value).",
		LevelText: "Generated-input search. Per format, instances are built constructively from the grammar the format's doc comment names (RFC 3339, 4122, 5322, 1035, 2373, 3986, 4632/4291, 8259, 1123/822, IEEE 802, RE2) and must be accepted; single-point corruptions that are malformed under every reading must be rejected with a ServiceError named invalid_format; the three IP formats are related on the same strings (ip <=> ipv4 xor ipv6), exhaustively for all 87381 strings over {1 . : f} up to length 8 and for boundary tables (calendar, clock fields, octets, prefix lengths, UUID variant). ValidatePattern is compared with regexp.MustCompile(p).MatchString(v) on grammar-generated patterns, inside sequential histories of interleaved look-alike patterns and inside concurrent histories (goroutines released together on patterns the process-wide cache has never seen) run from the -race build. Exploration, not proof: the enumerated tables are complete, everything else is sampled; the Go scheduler is not controlled.",
		LevelNote: "Trusts the Go standard regexp package as the reference for pattern matching (the property names it), the race detector, rapid, and the reference grammars transcribed in the generators (calendar, RFC 8259 recogniser, RFC 1035 label syntax). Strings on which reasonable readings of a format differ (leap second, one-digit hour, offset 24:00, leading-zero octets, trailing-dot host names, digit-leading labels, lenient URI characters) are neither asserted valid nor used as corruptions.",
		Technique: "property-based testing (rapid): constructive generators + corruption operators per format, metamorphic relation between the IP formats, differential testing of ValidatePattern against regexp on grammar-generated patterns, stateful and concurrent (race-detector) histories; native fuzzing with reference recognisers",
		Assumptions: []string{
			"'well-formed' is defined by the document each Format constant's doc comment cites; only the core of each grammar is generated (e.g. rfc1123: day-of-week, two-digit day, seconds, three-letter RFC 822 zone)",
			"uuid: the four spellings listed above validateUUID are well-formed; the RFC 4122 variant (10x) is required because the code and its error text say so",
			"ValidatePattern is only called with expressions regexp.Compile accepts: its behaviour on an invalid expression (panic from MustCompile) is documented as a DSL-time concern",
			"a pattern is 'never seen before' relative to this test process; the cache under test is process-global, so every test process starts from an empty cache",
		},
	}
}
