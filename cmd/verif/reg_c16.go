package main

func init() {
	registry["C16"] = Spec{
		Title:  "The router dispatches by pattern and returns the original path values",
		Engine: "A",
		Pkg:    "./checks/c16",
		Tests: []TestSpec{
			{Name: "TestProbes"},
			{Name: "TestValueTable"},
			{Name: "TestDispatch", Rapid: true, Quick: 80000, Thorough: 150000, QuickShards: 2, ThoroughShards: 16},
			{Name: "TestRoundTrip", Rapid: true, Quick: 30000, Thorough: 100000, QuickShards: 1, ThoroughShards: 8},
		},
		Fuzz:      []FuzzSpec{{Name: "FuzzRoute", Seconds: 120}},
		Rule:      "case = (set of 1-6 registered method+pattern pairs over literals, {name} and a trailing {*name}; 0-3 Use-middlewares, optionally resolving the pattern before next, optionally SmartRedirectSlashes; one request: method, escaped path, Accept) judged against a reference matcher. Non-trivial = a substituted wildcard value contains '%' or '/' or a non-ASCII rune or is an empty catch-all, or >=3 registered patterns share their first segment. Distinct = SHA-256 of the printed configuration and request.",
		LevelText: "Generated-input search: random pattern sets and middleware set-ups are mounted on the real goahttp.NewMuxer; URLs are built by substituting url.PathEscape'd values into a pattern (Path/RawPath set by net/url), the way a server parses a request line, and the way goa's generated client does (url.URL{Path: ...}), plus near misses and free paths; handler reached, Muxer.Vars, ResolvePattern at four observation points (Use-middleware before/after next, handler-level middleware, handler), Use-middleware order, 404 status/body per negotiated type and SmartRedirectSlashes transparency are compared with an independent reference matcher working on the escaped path. A table of special values x positions x styles is enumerated completely. Exploration, not proof.",
		LevelNote: "Trusts net/url (PathEscape/PathUnescape/Parse), net/http/httptest, encoding/json|xml|gob and rapid. The reference matcher (segment-wise matching on the escaped path, then percent-decoding) is written from the Muxer interface documentation and the property text; chi's precedence between several matching patterns is deliberately not modelled (any matching handler is accepted).",
		Technique: "property-based testing (rapid): reference-model comparison and construct/capture round trip over generated pattern sets, values and requests; exhaustive special-value table; native fuzzing of values with the same oracle",
		Assumptions: []string{
			"an empty single-segment value cannot be routed (it is an empty path segment): single-segment values are non-empty; paths with an empty segment other than the last one (a catch-all value with a leading '/' or '//' sent with literal slashes) are sent with the slashes escaped instead",
			"literal pattern segments are unreserved ASCII and are sent verbatim (never percent-encoded) by the client",
			"a single-segment value containing '/' is sent as %2F; goa's generated client cannot do that (recorded under C02), so the goa-client request style is used only for values without '/' in single-segment positions",
			"a request whose path matches patterns registered under other methods only may be answered 404 or 405; 404 with a well-formed body is required when no pattern matches the path at all",
			"Use is called before the first Handle (chi panics otherwise); 'middlewares after handlers' is exercised as middleware wrapped around each handler, the way generated servers apply server.Use",
			"when several registered patterns match, any of them may be chosen (the Muxer documentation only says 'most closely matches')",
			"values are valid UTF-8; HTTP methods are those chi knows (GET POST PUT DELETE PATCH HEAD OPTIONS used)",
			"SmartRedirectSlashes is judged against its doc comment for paths made of unreserved characters only; for other paths only 'a matching request still reaches its handler' and 'no redirect to an unregistered path' are required",
		},
	}
}
