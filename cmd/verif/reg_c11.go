package main

func init() {
	registry["C11"] = Spec{
		Title:  "DSL evaluation runs in global phases and dependency order",
		Engine: "A",
		Pkg:    "./checks/c11",
		Tests: []TestSpec{
			{Name: "TestProbes"},
			{Name: "TestRegressions"},
			{Name: "TestGraphsExhaustive"},
			{Name: "TestRandomBehaviours", Rapid: true, Quick: 15000, Thorough: 60000, QuickShards: 4, ThoroughShards: 16},
		},
		Rule:      "case = (1-6 instrumented eval.Root values with a dependency graph, their expression sets: expressions implementing any subset of Source/Preparer/Validator/Finalizer whose DSL may report errors, append expressions to a later set or to the running set, or register a new root; Validate may return 1-3 errors; a registration order). Every case is executed by the real eval.RunDSL after eval.Reset(). Non-trivial = the graph has a shared dependency (a root two others depend on) or a transitive one (path of length >= 2) or a cycle, or some DSL appends an expression / registers a root, or some DSL or Validate reports an error. Distinct = SHA-256 of the JSON of the case plus the registration order.",
		LevelText: "Generated-input search against the real engine: every directed graph on 1-4 roots (1, 4, 64, 4096 graphs; quick tier: every 16th 4-root graph) x both DependsOn listing orders x every registration order x 4 fixed behaviour profiles is enumerated, and random graphs on 1-6 roots with rapid-drawn expression behaviours are run under all (<=3 roots) or three registration orders. The oracle is a set of invariants over the recorded callback trace and the returned error (phase barrier, exactly-once completeness in set order, dependency order for every edge of the transitive closure in every phase, cycle => error and no callback, all DSL errors / all validation errors returned together, no later phase after an error, outcome independent of registration order), plus a direct check of Context.Roots(). Exploration: the graph sub-space <= 4 roots is complete for the fixed profiles, behaviours are sampled.",
		LevelNote: "Trusts the Go tool chain and rapid. The invariants are written from eval/doc.go, the doc comments of RunDSL/Roots/runSet/ExpressionSet and the property text; the instrumented root follows the WalkSets pattern of eval/doc.go (hands its slice fields to the iterator, reading each set when its turn comes, as goa's own expr.Root does). Callbacks of the root value itself (goa passes ExpressionSet{root} to prepare/validate/finalize) are only required to respect barrier, order, at-most-once and the no-later-phase rule, because no documentation promises them.",
		Technique: "property-based testing (rapid) + exhaustive enumeration of small dependency graphs and registration orders; trace invariants; metamorphic comparison across registration orders",
		Assumptions: []string{
			"a root never depends on itself (the quantifier's 4096 graphs on 4 roots are the loop-free ones); Roots() does not report a self-dependency as a cycle, which is not judged",
			"roots registered during execution depend only on roots that are already registered (quantifier: 'with its own dependencies on existing roots'), so they cannot create a cycle",
			"a DSL appends only to the set being executed or to a later set of its own root; appending to sets that were already executed or to other roots is not covered by any documented promise",
			"Prepare/Validate/Finalize implementations do not call eval.ReportError and do not modify the sets",
			"'all errors returned together' is judged through eval.MultiError / eval.ValidationErrors (errors.As), each reported error exactly once and attributed to the expression that returned it",
		},
	}
}
