// Package debug is a stand-in for goa.design/clue/debug (see ../log).
package debug

import (
	"context"
	"net/http"

	goa "goa.design/goa/v3/pkg"
	"google.golang.org/grpc"
)

type (
	// Muxer is the HTTP mux interface used by the debug package.
	Muxer interface {
		http.Handler
		Handle(pattern string, handler http.Handler)
		HandleFunc(pattern string, handler func(http.ResponseWriter, *http.Request))
	}
	goaMuxer interface {
		http.Handler
		Handle(method, pattern string, handler http.HandlerFunc)
	}
	adapter struct{ goaMuxer }
	// LogPayloadsOption configures LogPayloads.
	LogPayloadsOption func(*struct{})
	// PprofOption configures MountPprofHandlers.
	PprofOption func(*struct{})
	// DebugLogEnablerOption configures MountDebugLogEnabler.
	DebugLogEnablerOption func(*struct{})
)

func (a adapter) Handle(pattern string, handler http.Handler) {
	a.goaMuxer.Handle("GET", pattern, handler.ServeHTTP)
}
func (a adapter) HandleFunc(pattern string, handler func(http.ResponseWriter, *http.Request)) {
	a.goaMuxer.Handle("GET", pattern, handler)
}

// Adapt adapts a goa muxer.
func Adapt(m goaMuxer) Muxer { return adapter{m} }

func MountPprofHandlers(mux Muxer, opts ...PprofOption)             {}
func MountDebugLogEnabler(mux Muxer, opts ...DebugLogEnablerOption) {}

func HTTP() func(http.Handler) http.Handler {
	return func(h http.Handler) http.Handler { return h }
}

func LogPayloads(opts ...LogPayloadsOption) func(goa.Endpoint) goa.Endpoint {
	return func(e goa.Endpoint) goa.Endpoint { return e }
}

func UnaryServerInterceptor() grpc.UnaryServerInterceptor {
	return func(ctx context.Context, req any, info *grpc.UnaryServerInfo, handler grpc.UnaryHandler) (any, error) {
		return handler(ctx, req)
	}
}

func StreamServerInterceptor() grpc.StreamServerInterceptor {
	return func(srv any, ss grpc.ServerStream, info *grpc.StreamServerInfo, handler grpc.StreamHandler) error {
		return handler(srv, ss)
	}
}
