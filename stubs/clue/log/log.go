// Package log is a stand-in for goa.design/clue/log (not available offline):
// it exposes, with clue's published signatures, exactly the symbols the code
// written by `goa example` uses. It is part of the verifier's trusted base.
package log

import (
	"context"
	"fmt"
	"net/http"
	"os"

	goa "goa.design/goa/v3/pkg"
	"google.golang.org/grpc"
)

type (
	// Entry is a log entry.
	Entry struct {
		KeyVals []KV
	}
	// FormatFunc formats an entry.
	FormatFunc func(e *Entry) []byte
	// LogOption configures the logger.
	LogOption func(*options)
	options   struct {
		format FormatFunc
		debug  bool
	}
	// KV is a key/value pair.
	KV struct {
		K string
		V any
	}
	// Fielder yields key/value pairs.
	Fielder interface{ LogFields() []KV }
	// HTTPLogOption configures the HTTP middleware.
	HTTPLogOption func(*struct{})
	// GRPCLogOption configures the gRPC interceptors.
	GRPCLogOption func(*struct{})
)

// LogFields implements Fielder.
func (kv KV) LogFields() []KV { return []KV{kv} }

func FormatJSON(e *Entry) []byte     { return nil }
func FormatTerminal(e *Entry) []byte { return nil }
func FormatText(e *Entry) []byte     { return nil }

func IsTerminal() bool { return false }

func WithFormat(f FormatFunc) LogOption { return func(o *options) { o.format = f } }
func WithDebug() LogOption              { return func(o *options) { o.debug = true } }

func Context(ctx context.Context, opts ...LogOption) context.Context { return ctx }

func Debugf(ctx context.Context, format string, v ...any) {}
func Printf(ctx context.Context, format string, v ...any) {}
func Print(ctx context.Context, keyvals ...Fielder)        {}
func Errorf(ctx context.Context, err error, format string, v ...any) {}
func Error(ctx context.Context, err error, keyvals ...Fielder)       {}
func Fatal(ctx context.Context, err error, keyvals ...Fielder) {
	fmt.Fprintln(os.Stderr, err)
	os.Exit(1)
}
func Fatalf(ctx context.Context, err error, format string, v ...any) {
	fmt.Fprintf(os.Stderr, format, v...)
	os.Exit(1)
}

func Endpoint(e goa.Endpoint) goa.Endpoint { return e }

func HTTP(logCtx context.Context, opts ...HTTPLogOption) func(http.Handler) http.Handler {
	return func(h http.Handler) http.Handler { return h }
}

func UnaryServerInterceptor(logCtx context.Context, opts ...GRPCLogOption) grpc.UnaryServerInterceptor {
	return func(ctx context.Context, req any, info *grpc.UnaryServerInfo, handler grpc.UnaryHandler) (any, error) {
		return handler(ctx, req)
	}
}

func StreamServerInterceptor(logCtx context.Context, opts ...GRPCLogOption) grpc.StreamServerInterceptor {
	return func(srv any, ss grpc.ServerStream, info *grpc.StreamServerInfo, handler grpc.StreamHandler) error {
		return handler(srv, ss)
	}
}
