module verif

go 1.23

toolchain go1.23.5

require (
	github.com/getkin/kin-openapi v0.128.0
	github.com/gorilla/websocket v1.5.3
	goa.design/goa/v3 v3.0.0
	google.golang.org/grpc v1.67.1
	google.golang.org/protobuf v1.35.1
	gopkg.in/yaml.v3 v3.0.1
	pgregory.net/rapid v1.3.0
)

require (
	github.com/davecgh/go-spew v1.1.1 // indirect
	github.com/dimfeld/httppath v0.0.0-20170720192232-ee938bf73598 // indirect
	github.com/go-chi/chi/v5 v5.1.0 // indirect
	github.com/go-openapi/jsonpointer v0.21.0 // indirect
	github.com/go-openapi/swag v0.23.0 // indirect
	github.com/google/uuid v1.6.0 // indirect
	github.com/invopop/yaml v0.3.1 // indirect
	github.com/josharian/intern v1.0.0 // indirect
	github.com/mailru/easyjson v0.7.7 // indirect
	github.com/manveru/faker v0.0.0-20171103152722-9fbc68a78c4d // indirect
	github.com/mohae/deepcopy v0.0.0-20170929034955-c48cc78d4826 // indirect
	github.com/perimeterx/marshmallow v1.1.5 // indirect
	github.com/pmezard/go-difflib v1.0.0 // indirect
	github.com/stretchr/testify v1.9.0 // indirect
	golang.org/x/mod v0.21.0 // indirect
	golang.org/x/net v0.30.0 // indirect
	golang.org/x/sync v0.8.0 // indirect
	golang.org/x/sys v0.26.0 // indirect
	golang.org/x/text v0.19.0 // indirect
	golang.org/x/tools v0.26.0 // indirect
	google.golang.org/genproto/googleapis/rpc v0.0.0-20240903143218-8af14fe29dc1 // indirect
)

replace goa.design/goa/v3 => /repo
