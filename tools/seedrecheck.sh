#!/bin/sh
# tools/seedrecheck.sh <name> [check-id]  re-runs the check against seeded/<name>/patch.diff and updates result.json
NAME="$1"; DST=/verif/seeded/$NAME
PROP=${2:-$(python3 -c "import json;print(json.load(open('$DST/meta.json'))['property'])")}
TIER=quick
/verif/tools/mutcheck.sh "$DST/patch.diff" "$PROP" quick > /var/tmp/seedcheck_$NAME.log 2>&1; RC=$?
if [ $RC = 0 ]; then TIER=thorough; /verif/tools/mutcheck.sh "$DST/patch.diff" "$PROP" thorough > /var/tmp/seedcheck_$NAME.log 2>&1; RC=$?; fi
if [ $RC != 0 ] && [ $RC != 1 ]; then echo "INCONCLUSIVE (exit $RC): result.json left as it was; see /var/tmp/seedcheck_$NAME.log"; exit 2; fi
python3 - "$DST" "$PROP" "$TIER" "$RC" "/var/tmp/seedcheck_$NAME.log" <<'PY'
import json,sys,os
dst,prop,tier,rc,log=sys.argv[1:6]
txt=open(log).read()
viol=[l for l in txt.splitlines() if l.startswith('VIOLATION')]
summ=[l for l in txt.splitlines() if l.startswith('property=')]
old={}
if os.path.exists(dst+'/result.json'): old=json.load(open(dst+'/result.json'))
res={"property":old.get('property',prop),"check":prop,"detected":rc=='1',"tier":tier,"exit":int(rc),"violations":len(viol),"first_violation":(viol[0] if viol else None),"summary":(summ[-1] if summ else None)}
if old and not old.get('detected') and res['detected']:
    res['initially_missed']=True
    res['missed_run']=old.get('summary')
if old.get('initially_missed'): res['initially_missed']=True; res['missed_run']=old.get('missed_run')
if old.get('note'): res['note']=old['note']
json.dump(res,open(dst+'/result.json','w'),indent=1)
print(open(dst+'/result.json').read())
PY
