#!/bin/sh
# Sensitivity experiment: run a check against a scratch copy of goa with a patch
# applied, without touching /repo or /verif.
#   tools/mutcheck.sh <patch.diff> <Cnn> [quick|thorough]
# Prints the check's output and "MUTCHECK exit=<code>" (1 = the mutation was detected).
PATCH="$(readlink -f "$1")"; ID="$2"; TIER="${3:-quick}"
SCR="$(mktemp -d /var/tmp/verif-mut-XXXXXX)"
cleanup() { git -C /repo worktree remove --force "$SCR/repo" >/dev/null 2>&1; rm -rf "$SCR"; git -C /repo worktree prune; }
trap cleanup EXIT INT TERM
git -C /repo worktree add -q --detach "$SCR/repo" HEAD || exit 3
if ! git -C "$SCR/repo" apply "$PATCH"; then echo "patch does not apply"; exit 3; fi
rsync -a --exclude .git --exclude bin --exclude replays --exclude evidence --exclude seeded /verif/ "$SCR/verif/"
sed -i "s#=> /repo#=> $SCR/repo#" "$SCR/verif/go.mod"
cd "$SCR/verif" && VERIF_REPO="$SCR/repo" ./vcheck run "$ID" --tier "$TIER"
rc=$?
echo "MUTCHECK exit=$rc"
exit $rc
