#!/bin/sh
# Confirms a seeded change in a scratch worktree of /repo:
#   tools/seedverify.sh <dir with patch.diff, meta.json, demo/>
# 1. patch applies and goa builds; 2. the pinned suite passes with it;
# 3. the demonstration passes on the unchanged tree and fails with the change.
# Prints SEEDVERIFY ok|FAILED <reason>.
export GOFLAGS=-mod=mod GOPROXY=off GOSUMDB=off GOTOOLCHAIN=local
DIR="$(readlink -f "$1")"
SCR="$(mktemp -d /var/tmp/verif-seedv-XXXXXX)"
cleanup() { git -C /repo worktree remove --force "$SCR/repo" >/dev/null 2>&1; rm -rf "$SCR"; git -C /repo worktree prune; }
trap cleanup EXIT INT TERM
git -C /repo worktree add -q --detach "$SCR/repo" HEAD || exit 3
DEMO="$(python3 -c "import json,sys;print(json.load(open('$DIR/meta.json'))['demo_cmd'])")"
# the demo command may refer to the directory the sub-agent wrote to
DEMO="$(echo "$DEMO" | sed "s#/var/tmp/seedout_[A-Za-z0-9_-]*#$DIR#g")"
cd "$SCR/repo"
sh -c "$DEMO" > "$SCR/unchanged.txt" 2>&1; U=$?
git status --short | grep -v '^??' | head -3
git checkout -q -- . ; git clean -fdq
if ! git apply "$DIR/patch.diff"; then echo "SEEDVERIFY FAILED patch does not apply"; exit 1; fi
if git diff --name-only | grep -q '_test.go$\|testdata/'; then echo "SEEDVERIFY FAILED patch touches tests"; exit 1; fi
if ! go build ./... ; then echo "SEEDVERIFY FAILED does not build"; exit 1; fi
if ! VERIF_REPO="$SCR/repo" sh /verif/tools/baseline.sh > "$SCR/base.txt" 2>&1; then tail -5 "$SCR/base.txt"; echo "SEEDVERIFY FAILED suite does not pass"; exit 1; fi
sh -c "$DEMO" > "$SCR/changed.txt" 2>&1; C=$?
echo "demo exit: unchanged=$U changed=$C"
cp "$SCR/unchanged.txt" "$DIR/demo/verified_unchanged.txt"; cp "$SCR/changed.txt" "$DIR/demo/verified_changed.txt"
# commands ending in a cleanup step hide the test's exit status: also read the output
bad() { grep -q '^FAIL\|^--- FAIL\|^panic:\|PROPERTY BROKEN\|VIOLAT' "$1"; }
if bad "$SCR/unchanged.txt"; then U=1; fi
if bad "$SCR/changed.txt"; then C=1; fi
echo "demo verdict: unchanged=$U changed=$C"
if [ "$U" = 0 ] && [ "$C" != 0 ]; then echo "SEEDVERIFY ok"; exit 0; fi
echo "--- unchanged:"; tail -5 "$SCR/unchanged.txt"; echo "--- changed:"; tail -8 "$SCR/changed.txt"
echo "SEEDVERIFY FAILED demo does not discriminate by exit status (inspect outputs)"; exit 1
