#!/bin/sh
# tools/seedkeep.sh <outdir> <name>   e.g. /var/tmp/seedout_C12 C12-1
# Verifies the seeded change (tools/seedverify.sh), copies it to /verif/seeded/<name>/,
# runs the property's check against it (quick, then thorough if quick misses) and
# records the result in seeded/<name>/result.json.
SRC="$1"; NAME="$2"; DST=/verif/seeded/$NAME
/verif/tools/seedverify.sh "$SRC" > /var/tmp/seedverify_$NAME.log 2>&1
if ! grep -q "SEEDVERIFY ok" /var/tmp/seedverify_$NAME.log; then tail -15 /var/tmp/seedverify_$NAME.log; echo "NOT KEPT"; exit 1; fi
mkdir -p "$DST" && cp -r "$SRC"/patch.diff "$SRC"/meta.json "$SRC"/demo "$DST"/
PROP=$(python3 -c "import json;print(json.load(open('$DST/meta.json'))['property'])")
TIER=quick
/verif/tools/mutcheck.sh "$DST/patch.diff" "$PROP" quick > /var/tmp/seedcheck_$NAME.log 2>&1; RC=$?
if [ $RC = 0 ]; then TIER=thorough; /verif/tools/mutcheck.sh "$DST/patch.diff" "$PROP" thorough > /var/tmp/seedcheck_$NAME.log 2>&1; RC=$?; fi
if [ $RC != 0 ] && [ $RC != 1 ]; then echo "INCONCLUSIVE (exit $RC): result.json left as it was; see /var/tmp/seedcheck_$NAME.log"; exit 2; fi
python3 - "$DST" "$PROP" "$TIER" "$RC" "/var/tmp/seedcheck_$NAME.log" <<'PY'
import json,sys,re
dst,prop,tier,rc,log=sys.argv[1:6]
txt=open(log).read()
viol=[l for l in txt.splitlines() if l.startswith('VIOLATION')]
summ=[l for l in txt.splitlines() if l.startswith('property=')]
json.dump({"property":prop,"check":prop,"detected":rc=='1',"tier":tier,"exit":int(rc),"violations":len(viol),"first_violation":(viol[0] if viol else None),"summary":(summ[-1] if summ else None)},open(dst+'/result.json','w'),indent=1)
print(open(dst+'/result.json').read())
PY
