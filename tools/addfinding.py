#!/usr/bin/env python3
# usage: addfinding.py <id> <open|fixed> <commit|-> <signature> <what> [fixed-log-detail]
import json,sys,os
fid,status,commit,sig,what=sys.argv[1:6]
prop=fid.split('-')[0]
p=f'/verif/known_findings.d/{prop.lower()}.json'
d=json.load(open(p)) if os.path.exists(p) else {"findings":[]}
d['findings']=[f for f in d['findings'] if f['id']!=fid]
e={"id":fid,"property":prop,"status":status,"signature":sig,"what":what}
if commit!='-': e['commit']=commit
d['findings'].append(e)
if status=='fixed':
    d.setdefault('fixed_log',[]).append(f"fixed: property={prop} {commit} "+(sys.argv[6] if len(sys.argv)>6 else what))
open(p,'w').write(json.dumps(d,indent=1)+"\n")
print("ok",fid)
