#!/usr/bin/env python3
"""Regenerates the seeded-changes table in DESIGN.md from seeded/*/meta.json + result.json."""
import json,glob,os,re
root=os.path.dirname(os.path.dirname(os.path.abspath(__file__)))
rows=[]
for d in sorted(glob.glob(root+'/seeded/*/')):
    name=os.path.basename(d.rstrip('/'))
    try:
        m=json.load(open(d+'meta.json')); r=json.load(open(d+'result.json'))
    except Exception as e:
        continue
    files=', '.join(m.get('files',[]))
    trig=re.sub(r'\s+',' ',m.get('trigger',''))[:150].replace('|','/')
    det=('**missed**' if not r.get('detected') else f"caught ({r.get('tier')})")
    if r.get('initially_missed'): det+=' after strengthening'
    if r.get('note'): det+=' — '+r['note']
    also=r.get('also_caught_by')
    if also: det+='; also '+', '.join(also)
    rows.append(f"| {name} | {m.get('property')} | `{files}` | {trig} | {det} |")
tbl="| seeded change | property | file(s) | needs | result of the property's check |\n|---|---|---|---|---|\n"+'\n'.join(rows)
p=root+'/DESIGN.md'
s=open(p).read()
s=re.sub(r'SEEDTABLE-BEGIN.*?SEEDTABLE-END','SEEDTABLE-BEGIN\n'+tbl+'\nSEEDTABLE-END',s,flags=re.S)
open(p,'w').write(s)
print(len(rows),'rows')
