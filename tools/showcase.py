#!/usr/bin/env python3
import json,sys
c=json.load(open(sys.argv[1]+'/case.json'))
def canon(v):
    if not isinstance(v,dict): return str(v)
    k=v.get('k')
    if k=='object': return '{'+','.join(f['n']+':'+canon(f['v']) for f in v.get('o',[]))+'}'
    if k=='array': return '['+','.join(canon(e) for e in v.get('a',[]))+']'
    if k=='map': return 'map'+str([canon(e) for e in v.get('a',[])])
    if k=='nil' or k is None: return 'nil'
    return repr(v.get('s',v.get('i',v.get('u',v.get('f',v.get('b',v.get('x','')))))))
for k,v in c.items():
    if k in('payload','result','value'): print(k,':',canon(v)[:500])
    elif k=='message': print('message :',str(v)[:900])
    else: print(k,':',json.dumps(v)[:300])
