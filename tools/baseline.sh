#!/bin/sh
# Runs the repository's pinned test suite (guard OFF: no build tags) and
# checks that every test listed as stable_pass in /root/.vp/BASELINE.json passes.
export GOFLAGS=-mod=mod GOPROXY=off GOSUMDB=off GOTOOLCHAIN=local
REPO="${VERIF_REPO:-/repo}"
OUT="$(mktemp /var/tmp/verif-baseline-XXXXXX.json)"
(cd "$REPO" && go test -mod=mod -json -vet=off -count=1 -timeout 25m ./... > "$OUT" 2>/dev/null)
python3 - "$OUT" <<'PY'
import json,sys
base=json.load(open('/root/.vp/BASELINE.json'))
want=set(base['stable_pass'])
res={}
for l in open(sys.argv[1]):
    try: e=json.loads(l)
    except Exception: continue
    if e.get('Action') in ('pass','fail','skip') and e.get('Test'):
        res[e['Package']+'::'+e['Test']]=e['Action']
bad=[t for t in sorted(want) if res.get(t)!='pass']
print(f"baseline: {len(want)} stable tests, {len(want)-len(bad)} pass, {len(bad)} not passing")
for t in bad[:40]: print("  NOT PASSING:",t,res.get(t))
sys.exit(1 if bad else 0)
PY
rc=$?
rm -f "$OUT"
exit $rc
