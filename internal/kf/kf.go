// Package kf reads the committed known-findings file. It is read-only: no
// check ever writes to that file at run time.
package kf

import (
	"encoding/json"
	"os"
	"path/filepath"
	"sync"
)

// Finding is one entry of known_findings.json.
type Finding struct {
	ID       string `json:"id"`
	Property string `json:"property"`
	Status   string `json:"status"` // "open" or "fixed"
	Commit   string `json:"commit,omitempty"`
	// Signature describes, in the vocabulary of the check's own model, the
	// class of inputs/histories that fail. The matcher itself is code in the
	// check, keyed by ID.
	Signature string `json:"signature"`
	What      string `json:"what"`
}

// FileT is the top-level document.
type FileT struct {
	Findings []Finding `json:"findings"`
	// Lines kept for human readers, of the form
	// "fixed: property=<id> <commit> <what failed>".
	Fixed []string `json:"fixed_log,omitempty"`
}

var (
	once   sync.Once
	loaded FileT
	byID   = map[string]Finding{}
)

// Path returns the location of known_findings.json.
func Path() string {
	if p := os.Getenv("VERIF_KF"); p != "" {
		return p
	}
	if root := os.Getenv("VERIF_ROOT"); root != "" {
		return filepath.Join(root, "known_findings.json")
	}
	return "/verif/known_findings.json"
}

func load() {
	once.Do(func() {
		if b, err := os.ReadFile(Path()); err == nil {
			_ = json.Unmarshal(b, &loaded)
		}
		// per-property files next to it: known_findings.d/*.json
		more, _ := filepath.Glob(filepath.Join(filepath.Dir(Path()), "known_findings.d", "*.json"))
		for _, m := range more {
			var f FileT
			if b, err := os.ReadFile(m); err == nil && json.Unmarshal(b, &f) == nil {
				loaded.Findings = append(loaded.Findings, f.Findings...)
				loaded.Fixed = append(loaded.Fixed, f.Fixed...)
			}
		}
		for _, f := range loaded.Findings {
			byID[f.ID] = f
		}
	})
}

// All returns every entry.
func All() []Finding { load(); return loaded.Findings }

// Get returns the entry with the given ID.
func Get(id string) (Finding, bool) { load(); f, ok := byID[id]; return f, ok }

// Open reports whether the finding is listed with status "open": only then
// may a check steer its main search away from the finding's input class.
func Open(id string) bool {
	load()
	f, ok := byID[id]
	return ok && f.Status == "open"
}
