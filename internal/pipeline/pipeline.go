// Package pipeline runs designs through the real goa generators of the tree
// under test, compiles what they write and builds the runtime harness.
package pipeline

import (
	"bytes"
	"context"
	"encoding/json"
	"fmt"
	"os"
	"os/exec"
	"path/filepath"
	"strings"
	"sync"
	"time"

	"verif/internal/dsltree"
	"verif/internal/model"
)

// Session owns one scratch Go module in which designs are generated and built.
type Session struct {
	protocOnce sync.Once
	protocErr  error
	// GenTimeout bounds one goaeval run (0 = 120s)
	GenTimeout time.Duration
	Root      string // scratch directory (the module root, module name "scratch")
	VerifRoot string
	Repo      string
	GoaEval   string
	mu        sync.Mutex
	seq       int
}

func verifRoot() string {
	if r := os.Getenv("VERIF_ROOT"); r != "" {
		return r
	}
	return "/verif"
}

func repoRoot() string {
	if r := os.Getenv("VERIF_REPO"); r != "" {
		return r
	}
	return "/repo"
}

// GoEnv returns the environment for go commands.
func GoEnv() []string {
	env := []string{}
	for _, e := range os.Environ() {
		if strings.HasPrefix(e, "GOFLAGS=") || strings.HasPrefix(e, "GOPROXY=") || strings.HasPrefix(e, "GOSUMDB=") || strings.HasPrefix(e, "GOTOOLCHAIN=") || strings.HasPrefix(e, "GO111MODULE=") {
			continue
		}
		env = append(env, e)
	}
	return append(env, "GOFLAGS=-mod=mod", "GOPROXY=off", "GOSUMDB=off", "GOTOOLCHAIN=local", "GO111MODULE=on")
}

func scratchBase() string {
	if s := os.Getenv("VERIF_SCRATCH"); s != "" {
		return s
	}
	return "/var/tmp"
}

// NewSession creates the scratch module and builds goaeval from the tree under test.
func NewSession(tag string) (*Session, error) {
	root, err := os.MkdirTemp(scratchBase(), "verif-ws-"+tag+"-")
	if err != nil {
		return nil, err
	}
	s := &Session{Root: root, VerifRoot: verifRoot(), Repo: repoRoot()}
	gomod := fmt.Sprintf(`module scratch

go 1.22.0

require (
	goa.design/clue v0.0.0
	goa.design/goa/v3 v3.0.0
	verif v0.0.0
)

replace goa.design/goa/v3 => %s

replace verif => %s

replace goa.design/clue => %s/stubs/clue
`, s.Repo, s.VerifRoot, s.VerifRoot)
	// Every module the generated code can need is required up front (the
	// requirements of the verifier's and of goa's go.mod): otherwise the first
	// builds add them (-mod=mod), and two builds running at once in this
	// module trip over each other ("updating go.mod: existing contents have changed").
	gomod += "\nrequire (\n"
	seenReq := map[string]bool{"goa.design/goa/v3": true, "goa.design/clue": true, "verif": true}
	for _, f := range []string{filepath.Join(s.VerifRoot, "go.mod"), filepath.Join(s.Repo, "go.mod")} {
		for _, r := range requirements(f) {
			if !seenReq[r[0]] {
				seenReq[r[0]] = true
				gomod += "\t" + r[0] + " " + r[1] + "\n"
			}
		}
	}
	gomod += ")\n"
	if err := os.WriteFile(filepath.Join(root, "go.mod"), []byte(gomod), 0o644); err != nil {
		return nil, err
	}
	var sum []byte
	for _, f := range []string{filepath.Join(s.Repo, "go.sum"), filepath.Join(s.VerifRoot, "go.sum")} {
		if b, err := os.ReadFile(f); err == nil {
			sum = append(sum, b...)
		}
	}
	_ = os.WriteFile(filepath.Join(root, "go.sum"), sum, 0o644)
	s.GoaEval = filepath.Join(root, "goaeval")
	cmd := exec.Command("go", "build", "-o", s.GoaEval, "./cmd/goaeval")
	cmd.Dir = s.VerifRoot
	cmd.Env = GoEnv()
	if out, err := cmd.CombinedOutput(); err != nil {
		os.RemoveAll(root)
		return nil, fmt.Errorf("building goaeval: %v\n%s", err, out)
	}
	return s, nil
}

// requirements lists the (module, version) pairs required by a go.mod file.
func requirements(path string) [][2]string {
	b, err := os.ReadFile(path)
	if err != nil {
		return nil
	}
	var out [][2]string
	in := false
	for _, line := range strings.Split(string(b), "\n") {
		t := strings.TrimSpace(line)
		if i := strings.Index(t, "//"); i >= 0 {
			t = strings.TrimSpace(t[:i])
		}
		switch {
		case t == "require (":
			in = true
			continue
		case t == ")":
			in = false
			continue
		case strings.HasPrefix(t, "require "):
			t = strings.TrimSpace(strings.TrimPrefix(t, "require "))
		case !in:
			continue
		}
		if f := strings.Fields(t); len(f) == 2 && strings.HasPrefix(f[1], "v") {
			out = append(out, [2]string{f[0], f[1]})
		}
	}
	return out
}

func hasGRPC(d *model.Design) bool {
	for _, svc := range d.Services {
		if svc.HasGRPC {
			return true
		}
	}
	return false
}

// ensureProtoc builds the protoc stand-in and protoc-gen-go into <root>/bin (once per session).
func (s *Session) ensureProtoc() error {
	s.protocOnce.Do(func() {
		bin := filepath.Join(s.Root, "bin")
		_ = os.MkdirAll(bin, 0o755)
		for out, pkg := range map[string]string{"protoc": "./cmd/protocshim", "protoc-gen-go": "google.golang.org/protobuf/cmd/protoc-gen-go"} {
			cmd := exec.Command("go", "build", "-o", filepath.Join(bin, out), pkg)
			cmd.Dir = s.VerifRoot
			cmd.Env = GoEnv()
			if o, err := cmd.CombinedOutput(); err != nil {
				s.protocErr = fmt.Errorf("building %s: %v\n%s", out, err, o)
				return
			}
		}
	})
	return s.protocErr
}

// Close removes the scratch module.
func (s *Session) Close() {
	if os.Getenv("VERIF_KEEP") != "" {
		fmt.Fprintln(os.Stderr, "keeping scratch", s.Root)
		return
	}
	os.RemoveAll(s.Root)
}

// Verdict is goaeval's output.
type Verdict struct {
	Stage    string   `json:"stage"`
	Accepted bool     `json:"accepted"`
	Errors   []string `json:"errors,omitempty"`
	Panic    string   `json:"panic,omitempty"`
	Stack    string   `json:"stack,omitempty"`
	GenError string   `json:"gen_error,omitempty"`
	Files    []string `json:"files,omitempty"`
	Calls    int      `json:"calls"`
	// set by the pipeline
	TimedOut bool   `json:"timed_out,omitempty"`
	Raw      string `json:"raw,omitempty"` // output when it was not a verdict (crash outside recover)
	ExitCode int    `json:"exit_code"`
}

// Run is one design placed in the scratch module.
type Run struct {
	Name   string // directory name, also the last element of the import path
	Dir    string
	Pkg    string // import path: scratch/<name>
	Design *model.Design
	Prog   *dsltree.Program
	// Cwd is the working directory of the generator process ("" = Dir, the
	// output directory). The output directory is always passed as an absolute path.
	Cwd string
}

// Place writes the design (model JSON, program JSON, printed DSL source) into a fresh directory.
func (s *Session) Place(d *model.Design, prog *dsltree.Program) (*Run, error) {
	s.mu.Lock()
	s.seq++
	name := fmt.Sprintf("d%d", s.seq)
	s.mu.Unlock()
	dir := filepath.Join(s.Root, name)
	if err := os.MkdirAll(filepath.Join(dir, "design"), 0o755); err != nil {
		return nil, err
	}
	if prog == nil && d != nil {
		prog = d.Lower()
	}
	r := &Run{Name: name, Dir: dir, Pkg: "scratch/" + name, Design: d, Prog: prog}
	pb, _ := json.Marshal(prog)
	if err := os.WriteFile(filepath.Join(dir, "program.json"), pb, 0o644); err != nil {
		return nil, err
	}
	if d != nil {
		db, _ := json.MarshalIndent(d, "", " ")
		_ = os.WriteFile(filepath.Join(dir, "design.json"), db, 0o644)
	}
	_ = os.WriteFile(filepath.Join(dir, "design", "design.go"), []byte(prog.Print("design")), 0o644)
	return r, nil
}

// Eval runs goaeval on the run's program: cmd is "eval", "gen" or "example".
func (s *Session) Eval(r *Run, cmd string, timeout time.Duration) *Verdict {
	ctx, cancel := context.WithTimeout(context.Background(), timeout)
	defer cancel()
	c := exec.CommandContext(ctx, s.GoaEval, "-design", filepath.Join(r.Dir, "program.json"), "-out", r.Dir, "-cmd", cmd)
	c.Dir = r.Dir
	if r.Cwd != "" {
		c.Dir = r.Cwd
	}
	path := os.Getenv("PATH")
	env := GoEnv()
	if cmd != "eval" && (r.Design == nil || hasGRPC(r.Design)) {
		// goa's gRPC generator runs protoc: the stand-in (cmd/protocshim) and the real protoc-gen-go
		if err := s.ensureProtoc(); err != nil {
			return &Verdict{Stage: cmd, Raw: "protoc stand-in: " + err.Error(), ExitCode: -1}
		}
		path = filepath.Join(s.Root, "bin") + ":" + path
		env = append(env, "VERIF_PROTOC_GEN_GO="+filepath.Join(s.Root, "bin", "protoc-gen-go"))
	}
	c.Env = append(env, "PATH="+path)
	var stdout, stderr bytes.Buffer
	c.Stdout, c.Stderr = &stdout, &stderr
	err := c.Run()
	v := &Verdict{}
	if ctx.Err() == context.DeadlineExceeded {
		v.TimedOut = true
		return v
	}
	if err != nil {
		if ee, ok := err.(*exec.ExitError); ok {
			v.ExitCode = ee.ExitCode()
		} else {
			v.ExitCode = -1
		}
	}
	// the verdict is the last line of stdout
	lines := strings.Split(strings.TrimSpace(stdout.String()), "\n")
	last := lines[len(lines)-1]
	if jerr := json.Unmarshal([]byte(last), v); jerr != nil || v.Stage == "" {
		v.Raw = tailStr(stdout.String()+"\n"+stderr.String(), 4000)
	}
	return v
}

func tailStr(s string, n int) string {
	if len(s) > n {
		return s[len(s)-n:]
	}
	return s
}

// Build compiles the packages below the run's directory with the Go compiler
// (-gcflags=-e: report all type errors). It returns the diagnostics.
func (s *Session) Build(r *Run, patterns ...string) (string, bool) {
	if len(patterns) == 0 {
		patterns = []string{"./..."}
	}
	args := append([]string{"build", "-gcflags=-e"}, patterns...)
	c := exec.Command("go", args...)
	c.Dir = r.Dir
	c.Env = GoEnv()
	out, err := c.CombinedOutput()
	return string(out), err == nil
}

// Vet type-checks including test-less packages quickly (go vet runs go/types); unused here but kept for experiments.
func (s *Session) Vet(r *Run) (string, bool) {
	c := exec.Command("go", "vet", "./...")
	c.Dir = r.Dir
	c.Env = GoEnv()
	out, err := c.CombinedOutput()
	return string(out), err == nil
}

// SaveReplay copies the design files of a run into dir.
func (r *Run) SaveReplay(dir string, extra map[string][]byte) error {
	if err := os.MkdirAll(dir, 0o755); err != nil {
		return err
	}
	for _, f := range []string{"program.json", "design.json", "design/design.go"} {
		if b, err := os.ReadFile(filepath.Join(r.Dir, f)); err == nil {
			_ = os.WriteFile(filepath.Join(dir, filepath.Base(f)), b, 0o644)
		}
	}
	for name, b := range extra {
		_ = os.WriteFile(filepath.Join(dir, name), b, 0o644)
	}
	return nil
}
