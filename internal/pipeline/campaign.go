package pipeline

import (
	"fmt"
	"regexp"
	"sort"
	"strings"
	"time"

	"verif/internal/model"
)

// Outcome is what happened to one design in the generate+compile pipeline.
type Outcome struct {
	Run      *Run
	Accepted bool
	Rejected []string // DSL/validation errors when not accepted
	// Failure: "" (ok), "eval-panic", "gen-error", "gen-panic", "example-error",
	// "example-panic", "timeout", "crash", "compile"
	Failure string
	Detail  string // diagnostics / panic text
	Sig     string // normalised signature of the failure (for clustering)
	Files   int
}

var (
	rePos    = regexp.MustCompile(`^[^\s:]+\.go:\d+:\d+: `)
	reNum    = regexp.MustCompile(`\d+`)
	reQuoted = regexp.MustCompile("`[^`]*`|\"(?:[^\"\\\\]|\\\\.)*\"")
	reStruct = regexp.MustCompile(`struct\{.*`)
	reIdent  = regexp.MustCompile(`\b[A-Za-z_][A-Za-z0-9_]*\b`)
)

var keepWords = map[string]bool{"declared": true, "and": true, "not": true, "used": true, "undefined": true, "cannot": true, "use": true, "as": true, "value": true, "in": true, "assignment": true, "argument": true, "to": true, "type": true, "variable": true, "of": true, "struct": true, "literal": true, "invalid": true, "operation": true, "mismatched": true, "types": true, "untyped": true, "nil": true, "no": true, "new": true, "variables": true, "on": true, "left": true, "side": true, "convert": true, "need": true, "assertion": true, "redeclared": true, "this": true, "block": true, "missing": true, "return": true, "imported": true, "indirect": true, "string": true, "int": true, "bool": true, "any": true, "float64": true, "float32": true, "byte": true, "duplicate": true, "field": true, "method": true, "has": true, "or": true, "is": true, "a": true, "package": true, "expected": true, "found": true, "unknown": true, "name": true, "too": true, "many": true, "few": true, "arguments": true, "call": true, "want": true, "have": true, "does": true, "implement": true, "pointer": true, "receiver": true, "other": true, "declaration": true, "unexported": true, "already": true, "declared.": true, "case": true, "switch": true, "func": true, "map": true, "key": true, "index": true, "out": true, "range": true, "panic": true, "runtime": true, "error": true, "slice": true, "bounds": true, "dereference": true, "memory": true, "address": true, "makeslice": true, "len": true, "interface": true, "conversion": true, "template": true, "executing": true, "syntax": true}

// genTimeout is the wall-clock budget of one generator run (Session.GenTimeout, default 120s).
func (s *Session) genTimeout() time.Duration {
	if s.GenTimeout > 0 {
		return s.GenTimeout
	}
	return 120 * time.Second
}

// Signature normalises a diagnostic/panic text so that failures with the same
// root cause usually collapse into one cluster.
func Signature(kind, detail string) string {
	var lines []string
	for _, l := range strings.Split(detail, "\n") {
		l = strings.TrimSpace(l)
		if l == "" || strings.HasPrefix(l, "#") || strings.HasPrefix(l, "too many errors") {
			continue
		}
		pkg := ""
		if i := strings.Index(l, ".go:"); i > 0 {
			p := l[:i]
			switch {
			case strings.Contains(p, "/server/"):
				pkg = "server/" + p[strings.LastIndex(p, "/")+1:]
			case strings.Contains(p, "/client/"):
				pkg = "client/" + p[strings.LastIndex(p, "/")+1:]
			case strings.Contains(p, "/views/"):
				pkg = "views"
			case strings.HasPrefix(p, "cmd/"):
				pkg = "cmd"
			case strings.HasPrefix(p, "gen/grpc") || strings.Contains(p, "/grpc/"):
				pkg = "grpc/" + p[strings.LastIndex(p, "/")+1:]
			case strings.HasPrefix(p, "gen/"):
				pkg = "service/" + p[strings.LastIndex(p, "/")+1:]
			default:
				pkg = "example"
			}
		}
		l = rePos.ReplaceAllString(l, "")
		l = reStruct.ReplaceAllString(l, "struct{…}")
		l = reQuoted.ReplaceAllString(l, "Q")
		l = reNum.ReplaceAllString(l, "N")
		l = reIdent.ReplaceAllStringFunc(l, func(w string) string {
			if keepWords[w] {
				return w
			}
			return "_"
		})
		if len(l) > 120 {
			l = l[:120]
		}
		lines = append(lines, pkg+": "+l)
		if len(lines) >= 2 {
			break
		}
	}
	return kind + " | " + strings.Join(lines, " | ")
}

// GenerateAndCompile runs one design through eval → gen → example → go build.
func (s *Session) GenerateAndCompile(d *model.Design, withExample bool) *Outcome {
	run, err := s.Place(d, nil)
	o := &Outcome{Run: run}
	if err != nil {
		o.Failure, o.Detail = "crash", err.Error()
		return o
	}
	fail := func(kind, detail string) *Outcome {
		o.Failure, o.Detail = kind, detail
		o.Sig = Signature(kind, detail)
		return o
	}
	v := s.Eval(run, "gen", s.genTimeout())
	switch {
	case v.TimedOut:
		return fail("timeout", fmt.Sprintf("goaeval gen did not finish in %v", s.genTimeout()))
	case v.Raw != "":
		return fail("crash", v.Raw)
	case v.Panic != "" && !v.Accepted:
		return fail("eval-panic", v.Panic+"\n"+panicSite(v.Stack))
	case !v.Accepted:
		o.Rejected = v.Errors
		return o
	}
	o.Accepted = true
	if v.Panic != "" {
		return fail("gen-panic", v.Panic+"\n"+panicSite(v.Stack))
	}
	if v.GenError != "" {
		return fail("gen-error", v.GenError)
	}
	o.Files = len(v.Files)
	if withExample {
		ve := s.Eval(run, "example", s.genTimeout())
		switch {
		case ve.TimedOut:
			return fail("timeout", fmt.Sprintf("goaeval example did not finish in %v", s.genTimeout()))
		case ve.Raw != "":
			return fail("crash", ve.Raw)
		case ve.Panic != "":
			return fail("example-panic", ve.Panic+"\n"+panicSite(ve.Stack))
		case !ve.Accepted:
			return fail("example-error", "accepted by gen, rejected by example: "+strings.Join(ve.Errors, "; "))
		case ve.GenError != "":
			return fail("example-error", ve.GenError)
		}
		o.Files += len(ve.Files)
	}
	out, ok := s.Build(run, "./...")
	if !ok {
		return fail("compile", out)
	}
	return o
}

// panicSite extracts the first goa frames of a panic stack.
func panicSite(stack string) string {
	var out []string
	lines := strings.Split(stack, "\n")
	for i, l := range lines {
		if strings.Contains(l, "goa.design/goa/v3") && !strings.Contains(l, "goaeval") && i+1 < len(lines) {
			fn := l
			if j := strings.LastIndex(fn, "("); j > 0 {
				fn = fn[:j]
			}
			out = append(out, strings.TrimSpace(fn))
			if len(out) >= 3 {
				break
			}
		}
	}
	return strings.Join(out, " <- ")
}

// Cluster groups failing outcomes by signature, largest first.
func Cluster(outs []*Outcome) [][]*Outcome {
	by := map[string][]*Outcome{}
	for _, o := range outs {
		if o.Failure != "" {
			by[o.Sig] = append(by[o.Sig], o)
		}
	}
	var keys []string
	for k := range by {
		keys = append(keys, k)
	}
	sort.Slice(keys, func(i, j int) bool {
		if len(by[keys[i]]) != len(by[keys[j]]) {
			return len(by[keys[i]]) > len(by[keys[j]])
		}
		return keys[i] < keys[j]
	})
	var out [][]*Outcome
	for _, k := range keys {
		out = append(out, by[k])
	}
	return out
}

// Describe is a short text for logs.
func (o *Outcome) Describe() string {
	if o.Failure == "" {
		if !o.Accepted {
			return "rejected: " + strings.Join(o.Rejected, "; ")
		}
		return fmt.Sprintf("ok (%d files)", o.Files)
	}
	d := o.Detail
	if len(d) > 1500 {
		d = d[:1500] + "…"
	}
	return o.Failure + ": " + d
}
