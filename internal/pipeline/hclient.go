package pipeline

import (
	"bufio"
	"encoding/json"
	"fmt"
	"io"
	"os"
	"os/exec"
	"strconv"
	"strings"
	"sync"
	"syscall"
	"time"

	"verif/harness"
)

// Harness is a running harness process of one design.
type Harness struct {
	cmd    *exec.Cmd
	in     io.WriteCloser
	out    *bufio.Reader
	mu     sync.Mutex
	stderr *lockedBuf
	dead   bool
}

// lockedBuf collects the process's stderr; exec copies into it from its own goroutine.
type lockedBuf struct {
	mu sync.Mutex
	b  strings.Builder
}

func (l *lockedBuf) Write(p []byte) (int, error) {
	l.mu.Lock()
	defer l.mu.Unlock()
	return l.b.Write(p)
}

func (l *lockedBuf) String() string {
	l.mu.Lock()
	defer l.mu.Unlock()
	return l.b.String()
}

// StartHarness launches the harness binary and waits for it to be ready.
func StartHarness(bin string, env ...string) (*Harness, error) {
	cmd := exec.Command(bin)
	cmd.Env = append(GoEnv(), env...)
	in, err := cmd.StdinPipe()
	if err != nil {
		return nil, err
	}
	outp, err := cmd.StdoutPipe()
	if err != nil {
		return nil, err
	}
	h := &Harness{cmd: cmd, in: in, out: bufio.NewReaderSize(outp, 1<<20), stderr: &lockedBuf{}}
	cmd.Stderr = h.stderr
	if err := cmd.Start(); err != nil {
		return nil, err
	}
	line, err := h.readLine(30 * time.Second)
	if err != nil || !strings.Contains(line, "ready") {
		h.Close()
		return nil, fmt.Errorf("harness did not start: %v %s\n%s", err, line, h.stderr.String())
	}
	return h, nil
}

func (h *Harness) readLine(timeout time.Duration) (string, error) {
	type res struct {
		s   string
		err error
	}
	ch := make(chan res, 1)
	go func() {
		s, err := h.out.ReadString('\n')
		ch <- res{s, err}
	}()
	select {
	case r := <-ch:
		return r.s, r.err
	case <-time.After(timeout):
		h.dead = true
		// ask the Go runtime of the harness for its goroutine stacks (they
		// go to stderr, which the caller reports), then kill it
		_ = h.cmd.Process.Signal(syscall.SIGQUIT)
		time.Sleep(500 * time.Millisecond)
		if dir := os.Getenv("VERIF_HANG_DUMP"); dir != "" {
			_ = os.WriteFile(fmt.Sprintf("%s/harness-hang-%d.log", dir, h.cmd.Process.Pid), []byte(h.stderr.String()), 0o644)
		}
		_ = h.cmd.Process.Kill()
		return "", fmt.Errorf("harness timeout after %s", timeout)
	}
}

// caseTimeout is the time one case may take (VERIF_HARNESS_TIMEOUT seconds, default 60).
func caseTimeout() time.Duration {
	if v, err := strconv.Atoi(os.Getenv("VERIF_HARNESS_TIMEOUT")); err == nil && v > 0 {
		return time.Duration(v) * time.Second
	}
	return 60 * time.Second
}

// Do sends one case and returns the observation.
func (h *Harness) Do(c *harness.Case) (*harness.Obs, error) {
	h.mu.Lock()
	defer h.mu.Unlock()
	if h.dead {
		return nil, fmt.Errorf("harness process is gone: %s", tailStr(h.stderr.String(), 2000))
	}
	b, err := json.Marshal(c)
	if err != nil {
		return nil, err
	}
	if _, err := h.in.Write(append(b, '\n')); err != nil {
		h.dead = true
		return nil, fmt.Errorf("harness write: %v\n%s", err, tailStr(h.stderr.String(), 2000))
	}
	line, err := h.readLine(caseTimeout())
	if err != nil {
		h.dead = true
		return nil, fmt.Errorf("harness read: %v\n%s", err, tailStr(h.stderr.String(), 12000))
	}
	var o harness.Obs
	if err := json.Unmarshal([]byte(line), &o); err != nil {
		return nil, fmt.Errorf("bad observation %q: %v", line, err)
	}
	return &o, nil
}

// Stderr returns what the harness process wrote to stderr so far.
func (h *Harness) Stderr() string { return h.stderr.String() }

// Close stops the process.
func (h *Harness) Close() {
	if h.cmd == nil || h.cmd.Process == nil {
		return
	}
	_, _ = h.in.Write([]byte(`{"op":"quit"}` + "\n"))
	_ = h.in.Close()
	done := make(chan struct{})
	go func() { _ = h.cmd.Wait(); close(done) }()
	select {
	case <-done:
	case <-time.After(3 * time.Second):
		_ = h.cmd.Process.Kill()
		<-done
	}
}
